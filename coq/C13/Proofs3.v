(* C13 proofs, part 3: the guarded-history theorem, frozen objects reject assignment,
   composition facts, and an executable (sound) version of the guard. *)
From Coq Require Import ZArith List String Bool Arith Lia.
From PAFC13 Require Import Model Proofs1 Proofs2.
Import ListNotations.
Open Scope list_scope.
Local Opaque FUEL.

(* the current composition and nothing else: no flags, no caches, clean recursion cache *)
Definition fresh (st : state) : state := mkState (map thaw_obj (heap st)) [] (ptab st).

Lemma thaw_fresh : forall st, inflight st = [] -> thaw st = fresh st.
Proof. intros [h i pt] H. simpl in H. subst. reflexivity. Qed.

Lemma fresh_of_thaw : forall a b, thaw a = thaw b -> fresh a = fresh b.
Proof. intros a b H. unfold thaw in H. injection H as H1 H2 H3. unfold fresh. now rewrite H1, H3. Qed.

Lemma inflight_of_thaw : forall a b, thaw a = thaw b -> inflight a = inflight b.
Proof. intros a b H. unfold thaw in H. now injection H. Qed.

(* ------------------------------------------------------------------ guard *)
(* what a history must avoid for the full statement to hold of the pinned code *)
Definition guard (cfg : config) (st : state) (x : op) : Prop :=
  match x with
  | OFailWalk _ => cleanup cfg = true
  | ONew _ _ _ | OSet _ _ _ | OSetItem _ _ _ | OAppend _ _ | ODel _ _ | OCopy _ | ORestore _ _ => quiet st (fst (step cfg x st))
  | OQuery _ _ | OFreeze _ | OUnfreeze _ | ODerive _ => True
  end.

Fixpoint guarded (cfg : config) (ops : list op) (st : state) : Prop :=
  match ops with
  | [] => True
  | x :: r => guard cfg st x /\ guarded cfg r (fst (step cfg x st))
  end.

Lemma fst_unit_ans : forall c st, fst (unit_ans c st) = fst (c st).
Proof. intros. unfold unit_ans, bind. destruct (c st) as [st1 [a|e]]; reflexivity. Qed.

Lemma Pres_unit_ans : forall c, Pres c -> Pres (unit_ans c).
Proof. intros c H. unfold unit_ans. apply Pres_bind; auto. intros; apply Pres_ret. Qed.

Lemma Pres_gets : forall {A} (f : state -> A), Pres (gets f).
Proof. intros A f st H. simpl. auto. Qed.

(* prior passing only thaws: flags and caches change, the composition does not *)
Lemma Pres_derive : forall cfg n idf a o, Pres (derive cfg n idf a o).
Proof.
  intros cfg. induction n as [|n IH]; intros idf a o; simpl; [apply Pres_raise|].
  assert (Hneed : forall p, Pres (if memb (idf p) a then ret tt else raise EKeyError)).
  { intros p. destruct (memb (idf p) a); [apply Pres_ret|apply Pres_raise]. }
  apply Pres_bind; [apply Pres_gets|]. intros [[[cls| |] attrs]|]; [| |apply Pres_ret|apply Pres_raise].
  - apply Pres_bind. { destruct (dthaws cfg); [apply Pres_unfreeze|apply Pres_ret]. } intros _.
    apply Pres_bind; [apply Coh_Pres, Coh_call_direct|]. intros pc.
    apply Pres_bind; [apply Coh_Pres, Coh_as_list|]. intros pl.
    apply Pres_bind. { apply Pres_mapM. intros it. apply Hneed. } intros _.
    apply Pres_bind; [apply Coh_Pres, Coh_call_direct|]. intros tc.
    apply Pres_bind; [apply Coh_Pres, Coh_as_list|]. intros tl.
    apply Pres_bind.
    { apply Pres_mapM. intros it. apply Pres_bind; [apply Pres_gets|]. intros [[kk tattrs]|]; [|apply Pres_ret].
      apply Pres_bind; [|intros; apply Pres_ret].
      apply Pres_mapM. intros [mk mv]. simpl. destruct mv; try apply Pres_ret. apply Hneed. }
    intros _.
    apply Pres_bind; [apply Coh_Pres, Coh_call_direct|]. intros fc.
    apply Pres_bind; [apply Coh_Pres, Coh_as_list|]. intros _.
    apply Pres_bind; [apply Coh_Pres, Coh_call_direct|]. intros mc.
    apply Pres_bind; [apply Coh_Pres, Coh_as_list|]. intros ml.
    apply Pres_bind; [|intros; apply Pres_ret]. apply Pres_mapM. intros it. apply IH.
  - apply Pres_bind; [|intros; apply Pres_ret].
    apply Pres_mapM. intros [k v]. simpl. destruct v as [p|c|c]; [apply Hneed|apply Pres_ret|].
    apply Pres_bind; [apply Pres_gets|]. intros [|]; [apply IH|apply Pres_ret].
Qed.

Lemma Pres_op_derive : forall cfg o, Pres (op_derive cfg o).
Proof.
  intros. unfold op_derive. apply Pres_bind; [apply Coh_Pres, Coh_call_attr|]. intros c.
  apply Pres_bind; [apply Coh_Pres, Coh_as_list|]. intros l.
  apply Pres_bind; [apply Pres_gets|]. intros idf. apply Pres_derive.
Qed.

(* the proposed modification counter, modelled eagerly: no cache entry survives *)
Lemma get_clear_all : forall st o, get (clear_all st) o = option_map (fun ob => with_cache ob []) (get st o).
Proof. intros. unfold get, clear_all. simpl. apply nth_error_map. Qed.

Lemma Inv_clear_all : forall st, Inv (clear_all st).
Proof.
  intros st. split.
  - intros o ob k v G F L. rewrite get_clear_all in G. destruct (get st o); simpl in G; [|discriminate].
    injection G as <-. simpl in L. discriminate.
  - intros o ob G F. rewrite get_clear_all in G. destruct (get st o); simpl in G; [|discriminate].
    injection G as <-. reflexivity.
Qed.

Lemma bump_ok : forall cfg st b c, Inv st -> Frm c -> quiet st (fst (bump cfg b c st)) ->
  Inv (fst (bump cfg b c st)) /\ inflight (fst (bump cfg b c st)) = inflight st.
Proof.
  intros cfg st b c HI Hc Q. unfold bump in *. pose proof (Hc st) as F. destruct (c st) as [st1 [u|e]]; simpl in *.
  - destruct (epochs cfg && b); simpl in *.
    + split; [apply Inv_clear_all|]. destruct F as (Hi & _). exact Hi.
    + split; [now apply (inv_frame st)|]. destruct F as (Hi & _). exact Hi.
  - split; [now apply (inv_frame st)|]. destruct F as (Hi & _). exact Hi.
Qed.

(* ... so that with it NO guard on modifications is needed *)
Lemma bump_ok_counted : forall cfg st c, epochs cfg = true -> Inv st -> Frm c ->
  (forall e, snd (c st) = Exn e -> fst (c st) = st) ->
  Inv (fst (bump cfg true c st)) /\ inflight (fst (bump cfg true c st)) = inflight st.
Proof.
  intros cfg st c He HI Hc Hx. unfold bump. pose proof (Hc st) as F. destruct (c st) as [st1 [u|e]] eqn:E; simpl in *.
  - rewrite He. simpl. split; [apply Inv_clear_all|]. destruct F as (Hi & _). exact Hi.
  - rewrite (Hx e eq_refl). auto.
Qed.

Lemma step_ok : forall cfg x st, Inv st -> guard cfg st x ->
  Inv (fst (step cfg x st)) /\ inflight (fst (step cfg x st)) = inflight st.
Proof.
  intros cfg x st HI G.
  assert (Hfr : forall c, Frm c -> quiet st (fst (unit_ans c st)) ->
                Inv (fst (unit_ans c st)) /\ inflight (fst (unit_ans c st)) = inflight st).
  { intros c Hc Q. rewrite fst_unit_ans in *. split.
    - apply (inv_frame st); auto.
    - destruct (Hc st) as (Hi & _). exact Hi. }
  assert (Hpr : forall c, Pres c -> Inv (fst (unit_ans c st)) /\ inflight (fst (unit_ans c st)) = inflight st).
  { intros c Hc. destruct (Pres_unit_ans c Hc st HI) as (I & T). split; auto. now apply inflight_of_thaw. }
  assert (Hbp : forall b c, Frm c -> quiet st (fst (unit_ans (bump cfg b c) st)) ->
                Inv (fst (unit_ans (bump cfg b c) st)) /\ inflight (fst (unit_ans (bump cfg b c) st)) = inflight st).
  { intros b c Hc Q. rewrite fst_unit_ans in *. now apply bump_ok. }
  destruct x; cbn [step guard] in *.
  - apply Hbp; auto. apply Frm_op_new.
  - destruct (Coh_run_query cfg o q st HI) as (I & S & _). split; auto.
    apply inflight_of_thaw. now apply skel_thaw.
  - apply Hpr. apply Pres_freeze.
  - apply Hpr. apply Pres_unfreeze.
  - rewrite fst_unit_ans in *. apply bump_ok; auto. apply Frm_op_set.
  - apply Hbp; auto. apply Frm_op_setitem.
  - apply Hpr. apply Pres_op_derive.
  - apply Hbp; auto. apply Frm_op_append.
  - rewrite fst_unit_ans in *. apply bump_ok; auto. apply Frm_op_del.
  - apply Hbp; auto. apply Frm_op_copy.
  - apply Hbp; auto. apply Frm_op_restore.
  - rewrite fst_unit_ans. unfold op_failwalk. rewrite G. simpl. auto.
Qed.

Lemma Inv_init : forall cfg, Inv (init cfg).
Proof.
  intros cfg. split.
  - intros o ob k v G. unfold get, init in G. simpl in G. destruct o; discriminate.
  - intros o ob G. unfold get, init in G. simpl in G. destruct o; discriminate.
Qed.

Lemma run_cons : forall cfg x r st,
  run cfg (x :: r) st = (fst (run cfg r (fst (step cfg x st))), snd (step cfg x st) :: snd (run cfg r (fst (step cfg x st)))).
Proof.
  intros. simpl. destruct (step cfg x st) as [st1 a]. simpl. destruct (run cfg r st1) as [st2 rest]. reflexivity.
Qed.

Lemma run_app : forall cfg pre post st,
  run cfg (pre ++ post) st =
  (fst (run cfg post (fst (run cfg pre st))), snd (run cfg pre st) ++ snd (run cfg post (fst (run cfg pre st)))).
Proof.
  intros cfg pre. induction pre as [|x pre IH]; intros post st.
  - simpl. destruct (run cfg post st); reflexivity.
  - rewrite <- app_comm_cons. rewrite !run_cons. rewrite IH. simpl. reflexivity.
Qed.

Lemma guarded_ok : forall cfg ops st, Inv st -> inflight st = [] -> guarded cfg ops st ->
  Inv (fst (run cfg ops st)) /\ inflight (fst (run cfg ops st)) = [].
Proof.
  intros cfg ops. induction ops as [|x r IH]; intros st HI Hi G.
  - simpl. auto.
  - destruct G as [G1 G2]. rewrite run_cons. simpl.
    destruct (step_ok cfg x st HI G1) as (I1 & F1). apply IH; auto. congruence.
Qed.

Lemma guarded_app : forall cfg pre post st, guarded cfg (pre ++ post) st -> guarded cfg pre st.
Proof.
  intros cfg pre. induction pre as [|x pre IH]; intros post st G; simpl in *; auto.
  destruct G as [G1 G2]. split; auto. now apply (IH post).
Qed.

(* a query on an invariant state: cached or not, it answers what the composition alone determines *)
Theorem query_coherent : forall cfg st o q, Inv st -> inflight st = [] ->
  snd (run_query cfg o q st) = snd (run_query cfg o q (fresh st)) /\
  fresh (fst (run_query cfg o q st)) = fresh st.
Proof.
  intros cfg st o q HI Hi. destruct (Coh_run_query cfg o q st HI) as (I & S & T).
  rewrite (thaw_fresh st Hi) in T. rewrite T. simpl. split; auto.
  apply fresh_of_thaw. now apply skel_thaw.
Qed.

(* headline: in every guarded history every query answers the uncached query on the current composition *)
Theorem coherent_histories : forall cfg pre o q, guarded cfg pre (init cfg) ->
  snd (run cfg (pre ++ [OQuery o q]) (init cfg)) =
  snd (run cfg pre (init cfg)) ++ [snd (run_query cfg o q (fresh (fst (run cfg pre (init cfg)))))].
Proof.
  intros cfg pre o q G. rewrite run_app. simpl.
  destruct (guarded_ok cfg pre (init cfg) (Inv_init cfg) eq_refl G) as (I & Hi).
  destruct (query_coherent cfg (fst (run cfg pre (init cfg))) o q I Hi) as (E & _).
  destruct (run_query cfg o q (fst (run cfg pre (init cfg)))) as [st1 a]. simpl in *. now rewrite E.
Qed.

(* two guarded histories that end in the same composition answer every query alike *)
Theorem history_independent : forall cfg pre1 pre2 o q,
  guarded cfg pre1 (init cfg) -> guarded cfg pre2 (init cfg) ->
  fresh (fst (run cfg pre1 (init cfg))) = fresh (fst (run cfg pre2 (init cfg))) ->
  snd (run_query cfg o q (fst (run cfg pre1 (init cfg)))) = snd (run_query cfg o q (fst (run cfg pre2 (init cfg)))).
Proof.
  intros cfg pre1 pre2 o q G1 G2 E.
  destruct (guarded_ok cfg pre1 (init cfg) (Inv_init cfg) eq_refl G1) as (I1 & H1).
  destruct (guarded_ok cfg pre2 (init cfg) (Inv_init cfg) eq_refl G2) as (I2 & H2).
  destruct (query_coherent cfg _ o q I1 H1) as (E1 & _). destruct (query_coherent cfg _ o q I2 H2) as (E2 & _).
  rewrite E1, E2, E. reflexivity.
Qed.

(* queries, freeze and unfreeze never change the composition *)
Theorem freeze_keeps_composition : forall cfg st o, Inv st ->
  fresh (fst (step cfg (OFreeze o) st)) = fresh st /\ fresh (fst (step cfg (OUnfreeze o) st)) = fresh st.
Proof.
  intros cfg st o HI. split; apply fresh_of_thaw; cbn [step].
  - apply (Pres_unit_ans _ (Pres_freeze cfg FUEL o) st HI).
  - apply (Pres_unit_ans _ (Pres_unfreeze cfg FUEL o) st HI).
Qed.

(* other objects do not matter: the cached functions of o read only what is reachable from o *)
Theorem other_objects_irrelevant : forall st st' o k, inflight st' = inflight st -> agree st st' o ->
  pure_key st' o k = pure_key st o k.
Proof. exact pure_key_local. Qed.

(* ------------------------------------------------------------------ lifting an operation through step *)
Definition maybe_clear (cfg : config) (b : bool) (s : state) : state := if epochs cfg && b then clear_all s else s.

Lemma comp_at_clear_all : forall s t, comp_at (clear_all s) t = comp_at s t.
Proof. intros. unfold comp_at. rewrite get_clear_all. destruct (get s t); reflexivity. Qed.
Lemma comp_at_maybe_clear : forall cfg b s t, comp_at (maybe_clear cfg b s) t = comp_at s t.
Proof. intros. unfold maybe_clear. destruct (epochs cfg && b); auto. apply comp_at_clear_all. Qed.
Lemma ptab_maybe_clear : forall cfg b s, ptab (maybe_clear cfg b s) = ptab s.
Proof. intros. unfold maybe_clear. destruct (epochs cfg && b); reflexivity. Qed.
Lemma inflight_maybe_clear : forall cfg b s, inflight (maybe_clear cfg b s) = inflight s.
Proof. intros. unfold maybe_clear. destruct (epochs cfg && b); reflexivity. Qed.

Lemma lift_ok : forall cfg (f : state -> bool) c st s1, c st = (s1, Ok tt) ->
  unit_ans (fun s => bump cfg (f s) c s) st = (maybe_clear cfg (f st) s1, Ok AUnit).
Proof. intros cfg f c st s1 E. unfold unit_ans, bind, bump, maybe_clear, ret. rewrite E. reflexivity. Qed.
Lemma lift_exn : forall cfg (f : state -> bool) c st s1 e, c st = (s1, Exn e) ->
  unit_ans (fun s => bump cfg (f s) c s) st = (s1, Exn e).
Proof. intros cfg f c st s1 e E. unfold unit_ans, bind, bump. rewrite E. reflexivity. Qed.

(* ------------------------------------------------------------------ frozen objects reject assignment *)
Theorem frozen_rejects_setattr : forall cfg st o ob name v,
  get st o = Some ob -> okind ob <> KTuple -> ofrozen ob = true ->
  step cfg (OSet o name v) st = (st, Exn EAssertion).
Proof.
  intros cfg st o ob name v G K F. cbn [step]. apply lift_exn. unfold op_set, bind, gets. rewrite G.
  destruct (okind ob); try congruence; rewrite F; reflexivity.
Qed.

Theorem frozen_rejects_append : forall cfg st o ob v,
  get st o = Some ob -> okind ob = KColl -> ofrozen ob = true ->
  step cfg (OAppend o v) st = (st, Exn EAssertion).
Proof.
  intros cfg st o ob v G K F. cbn [step]. apply (lift_exn cfg (fun _ => true)). unfold op_append, bind, gets. rewrite G, K, F. reflexivity.
Qed.

(* an accepted assignment is the dict assignment on that object and nothing else *)
Theorem setattr_effect : forall cfg st o ob name v,
  get st o = Some ob -> okind ob = KColl -> ofrozen ob = false ->
  let st' := fst (step cfg (OSet o name v) st) in
  comp_at st' o = Some (KColl, set_attr name v (oattrs ob), onitems ob) /\
  (forall t, t <> o -> comp_at st' t = comp_at st t) /\
  ptab st' = ptab st /\ inflight st' = inflight st /\
  snd (step cfg (OSet o name v) st) = Ok AUnit.
Proof.
  intros cfg st o ob name v G K F. cbn [step].
  rewrite (lift_ok cfg _ _ st (put st o (with_attrs ob (set_attr name v (oattrs ob))))).
  2:{ unfold op_set, bind, gets, modify. rewrite G, K, F. rewrite G. reflexivity. }
  simpl. rewrite ptab_maybe_clear, inflight_maybe_clear. split; [|split; [|split; [|split]]]; auto.
  - rewrite comp_at_maybe_clear. unfold comp_at. rewrite (get_put_eq _ _ _ _ G). simpl. now rewrite K.
  - intros t Ht. rewrite comp_at_maybe_clear. unfold comp_at. rewrite get_put_neq by auto. reflexivity.
Qed.

(* ------------------------------------------------------------------ executable guard *)
Definition value_eqb (a b : value) : bool :=
  match a, b with
  | VPrior p, VPrior q => Nat.eqb p q
  | VConst c, VConst d => Z.eqb c d
  | VRef o, VRef p => Nat.eqb o p
  | _, _ => false
  end.
Definition kind_eqb (a b : kind) : bool :=
  match a, b with
  | KModel c, KModel d => Nat.eqb c d
  | KColl, KColl | KTuple, KTuple => true
  | _, _ => false
  end.
Definition attr_eqb (a b : string * value) : bool := String.eqb (fst a) (fst b) && value_eqb (snd a) (snd b).
Definition comp_eqb (a b : option (kind * list (string * value) * nat)) : bool :=
  match a, b with
  | None, None => true
  | Some (k, l, n), Some (k', l', n') => kind_eqb k k' && list_eqb attr_eqb l l' && Nat.eqb n n'
  | _, _ => false
  end.

Lemma value_eqb_eq : forall a b, value_eqb a b = true -> a = b.
Proof.
  destruct a, b; simpl; intros H; try discriminate.
  - apply Nat.eqb_eq in H. congruence.
  - apply Z.eqb_eq in H. congruence.
  - apply Nat.eqb_eq in H. congruence.
Qed.
Lemma kind_eqb_eq : forall a b, kind_eqb a b = true -> a = b.
Proof. destruct a, b; simpl; intros H; try discriminate; auto. apply Nat.eqb_eq in H. congruence. Qed.
Lemma list_eqb_eq : forall {A} (eqb : A -> A -> bool), (forall a b, eqb a b = true -> a = b) ->
  forall l m, list_eqb eqb l m = true -> l = m.
Proof.
  intros A eqb H. induction l as [|x l IH]; intros [|y m] E; simpl in E; try discriminate; auto.
  apply andb_true_iff in E as [E1 E2]. f_equal; auto.
Qed.
Lemma attr_eqb_eq : forall a b, attr_eqb a b = true -> a = b.
Proof.
  intros [k v] [k' v'] H. unfold attr_eqb in H. simpl in H. apply andb_true_iff in H as [H1 H2].
  apply String.eqb_eq in H1. apply value_eqb_eq in H2. congruence.
Qed.
Lemma comp_eqb_eq : forall a b, comp_eqb a b = true -> a = b.
Proof.
  intros [[[k l] n]|] [[[k' l'] n']|] H; simpl in H; try discriminate; auto.
  apply andb_true_iff in H as [H H3]. apply andb_true_iff in H as [H1 H2].
  apply kind_eqb_eq in H1. apply (list_eqb_eq attr_eqb attr_eqb_eq) in H2. apply Nat.eqb_eq in H3. congruence.
Qed.

Definition children (st : state) (o : nat) : list nat :=
  match get st o with
  | Some ob => flat_map (fun kv : string * value => match snd kv with VRef c => [c] | _ => [] end) (oattrs ob)
  | None => []
  end.
Fixpoint add_new (xs acc : list nat) : list nat :=
  match xs with [] => acc | x :: r => if memb x acc then add_new r acc else add_new r (acc ++ [x]) end.
Fixpoint closure (st : state) (n : nat) (S : list nat) : list nat :=
  match n with 0 => S | S n' => closure st n' (add_new (flat_map (children st) S) S) end.
(* S contains the children of each of its members *)
Definition closedb (st : state) (S : list nat) : bool :=
  forallb (fun o => forallb (fun c => memb c S) (children st o)) S.

Lemma memb_In : forall x l, memb x l = true -> In x l.
Proof.
  induction l as [|y l IH]; simpl; intros H; [discriminate|].
  apply orb_true_iff in H as [H|H]; [left; apply Nat.eqb_eq in H; congruence|right; auto].
Qed.
Lemma In_memb : forall x l, In x l -> memb x l = true.
Proof.
  induction l as [|y l IH]; simpl; intros H; [contradiction|].
  destruct H as [->|H]; [now rewrite Nat.eqb_refl|]. rewrite (IH H). apply orb_true_r.
Qed.

Lemma Reach_closed : forall st S, closedb st S = true -> forall o t, Reach st o t -> In o S -> In t S.
Proof.
  intros st S C o t R. induction R as [o|o ob k c t G I R IH]; intros Ho; auto.
  apply IH. unfold closedb in C. rewrite forallb_forall in C. specialize (C o Ho).
  rewrite forallb_forall in C. apply memb_In. apply C. unfold children. rewrite G.
  apply in_flat_map. exists (k, VRef c). split; auto. now left.
Qed.

Definition ids_same (st st' : state) (t : nat) : bool :=
  match get st t with
  | Some ob => forallb (fun kv : string * value =>
                 match snd kv with VPrior p => Nat.eqb (pid_of st' p) (pid_of st p) | _ => true end) (oattrs ob)
  | None => true
  end.
Definition quiet_obj (st st' : state) (o : nat) : bool :=
  let S := closure st (List.length (heap st)) [o] in
  memb o S && closedb st S && forallb (fun t => comp_eqb (comp_at st' t) (comp_at st t) && ids_same st st' t) S.

Definition frozen_ids (st : state) : list nat :=
  filter (fun o => match get st o with Some ob => ofrozen ob | None => false end) (seq 0 (List.length (heap st))).

Definition quietb (st st' : state) : bool := forallb (quiet_obj st st') (frozen_ids st).

Lemma quietb_sound : forall st st', quietb st st' = true -> quiet st st'.
Proof.
  intros st st' H o ob G F. unfold quietb in H. rewrite forallb_forall in H.
  assert (Hin : In o (frozen_ids st)).
  { unfold frozen_ids. apply filter_In. split.
    - apply in_seq. split; [lia|]. simpl. apply nth_error_Some. unfold get in G. congruence.
    - now rewrite G. }
  specialize (H o Hin). unfold quiet_obj in H.
  apply andb_true_iff in H as [H H3]. apply andb_true_iff in H as [H1 H2].
  rewrite forallb_forall in H3. split.
  - intros t R. apply comp_eqb_eq.
    assert (Ht : In t (closure st (List.length (heap st)) [o])) by (apply (Reach_closed st _ H2 o t R); now apply memb_In).
    specialize (H3 t Ht). now apply andb_true_iff in H3 as [H3 _].
  - intros p (t & tb & k & R & Gt & It).
    assert (Ht : In t (closure st (List.length (heap st)) [o])) by (apply (Reach_closed st _ H2 o t R); now apply memb_In).
    specialize (H3 t Ht). apply andb_true_iff in H3 as [_ H3]. unfold ids_same in H3. rewrite Gt in H3.
    rewrite forallb_forall in H3. specialize (H3 _ It). simpl in H3. now apply Nat.eqb_eq in H3.
Qed.

Definition guardb (cfg : config) (st : state) (x : op) : bool :=
  match x with
  | OFailWalk _ => cleanup cfg
  | ONew _ _ _ | OSet _ _ _ | OSetItem _ _ _ | OAppend _ _ | ODel _ _ | OCopy _ | ORestore _ _ => quietb st (fst (step cfg x st))
  | OQuery _ _ | OFreeze _ | OUnfreeze _ | ODerive _ => true
  end.

Fixpoint guardedb (cfg : config) (ops : list op) (st : state) : bool :=
  match ops with
  | [] => true
  | x :: r => guardb cfg st x && guardedb cfg r (fst (step cfg x st))
  end.

Theorem guardedb_sound : forall cfg ops st, guardedb cfg ops st = true -> guarded cfg ops st.
Proof.
  intros cfg ops. induction ops as [|x r IH]; intros st H; simpl in *; auto.
  apply andb_true_iff in H as [H1 H2]. split; auto.
  destruct x; cbn [guardb guard] in *; auto; now apply quietb_sound.
Qed.

(* for the correspondence run: does a generated history satisfy the hypothesis of the theorem,
   and if so, does the model indeed answer every query like the fresh composition? *)
Fixpoint pure_outcomes (cfg : config) (ops : list op) (st : state) : bool :=
  match ops with
  | [] => true
  | x :: r =>
      (match x with
       | OQuery o q => outcome_eqb (snd (step cfg x st)) (snd (run_query cfg o q (fresh st)))
       | _ => true
       end) && pure_outcomes cfg r (fst (step cfg x st))
  end.

(* a TuplePrior owned by exactly one Model / Collection carries the frozen flag of that owner (b49160e + 916e580):
   decided on the final state of every generated history *)
Definition owners_of (st : state) (u : nat) : list nat :=
  filter (fun o => match get st o with
                   | Some ob => is_pm_kind (okind ob) &&
                                existsb (fun kv : string * value => match snd kv with VRef x => Nat.eqb x u | _ => false end) (oattrs ob)
                   | None => false end) (seq 0 (List.length (heap st))).
Definition tuple_flags_ok (st : state) : bool :=
  forallb (fun u => match get st u with
                    | Some ub => match okind ub, owners_of st u with
                                 | KTuple, [o] => match get st o with Some ob => Bool.eqb (ofrozen ub) (ofrozen ob) | None => true end
                                 | _, _ => true
                                 end
                    | None => true end) (seq 0 (List.length (heap st))).

Definition check_guard (c : case) : bool :=
  match c with
  | Case cl pr ops outs fz =>
      let cfg := mkConfig cl pr wrapper_cleanup derive_thaws setitem_transfers delattr_guarded tuples_frozen
                          cache_counts_modifications tuple_flag_restored in
      (* with every proposed repair switched on no guard is needed (Proofs4.coherent_when_repaired) *)
      ((cleanup cfg && gdel cfg && gtuple cfg && epochs cfg) || guardedb cfg ops (init cfg)) && pure_outcomes cfg ops (init cfg)
      && (negb (gtuple cfg && trestore cfg) || tuple_flags_ok (fst (run cfg ops (init cfg))))
  end.

(* deepcopy leaves every existing object as it was: composition, id -- and flag and cache, except that
   caches may have been dropped (modification counter) *)
Theorem copy_keeps_originals : forall cfg st o t ob, get st t = Some ob ->
  exists ob', get (fst (step cfg (OCopy o) st)) t = Some ob' /\
              okind ob' = okind ob /\ oattrs ob' = oattrs ob /\ onitems ob' = onitems ob /\ kept ob ob'.
Proof.
  intros cfg st o t ob G. cbn [step]. rewrite fst_unit_ans. unfold bump.
  assert (P : forall h, hframe (heap st) h -> (forall x a b, nth_error (heap st) x = Some a -> nth_error h x = Some b ->
                 okind b = okind a /\ oattrs b = oattrs a /\ onitems b = onitems a) -> True) by auto.
  pose proof (Frm_op_copy cfg o st) as (Hi & E & N).
  assert (C : forall x, comp_at (fst (op_copy cfg o st)) x = comp_at st x \/ get st x = None).
  { intros x. destruct (get st x) eqn:Gx; [left|now right]. unfold op_copy.
    pose proof (copy_val_comp cfg false FUEL (VRef o) (copy_start st)) as Hc.
    destruct (copy_val cfg false FUEL (VRef o) (copy_start st)) as [cs v]. simpl in *. unfold comp_at, get in *. simpl.
    apply Hc. unfold copy_start. simpl. apply nth_error_Some. congruence. }
  destruct (E t ob G) as (ob1 & G1 & K1).
  destruct (C t) as [Ct|Ct]; [|congruence]. unfold comp_at in Ct. rewrite G1, G in Ct. injection Ct as C1 C2 C3.
  destruct (op_copy cfg o st) as [st1 [u|e]] eqn:Eo; simpl in *.
  - destruct (epochs cfg && true); simpl.
    + exists (with_cache ob1 []). rewrite get_clear_all, G1. simpl. repeat split; auto. now right.
    + exists ob1. repeat split; auto.
  - exists ob1. repeat split; auto.
Qed.

(* the full statement of the property for a configuration: EVERY history *)
Definition coherent_everywhere (cfg : config) : Prop :=
  forall pre o q,
    snd (run cfg (pre ++ [OQuery o q]) (init cfg)) =
    snd (run cfg pre (init cfg)) ++ [snd (run_query cfg o q (fresh (fst (run cfg pre (init cfg)))))].

(* with the repaired wrapper a failing call is harmless *)
Theorem repaired_allows_failing_calls : forall cl pr d i gd gt ep tr st o, guard (mkConfig cl pr true d i gd gt ep tr) st (OFailWalk o).
Proof. intros. reflexivity. Qed.
