(* C13 proofs, part 1: thawed states, pure cached functions, the invariant, and the
   compositional "coherent computation" lemmas (frozen_cache returns the uncached value). *)
From Coq Require Import ZArith List String Bool Arith Lia.
From PAFC13 Require Import Model.
Import ListNotations.
Open Scope list_scope.
Local Opaque FUEL.

(* ------------------------------------------------------------------ generic list facts *)
Lemma nth_error_update_eq : forall {A} (l : list A) i x, i < List.length l -> nth_error (update l i x) i = Some x.
Proof.
  induction l as [|y l IH]; intros i x H; simpl in *; [lia|].
  destruct i; simpl; [reflexivity|]. apply IH. lia.
Qed.

Lemma nth_error_update_neq : forall {A} (l : list A) i j x, i <> j -> nth_error (update l i x) j = nth_error l j.
Proof.
  induction l as [|y l IH]; intros i j x H; simpl; [reflexivity|].
  destruct i; destruct j; simpl; try reflexivity; try congruence.
  apply IH. congruence.
Qed.

Lemma update_length : forall {A} (l : list A) i x, List.length (update l i x) = List.length l.
Proof. induction l; intros [|i] x; simpl; auto. Qed.

Lemma map_update : forall {A B} (f : A -> B) l i x, map f (update l i x) = update (map f l) i (f x).
Proof. induction l; intros [|i] x; simpl; auto. now rewrite IHl. Qed.

Lemma update_same : forall {A} (l : list A) i x, nth_error l i = Some x -> update l i x = l.
Proof.
  induction l as [|y l IH]; intros [|i] x H; simpl in *; try discriminate; auto.
  - now inversion H.
  - f_equal. now apply IH.
Qed.

(* ------------------------------------------------------------------ equality deciders *)
Lemma sel_eqb_eq : forall a b, sel_eqb a b = true -> a = b.
Proof. destruct a, b; simpl; congruence. Qed.
Lemma dsel_eqb_eq : forall a b, dsel_eqb a b = true -> a = b.
Proof. destruct a, b; simpl; congruence. Qed.
Lemma optnat_eqb_eq : forall a b, optnat_eqb a b = true -> a = b.
Proof. destruct a, b; simpl; intros H; try discriminate; auto. apply Nat.eqb_eq in H. congruence. Qed.
Lemma ckey_eqb_eq : forall a b, ckey_eqb a b = true -> a = b.
Proof.
  destruct a, b; simpl; intros H; try discriminate; auto.
  - apply andb_true_iff in H as [H1 H2]. apply sel_eqb_eq in H1. apply Nat.eqb_eq in H2. congruence.
  - apply andb_true_iff in H as [H1 H2]. apply sel_eqb_eq in H1. apply Nat.eqb_eq in H2. congruence.
  - apply dsel_eqb_eq in H. congruence.
  - apply andb_true_iff in H as [H1 H2]. apply optnat_eqb_eq in H1. apply Bool.eqb_prop in H2. congruence.
  - apply andb_true_iff in H as [H1 H2]. apply optnat_eqb_eq in H1. apply Bool.eqb_prop in H2. congruence.
Qed.

(* ------------------------------------------------------------------ thaw / skeleton *)
Definition thaw_obj (ob : obj) : obj := mkObj (okind ob) (oattrs ob) (onitems ob) (oidn ob) false [].
Definition thaw (st : state) : state := mkState (map thaw_obj (heap st)) (inflight st) (ptab st).

(* everything except caches *)
Definition skel_obj (ob : obj) := (okind ob, oattrs ob, onitems ob, oidn ob, ofrozen ob).
Definition skel (st : state) := (map skel_obj (heap st), inflight st, ptab st).

Lemma get_thaw : forall st o, get (thaw st) o = option_map thaw_obj (get st o).
Proof. intros. unfold get, thaw. simpl. apply nth_error_map. Qed.

Lemma thaw_thaw : forall st, thaw (thaw st) = thaw st.
Proof.
  intros [h i pt]. unfold thaw. simpl. f_equal. rewrite map_map. apply map_ext. intros []. reflexivity.
Qed.

Lemma skel_thaw : forall st1 st2, skel st1 = skel st2 -> thaw st1 = thaw st2.
Proof.
  intros [h1 i1 p1] [h2 i2 p2]. unfold skel, thaw. simpl. intros H. injection H as H1 H2 H3. subst i2 p2. f_equal.
  revert h2 H1. induction h1 as [|a h1 IH]; intros [|b h2] H; simpl in *; try discriminate; auto.
  injection H as E1 E2 E3 E4 E5 Hr. f_equal; auto. unfold thaw_obj. now rewrite E1, E2, E3, E4.
Qed.

Lemma skel_get : forall st1 st2 o ob1, skel st1 = skel st2 -> get st1 o = Some ob1 ->
  exists ob2, get st2 o = Some ob2 /\ skel_obj ob2 = skel_obj ob1.
Proof.
  intros st1 st2 o ob1 H G. unfold skel in H. injection H as H1 H2 H3.
  unfold get in *. assert (E : nth_error (map skel_obj (heap st1)) o = Some (skel_obj ob1)) by (now apply map_nth_error).
  rewrite H1 in E. rewrite nth_error_map in E. destruct (nth_error (heap st2) o) as [ob2|]; simpl in E; [|discriminate].
  exists ob2. split; auto. injection E as E1 E2 E3 E4 E5. unfold skel_obj. congruence.
Qed.

Lemma view_thaw : forall st o, view (thaw st) o = view st o.
Proof. intros. unfold view. rewrite get_thaw. destruct (get st o); reflexivity. Qed.

(* ------------------------------------------------------------------ reads are cache-blind *)
Lemma walk_list_ext : forall f g l, (forall kv, In kv l -> f (snd kv) = g (snd kv)) -> walk_list f l = walk_list g l.
Proof.
  induction l as [|[k v] l IH]; intros H; simpl; auto.
  pose proof (H (k, v) (or_introl eq_refl)) as E. simpl in E. rewrite E. destruct (g v); auto. f_equal. apply IH. intros kv Hin. apply H. now right.
Qed.

Lemma walk_val_thaw : forall st n s vis v, walk_val (thaw st) n s vis v = walk_val st n s vis v.
Proof.
  intros st n. induction n as [|n IH]; intros s vis v; destruct v as [p|c|o]; simpl; auto.
  destruct (memb o (inflight st) || memb o vis); auto. rewrite get_thaw. destruct (get st o) as [ob|]; simpl; auto.
  destruct (sel_obj s (okind ob)); auto. f_equal. f_equal. apply walk_list_ext. intros kv _. apply IH.
Qed.

Lemma walk_top_thaw : forall st s o, walk_top (thaw st) s o = walk_top st s o.
Proof. intros. unfold walk_top. now rewrite walk_val_thaw. Qed.

Local Opaque walk_val.

Lemma direct_match_thaw : forall st d v, direct_match (thaw st) d v = direct_match st d v.
Proof.
  intros st d v. destruct d, v; simpl; auto; rewrite get_thaw; destruct (get st oid); reflexivity.
Qed.

Lemma direct_items_thaw : forall st d l, direct_items (thaw st) d l = direct_items st d l.
Proof.
  induction l as [|[k v] l IH]; simpl; auto. rewrite direct_match_thaw, IH. reflexivity.
Qed.

Lemma resolve_thaw : forall p st o, resolve (thaw st) o p = resolve st o p.
Proof.
  induction p as [|x p IH]; intros st o; simpl; auto.
  rewrite get_thaw. destruct (get st o) as [ob|]; simpl; auto.
  destruct (sassoc x (oattrs ob)) as [[| |c]|]; auto.
Qed.

(* ------------------------------------------------------------------ pure cached functions *)
Definition rbind {A B} (r : res A) (f : A -> res B) : res B :=
  match r with Ok a => f a | Exn e => Exn e end.
Definition r_list (c : cval) : res (list item) :=
  match c with CList l => Ok l | CPromise => Exn ETypeError end.
Definition has_obj (st : state) (o : nat) : bool := match get st o with Some _ => true | None => false end.

Definition p_pit (st : state) (o : nat) (s : sel) : res cval :=
  if has_obj st o then Ok (walk_top st s o) else Exn EAttribute.
Definition p_attr (st : state) (o : nat) (s : sel) : res cval :=
  if has_obj st o then
    rbind (p_pit st o s) (fun c => rbind (r_list c) (fun l =>
      Ok (CList (map (fun it : item => (last_name (fst it), snd it)) l))))
  else Exn EAttribute.
Definition p_unique (st : state) (o : nat) : res cval :=
  if has_obj st o then
    rbind (p_attr st o SPrior) (fun c => rbind (r_list c) (fun l => Ok (CList (dedup_last (pid_of st) l))))
  else Exn EAttribute.
Definition p_ordered (st : state) (o : nat) : res cval :=
  if has_obj st o then
    rbind (p_unique st o) (fun c => rbind (r_list c) (fun l => Ok (CList (sort_by (item_id_le (pid_of st)) l))))
  else Exn EAttribute.
Definition p_direct (st : state) (o : nat) (d : dsel) : res cval :=
  match get st o with
  | Some ob => Ok (CList (direct_items st d (oattrs ob)))
  | None => Exn EAttribute
  end.

Definition p_count (st : state) (c : nat) : res nat :=
  rbind (p_unique st c) (fun cv => rbind (r_list cv) (fun l => Ok (List.length l))).
Fixpoint mapR {A B} (f : A -> res B) (l : list A) : res (list B) :=
  match l with
  | [] => Ok []
  | x :: r => rbind (f x) (fun y => rbind (mapR f r) (fun ys => Ok (y :: ys)))
  end.
Definition mtt_item (st : state) (cls : option nat) (izd : bool) (it : item) : res (list item) :=
  if cls_match cls (kind_of st (item_oid it)) then
    if izd then Ok [it]
    else rbind (p_count st (item_oid it)) (fun n => Ok (if Nat.ltb 0 n then [it] else []))
  else Ok [].
Definition p_mtt (st : state) (o : nat) (cls : option nat) (izd : bool) : res cval :=
  if has_obj st o then
    rbind (p_attr st o SModelRec) (fun c => rbind (r_list c) (fun l =>
      rbind (mapR (mtt_item st cls izd) l) (fun ls => Ok (CList (List.concat ls)))))
  else Exn EAttribute.
Definition p_mwt (st : state) (o : nat) (cls : option nat) (izd : bool) : res cval :=
  if has_obj st o then
    rbind (p_mtt st o cls izd) (fun c => rbind (r_list c) (fun l =>
      Ok (CList (map (fun it : item => ([], snd it)) l))))
  else Exn EAttribute.

(* the uncached value of a cache key on the current composition *)
Definition pure_key (st : state) (o : nat) (k : ckey) : res cval :=
  match k with
  | KPit s _ => p_pit st o s
  | KAttr s _ => p_attr st o s
  | KUnique => p_unique st o
  | KOrdered => p_ordered st o
  | KDirect d => p_direct st o d
  | KMtt c z => p_mtt st o c z
  | KMwt c z => p_mwt st o c z
  end.

Lemma mapR_ext : forall {A B} (f g : A -> res B) l, (forall x, In x l -> f x = g x) -> mapR f l = mapR g l.
Proof.
  induction l as [|x l IH]; intros H; simpl; auto.
  rewrite (H x) by (now left). rewrite IH; auto. intros y Hy. apply H. now right.
Qed.

Lemma kind_of_thaw : forall st c, kind_of (thaw st) c = kind_of st c.
Proof. intros. unfold kind_of. now rewrite view_thaw. Qed.

Lemma has_obj_thaw : forall st o, has_obj (thaw st) o = has_obj st o.
Proof. intros. unfold has_obj. rewrite get_thaw. destruct (get st o); reflexivity. Qed.

Lemma p_pit_thaw : forall st o s, p_pit (thaw st) o s = p_pit st o s.
Proof. intros. unfold p_pit. now rewrite has_obj_thaw, walk_top_thaw. Qed.
Lemma p_attr_thaw : forall st o s, p_attr (thaw st) o s = p_attr st o s.
Proof. intros. unfold p_attr. now rewrite has_obj_thaw, p_pit_thaw. Qed.
Lemma pid_of_thaw : forall st, pid_of (thaw st) = pid_of st.
Proof. reflexivity. Qed.
Lemma plim_of_thaw : forall st, plim_of (thaw st) = plim_of st.
Proof. reflexivity. Qed.
Lemma p_unique_thaw : forall st o, p_unique (thaw st) o = p_unique st o.
Proof. intros. unfold p_unique. now rewrite has_obj_thaw, p_attr_thaw, pid_of_thaw. Qed.
Lemma p_count_thaw : forall st o, p_count (thaw st) o = p_count st o.
Proof. intros. unfold p_count. now rewrite p_unique_thaw. Qed.
Lemma p_mtt_thaw : forall st o c z, p_mtt (thaw st) o c z = p_mtt st o c z.
Proof.
  intros. unfold p_mtt. rewrite has_obj_thaw, p_attr_thaw.
  destruct (has_obj st o); [|reflexivity].
  generalize (p_attr st o SModelRec). intros pa.
  destruct pa as [cv|e].
  2:{ cbn [rbind]. reflexivity. }
  destruct cv as [l|].
  2:{ cbn [rbind r_list]. reflexivity. }
  cbn [rbind r_list].
  rewrite (mapR_ext (mtt_item (thaw st) c z) (mtt_item st c z)); [reflexivity|].
  intros it _. unfold mtt_item. now rewrite kind_of_thaw, p_count_thaw.
Qed.

Lemma pure_key_thaw : forall st o k, pure_key (thaw st) o k = pure_key st o k.
Proof.
  intros st o k.
  destruct k; cbn [pure_key]; [apply p_pit_thaw|apply p_attr_thaw|apply p_unique_thaw| | |apply p_mtt_thaw|].
  - unfold p_ordered. now rewrite has_obj_thaw, p_unique_thaw, pid_of_thaw.
  - unfold p_direct. rewrite get_thaw. destruct (get st o); simpl; auto. now rewrite direct_items_thaw.
  - unfold p_mwt. now rewrite has_obj_thaw, p_mtt_thaw.
Qed.

(* on a thawed state a cached call is its body *)
Lemma cached_thaw : forall st o k body,
  cached o k body (thaw st) = if has_obj st o then body (thaw st) else (thaw st, Exn EAttribute).
Proof.
  intros. unfold cached, has_obj. rewrite get_thaw. destruct (get st o); reflexivity.
Qed.

Lemma call_pit_thaw : forall st o s f, call_pit o s f (thaw st) = (thaw st, p_pit st o s).
Proof.
  intros. unfold call_pit. rewrite cached_thaw. unfold p_pit. destruct (has_obj st o); [|reflexivity].
  unfold body_pit, gets. now rewrite walk_top_thaw.
Qed.
Lemma call_attr_thaw : forall st o s f, call_attr o s f (thaw st) = (thaw st, p_attr st o s).
Proof.
  intros. unfold call_attr. rewrite cached_thaw. unfold p_attr. destruct (has_obj st o); [|reflexivity].
  unfold body_attr, bind. rewrite call_pit_thaw. destruct (p_pit st o s) as [[l|]|e]; reflexivity.
Qed.
Lemma call_unique_thaw : forall st o, call_unique o (thaw st) = (thaw st, p_unique st o).
Proof.
  intros. unfold call_unique. rewrite cached_thaw. unfold p_unique. destruct (has_obj st o); [|reflexivity].
  unfold body_unique, bind, gets. rewrite call_attr_thaw. destruct (p_attr st o SPrior) as [[l|]|e]; reflexivity.
Qed.
Lemma q_count_thaw : forall st o, q_count o (thaw st) = (thaw st, p_count st o).
Proof.
  intros. unfold q_count, bind, p_count. rewrite call_unique_thaw. destruct (p_unique st o) as [[l|]|e]; reflexivity.
Qed.

Lemma mapM_pure : forall {A B} (f : A -> M B) (g : A -> res B) tau l,
  (forall x, f x tau = (tau, g x)) -> mapM f l tau = (tau, mapR g l).
Proof.
  intros A B f g tau l H. induction l as [|x l IH]; simpl; auto.
  unfold bind. rewrite H. destruct (g x) as [y|e]; simpl; auto.
  fold (@mapM A B f l). rewrite IH. destruct (mapR g l); reflexivity.
Qed.

Lemma call_mtt_thaw : forall st o c z, call_mtt o c z (thaw st) = (thaw st, p_mtt st o c z).
Proof.
  intros. unfold call_mtt. rewrite cached_thaw. unfold p_mtt. destruct (has_obj st o); [|reflexivity].
  unfold body_mtt. unfold bind at 1. rewrite call_attr_thaw.
  destruct (p_attr st o SModelRec) as [[l|]|e]; try reflexivity.
  cbn [as_list rbind r_list]. unfold bind at 1. cbn [ret]. unfold bind at 1.
  rewrite (mapM_pure _ (mtt_item st c z)).
  - destruct (mapR (mtt_item st c z) l); reflexivity.
  - intros it. unfold bind at 1, gets. rewrite kind_of_thaw. unfold mtt_item.
    destruct (cls_match c (kind_of st (item_oid it))); [|reflexivity].
    destruct z; [reflexivity|]. unfold bind. rewrite q_count_thaw. destruct (p_count st (item_oid it)); reflexivity.
Qed.

Lemma call_key_thaw : forall st o k, call_key o k (thaw st) = (thaw st, pure_key st o k).
Proof.
  intros st o k.
  destruct k; cbn [pure_key call_key]; [apply call_pit_thaw|apply call_attr_thaw|apply call_unique_thaw| | |apply call_mtt_thaw|].
  - unfold call_ordered. rewrite cached_thaw. unfold p_ordered. destruct (has_obj st o); [|reflexivity].
    unfold body_ordered, bind, gets. rewrite call_unique_thaw. destruct (p_unique st o) as [[l|]|e]; reflexivity.
  - unfold call_direct. rewrite cached_thaw. unfold p_direct, has_obj.
    destruct (get st o) eqn:G; [|reflexivity]. unfold body_direct, gets. rewrite get_thaw, G. cbn [option_map].
    now rewrite direct_items_thaw.
  - unfold call_mwt. rewrite cached_thaw. unfold p_mwt. destruct (has_obj st o); [|reflexivity].
    unfold body_mwt, bind. rewrite call_mtt_thaw. destruct (p_mtt st o cls izd) as [[l|]|e]; reflexivity.
Qed.

(* ------------------------------------------------------------------ invariant *)
Definition valid (st : state) : Prop :=
  forall o ob k v, get st o = Some ob -> ofrozen ob = true -> lookup k (ocache ob) = Some v ->
                   pure_key st o k = Ok v.
Definition unfrozen_empty (st : state) : Prop :=
  forall o ob, get st o = Some ob -> ofrozen ob = false -> ocache ob = [].
Definition Inv (st : state) : Prop := valid st /\ unfrozen_empty st.

Lemma pure_key_skel : forall st1 st2 o k, skel st1 = skel st2 -> pure_key st1 o k = pure_key st2 o k.
Proof.
  intros. rewrite <- (pure_key_thaw st1), <- (pure_key_thaw st2). now rewrite (skel_thaw _ _ H).
Qed.

(* ------------------------------------------------------------------ coherent computations *)
Definition Coh {A} (c : M A) : Prop :=
  forall st, Inv st ->
    Inv (fst (c st)) /\ skel (fst (c st)) = skel st /\ c (thaw st) = (thaw st, snd (c st)).

Lemma Coh_ret : forall {A} (a : A), Coh (ret a).
Proof. intros A a st H. simpl. auto. Qed.

Lemma Coh_raise : forall {A} e, Coh (@raise A e).
Proof. intros A e st H. simpl. auto. Qed.

Lemma Coh_gets : forall {A} (f : state -> A), (forall st, f (thaw st) = f st) -> Coh (gets f).
Proof. intros A f Hf st H. unfold gets. simpl. rewrite Hf. auto. Qed.

Lemma Coh_bind : forall {A B} (c : M A) (f : A -> M B), Coh c -> (forall a, Coh (f a)) -> Coh (bind c f).
Proof.
  intros A B c f Hc Hf st HI. unfold bind.
  destruct (Hc st HI) as (I1 & S1 & T1). destruct (c st) as [st1 r] eqn:E. simpl in *.
  rewrite T1. destruct r as [a|e]; simpl; auto.
  destruct (Hf a st1 I1) as (I2 & S2 & T2). rewrite (skel_thaw _ _ S1) in T2.
  split; [exact I2|]. split; [congruence|exact T2].
Qed.

Lemma Coh_mapM : forall {A B} (f : A -> M B) l, (forall a, In a l -> Coh (f a)) -> Coh (mapM f l).
Proof.
  induction l as [|x l IH]; intros H; simpl.
  - apply Coh_ret.
  - apply Coh_bind; [apply H; now left|]. intros y. apply Coh_bind.
    + apply IH. intros a Ha. apply H. now right.
    + intros ys. apply Coh_ret.
Qed.

Lemma Coh_as_list : forall c, Coh (as_list c).
Proof. intros [l|]; [apply Coh_ret|apply Coh_raise]. Qed.

Lemma get_put_eq : forall st o ob ob0, get st o = Some ob0 -> get (put st o ob) o = Some ob.
Proof.
  intros. unfold get, put in *. simpl. apply nth_error_update_eq. apply nth_error_Some. congruence.
Qed.
Lemma get_put_neq : forall st o o' ob, o <> o' -> get (put st o ob) o' = get st o'.
Proof. intros. unfold get, put. simpl. now apply nth_error_update_neq. Qed.

Lemma skel_put_cache : forall st o ob c, get st o = Some ob -> skel (put st o (with_cache ob c)) = skel st.
Proof.
  intros st o ob c G. unfold skel, put. simpl. f_equal. f_equal. rewrite map_update.
  change (skel_obj (with_cache ob c)) with (skel_obj ob).
  apply update_same. unfold get in G. now apply map_nth_error.
Qed.

Lemma skel_store : forall st o k v, skel (store st o k v) = skel st.
Proof. intros. unfold store. destruct (get st o) eqn:G; auto. now apply skel_put_cache. Qed.

(* the frozen_cache decorator is coherent as soon as its body is the uncached definition of the key *)
Lemma Coh_cached : forall o k body,
  Coh body -> (forall st, call_key o k st = cached o k body st) -> Coh (cached o k body).
Proof.
  intros o k body Hb Hk st HI.
  assert (Hth : body (thaw st) = (thaw st, pure_key st o k) \/ has_obj st o = false).
  { destruct (has_obj st o) eqn:Ho; auto. left.
    pose proof (call_key_thaw st o k) as C. rewrite Hk, cached_thaw, Ho in C. exact C. }
  rewrite cached_thaw. unfold cached, has_obj in *.
  destruct (get st o) as [ob|] eqn:G.
  2:{ simpl. auto. }
  destruct Hth as [Hth|]; [|discriminate].
  destruct (ofrozen ob) eqn:Fz.
  - destruct (lookup k (ocache ob)) as [v|] eqn:L.
    + simpl. split; auto. split; auto. rewrite Hth. f_equal. destruct HI as [V _]. now apply (V o ob k v).
    + destruct (Hb st HI) as (I1 & S1 & T1). destruct (body st) as [st1 r] eqn:E. simpl in *.
      destruct r as [v|e]; simpl; [|now auto].
      split; [|split; [now rewrite skel_store|exact T1]].
      destruct (skel_get _ _ _ _ (eq_sym S1) G) as (ob1 & G1 & K1).
      assert (Fz1 : ofrozen ob1 = true) by (unfold skel_obj in K1; congruence).
      assert (PK : pure_key st1 o k = Ok v).
      { rewrite (pure_key_skel _ _ o k S1). rewrite Hth in T1. now inversion T1. }
      destruct I1 as [V1 U1]. unfold store. rewrite G1. split.
      * intros o' ob' k' v' G' F' L'.
        rewrite (pure_key_skel _ st1) by (now apply skel_put_cache).
        destruct (Nat.eq_dec o o') as [->|Hne].
        -- rewrite (get_put_eq _ _ _ _ G1) in G'. inversion G'; subst ob'. simpl in L'.
           destruct (ckey_eqb k' k) eqn:Ek.
           ++ apply ckey_eqb_eq in Ek. subst k'. injection L' as <-. exact PK.
           ++ now apply (V1 o' ob1 k' v').
        -- rewrite get_put_neq in G' by auto. now apply (V1 o' ob' k' v').
      * intros o' ob' G' F'. destruct (Nat.eq_dec o o') as [->|Hne].
        -- rewrite (get_put_eq _ _ _ _ G1) in G'. inversion G'; subst ob'. simpl in F'. congruence.
        -- rewrite get_put_neq in G' by auto. now apply (U1 o' ob').
  - destruct (Hb st HI) as (I1 & S1 & T1). auto.
Qed.

(* ------------------------------------------------------------------ the cached functions *)
Lemma Coh_call_pit : forall o s f, Coh (call_pit o s f).
Proof.
  intros. unfold call_pit. apply Coh_cached; [|reflexivity].
  unfold body_pit. apply Coh_gets. intros. apply walk_top_thaw.
Qed.

Lemma Coh_call_attr : forall o s f, Coh (call_attr o s f).
Proof.
  intros. unfold call_attr. apply Coh_cached; [|reflexivity].
  unfold body_attr. apply Coh_bind; [apply Coh_call_pit|]. intros c.
  apply Coh_bind; [apply Coh_as_list|]. intros l. apply Coh_ret.
Qed.

Lemma Coh_call_unique : forall o, Coh (call_unique o).
Proof.
  intros. unfold call_unique. apply Coh_cached; [|reflexivity].
  unfold body_unique. apply Coh_bind; [apply Coh_call_attr|]. intros c.
  apply Coh_bind; [apply Coh_as_list|]. intros l.
  apply Coh_bind; [apply Coh_gets; intros; apply pid_of_thaw|]. intros idf. apply Coh_ret.
Qed.

Lemma Coh_call_ordered : forall o, Coh (call_ordered o).
Proof.
  intros. unfold call_ordered. apply Coh_cached; [|reflexivity].
  unfold body_ordered. apply Coh_bind; [apply Coh_call_unique|]. intros c.
  apply Coh_bind; [apply Coh_as_list|]. intros l.
  apply Coh_bind; [apply Coh_gets; intros; apply pid_of_thaw|]. intros idf. apply Coh_ret.
Qed.

Lemma Coh_call_direct : forall o d, Coh (call_direct o d).
Proof.
  intros. unfold call_direct. apply Coh_cached; [|reflexivity].
  unfold body_direct. apply Coh_gets. intros st. rewrite get_thaw.
  destruct (get st o); simpl; auto. now rewrite direct_items_thaw.
Qed.

(* ------------------------------------------------------------------ the queries *)
Lemma Coh_q_count : forall o, Coh (q_count o).
Proof.
  intros. unfold q_count. apply Coh_bind; [apply Coh_call_unique|]. intros c.
  apply Coh_bind; [apply Coh_as_list|]. intros l. apply Coh_ret.
Qed.

Lemma Coh_call_mtt : forall o c z, Coh (call_mtt o c z).
Proof.
  intros. unfold call_mtt. apply Coh_cached; [|reflexivity].
  unfold body_mtt. apply Coh_bind; [apply Coh_call_attr|]. intros cv.
  apply Coh_bind; [apply Coh_as_list|]. intros l.
  apply Coh_bind; [|intros; apply Coh_ret].
  apply Coh_mapM. intros it _. apply Coh_bind; [apply Coh_gets; intros; apply kind_of_thaw|]. intros k.
  destruct (cls_match c k); [|apply Coh_ret]. destruct z; [apply Coh_ret|].
  apply Coh_bind; [apply Coh_q_count|]. intros; apply Coh_ret.
Qed.

Lemma Coh_call_mwt : forall o c z, Coh (call_mwt o c z).
Proof.
  intros. unfold call_mwt. apply Coh_cached; [|reflexivity].
  unfold body_mwt. apply Coh_bind; [apply Coh_call_mtt|]. intros cv.
  apply Coh_bind; [apply Coh_as_list|]. intros l. apply Coh_ret.
Qed.

Lemma Coh_q_models : forall o c z, Coh (q_models o c z).
Proof.
  intros. unfold q_models. apply Coh_bind; [apply Coh_call_mwt|]. intros cv. apply Coh_as_list.
Qed.

Lemma Coh_pid : Coh (gets pid_of).
Proof. apply Coh_gets. intros. apply pid_of_thaw. Qed.
Lemma Coh_plim : Coh (gets plim_of).
Proof. apply Coh_gets. intros. apply plim_of_thaw. Qed.

Lemma Coh_q_paths_raw : forall o, Coh (q_paths_raw o).
Proof.
  intros. unfold q_paths_raw. apply Coh_bind; [apply Coh_call_pit|]. intros c.
  apply Coh_bind; [apply Coh_as_list|]. intros l. apply Coh_bind; [apply Coh_pid|]. intros; apply Coh_ret.
Qed.
Lemma Coh_q_paths : forall o, Coh (q_paths o).
Proof.
  intros. unfold q_paths. apply Coh_bind; [apply Coh_q_paths_raw|]. intros l.
  apply Coh_bind; [apply Coh_pid|]. intros; apply Coh_ret.
Qed.

Lemma Coh_q_ordered_raw : forall o, Coh (q_ordered_raw o).
Proof.
  intros. unfold q_ordered_raw. apply Coh_bind; [apply Coh_call_ordered|]. intros c. apply Coh_as_list.
Qed.
Lemma Coh_q_ordered : forall o, Coh (q_ordered o).
Proof.
  intros. unfold q_ordered. apply Coh_bind; [apply Coh_q_ordered_raw|]. intros l.
  apply Coh_bind; [apply Coh_pid|]. intros; apply Coh_ret.
Qed.

Lemma Coh_arg_for : forall idf a p, Coh (arg_for idf a p).
Proof. intros. unfold arg_for. destruct (nassoc (idf p) a); [apply Coh_ret|apply Coh_raise]. Qed.

Lemma Coh_tuple_values : forall idf a t, Coh (tuple_values idf a t).
Proof.
  intros. unfold tuple_values. apply Coh_bind.
  - apply Coh_gets. intros. apply view_thaw.
  - intros [[k attrs]|]; [|apply Coh_raise].
    apply Coh_bind; [|intros; apply Coh_ret].
    apply Coh_mapM. intros [n v] _. simpl. destruct v; [apply Coh_arg_for|apply Coh_ret|apply Coh_ret].
Qed.

Lemma is_pm_thaw : forall st c, is_pm (thaw st) c = is_pm st c.
Proof. intros. unfold is_pm. now rewrite view_thaw. Qed.

Lemma Coh_inst_for : forall cfg n idf a o, Coh (inst_for cfg n idf a o).
Proof.
  intros cfg n idf. induction n as [|n IH]; intros a o; simpl; [apply Coh_raise|].
  apply Coh_bind; [apply Coh_gets; intros; apply view_thaw|].
  intros [[[cls| |] attrs]|]; [| |apply Coh_ret|apply Coh_raise].
  - apply Coh_bind; [apply Coh_call_direct|]. intros tc.
    apply Coh_bind; [apply Coh_as_list|]. intros tl.
    apply Coh_bind.
    { apply Coh_mapM. intros it _. apply Coh_bind; [apply Coh_tuple_values|]. intros; apply Coh_ret. }
    intros targs.
    apply Coh_bind; [apply Coh_call_direct|]. intros mc.
    apply Coh_bind; [apply Coh_as_list|]. intros ml.
    apply Coh_bind.
    { apply Coh_mapM. intros it _. apply Coh_bind; [apply IH|]. intros; apply Coh_ret. }
    intros margs.
    apply Coh_bind; [apply Coh_call_direct|]. intros pc.
    apply Coh_bind; [apply Coh_as_list|]. intros pl.
    apply Coh_bind.
    { apply Coh_mapM. intros it _. apply Coh_bind; [apply Coh_arg_for|]. intros; apply Coh_ret. }
    intros pargs.
    destruct (forallb _ _); [apply Coh_ret|apply Coh_raise].
  - apply Coh_bind; [|intros; apply Coh_ret].
    apply Coh_mapM. intros [k v] _. simpl. destruct v as [p|c|c].
    + apply Coh_bind; [apply Coh_arg_for|]. intros; apply Coh_ret.
    + apply Coh_ret.
    + apply Coh_bind; [apply Coh_gets; intros; apply is_pm_thaw|].
      intros [|]; [|apply Coh_ret]. apply Coh_bind; [apply IH|]. intros; apply Coh_ret.
Qed.

Lemma Coh_q_instance : forall cfg o vec, Coh (q_instance cfg o vec).
Proof.
  intros. unfold q_instance. apply Coh_bind; [apply Coh_q_count|]. intros n.
  destruct (negb _); [apply Coh_raise|].
  apply Coh_bind; [apply Coh_q_ordered_raw|]. intros l.
  apply Coh_bind; [apply Coh_pid|]. intros idf. apply Coh_bind; [apply Coh_plim|]. intros limf.
  destruct (negb _); [apply Coh_raise|apply Coh_inst_for].
Qed.

Lemma Coh_q_unit : forall cfg o qs, Coh (q_unit cfg o qs).
Proof.
  intros. unfold q_unit. apply Coh_bind; [apply Coh_call_attr|]. intros ec.
  apply Coh_bind; [apply Coh_as_list|]. intros _.
  apply Coh_bind; [apply Coh_q_count|]. intros n.
  destruct (negb _); [apply Coh_raise|].
  apply Coh_bind; [apply Coh_q_ordered_raw|]. intros l.
  apply Coh_bind; [apply Coh_pid|]. intros idf. apply Coh_bind; [apply Coh_plim|]. intros limf.
  apply Coh_inst_for.
Qed.

Lemma Coh_q_allpaths : forall o, Coh (q_allpaths o).
Proof.
  intros. unfold q_allpaths. apply Coh_bind; [apply Coh_q_count|]. intros n.
  destruct (Nat.eqb n 0); [apply Coh_ret|].
  apply Coh_bind; [apply Coh_q_paths_raw|]. intros l. apply Coh_bind; [apply Coh_pid|]. intros idf.
  destruct (fold_left _ l []); [apply Coh_raise|apply Coh_ret].
Qed.

Lemma Coh_param_entry : forall o pre, Coh (param_entry o pre).
Proof.
  intros. unfold param_entry. apply Coh_bind.
  - apply Coh_gets. intros st. rewrite resolve_thaw. destruct (resolve st o pre) as [c|]; auto.
    rewrite get_thaw. destruct (get st c); reflexivity.
  - intros [[c [cls| |]]|]; try apply Coh_raise; try apply Coh_ret.
    + apply Coh_bind; [apply Coh_q_count|]. intros; apply Coh_ret.
    + apply Coh_bind; [apply Coh_q_count|]. intros; apply Coh_ret.
Qed.

Lemma Coh_q_info : forall o, Coh (q_info o).
Proof.
  intros. unfold q_info.
  apply Coh_bind; [apply Coh_call_pit|]. intros ic.
  apply Coh_bind; [apply Coh_as_list|]. intros il.
  apply Coh_bind; [apply Coh_q_count|]. intros n.
  apply Coh_bind; [apply Coh_call_pit|]. intros pc.
  apply Coh_bind; [apply Coh_as_list|]. intros pl.
  apply Coh_bind.
  - apply Coh_mapM. intros it _. apply Coh_bind; [|intros; apply Coh_ret].
    apply Coh_mapM. intros pre _. apply Coh_param_entry.
  - intros ents. apply Coh_bind; [apply Coh_pid|]. intros; apply Coh_ret.
Qed.

Lemma Coh_call_key : forall o k, Coh (call_key o k).
Proof.
  intros o k. destruct k; simpl.
  - apply Coh_call_pit.
  - apply Coh_call_attr.
  - apply Coh_call_unique.
  - apply Coh_call_ordered.
  - apply Coh_call_direct.
  - apply Coh_call_mtt.
  - apply Coh_call_mwt.
Qed.

Theorem Coh_run_query : forall cfg o q, Coh (run_query cfg o q).
Proof.
  intros cfg o q. destruct q; simpl.
  - apply Coh_bind; [apply Coh_q_count|]. intros; apply Coh_ret.
  - apply Coh_bind; [apply Coh_q_paths|]. intros; apply Coh_ret.
  - apply Coh_bind; [apply Coh_q_ordered|]. intros; apply Coh_ret.
  - apply Coh_bind; [apply Coh_q_instance|]. intros; apply Coh_ret.
  - apply Coh_q_info.
  - apply Coh_bind; [apply Coh_q_models|]. intros; apply Coh_ret.
  - apply Coh_bind; [apply Coh_q_unit|]. intros; apply Coh_ret.
  - apply Coh_q_allpaths.
  - apply Coh_bind; [apply Coh_call_key|]. intros c.
    apply Coh_bind; [apply Coh_as_list|]. intros l.
    apply Coh_bind; [apply Coh_pid|]. intros; apply Coh_ret.
Qed.
