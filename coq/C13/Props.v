(* C13 property theorems: statements only, each closed by `exact`.
   Vocabulary (Model.v / Proofs*.v): `run cfg ops init` replays a history on the model of the
   pinned code and returns the outcome of every operation; `fresh st` is the current
   composition of st and nothing else (all flags off, all caches empty, clean recursion cache);
   `guarded` excludes exactly: a failing walk call when the wrapper does not clean up, and a
   modification that changes the composition of something reachable from a frozen object. *)
From Coq Require Import ZArith List String Bool Arith.
From PAFC13 Require Import Model ClassArgs Proofs1 Proofs2 Proofs3 Proofs4 Proofs5 Witness.
Import ListNotations.
Open Scope list_scope.

(* for ANY configuration, also the legacy ones (guard): in every guarded history every query -- prior_count, paths, ordered prior
   ids, instance for a vector, info -- answers exactly what the uncached query answers on the
   current composition, whatever was frozen, cached, queried, copied or rejected before *)
Theorem C13_coherent_partial : forall cfg pre o q, guarded cfg pre (init cfg) ->
  snd (run cfg (pre ++ [OQuery o q]) (init cfg)) =
  snd (run cfg pre (init cfg)) ++ [snd (run_query cfg o q (fresh (fst (run cfg pre (init cfg)))))].
Proof. exact coherent_histories. Qed.

(* the invariant form: every cache entry of a frozen object equals the pure function, hence a
   query is blind to flags and caches and leaves the composition alone *)
Theorem C13_cached_equals_uncached : forall cfg st o q, Inv st -> inflight st = [] ->
  snd (run_query cfg o q st) = snd (run_query cfg o q (fresh st)) /\
  fresh (fst (run_query cfg o q st)) = fresh st.
Proof. exact query_coherent. Qed.

Theorem C13_invariant_reachable : forall cfg ops st, Inv st -> inflight st = [] -> guarded cfg ops st ->
  Inv (fst (run cfg ops st)) /\ inflight (fst (run cfg ops st)) = [].
Proof. exact guarded_ok. Qed.

(* no history effects: two guarded histories ending in the same composition agree on every query *)
Theorem C13_history_independent : forall cfg pre1 pre2 o q,
  guarded cfg pre1 (init cfg) -> guarded cfg pre2 (init cfg) ->
  fresh (fst (run cfg pre1 (init cfg))) = fresh (fst (run cfg pre2 (init cfg))) ->
  snd (run_query cfg o q (fst (run cfg pre1 (init cfg)))) = snd (run_query cfg o q (fst (run cfg pre2 (init cfg)))).
Proof. exact history_independent. Qed.

(* the guard is decidable on concrete histories (used on every generated history) *)
Theorem C13_guard_checkable : forall cfg ops st, guardedb cfg ops st = true -> guarded cfg ops st.
Proof. exact guardedb_sound. Qed.

(* FULL: a frozen model / collection rejects assignment and append, state untouched *)
Theorem C13_frozen_rejects_setattr : forall cfg st o ob name v,
  get st o = Some ob -> okind ob <> KTuple -> ofrozen ob = true ->
  step cfg (OSet o name v) st = (st, Exn EAssertion).
Proof. exact frozen_rejects_setattr. Qed.

Theorem C13_frozen_rejects_append : forall cfg st o ob v,
  get st o = Some ob -> okind ob = KColl -> ofrozen ob = true ->
  step cfg (OAppend o v) st = (st, Exn EAssertion).
Proof. exact frozen_rejects_append. Qed.

(* FULL: an accepted assignment is the dict assignment on that object only (together with
   C13_coherent_partial: later answers reflect it) *)
Theorem C13_reflects_changes : forall cfg st o ob name v,
  get st o = Some ob -> okind ob = KColl -> ofrozen ob = false ->
  let st' := fst (step cfg (OSet o name v) st) in
  comp_at st' o = Some (KColl, set_attr name v (oattrs ob), onitems ob) /\
  (forall t, t <> o -> comp_at st' t = comp_at st t) /\
  ptab st' = ptab st /\ inflight st' = inflight st /\
  snd (step cfg (OSet o name v) st) = Ok AUnit.
Proof. exact setattr_effect. Qed.

(* FULL: freeze and unfreeze never change the composition *)
Theorem C13_freeze_cycles_keep_composition : forall cfg st o, Inv st ->
  fresh (fst (step cfg (OFreeze o) st)) = fresh st /\ fresh (fst (step cfg (OUnfreeze o) st)) = fresh st.
Proof. exact freeze_keeps_composition. Qed.

(* FULL: other live models do not matter -- the cached functions of o read only objects reachable from o *)
Theorem C13_other_models_irrelevant : forall st st' o k, inflight st' = inflight st -> agree st st' o ->
  pure_key st' o k = pure_key st o k.
Proof. exact other_objects_irrelevant. Qed.

(* FULL: deepcopy leaves every existing object (attributes, flag, cache) as it was *)
Theorem C13_copy_keeps_originals : forall cfg st o t ob, get st t = Some ob ->
  exists ob', get (fst (step cfg (OCopy o) st)) t = Some ob' /\
              okind ob' = okind ob /\ oattrs ob' = oattrs ob /\ onitems ob' = onitems ob /\ kept ob ob'.
Proof. exact copy_keeps_originals. Qed.

(* HISTORY, REFUTED for the wrapper without try/finally (the code before 5afd9f1; Model.wrapper_cleanup = false):
   the full statement (no guard) fails after a failing walk call *)
Theorem C13_coherent_legacy_refuted_unrepaired_wrapper : ~ coherent_everywhere cfg_pinned.
Proof. exact refuted_failing_call_unrepaired. Qed.

(* HISTORY (before 29fc8b9): ... and, independently of the wrapper, after a modification below a still-frozen ancestor *)
Theorem C13_coherent_legacy_refuted_stale_ancestor : ~ coherent_everywhere cfg_fixed.
Proof. exact refuted_stale_ancestor. Qed.

(* for the repaired wrapper (try/finally) failing calls are inside the guard *)
Theorem C13_repaired_allows_failing_calls : forall cl pr d i gd gt ep tr st o,
  guard (mkConfig cl pr true d i gd gt ep tr) st (OFailWalk o).
Proof. exact repaired_allows_failing_calls. Qed.

(* FULL (given a successful freeze, i.e. enough fuel / a finite acyclic depth): freeze reaches every
   Model / Collection below, so all of them reject assignment afterwards *)
Theorem C13_freeze_reaches_descendants : forall cfg n o st, Inv st -> snd (freeze cfg n o st) = Ok tt ->
  forall t, PMReach st o t ->
    frozen_at (fst (freeze cfg n o st)) t /\ tuples_frozen_at cfg st (fst (freeze cfg n o st)) t.
Proof. exact freeze_reaches_all. Qed.

Theorem C13_frozen_rejects_at_depth : forall cfg st o t name v, Inv st ->
  snd (freeze cfg FUEL o st) = Ok tt -> PMReach st o t ->
  (exists tb, get st t = Some tb /\ okind tb <> KTuple) ->
  let st' := fst (step cfg (OFreeze o) st) in
  step cfg (OSet t name v) st' = (st', Exn EAssertion).
Proof. exact frozen_rejects_at_depth. Qed.

Theorem C13_frozen_rejects_setitem : forall cfg st o ob key v,
  get st o = Some ob -> okind ob = KColl -> ofrozen ob = true ->
  step cfg (OSetItem o key v) st = (st, Exn EAssertion).
Proof. exact frozen_rejects_setitem. Qed.

(* HISTORY (before b49160e), REFUTED: the members of a TuplePrior below a frozen model were not protected;
   today: C13_frozen_tuples_reject_at_depth *)
Theorem C13_freeze_protects_all_legacy_refuted : ~ freeze_protects_all cfg_fixed.
Proof. exact tuple_unprotected. Qed.

(* FULL: effects of accepted modifications on a Model, of append and of delattr (which no flag stops) *)
Theorem C13_setattr_model_effect : forall cfg st o ob cls name v,
  get st o = Some ob -> okind ob = KModel cls -> ofrozen ob = false -> frozen_pm cfg st v = false -> has_us name = false ->
  let st' := fst (step cfg (OSet o name v) st) in
  comp_at st' o = Some (KModel cls, set_attr name v (oattrs ob), onitems ob) /\
  (forall t, t <> o -> comp_at st' t = comp_at st t) /\
  snd (step cfg (OSet o name v) st) = Ok AUnit.
Proof. exact setattr_model_effect. Qed.

Theorem C13_setattr_model_frozen_value : forall cfg st o ob cls name v,
  get st o = Some ob -> okind ob = KModel cls -> ofrozen ob = false -> frozen_pm cfg st v = true ->
  step cfg (OSet o name v) st = (st, Exn EAssertion).
Proof. exact setattr_model_frozen_value. Qed.

Theorem C13_append_effect : forall cfg st o ob v,
  get st o = Some ob -> okind ob = KColl -> ofrozen ob = false ->
  let st' := fst (step cfg (OAppend o v) st) in
  comp_at st' o = Some (KColl, set_attr (string_of_nat (onitems ob)) v (oattrs ob), S (onitems ob)) /\
  (forall t, t <> o -> comp_at st' t = comp_at st t) /\
  snd (step cfg (OAppend o v) st) = Ok AUnit.
Proof. exact append_effect. Qed.

Theorem C13_delattr_effect : forall cfg st o ob name w,
  get st o = Some ob -> sassoc name (oattrs ob) = Some w ->
  del_guarded cfg (okind ob) && ofrozen ob = false ->
  let st' := fst (step cfg (ODel o name) st) in
  comp_at st' o = Some (okind ob, del_attr name (oattrs ob), onitems ob) /\
  (forall t, t <> o -> comp_at st' t = comp_at st t) /\
  snd (step cfg (ODel o name) st) = Ok AUnit.
Proof. exact delattr_effect. Qed.

(* FULL: setattr on a collection is invisible to every object that does not contain it ... *)
Theorem C13_setattr_is_local : forall cfg st c ob name v o k,
  get st c = Some ob -> okind ob = KColl -> ofrozen ob = false -> ~ Reach st o c ->
  pure_key (fst (step cfg (OSet c name v) st)) o k = pure_key st o k.
Proof. exact setattr_is_local. Qed.

(* FULL (code since 6df133a, itransfers = false): ... and so is item assignment: it is the dict assignment on that
   collection and changes no prior id and no other object *)
Theorem C13_setitem_effect : forall cfg st o ob key v,
  itransfers cfg = false -> get st o = Some ob -> okind ob = KColl -> ofrozen ob = false ->
  let st' := fst (step cfg (OSetItem o key v) st) in
  comp_at st' o = Some (KColl, set_attr key v (oattrs ob), onitems ob) /\
  (forall t, t <> o -> comp_at st' t = comp_at st t) /\
  ptab st' = ptab st /\ inflight st' = inflight st /\
  snd (step cfg (OSetItem o key v) st) = Ok AUnit.
Proof. exact setitem_effect. Qed.

Theorem C13_setitem_is_local : forall cfg st c ob key v o k,
  itransfers cfg = false -> get st c = Some ob -> okind ob = KColl -> ofrozen ob = false -> ~ Reach st o c ->
  pure_key (fst (step cfg (OSetItem c key v) st)) o k = pure_key st o k.
Proof. exact setitem_is_local_now. Qed.

(* HISTORY (before 6df133a, itransfers = true): Collection.__setitem__ wrote the id of the replaced value into the
   assigned prior, which other models hold *)
Theorem C13_setitem_is_local_legacy_refuted : ~ setitem_is_local cfg_repaired.
Proof. exact setitem_leaks. Qed.

(* FULL (code since b8214a7, dthaws = false): prior passing (mapper_from_prior_arguments & co.) is an ordinary query:
   invariant, composition, prior ids and every frozen flag are kept *)
Theorem C13_derive_is_a_query : forall cfg st o, dthaws cfg = false -> Inv st ->
  let st' := fst (step cfg (ODerive o) st) in
  Inv st' /\ skel st' = skel st /\ map ofrozen (heap st') = map ofrozen (heap st).
Proof. exact derive_is_a_query. Qed.

(* whatever dthaws is, it keeps composition and invariant *)
Theorem C13_derive_keeps_composition : forall cfg st o, Inv st ->
  Inv (fst (step cfg (ODerive o) st)) /\ fresh (fst (step cfg (ODerive o) st)) = fresh st.
Proof. exact derive_keeps_composition. Qed.

(* HISTORY (before b8214a7, dthaws = true): a Model below a frozen collection came back thawed *)
Theorem C13_derive_keeps_flags_legacy_refuted : ~ derive_keeps_flags cfg_repaired.
Proof. exact derive_thaws_flags. Qed.

(* the configuration the theorems are instantiated with by the correspondence is today's code *)
Theorem C13_current_configuration :
  wrapper_cleanup = true /\ derive_thaws = false /\ setitem_transfers = false /\
  delattr_guarded = true /\ tuples_frozen = true /\ cache_counts_modifications = true /\ tuple_flag_restored = true.
Proof. exact current_is_fixed. Qed.

(* HEADLINE, FULL: for the code as it is now (every class table, every prior pool) every query of EVERY history --
   any interleaving of new / query / freeze / unfreeze / setattr / setitem / append / delattr / copy / prior passing /
   failing call -- answers exactly what the uncached query answers on the current composition. No guard. *)
Theorem C13_coherent_full : forall cl pr,
  coherent_everywhere (mkConfig cl pr wrapper_cleanup derive_thaws setitem_transfers delattr_guarded tuples_frozen
                                cache_counts_modifications tuple_flag_restored).
Proof. exact coherent_current. Qed.

(* the general form (6ba0708 delattr guard, b49160e tuple priors, 29fc8b9 modification counter, 5afd9f1 wrapper):
   with all of them the FULL statement holds -- every query of EVERY history answers the uncached query on the
   current composition, no guard left *)
Theorem C13_coherent_full_when_repaired : forall cfg, all_repaired cfg -> coherent_everywhere cfg.
Proof. exact coherent_when_repaired. Qed.

Theorem C13_frozen_rejects_delattr : forall cfg st o ob name,
  gdel cfg = true -> get st o = Some ob -> okind ob <> KTuple -> ofrozen ob = true ->
  step cfg (ODel o name) st = (st, Exn EAssertion).
Proof. exact frozen_rejects_delattr. Qed.

Theorem C13_frozen_tuple_rejects_setattr : forall cfg st t tb name v,
  gtuple cfg = true -> get st t = Some tb -> okind tb = KTuple -> ofrozen tb = true ->
  step cfg (OSet t name v) st = (st, Exn EAssertion).
Proof. exact frozen_tuple_rejects_setattr. Qed.

Theorem C13_frozen_tuples_reject_at_depth : forall cfg st o t kd attrs k u name v, Inv st -> gtuple cfg = true ->
  snd (freeze cfg FUEL o st) = Ok tt -> PMReach st o t ->
  view st t = Some (kd, attrs) -> In (k, VRef u) attrs -> is_tuple st u = true ->
  let st' := fst (step cfg (OFreeze o) st) in
  step cfg (OSet u name v) st' = (st', Exn EAssertion).
Proof. exact frozen_tuples_reject_at_depth. Qed.

(* restoring stored state (pickle, copy, deepcopy, database form; 916e580). FULL: rebuilding from the database form never
   raises, a shallow copy exists whenever the object does, and its TuplePriors carry the flag of the copy;
   deep copies / database forms: flag equality is decided on every generated history (Proofs3.tuple_flags_ok in check_guard)
   and shown on Witness.restore_now *)
Theorem C13_restore_never_raises : forall cfg st o,
  trestore cfg = true -> snd (step cfg (ORestore o RDatabase) st) = Ok AUnit.
Proof. exact restore_never_raises. Qed.

Theorem C13_restore_shallow_ok : forall cfg st o ob, get st o = Some ob ->
  snd (step cfg (ORestore o RShallow) st) = Ok AUnit.
Proof. exact restore_shallow_ok. Qed.

Theorem C13_restore_shallow_tuple_flags : forall cfg st o ob k u ub,
  gtuple cfg = true -> trestore cfg = true -> epochs cfg = false ->
  get st o = Some ob -> is_pm_kind (okind ob) = true -> In (k, VRef u) (oattrs ob) -> get st u = Some ub -> okind ub = KTuple ->
  let st' := fst (step cfg (ORestore o RShallow) st) in
  get st' (List.length (heap st)) = Some (with_cache ob []) /\ flagged (ofrozen ob) (heap st') u.
Proof. exact restore_shallow_tuple_flags. Qed.

(* HISTORY (b49160e without 916e580), REFUTED: the database form of a frozen model holding a TuplePrior raised *)
Theorem C13_restore_legacy_refuted :
  snd (step cfg_norestore (ORestore 1 RDatabase) (fst (run cfg_norestore h_restore init0))) = Exn EAssertion.
Proof. exact restore_legacy_raises. Qed.

(* the process-wide constructor-argument memo (class_args_dict).  `class_args_run cfg m h` = the evaluations of
   Model.constructor_argument_names a history makes, in order h (classes = indices of the class table: two classes of one
   name are two classes), starting from memo m.  FULL, for the code as it is (dict keyed by the class object): whatever
   models of whatever classes were composed or queried earlier (h0), every model reports the constructor arguments of
   its own class -- the function `ctor_names` that instance_for / info of Model.v use *)
Theorem C13_class_args_history_free : forall cfg h0 h,
  snd (class_args_run cfg (fst (class_args_run cfg [] h0)) h) = map (ctor_names cfg) h.
Proof. exact class_args_history_free. Qed.

(* for ANY key the code might derive from a class: sufficient ... *)
Theorem C13_class_args_key_sufficient : forall (K : Type) (keqb : K -> K -> bool) (key : nat -> K) (sig : nat -> list string),
  (forall a b, keqb a b = true <-> a = b) -> (forall c d, key c = key d -> sig c = sig d) ->
  forall h0 h, snd (can_run keqb key sig (fst (can_run keqb key sig [] h0)) h) = map sig h.
Proof. exact memo_history_free. Qed.

(* ... and necessary: a key shared by two classes with different constructors makes the answer of the second depend on
   whether a model of the first came earlier in the process *)
Theorem C13_class_args_key_necessary : forall (K : Type) (keqb : K -> K -> bool) (key : nat -> K) (sig : nat -> list string),
  (forall a b, keqb a b = true <-> a = b) -> forall c d, key c = key d -> sig c <> sig d ->
  snd (can_run keqb key sig [] [d]) = [sig d] /\
  snd (can_run keqb key sig (fst (can_run keqb key sig [] [c])) [d]) = [sig c] /\
  snd (can_run keqb key sig (fst (can_run keqb key sig [] [c])) [d]) <> snd (can_run keqb key sig [] [d]).
Proof. exact memo_merge_leaks. Qed.

(* the instance the generated histories exercise: a memo keyed by a NAME of the class (`__name__`, `__qualname__`,
   `module.qualname`) leaks as soon as two composed classes share the name and differ in their constructor *)
Theorem C13_class_args_name_key_leaks : forall names cfg c d,
  nth c names EmptyString = nth d names EmptyString -> ctor_names cfg c <> ctor_names cfg d ->
  snd (name_keyed_run names cfg (fst (name_keyed_run names cfg [] [c])) [d]) <> snd (name_keyed_run names cfg [] [d]).
Proof. exact name_keyed_leaks. Qed.

Print Assumptions C13_coherent_partial.
Print Assumptions C13_history_independent.
Print Assumptions C13_coherent_legacy_refuted_unrepaired_wrapper.
Print Assumptions C13_coherent_legacy_refuted_stale_ancestor.
Print Assumptions C13_freeze_reaches_descendants.
Print Assumptions C13_setitem_is_local.
Print Assumptions C13_derive_is_a_query.
Print Assumptions C13_coherent_full_when_repaired.
Print Assumptions C13_coherent_full.
Print Assumptions C13_class_args_history_free.
Print Assumptions C13_class_args_key_sufficient.
Print Assumptions C13_class_args_key_necessary.
Print Assumptions C13_class_args_name_key_leaks.
