From Coq Require Import ZArith List String Bool Arith.
From PAFC13 Require Import Model Proofs.
Import ListNotations.
Theorem C13_stub : forall cfg st, run cfg [] st = (st, []).
Proof. exact run_nil. Qed.
Print Assumptions C13_stub.
