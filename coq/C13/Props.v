(* C13 property theorems: statements only, each closed by `exact`.
   Vocabulary (Model.v / Proofs*.v): `run cfg ops init` replays a history on the model of the
   pinned code and returns the outcome of every operation; `fresh st` is the current
   composition of st and nothing else (all flags off, all caches empty, clean recursion cache);
   `guarded` excludes exactly: a failing walk call when the wrapper does not clean up, and a
   modification that changes the composition of something reachable from a frozen object. *)
From Coq Require Import ZArith List String Bool Arith.
From PAFC13 Require Import Model Proofs1 Proofs2 Proofs3 Witness.
Import ListNotations.
Open Scope list_scope.

(* PARTIAL (guard): in every guarded history every query -- prior_count, paths, ordered prior
   ids, instance for a vector, info -- answers exactly what the uncached query answers on the
   current composition, whatever was frozen, cached, queried, copied or rejected before *)
Theorem C13_coherent_partial : forall cfg pre o q, guarded cfg pre init ->
  snd (run cfg (pre ++ [OQuery o q]) init) =
  snd (run cfg pre init) ++ [snd (run_query cfg o q (fresh (fst (run cfg pre init))))].
Proof. exact coherent_histories. Qed.

(* the invariant form: every cache entry of a frozen object equals the pure function, hence a
   query is blind to flags and caches and leaves the composition alone *)
Theorem C13_cached_equals_uncached : forall cfg st o q, Inv st -> inflight st = [] ->
  snd (run_query cfg o q st) = snd (run_query cfg o q (fresh st)) /\
  fresh (fst (run_query cfg o q st)) = fresh st.
Proof. exact query_coherent. Qed.

Theorem C13_invariant_reachable : forall cfg ops st, Inv st -> inflight st = [] -> guarded cfg ops st ->
  Inv (fst (run cfg ops st)) /\ inflight (fst (run cfg ops st)) = [].
Proof. exact guarded_ok. Qed.

(* no history effects: two guarded histories ending in the same composition agree on every query *)
Theorem C13_history_independent : forall cfg pre1 pre2 o q,
  guarded cfg pre1 init -> guarded cfg pre2 init ->
  fresh (fst (run cfg pre1 init)) = fresh (fst (run cfg pre2 init)) ->
  snd (run_query cfg o q (fst (run cfg pre1 init))) = snd (run_query cfg o q (fst (run cfg pre2 init))).
Proof. exact history_independent. Qed.

(* the guard is decidable on concrete histories (used on every generated history) *)
Theorem C13_guard_checkable : forall cfg ops st, guardedb cfg ops st = true -> guarded cfg ops st.
Proof. exact guardedb_sound. Qed.

(* FULL: a frozen model / collection rejects assignment and append, state untouched *)
Theorem C13_frozen_rejects_setattr : forall cfg st o ob name v,
  get st o = Some ob -> okind ob <> KTuple -> ofrozen ob = true ->
  step cfg (OSet o name v) st = (st, Exn EAssertion).
Proof. exact frozen_rejects_setattr. Qed.

Theorem C13_frozen_rejects_append : forall cfg st o ob v,
  get st o = Some ob -> okind ob = KColl -> ofrozen ob = true ->
  step cfg (OAppend o v) st = (st, Exn EAssertion).
Proof. exact frozen_rejects_append. Qed.

(* FULL: an accepted assignment is the dict assignment on that object only (together with
   C13_coherent_partial: later answers reflect it) *)
Theorem C13_reflects_changes : forall cfg st o ob name v,
  get st o = Some ob -> okind ob = KColl -> ofrozen ob = false ->
  let st' := fst (step cfg (OSet o name v) st) in
  comp_at st' o = Some (KColl, set_attr name v (oattrs ob), onitems ob) /\
  (forall t, t <> o -> comp_at st' t = comp_at st t) /\
  snd (step cfg (OSet o name v) st) = Ok AUnit.
Proof. exact setattr_effect. Qed.

(* FULL: freeze and unfreeze never change the composition *)
Theorem C13_freeze_cycles_keep_composition : forall cfg st o, Inv st ->
  fresh (fst (step cfg (OFreeze o) st)) = fresh st /\ fresh (fst (step cfg (OUnfreeze o) st)) = fresh st.
Proof. exact freeze_keeps_composition. Qed.

(* FULL: other live models do not matter -- the cached functions of o read only objects reachable from o *)
Theorem C13_other_models_irrelevant : forall st st' o k, inflight st' = inflight st -> agree st st' o ->
  pure_key st' o k = pure_key st o k.
Proof. exact other_objects_irrelevant. Qed.

(* FULL: deepcopy leaves every existing object (attributes, flag, cache) as it was *)
Theorem C13_copy_keeps_originals : forall cfg st o t ob, get st t = Some ob ->
  get (fst (step cfg (OCopy o) st)) t = Some ob.
Proof. exact copy_keeps_originals. Qed.

(* REFUTED on the pinned code: the full statement (no guard) fails after a failing walk call ... *)
Theorem C13_coherent_refuted_failing_call :
  wrapper_cleanup = false -> ~ coherent_everywhere (mkConfig cls0 pri0 wrapper_cleanup).
Proof. exact refuted_failing_call. Qed.

(* ... and, independently of the wrapper, after a modification below a still-frozen ancestor *)
Theorem C13_coherent_refuted_stale_ancestor : ~ coherent_everywhere cfg_repaired.
Proof. exact refuted_stale_ancestor. Qed.

(* for the repaired wrapper (try/finally) failing calls are inside the guard *)
Theorem C13_repaired_allows_failing_calls : forall cl pr st o, guard (mkConfig cl pr true) st (OFailWalk o).
Proof. exact repaired_allows_failing_calls. Qed.

Print Assumptions C13_coherent_partial.
Print Assumptions C13_history_independent.
Print Assumptions C13_coherent_refuted_failing_call.
Print Assumptions C13_coherent_refuted_stale_ancestor.
