(* C13: the constructor-argument memo has no history effects iff its key separates classes that differ in their
   constructor (ClassArgs.v). *)
From Coq Require Import List String Bool Arith.
From PAFC13 Require Import Model ClassArgs.
Import ListNotations.
Open Scope list_scope.

Section MemoProofs.
  Variable K : Type.
  Variable keqb : K -> K -> bool.
  Variable key : nat -> K.
  Variable sig : nat -> list string.
  Hypothesis keqb_spec : forall a b, keqb a b = true <-> a = b.

  (* every entry is the signature of every class that maps to its key *)
  Definition memo_ok (m : memo K) : Prop :=
    forall c a, mget keqb m (key c) = Some a -> a = sig c.

  (* classes with one key have one signature: exactly what the key has to guarantee *)
  Definition separates : Prop := forall c d, key c = key d -> sig c = sig d.

  Lemma can_ok : separates -> forall m c, memo_ok m ->
    snd (can keqb key sig m c) = sig c /\ memo_ok (fst (can keqb key sig m c)).
  Proof.
    intros Hsep m c Hm. unfold can.
    destruct (mget keqb m (key c)) as [a|] eqn:Hg; simpl.
    - split; [apply Hm; exact Hg | exact Hm].
    - split; [reflexivity|].
      intros d a Hd. simpl in Hd.
      destruct (keqb (key c) (key d)) eqn:Hk.
      + inversion Hd; subst a. apply Hsep. apply keqb_spec. exact Hk.
      + apply Hm. exact Hd.
  Qed.

  Lemma can_run_ok : separates -> forall h m, memo_ok m ->
    snd (can_run keqb key sig m h) = map sig h /\ memo_ok (fst (can_run keqb key sig m h)).
  Proof.
    intros Hsep h. induction h as [|c r IH]; intros m Hm; simpl.
    - split; [reflexivity | exact Hm].
    - destruct (can_ok Hsep m c Hm) as [Ha Hm1].
      destruct (can keqb key sig m c) as [m1 a] eqn:Hc. simpl in Ha, Hm1.
      destruct (IH _ Hm1) as [Hr Hm2].
      destruct (can_run keqb key sig m1 r) as [m2 l] eqn:Hrun. simpl in Hr, Hm2 |- *.
      split; [rewrite Ha, Hr; reflexivity | exact Hm2].
  Qed.

  Lemma memo_ok_nil : memo_ok [].
  Proof. intros c a H. discriminate H. Qed.

  (* whatever was looked up before (h0), the lookups of h answer the signature of their own class *)
  Lemma memo_history_free : separates -> forall h0 h,
    snd (can_run keqb key sig (fst (can_run keqb key sig [] h0)) h) = map sig h.
  Proof.
    intros Hsep h0 h.
    destruct (can_run_ok Hsep h0 [] memo_ok_nil) as [_ Hm].
    exact (proj1 (can_run_ok Hsep h _ Hm)).
  Qed.

  (* necessity: a key that merges two classes of different constructors makes the second answer depend on
     whether the first class was looked up earlier *)
  Lemma memo_merge_leaks : forall c d, key c = key d -> sig c <> sig d ->
    snd (can_run keqb key sig [] [d]) = [sig d] /\
    snd (can_run keqb key sig (fst (can_run keqb key sig [] [c])) [d]) = [sig c] /\
    snd (can_run keqb key sig (fst (can_run keqb key sig [] [c])) [d]) <> snd (can_run keqb key sig [] [d]).
  Proof.
    intros c d Hk Hs.
    assert (Hr : keqb (key c) (key d) = true) by (apply keqb_spec; exact Hk).
    assert (H2 : snd (can_run keqb key sig (fst (can_run keqb key sig [] [c])) [d]) = [sig c]).
    { simpl. unfold can. simpl. rewrite Hr. reflexivity. }
    split; [reflexivity|]. split; [exact H2|].
    rewrite H2. simpl. intro E. inversion E as [E1]. apply Hs. exact E1.
  Qed.
End MemoProofs.

Lemma nat_eqb_spec : forall a b, Nat.eqb a b = true <-> a = b.
Proof. exact Nat.eqb_eq. Qed.

(* the code as it is (key = the class object): no hypothesis left *)
Lemma class_args_history_free : forall cfg h0 h,
  snd (class_args_run cfg (fst (class_args_run cfg [] h0)) h) = map (ctor_names cfg) h.
Proof.
  intros cfg h0 h. unfold class_args_run.
  apply (memo_history_free nat Nat.eqb (fun c => c) (ctor_names cfg) nat_eqb_spec).
  intros c d E. simpl in E. subst d. reflexivity.
Qed.

Lemma class_args_alone : forall cfg h, snd (class_args_run cfg [] h) = map (ctor_names cfg) h.
Proof. intros cfg h. exact (class_args_history_free cfg [] h). Qed.

(* a name-keyed memo is sound exactly as far as equal names imply equal constructors ... *)
Lemma name_keyed_history_free : forall names cfg,
  (forall c d, nth c names EmptyString = nth d names EmptyString -> ctor_names cfg c = ctor_names cfg d) ->
  forall h0 h, snd (name_keyed_run names cfg (fst (name_keyed_run names cfg [] h0)) h) = map (ctor_names cfg) h.
Proof.
  intros names cfg Hsep h0 h. unfold name_keyed_run.
  apply (memo_history_free string String.eqb _ (ctor_names cfg) String.eqb_eq). exact Hsep.
Qed.

(* ... and leaks otherwise *)
Lemma name_keyed_leaks : forall names cfg c d,
  nth c names EmptyString = nth d names EmptyString -> ctor_names cfg c <> ctor_names cfg d ->
  snd (name_keyed_run names cfg (fst (name_keyed_run names cfg [] [c])) [d]) <> snd (name_keyed_run names cfg [] [d]).
Proof.
  intros names cfg c d Hn Hs. unfold name_keyed_run.
  exact (proj2 (proj2 (memo_merge_leaks string String.eqb _ (ctor_names cfg) String.eqb_eq c d Hn Hs))).
Qed.
