(* C13 model: object heap of Model / Collection / TuplePrior objects with the
   `frozen_cache` decorator, `assert_not_frozen`, recursive freeze / unfreeze, deepcopy and
   the process-wide DynamicRecursionCache (`inflight`).  Executable definitions only.

   Faithful to autofit/mapper/model.py, prior_model/{recursion,abstract,prior_model,
   collection}.py of the pinned tree, defects included:
     - the recursion-cache wrapper has no try/finally (flag `cleanup cfg = false`);
     - unfreeze clears only the caches of the object and its descendants, never of an ancestor;
     - TuplePrior is not freezable, `__delattr__` is not guarded.
   Everything that touches the state is written in a small state+exception monad so that
   the proofs (Proofs.v) are compositional. *)
From Coq Require Import ZArith List String Ascii Bool Arith DecimalString.
Import ListNotations.
Open Scope string_scope.
Open Scope list_scope.

(* ------------------------------------------------------------------ data *)
Inductive kind := KModel (cls : nat) | KColl | KTuple.
Inductive value := VPrior (pid : nat) | VConst (c : Z) | VRef (oid : nat).
Inductive leaf := LPrior (pid : nat) | LConst (c : Z) | LObj (oid : nat).
Definition path := list string.
Definition item := (path * leaf)%type.

(* class selectors of path_instances_of_class that the queries use *)
Inductive sel := SPrior      (* Prior *)
               | SInfo       (* (Prior, float, int, tuple, ConfigException) *)
               | SParam      (* (Prior, float, tuple) *)
               | STuple      (* TuplePrior *)
               | SConfig     (* ConfigException: matches nothing that the histories can build *)
               | SModelRec.  (* Model, ignore_children=False *)
(* class arguments of direct_tuples_with_type *)
Inductive dsel := DPrior | DTuple | DPriorModel | DFloat | DAbstractModel.

(* keys of `_frozen_cache`: (function name, self, *args) + kwargs items; `form` numbers the
   different spellings of the same call (positional / keyword) which are distinct keys *)
Inductive ckey := KPit (s : sel) (form : nat) | KAttr (s : sel) (form : nat)
                | KUnique | KOrdered | KDirect (d : dsel)
                | KMtt (cls : option nat) (izd : bool)     (* model_tuples_with_type(cls, include_zero_dimension=izd) *)
                | KMwt (cls : option nat) (izd : bool).    (* models_with_type(cls, include_zero_dimension=izd) *)
Inductive cval := CList (l : list item) | CPromise.

Inductive exn := ETypeError | EAssertion | ELimit | EKeyError | EAttribute | EOther.
Inductive res (A : Type) := Ok (a : A) | Exn (e : exn).
Arguments Ok {A} a.
Arguments Exn {A} e.

Record obj := mkObj {
  okind : kind;
  oattrs : list (string * value);     (* public part of __dict__, insertion order *)
  onitems : nat;                      (* Collection.item_number *)
  oidn : nat;                         (* ModelObject.id of the object *)
  ofrozen : bool;                     (* _is_frozen *)
  ocache : list (ckey * cval) }.      (* _frozen_cache *)

(* ptab: the Prior objects (index = object identity) with their CURRENT id and their limits;
   `Collection.__setitem__` rewrites ids, deepcopy creates new Prior objects with the same id *)
Record state := mkState { heap : list obj; inflight : list nat; ptab : list (nat * (Z * Z)) }.

Record config := mkConfig {
  classes : list (list string);       (* constructor argument names per class id *)
  priors : list (nat * (Z * Z));      (* initial Prior objects: (id, (lower, upper)) *)
  cleanup : bool;                     (* does the recursion wrapper clean up on exceptions? *)
  dthaws : bool;                      (* does gaussian_prior_model_for_arguments unfreeze `self`? *)
  itransfers : bool;                  (* does Collection.__setitem__ write the replaced value's id into the assigned object? *)
  gdel : bool;                        (* proposed C13-delattr-guard: __delattr__ (and Collection.remove) are assert_not_frozen *)
  gtuple : bool;                      (* proposed C13-tuple-prior-frozen: a TuplePrior is frozen / thawed with its owner *)
  epochs : bool;
  trestore : bool }.                  (* 916e580: restoring state (pickle, copy, deepcopy, database) re-applies the owner's frozen flag
                                         to its tuple priors; before it a copied TuplePrior kept its own stored flag and the
                                         database form of a frozen tuple prior could not be rebuilt *)                    (* proposed C13-cache-modification-count: caches are dropped once any model was modified *)

(* /repo since 5afd9f1: try/finally in DynamicRecursionCache.__call__ *)
Definition wrapper_cleanup : bool := true.
(* /repo since b8214a7: Model.gaussian_prior_model_for_arguments unfreezes its copy, not self
   (the pinned code started with self.unfreeze(): true) *)
Definition derive_thaws : bool := false.
(* /repo since 6df133a: Collection.__setitem__ transfers the id only to a freshly built object, never to an
   object handed in by the caller (the pinned code wrote it into any assigned object: true) *)
Definition setitem_transfers : bool := false.
(* /repo since 6ba0708 (delattr / Collection.remove guarded), b49160e (TuplePrior frozen with its model), 29fc8b9
   (frozen caches dropped once any model was modified); the pinned code: false, false, false *)
Definition delattr_guarded : bool := true.
Definition tuples_frozen : bool := true.
Definition cache_counts_modifications : bool := true.
(* /repo since 916e580 *)
Definition tuple_flag_restored : bool := true.

Definition FUEL : nat := 12.

(* ------------------------------------------------------------------ equality *)
Definition sel_eqb (a b : sel) : bool :=
  match a, b with SPrior, SPrior | SInfo, SInfo | SParam, SParam | STuple, STuple | SModelRec, SModelRec
                | SConfig, SConfig => true
                | _, _ => false end.
Definition dsel_eqb (a b : dsel) : bool :=
  match a, b with DPrior, DPrior | DTuple, DTuple | DPriorModel, DPriorModel | DFloat, DFloat
                | DAbstractModel, DAbstractModel => true | _, _ => false end.
Definition optnat_eqb (a b : option nat) : bool :=
  match a, b with Some x, Some y => Nat.eqb x y | None, None => true | _, _ => false end.
Definition ckey_eqb (a b : ckey) : bool :=
  match a, b with
  | KMtt c z, KMtt c' z' => optnat_eqb c c' && Bool.eqb z z'
  | KMwt c z, KMwt c' z' => optnat_eqb c c' && Bool.eqb z z'
  | KPit s f, KPit s' f' => sel_eqb s s' && Nat.eqb f f'
  | KAttr s f, KAttr s' f' => sel_eqb s s' && Nat.eqb f f'
  | KUnique, KUnique | KOrdered, KOrdered => true
  | KDirect d, KDirect d' => dsel_eqb d d'
  | _, _ => false
  end.
Definition leaf_eqb (a b : leaf) : bool :=
  match a, b with
  | LPrior p, LPrior q => Nat.eqb p q
  | LConst c, LConst d => Z.eqb c d
  | LObj o, LObj p => Nat.eqb o p
  | _, _ => false
  end.
Definition exn_eqb (a b : exn) : bool :=
  match a, b with
  | ETypeError, ETypeError | EAssertion, EAssertion | ELimit, ELimit | EKeyError, EKeyError
  | EAttribute, EAttribute | EOther, EOther => true
  | _, _ => false
  end.
Fixpoint list_eqb {A} (eqb : A -> A -> bool) (l m : list A) : bool :=
  match l, m with
  | [], [] => true
  | x :: l', y :: m' => eqb x y && list_eqb eqb l' m'
  | _, _ => false
  end.
Definition path_eqb : path -> path -> bool := list_eqb String.eqb.
Definition item_eqb (a b : item) : bool := path_eqb (fst a) (fst b) && leaf_eqb (snd a) (snd b).

(* ------------------------------------------------------------------ small helpers *)
Fixpoint memb (x : nat) (l : list nat) : bool :=
  match l with [] => false | y :: r => Nat.eqb x y || memb x r end.
Fixpoint smemb (x : string) (l : list string) : bool :=
  match l with [] => false | y :: r => String.eqb x y || smemb x r end.
Fixpoint lookup {V} (k : ckey) (l : list (ckey * V)) : option V :=
  match l with [] => None | (k', v) :: r => if ckey_eqb k k' then Some v else lookup k r end.
Fixpoint sassoc {V} (k : string) (l : list (string * V)) : option V :=
  match l with [] => None | (k', v) :: r => if String.eqb k k' then Some v else sassoc k r end.
Fixpoint nassoc {V} (k : nat) (l : list (nat * V)) : option V :=
  match l with [] => None | (k', v) :: r => if Nat.eqb k k' then Some v else nassoc k r end.

(* dict assignment: an existing key keeps its position, a new key goes to the end *)
Fixpoint set_attr (k : string) (v : value) (l : list (string * value)) : list (string * value) :=
  match l with
  | [] => [(k, v)]
  | (k', v') :: r => if String.eqb k k' then (k, v) :: r else (k', v') :: set_attr k v r
  end.
Fixpoint del_attr (k : string) (l : list (string * value)) : list (string * value) :=
  match l with
  | [] => []
  | (k', v') :: r => if String.eqb k k' then r else (k', v') :: del_attr k r
  end.

Fixpoint update {A} (l : list A) (i : nat) (x : A) : list A :=
  match l, i with
  | [], _ => []
  | _ :: r, 0 => x :: r
  | y :: r, S i' => y :: update r i' x
  end.

Definition get (st : state) (o : nat) : option obj := nth_error (heap st) o.
Definition put (st : state) (o : nat) (ob : obj) : state := mkState (update (heap st) o ob) (inflight st) (ptab st).
(* current id / limits of a Prior object *)
Definition pid_of (st : state) (p : nat) : nat := match nth_error (ptab st) p with Some (i, _) => i | None => p end.
Definition plim_of (st : state) (p : nat) : Z * Z := match nth_error (ptab st) p with Some (_, l) => l | None => (0, 0)%Z end.

(* what queries may read of an object: its kind and public attributes (never flag or cache) *)
Definition view (st : state) (o : nat) : option (kind * list (string * value)) :=
  match get st o with Some ob => Some (okind ob, oattrs ob) | None => None end.

Definition with_attrs (ob : obj) (a : list (string * value)) : obj :=
  mkObj (okind ob) a (onitems ob) (oidn ob) (ofrozen ob) (ocache ob).
Definition with_nitems (ob : obj) (n : nat) : obj :=
  mkObj (okind ob) (oattrs ob) n (oidn ob) (ofrozen ob) (ocache ob).
Definition with_frozen (ob : obj) (b : bool) : obj :=
  mkObj (okind ob) (oattrs ob) (onitems ob) (oidn ob) b (ocache ob).
Definition with_cache (ob : obj) (c : list (ckey * cval)) : obj :=
  mkObj (okind ob) (oattrs ob) (onitems ob) (oidn ob) (ofrozen ob) c.
Definition with_oidn (ob : obj) (i : nat) : obj :=
  mkObj (okind ob) (oattrs ob) (onitems ob) i (ofrozen ob) (ocache ob).

Definition is_pm_kind (k : kind) : bool := match k with KTuple => false | _ => true end.

Definition string_of_nat (n : nat) : string := NilEmpty.string_of_uint (Nat.to_uint n).

Fixpoint has_us (s : string) : bool :=
  match s with EmptyString => false | String c r => Ascii.eqb c "_"%char || has_us r end.
(* key.rsplit("_", 1)[0]: the part before the LAST underscore *)
Fixpoint before_last_us (s : string) : string :=
  match s with
  | EmptyString => EmptyString
  | String c r => if has_us r then String c (before_last_us r)
                  else if Ascii.eqb c "_"%char then EmptyString else String c r
  end.
Fixpoint before_us (s : string) : string :=
  match s with
  | EmptyString => EmptyString
  | String c r => if Ascii.eqb c "_"%char then EmptyString else String c (before_us r)
  end.

(* stable insertion sorts *)
Fixpoint insert_by {A} (le : A -> A -> bool) (x : A) (l : list A) : list A :=
  match l with
  | [] => [x]
  | y :: r => if le y x then y :: insert_by le x r else x :: l
  end.
Definition sort_by {A} (le : A -> A -> bool) (l : list A) : list A :=
  fold_left (fun acc x => insert_by le x acc) l [].

Definition leaf_pid (l : leaf) : nat := match l with LPrior p => p | _ => 0 end.
(* priors order, compare and hash by their CURRENT id (idf : Prior object -> id) *)
Definition leaf_id (idf : nat -> nat) (l : leaf) : nat := match l with LPrior p => idf p | _ => 0 end.
Definition item_id_le (idf : nat -> nat) (a b : item) : bool := Nat.leb (leaf_id idf (snd a)) (leaf_id idf (snd b)).
Definition leaf_same (idf : nat -> nat) (a b : leaf) : bool :=
  match a, b with
  | LPrior p, LPrior q => Nat.eqb (idf p) (idf q)
  | LConst c, LConst d => Z.eqb c d
  | LObj o, LObj p => Nat.eqb o p
  | _, _ => false
  end.
Definition str_le (a b : string) : bool :=
  match String.compare a b with Gt => false | _ => true end.

(* list({t[1]: t for t in l}.values()): position of the first occurrence, value of the last;
   the KEY object stays the first one *)
Fixpoint dict_put (idf : nat -> nat) (it : item) (d : list item) : list item :=
  match d with
  | [] => [it]
  | it' :: r => if leaf_same idf (snd it) (snd it') then (fst it, snd it) :: r else it' :: dict_put idf it r
  end.
Definition dedup_last (idf : nat -> nat) (l : list item) : list item := fold_left (fun d it => dict_put idf it d) l [].
(* answers name priors by their current id *)
Definition out_leaf (idf : nat -> nat) (l : leaf) : leaf := match l with LPrior p => LPrior (idf p) | x => x end.
Definition out_items (idf : nat -> nat) (l : list item) : list item := map (fun it : item => (fst it, out_leaf idf (snd it))) l.

Definition last_name (p : path) : path :=
  match rev p with [] => [""] | x :: _ => [x] end.
Definition item_name (it : item) : string := match fst it with x :: _ => x | [] => "" end.
Definition item_oid (it : item) : nat := match snd it with LObj o => o | _ => 0 end.

(* ------------------------------------------------------------------ the walk *)
Definition sel_prior (s : sel) : bool := match s with STuple | SModelRec | SConfig => false | _ => true end.
Definition sel_float (s : sel) : bool := match s with SInfo | SParam => true | _ => false end.
Definition sel_obj (s : sel) (k : kind) : bool := match s, k with STuple, KTuple => true | _, _ => false end.
(* matched but, with ignore_children=False, searched further *)
Definition sel_also (s : sel) (k : kind) : bool := match s, k with SModelRec, KModel _ => true | _, _ => false end.

Inductive wres := WList (l : list item) | WPromise.

(* the loop over `d.items()` inside the try block: a RecursionPromise coming back from a
   child raises TypeError when iterated, which the enclosing `except` turns into
   "return the results collected so far" *)
Fixpoint walk_list (f : value -> wres) (l : list (string * value)) : list item :=
  match l with
  | [] => []
  | (k, v) :: r =>
      match f v with
      | WPromise => []
      | WList items => map (fun it => (k :: fst it, snd it)) items ++ walk_list f r
      end
  end.

(* `vis` = objects whose walk is in progress (their ids sit in the recursion cache) *)
Fixpoint walk_val (st : state) (n : nat) (s : sel) (vis : list nat) (v : value) : wres :=
  match v with
  | VPrior p => WList (if sel_prior s then [([], LPrior p)] else [])
  | VConst c => WList (if sel_float s then [([], LConst c)] else [])
  | VRef o =>
      if memb o (inflight st) || memb o vis then WPromise
      else match n with
           | 0 => WList []
           | S n' =>
               match get st o with
               | None => WList []
               | Some ob =>
                   if sel_obj s (okind ob) then WList [([], LObj o)]
                   else WList ((if sel_also s (okind ob) then [([], LObj o)] else [])
                               ++ walk_list (walk_val st n' s (o :: vis)) (oattrs ob))
               end
           end
  end.

Definition walk_top (st : state) (s : sel) (o : nat) : cval :=
  match walk_val st FUEL s [] (VRef o) with WList l => CList l | WPromise => CPromise end.

(* direct_tuples_with_type *)
Definition direct_match (st : state) (d : dsel) (v : value) : option leaf :=
  match d, v with
  | DPrior, VPrior p => Some (LPrior p)
  | DFloat, VConst c => Some (LConst c)
  | DTuple, VRef o => match get st o with
                      | Some ob => match okind ob with KTuple => Some (LObj o) | _ => None end
                      | None => None end
  | DPriorModel, VRef o | DAbstractModel, VRef o =>
      match get st o with
      | Some ob => if is_pm_kind (okind ob) then Some (LObj o) else None
      | None => None end
  | _, _ => None
  end.
Fixpoint direct_items (st : state) (d : dsel) (l : list (string * value)) : list item :=
  match l with
  | [] => []
  | (k, v) :: r => match direct_match st d v with
                   | Some lf => ([k], lf) :: direct_items st d r
                   | None => direct_items st d r
                   end
  end.

(* ------------------------------------------------------------------ monad *)
Definition M (A : Type) := state -> state * res A.
Definition ret {A} (a : A) : M A := fun st => (st, Ok a).
Definition raise {A} (e : exn) : M A := fun st => (st, Exn e).
Definition bind {A B} (c : M A) (f : A -> M B) : M B :=
  fun st => let (st1, r) := c st in
            match r with Ok a => f a st1 | Exn e => (st1, Exn e) end.
Definition gets {A} (f : state -> A) : M A := fun st => (st, Ok (f st)).
Notation "x <- c ;; k" := (bind c (fun x => k)) (at level 61, c at next level, right associativity).

Fixpoint mapM {A B} (f : A -> M B) (l : list A) : M (list B) :=
  match l with
  | [] => ret []
  | x :: r => y <- f x ;; ys <- mapM f r ;; ret (y :: ys)
  end.

Definition store (st : state) (o : nat) (k : ckey) (v : cval) : state :=
  match get st o with
  | Some ob => put st o (with_cache ob ((k, v) :: ocache ob))
  | None => st
  end.

(* frozen_cache *)
Definition cached (o : nat) (k : ckey) (body : M cval) : M cval :=
  fun st =>
    match get st o with
    | None => (st, Exn EAttribute)
    | Some ob =>
        if ofrozen ob then
          match lookup k (ocache ob) with
          | Some v => (st, Ok v)
          | None => let (st1, r) := body st in
                    match r with
                    | Ok v => (store st1 o k v, Ok v)
                    | Exn e => (st1, Exn e)
                    end
          end
        else body st
    end.

Definition as_list (c : cval) : M (list item) :=
  match c with CList l => ret l | CPromise => raise ETypeError end.

(* path_instance_tuples_for_class(cls, ...) *)
Definition body_pit (o : nat) (s : sel) : M cval := gets (fun st => walk_top st s o).
Definition call_pit (o : nat) (s : sel) (form : nat) : M cval := cached o (KPit s form) (body_pit o s).

(* attribute_tuples_with_type: iterates the walk result (TypeError on a promise) *)
Definition body_attr (o : nat) (s : sel) : M cval :=
  c <- call_pit o s 1 ;; l <- as_list c ;;
  ret (CList (map (fun it : item => (last_name (fst it), snd it)) l)).
Definition call_attr (o : nat) (s : sel) (form : nat) : M cval := cached o (KAttr s form) (body_attr o s).

Definition body_unique (o : nat) : M cval :=
  c <- call_attr o SPrior 0 ;; l <- as_list c ;; idf <- gets pid_of ;; ret (CList (dedup_last idf l)).
Definition call_unique (o : nat) : M cval := cached o KUnique (body_unique o).

Definition body_ordered (o : nat) : M cval :=
  c <- call_unique o ;; l <- as_list c ;; idf <- gets pid_of ;; ret (CList (sort_by (item_id_le idf) l)).
Definition call_ordered (o : nat) : M cval := cached o KOrdered (body_ordered o).

Definition body_direct (o : nat) (d : dsel) : M cval :=
  gets (fun st => match get st o with
                  | Some ob => CList (direct_items st d (oattrs ob))
                  | None => CList [] end).
Definition call_direct (o : nat) (d : dsel) : M cval := cached o (KDirect d) (body_direct o d).

(* ------------------------------------------------------------------ queries *)
Inductive inst := IVal (c : Z) | ITup (l : list Z) | IRaw | IObj (fields : list (string * inst)).

Inductive answer :=
| AUnit
| ANat (n : nat)
| AItems (l : list item)
| AInst (i : inst)
| AInfo (a : list item) (n : nat) (b : list (path * option nat * nat))
| AGroups (g : list (list path)).

Inductive query := QCount | QPaths | QOrdered | QInstance (v : list Z) | QInfo | QModels (cls : option nat) (izd : bool)
                 | QUnit (quarters : list Z)      (* instance_from_unit_vector([q/4 ...]) *)
                 | QAllPaths
                 | QRaw (k : ckey).               (* the exact return value of one frozen_cache function, in its own order *)

Definition q_count (o : nat) : M nat :=
  c <- call_unique o ;; l <- as_list c ;; ret (List.length l).

(* model_tuples_with_type: Models (found with ignore_children=False) whose class is a subclass of
   cls (the test classes are unrelated: subclass = same class; None stands for `object`) and,
   unless include_zero_dimension, have at least one free parameter *)
Definition cls_match (cls : option nat) (k : kind) : bool :=
  match k, cls with
  | KModel c, Some c' => Nat.eqb c c'
  | KModel _, None => true
  | _, _ => false
  end.
Definition kind_of (st : state) (c : nat) : kind :=
  match view st c with Some (k, _) => k | None => KTuple end.

Definition body_mtt (o : nat) (cls : option nat) (izd : bool) : M cval :=
  c <- call_attr o SModelRec 2 ;; l <- as_list c ;;
  ls <- mapM (fun it : item =>
                k <- gets (fun st => kind_of st (item_oid it)) ;;
                if cls_match cls k then
                  if izd then ret [it]
                  else n <- q_count (item_oid it) ;; ret (if Nat.ltb 0 n then [it] else [])
                else ret []) l ;;
  ret (CList (List.concat ls)).
Definition call_mtt (o : nat) (cls : option nat) (izd : bool) : M cval := cached o (KMtt cls izd) (body_mtt o cls izd).

Definition body_mwt (o : nat) (cls : option nat) (izd : bool) : M cval :=
  c <- call_mtt o cls izd ;; l <- as_list c ;; ret (CList (map (fun it : item => ([], snd it)) l)).
Definition call_mwt (o : nat) (cls : option nat) (izd : bool) : M cval := cached o (KMwt cls izd) (body_mwt o cls izd).

Definition q_models (o : nat) (cls : option nat) (izd : bool) : M (list item) :=
  c <- call_mwt o cls izd ;; as_list c.

(* generic dispatcher (used to state cache validity) *)
Definition call_key (o : nat) (k : ckey) : M cval :=
  match k with
  | KPit s f => call_pit o s f
  | KAttr s f => call_attr o s f
  | KUnique => call_unique o
  | KOrdered => call_ordered o
  | KDirect d => call_direct o d
  | KMtt c z => call_mtt o c z
  | KMwt c z => call_mwt o c z
  end.

Definition q_paths_raw (o : nat) : M (list item) :=
  c <- call_pit o SPrior 0 ;; l <- as_list c ;; idf <- gets pid_of ;; ret (sort_by (item_id_le idf) l).
Definition q_paths (o : nat) : M (list item) :=
  l <- q_paths_raw o ;; idf <- gets pid_of ;; ret (out_items idf l).

Definition q_ordered_raw (o : nat) : M (list item) :=
  c <- call_ordered o ;; as_list c.
Definition q_ordered (o : nat) : M (list item) :=
  l <- q_ordered_raw o ;; idf <- gets pid_of ;; ret (out_items idf l).

(* {prior: value}: keyed by the current id; the key object stays the first, the value is the last *)
Definition args := list (nat * (nat * Z)).
Fixpoint args_put (i p : nat) (v : Z) (a : args) : args :=
  match a with
  | [] => [(i, (p, v))]
  | (j, (q, w)) :: r => if Nat.eqb i j then (j, (q, v)) :: r else (j, (q, w)) :: args_put i p v r
  end.
Definition build_args (idf : nat -> nat) (l : list (nat * Z)) : args :=
  fold_left (fun a pv => args_put (idf (fst pv)) (fst pv) (snd pv) a) l [].

Definition arg_for (idf : nat -> nat) (a : args) (p : nat) : M Z :=
  match nassoc (idf p) a with Some qv => ret (snd qv) | None => raise EKeyError end.

(* TuplePrior.value_for_arguments: prior members ++ float members sorted by name *)
Definition tuple_values (idf : nat -> nat) (a : args) (t : nat) : M inst :=
  ob <- gets (fun st => view st t) ;;
  match ob with
  | None => raise EAttribute
  | Some (_, tattrs) =>
      let pri := filter (fun kv => match snd kv with VPrior _ => true | _ => false end) tattrs in
      let flo := sort_by (fun x y : string * value => str_le (fst x) (fst y))
                   (filter (fun kv => match snd kv with VConst _ => true | _ => false end) tattrs) in
      vs <- mapM (fun kv : string * value =>
                    match snd kv with
                    | VPrior p => arg_for idf a p
                    | VConst c => ret c
                    | VRef _ => ret 0%Z
                    end)
                 (sort_by (fun x y : string * value => str_le (fst x) (fst y)) (pri ++ flo)) ;;
      ret (ITup vs)
  end.

Definition ctor_names (cfg : config) (cls : nat) : list string := nth cls (classes cfg) [].


Definition raw_inst (v : value) : inst := match v with VConst c => IVal c | _ => IRaw end.

Definition is_pm (st : state) (c : nat) : bool :=
  match view st c with Some (k, _) => is_pm_kind k | None => false end.

Fixpoint inst_for (cfg : config) (n : nat) (idf : nat -> nat) (a : args) (o : nat) : M inst :=
  match n with
  | 0 => raise EOther
  | S n' =>
      ob <- gets (fun st => view st o) ;;
      match ob with
      | None => raise EAttribute
      | Some (KTuple, _) => ret IRaw
      | Some (KColl, attrs) =>
          fs <- mapM (fun kv : string * value =>
                        match snd kv with
                        | VPrior p => v <- arg_for idf a p ;; ret (fst kv, IVal v)
                        | VConst c => ret (fst kv, IVal c)
                        | VRef c =>
                            k <- gets (fun st => is_pm st c) ;;
                            if k then i <- inst_for cfg n' idf a c ;; ret (fst kv, i)
                            else ret (fst kv, IRaw)
                        end) attrs ;;
          ret (IObj fs)
      | Some (KModel cls, attrs) =>
          let ctor := ctor_names cfg cls in
          let attribute_arguments := filter (fun kv => smemb (fst kv) ctor) attrs in
          tc <- call_direct o DTuple ;; tl <- as_list tc ;;
          targs <- mapM (fun it => v <- tuple_values idf a (item_oid it) ;; ret (item_name it, v)) tl ;;
          mc <- call_direct o DPriorModel ;; ml <- as_list mc ;;
          margs <- mapM (fun it => v <- inst_for cfg n' idf a (item_oid it) ;; ret (item_name it, v)) ml ;;
          pc <- call_direct o DPrior ;; pl <- as_list pc ;;
          pargs <- mapM (fun it => v <- arg_for idf a (leaf_pid (snd it)) ;; ret (item_name it, IVal v)) pl ;;
          let given := targs ++ margs ++ pargs in
          if forallb (fun kv => smemb (fst kv) ctor) given then
            let fields := map (fun c =>
                match sassoc c pargs with
                | Some i => (c, i)
                | None => match sassoc c (rev (targs ++ margs)) with
                          | Some i => (c, i)
                          | None => match sassoc c attribute_arguments with
                                    | Some v => (c, raw_inst v)
                                    | None => (c, IVal 0)
                                    end
                          end
                end) ctor in
            let extras := flat_map (fun kv : string * value =>
                if smemb (fst kv) ctor then []
                else match snd kv with VConst c => [(fst kv, IVal c)] | _ => [] end) attrs in
            ret (IObj (fields ++ extras))
          else raise ETypeError
      end
  end.

Fixpoint limits_ok (limf : nat -> Z * Z) (a : args) : bool :=
  match a with
  | [] => true
  | (_, (p, v)) :: r => (Z.leb (fst (limf p)) v && Z.leb v (snd (limf p))) && limits_ok limf r
  end.

Definition q_instance (cfg : config) (o : nat) (vec : list Z) : M inst :=
  n <- q_count o ;;
  if negb (Nat.eqb (List.length vec) n) then raise EAssertion
  else
    l <- q_ordered_raw o ;; idf <- gets pid_of ;; limf <- gets plim_of ;;
    let a := build_args idf (combine (map (fun it : item => leaf_pid (snd it)) l) vec) in
    if negb (limits_ok limf a) then raise ELimit
    else inst_for cfg FUEL idf a o.

(* instance_from_unit_vector for uniform priors and units q/4: lower + q * (upper - lower) / 4 *)
Definition q_unit (cfg : config) (o : nat) (qs : list Z) : M inst :=
  ec <- call_attr o SConfig 0 ;; _ <- as_list ec ;;
  n <- q_count o ;;
  if negb (Nat.eqb n (List.length qs)) then raise EAssertion
  else
    l <- q_ordered_raw o ;; idf <- gets pid_of ;; limf <- gets plim_of ;;
    let objs := map (fun it : item => leaf_pid (snd it)) l in
    let vals := map (fun pq : nat * Z => (fst (limf (fst pq)) + snd pq * (snd (limf (fst pq)) - fst (limf (fst pq))) / 4)%Z)
                    (combine objs qs) in
    inst_for cfg FUEL idf (build_args idf (combine objs vals)) o.

(* all_paths: paths grouped per prior (defaultdict keyed by the prior), in id order *)
Fixpoint group_put (idf : nat -> nat) (it : item) (g : list (leaf * list path)) : list (leaf * list path) :=
  match g with
  | [] => [(snd it, [fst it])]
  | (k, ps) :: r => if leaf_same idf (snd it) k then (k, ps ++ [fst it]) :: r else (k, ps) :: group_put idf it r
  end.
Definition q_allpaths (o : nat) : M answer :=
  n <- q_count o ;;
  if Nat.eqb n 0 then ret (AGroups [])
  else
    l <- q_paths_raw o ;; idf <- gets pid_of ;;
    match fold_left (fun g it => group_put idf it g) l [] with
    | [] => raise EOther
    | g => ret (AGroups (map snd (sort_by (fun a b : leaf * list path => Nat.leb (leaf_id idf (fst a)) (leaf_id idf (fst b))) g)))
    end.

(* object_for_path through getattr *)
Fixpoint resolve (st : state) (o : nat) (p : path) : option nat :=
  match p with
  | [] => Some o
  | x :: r => match get st o with
              | Some ob => match sassoc x (oattrs ob) with
                           | Some (VRef c) => resolve st c r
                           | _ => None end
              | None => None end
  end.

Fixpoint prefixes_from (acc : path) (p : path) : list path :=
  (* path[:i] for i in range(len(path)) *)
  match p with
  | [] => []
  | x :: r => acc :: prefixes_from (acc ++ [x]) r
  end.

Definition param_entry (o : nat) (pre : path) : M (list (path * option nat * nat)) :=
  t <- gets (fun st => match resolve st o pre with
                       | Some c => match get st c with Some cb => Some (c, okind cb) | None => None end
                       | None => None end) ;;
  match t with
  | None => raise EAttribute
  | Some (c, KTuple) => ret []
  | Some (c, KModel cls) => n <- q_count c ;; ret [(pre, Some cls, n)]
  | Some (c, KColl) => n <- q_count c ;; ret [(pre, None, n)]
  end.

Definition q_info (o : nat) : M answer :=
  ic <- call_pit o SInfo 2 ;; il <- as_list ic ;;
  n <- q_count o ;;
  pc <- call_pit o SParam 2 ;; pl <- as_list pc ;;
  ents <- mapM (fun it : item => es <- mapM (param_entry o) (prefixes_from [] (fst it)) ;; ret (List.concat es)) pl ;;
  idf <- gets pid_of ;;
  ret (AInfo (out_items idf il) n (List.concat ents)).

Definition run_query (cfg : config) (o : nat) (q : query) : M answer :=
  match q with
  | QCount => n <- q_count o ;; ret (ANat n)
  | QPaths => l <- q_paths o ;; ret (AItems l)
  | QOrdered => l <- q_ordered o ;; ret (AItems l)
  | QInstance v => i <- q_instance cfg o v ;; ret (AInst i)
  | QInfo => q_info o
  | QModels cls izd => l <- q_models o cls izd ;; ret (AItems l)
  | QUnit qs => i <- q_unit cfg o qs ;; ret (AInst i)
  | QAllPaths => q_allpaths o
  | QRaw k => c <- call_key o k ;; l <- as_list c ;; idf <- gets pid_of ;; ret (AItems (out_items idf l))
  end.

(* ------------------------------------------------------------------ freeze / unfreeze *)
Definition modify (o : nat) (f : obj -> obj) : M unit :=
  fun st => match get st o with
            | Some ob => (put st o (f ob), Ok tt)
            | None => (st, Ok tt)
            end.

Definition is_tuple (st : state) (t : nat) : bool :=
  match view st t with Some (KTuple, _) => true | _ => false end.

(* AbstractModel._set_tuple_priors_frozen (proposed repair, gtuple): the TuplePriors in self.__dict__ *)
Definition freeze_tuples (cfg : config) (o : nat) : M unit :=
  if gtuple cfg then
    vw <- gets (fun st => view st o) ;;
    match vw with
    | Some (_, attrs) =>
        _ <- mapM (fun kv : string * value =>
                     match snd kv with
                     | VRef t => k <- gets (fun st => is_tuple st t) ;;
                                 if k then modify t (fun tb => with_frozen tb true) else ret tt
                     | _ => ret tt
                     end) attrs ;;
        ret tt
    | None => ret tt
    end
  else ret tt.

Fixpoint freeze (cfg : config) (n : nat) (o : nat) : M unit :=
  match n with
  | 0 => raise EOther
  | S n' =>
      c <- call_direct o DAbstractModel ;; l <- as_list c ;;
      _ <- mapM (fun it : item => if Nat.eqb (item_oid it) o then ret tt else freeze cfg n' (item_oid it)) l ;;
      _ <- freeze_tuples cfg o ;;
      modify o (fun ob => with_frozen ob true)
  end.

(* unfreeze: `_is_frozen = False` first, so direct_tuples_with_type is evaluated uncached;
   no exception can occur, hence a plain state function *)
Definition pm_children (st : state) (l : list (string * value)) : list nat :=
  map item_oid (direct_items st DAbstractModel l).
Definition tuple_children (st : state) (l : list (string * value)) : list nat :=
  flat_map (fun kv : string * value => match snd kv with VRef t => if is_tuple st t then [t] else [] | _ => [] end) l.
(* (a TuplePrior has no cache; resetting the field keeps "unfrozen objects have empty caches" syntactic) *)
Definition thaw_tuple (st : state) (t : nat) : state :=
  match get st t with Some tb => put st t (with_cache (with_frozen tb false) []) | None => st end.

Fixpoint unfreeze_st (cfg : config) (n : nat) (o : nat) (st : state) : state :=
  match n with
  | 0 => st
  | S n' =>
      match get st o with
      | None => st
      | Some ob =>
          let st1 := put st o (with_frozen ob false) in
          let st2 := fold_left (fun s c => if Nat.eqb c o then s else unfreeze_st cfg n' c s)
                               (pm_children st1 (oattrs ob)) st1 in
          let st3 := if gtuple cfg then fold_left thaw_tuple (tuple_children st2 (oattrs ob)) st2 else st2 in
          match get st3 o with
          | Some ob3 => put st3 o (with_cache ob3 [])
          | None => st3
          end
      end
  end.
Definition unfreeze (cfg : config) (n : nat) (o : nat) : M unit := fun st => (unfreeze_st cfg n o st, Ok tt).

(* proposed repair `epochs`: every accepted modification of any model invalidates every frozen cache
   (lazily in the code, through a process-wide counter; eagerly here -- caches are only observable
   through later queries) *)
Definition clear_all (st : state) : state :=
  mkState (map (fun ob => with_cache ob []) (heap st)) (inflight st) (ptab st).
Definition bump (cfg : config) (counts : bool) (c : M unit) : M unit :=
  fun st => let (st1, r) := c st in
            match r with
            | Ok _ => ((if epochs cfg && counts then clear_all st1 else st1), r)
            | Exn _ => (st1, r)
            end.

(* ------------------------------------------------------------------ modification *)
(* does assigning v as a component of a Model raise? (`value.label = namer(key)` hits the guard of a frozen
   Model / Collection and, since b49160e, of a frozen TuplePrior) *)
Definition frozen_pm (cfg : config) (st : state) (v : value) : bool :=
  match v with
  | VRef c => match get st c with
              | Some cb => (is_pm_kind (okind cb) || gtuple cfg) && ofrozen cb
              | None => false end
  | _ => false
  end.

(* setattr(obj, name, v) *)
Definition op_set (cfg : config) (o : nat) (name : string) (v : value) : M unit :=
  ob <- gets (fun st => get st o) ;;
  match ob with
  | None => raise EAttribute
  | Some ob =>
      match okind ob with
      | KTuple =>
          if gtuple cfg && ofrozen ob then raise EAssertion
          else modify o (fun ob => with_attrs ob (set_attr name v (oattrs ob)))
      | KColl =>
          if ofrozen ob then raise EAssertion
          else modify o (fun ob => with_attrs ob (set_attr name v (oattrs ob)))
      | KModel cls =>
          if ofrozen ob then raise EAssertion
          else
            (* value.label = namer(key): a frozen model refuses the `_label` assignment *)
            fz <- gets (fun st => frozen_pm cfg st v) ;;
            if fz then raise EAssertion
            else if has_us name then
              (* self.tuple_prior_tuples: uncached, the target is not frozen here *)
              tl <- gets (fun st => direct_items st DTuple (oattrs ob)) ;;
              (* name_0, name_1 ... are members of the tuple argument "name" (prefix before the last
                 underscore); a constructor argument always stays an attribute of the model itself *)
              match filter (fun it => String.eqb (item_name it) (before_last_us name)) tl with
              | it :: _ =>
                  if smemb name (ctor_names cfg cls)
                  then modify o (fun ob => with_attrs ob (set_attr name v (oattrs ob)))
                  else
                    tf <- gets (fun st => match get st (item_oid it) with Some tb => ofrozen tb | None => false end) ;;
                    if gtuple cfg && tf then raise EAssertion
                    else modify (item_oid it) (fun tb => with_attrs tb (set_attr name v (oattrs tb)))
              | [] => modify o (fun ob => with_attrs ob (set_attr name v (oattrs ob)))
              end
            else modify o (fun ob => with_attrs ob (set_attr name v (oattrs ob)))
      end
  end.

(* Collection.append *)
Definition op_append (o : nat) (v : value) : M unit :=
  ob <- gets (fun st => get st o) ;;
  match ob with
  | None => raise EAttribute
  | Some ob =>
      match okind ob with
      | KColl =>
          if ofrozen ob then raise EAssertion
          else modify o (fun ob => with_nitems (with_attrs ob (set_attr (string_of_nat (onitems ob)) v (oattrs ob)))
                                               (S (onitems ob)))
      | _ => raise EAttribute
      end
  end.

(* delattr(obj, name): object.__delattr__, no frozen check anywhere *)
(* which objects have an assert_not_frozen __delattr__: none today; Model / Collection with the proposed gdel,
   TuplePrior with the proposed gtuple *)
Definition del_guarded (cfg : config) (k : kind) : bool :=
  match k with KTuple => gtuple cfg | _ => gdel cfg end.
Definition op_del (cfg : config) (o : nat) (name : string) : M unit :=
  ob <- gets (fun st => get st o) ;;
  match ob with
  | None => raise EAttribute
  | Some ob =>
      if del_guarded cfg (okind ob) && ofrozen ob then raise EAssertion else
      match sassoc name (oattrs ob) with
      | None => raise EAttribute
      | Some _ => modify o (fun ob => with_attrs ob (del_attr name (oattrs ob)))
      end
  end.

(* obj.has_instance("not a type"): isinstance raises inside the walk of `obj` itself *)
Definition op_failwalk (cfg : config) (o : nat) : M unit :=
  fun st =>
    if cleanup cfg || memb o (inflight st) then (st, Exn ETypeError)
    else (mkState (heap st) (o :: inflight st) (ptab st), Exn ETypeError).

(* ------------------------------------------------------------------ new / copy *)
Definition new_obj (st : state) (k : kind) (a : list (string * value)) (ni : nat) : obj :=
  mkObj k a ni (1000 + List.length (heap st)) false [].
Definition op_new (cfg : config) (k : kind) (a : list (string * value)) (ni : nat) : M unit :=
  fun st =>
    match k with
    | KModel _ =>
        if existsb (fun kv => frozen_pm cfg st (snd kv)) a then (st, Exn EAssertion)
        else (mkState (heap st ++ [new_obj st k a ni]) (inflight st) (ptab st), Ok tt)
    | _ => (mkState (heap st ++ [new_obj st k a ni]) (inflight st) (ptab st), Ok tt)
    end.

(* copy.deepcopy / pickle round trip: preorder, memoised, attribute order; __getstate__ drops the cache and keeps
   `_is_frozen`; Prior objects are copied too (new object, same id and limits).  The database form
   (db.Object.from_object(m)()) is the same walk without memo (shared children are duplicated) and without
   any frozen flag.  `cbase` = size of the heap before the copy: only new objects are ever written. *)
Record cstate := mkC { cheap : list obj; cmemo : list (nat * nat); cptab : list (nat * (Z * Z)); cpmemo : list (nat * nat);
                       cbase : nat; cbad : bool }.

Fixpoint copy_attrs (f : value -> cstate -> cstate * value) (l : list (string * value)) (cs : cstate)
  : cstate * list (string * value) :=
  match l with
  | [] => (cs, [])
  | (k, v) :: r => let (cs1, v') := f v cs in
                   let (cs2, r') := copy_attrs f r cs1 in
                   (cs2, (k, v') :: r')
  end.

(* AbstractModel.__setstate__ -> _set_tuple_priors_frozen(flag): the TuplePriors among the attributes get the
   owner's flag (objects below `base` are never touched) *)
(* str.isdigit() on attribute names *)
Fixpoint all_digits (s : string) : bool :=
  match s with
  | EmptyString => true
  | String c r => (Nat.leb 48 (Ascii.nat_of_ascii c) && Nat.leb (Ascii.nat_of_ascii c) 57) && all_digits r
  end.
Definition is_digits (s : string) : bool := match s with EmptyString => false | _ => all_digits s end.
(* int(name) of a positional name *)
Fixpoint digits_value (acc : nat) (s : string) : nat :=
  match s with
  | EmptyString => acc
  | String c r => digits_value (10 * acc + (Ascii.nat_of_ascii c - 48)) r
  end.
(* the database form does not store item_number: since acffd7c it is rebuilt as (highest positional name + 1), default 0,
   so that append never overwrites an item (be6bafa counted the positional children) *)
Definition db_nitems (ob : obj) : nat :=
  match okind ob with
  | KColl => fold_left (fun m kv => if is_digits (fst kv) then Nat.max m (S (digits_value 0 (fst kv))) else m) (oattrs ob) 0
  | _ => onitems ob
  end.

Definition retuple_one (b : bool) (base : nat) (h : list obj) (kv : string * value) : list obj :=
  match snd kv with
  | VRef u =>
      if Nat.leb base u then
        match nth_error h u with
        | Some ub => match okind ub with
                     | KTuple => update h u (with_cache (with_frozen ub b) [])
                     | _ => h
                     end
        | None => h
        end
      else h
  | _ => h
  end.
Definition retuple (b : bool) (base : nat) (h : list obj) (attrs : list (string * value)) : list obj :=
  fold_left (retuple_one b base) attrs h.

Fixpoint copy_val (cfg : config) (db : bool) (n : nat) (v : value) (cs : cstate) : cstate * value :=
  match v with
  | VConst _ => (cs, v)
  | VPrior p =>
      match (if db then None else nassoc p (cpmemo cs)) with
      | Some p' => (cs, VPrior p')
      | None =>
          match nth_error (cptab cs) p with
          | None => (cs, v)
          | Some e => (mkC (cheap cs) (cmemo cs) (cptab cs ++ [e]) ((p, List.length (cptab cs)) :: cpmemo cs) (cbase cs) (cbad cs),
                       VPrior (List.length (cptab cs)))
          end
      end
  | VRef c =>
      match (if db then None else nassoc c (cmemo cs)) with
      | Some c' => (cs, VRef c')
      | None =>
          match n with
          | 0 => (cs, v)
          | S n' =>
              match nth_error (cheap cs) c with
              | None => (cs, v)
              | Some ob =>
                  let id := List.length (cheap cs) in
                  let nb := if db then with_nitems (with_frozen (with_cache ob []) false) (db_nitems ob) else with_cache ob [] in
                  let bad := cbad cs || (db && ofrozen ob && negb (is_pm_kind (okind ob))) in
                  let cs1 := mkC (cheap cs ++ [nb]) ((c, id) :: cmemo cs) (cptab cs) (cpmemo cs) (cbase cs) bad in
                  let (cs2, a') := copy_attrs (copy_val cfg db n') (oattrs ob) cs1 in
                  let fin := with_attrs nb a' in
                  let h3 := update (cheap cs2) id fin in
                  let h4 := if gtuple cfg && trestore cfg && is_pm_kind (okind ob)
                            then retuple (ofrozen fin) (cbase cs2) h3 a' else h3 in
                  (mkC h4 (cmemo cs2) (cptab cs2) (cpmemo cs2) (cbase cs2) (cbad cs2), VRef id)
              end
          end
      end
  end.

Definition copy_start (st : state) : cstate := mkC (heap st) [] (ptab st) [] (List.length (heap st)) false.

Definition op_copy (cfg : config) (o : nat) : M unit :=
  fun st => let (cs, _) := copy_val cfg false FUEL (VRef o) (copy_start st) in
            (mkState (cheap cs) (inflight st) (cptab cs), Ok tt).

(* the other ways of restoring a model from stored state *)
Inductive rmode := RShallow     (* copy.copy: a new object sharing every component *)
                 | RDatabase.   (* db.Object.from_object(m)(): rebuilt from the database form *)

Definition op_restore (cfg : config) (o : nat) (m : rmode) : M unit :=
  fun st =>
    match m with
    | RShallow =>
        match get st o with
        | None => (st, Exn EAttribute)
        | Some ob =>
            let h1 := heap st ++ [with_cache ob []] in
            let h2 := if gtuple cfg && trestore cfg && is_pm_kind (okind ob)
                      then retuple (ofrozen ob) 0 h1 (oattrs ob) else h1 in
            (mkState h2 (inflight st) (ptab st), Ok tt)
        end
    | RDatabase =>
        let (cs, _) := copy_val cfg true FUEL (VRef o) (copy_start st) in
        (* before 916e580 the stored `_is_frozen = True` of a tuple prior was restored before its members *)
        if gtuple cfg && negb (trestore cfg) && cbad cs then (st, Exn EAssertion)
        else (mkState (cheap cs) (inflight st) (cptab cs), Ok tt)
    end.

(* Collection.__setitem__: `obj.id = getattr(self, str(key)).id` -- the id of whatever sat under
   the key is written INTO the assigned object (a Prior shared with other models included) *)
Definition set_pid (p i : nat) : M unit :=
  fun st => match nth_error (ptab st) p with
            | Some (_, l) => (mkState (heap st) (inflight st) (update (ptab st) p (i, l)), Ok tt)
            | None => (st, Ok tt)
            end.
Definition value_id (st : state) (v : value) : option nat :=
  match v with
  | VPrior q => Some (pid_of st q)
  | VRef c => match get st c with Some cb => Some (oidn cb) | None => None end
  | VConst _ => None
  end.

Definition op_setitem (cfg : config) (o : nat) (key : string) (v : value) : M unit :=
  ob <- gets (fun st => get st o) ;;
  match ob with
  | None => raise EAttribute
  | Some ob =>
      match okind ob with
      | KColl =>
          if ofrozen ob then raise EAssertion
          else
            old <- gets (fun st => match sassoc key (oattrs ob) with Some w => value_id st w | None => None end) ;;
            _ <- match (if itransfers cfg then old else None), v with
                 | Some i, VPrior p => set_pid p i
                 | Some i, VRef c =>
                     fz <- gets (fun st => frozen_pm cfg st v) ;;
                     if fz then raise EAssertion else modify c (fun cb => with_oidn cb i)
                 | _, _ => ret tt
                 end ;;
            modify o (fun ob => with_attrs ob (set_attr key v (oattrs ob)))
      | _ => raise EAttribute
      end
  end.

(* mapper_from_prior_arguments({p: p for p in self.priors}) -> gaussian_prior_model_for_arguments:
   a new model is built and thrown away; what remains is what it did to `self` *)
Fixpoint derive (cfg : config) (n : nat) (idf : nat -> nat) (a : list nat) (o : nat) : M unit :=
  match n with
  | 0 => raise EOther
  | S n' =>
      vw <- gets (fun st => view st o) ;;
      let need := fun p : nat => if memb (idf p) a then ret tt else raise EKeyError in
      match vw with
      | None => raise EAttribute
      | Some (KTuple, _) => ret tt
      | Some (KColl, attrs) =>
          _ <- mapM (fun kv : string * value =>
                       match snd kv with
                       | VPrior p => need p
                       | VConst _ => ret tt
                       | VRef c => k <- gets (fun st => is_pm st c) ;; if k then derive cfg n' idf a c else ret tt
                       end) attrs ;;
          ret tt
      | Some (KModel _, _) =>
          _ <- (if dthaws cfg then unfreeze cfg FUEL o else ret tt) ;;
          (* the code reads self.direct_prior_tuples, tuple_prior_tuples, direct_instance_tuples and
             direct_prior_model_tuples: frozen_cache functions (cached when `self` is still frozen) *)
          pc <- call_direct o DPrior ;; pl <- as_list pc ;;
          _ <- mapM (fun it : item => need (leaf_pid (snd it))) pl ;;
          tc <- call_direct o DTuple ;; tl <- as_list tc ;;
          _ <- mapM (fun it : item =>
                       tv <- gets (fun st => view st (item_oid it)) ;;
                       match tv with
                       | Some (_, tattrs) =>
                           _ <- mapM (fun m : string * value => match snd m with VPrior p => need p | _ => ret tt end) tattrs ;;
                           ret tt
                       | None => ret tt
                       end) tl ;;
          fc <- call_direct o DFloat ;; _ <- as_list fc ;;
          mc <- call_direct o DPriorModel ;; ml <- as_list mc ;;
          _ <- mapM (fun it : item => derive cfg n' idf a (item_oid it)) ml ;;
          ret tt
      end
  end.

Definition op_derive (cfg : config) (o : nat) : M unit :=
  c <- call_attr o SPrior 1 ;; l <- as_list c ;; idf <- gets pid_of ;;
  derive cfg FUEL idf (map (fun it : item => leaf_id idf (snd it)) l) o.

(* ------------------------------------------------------------------ operations *)
Inductive op :=
| ONew (k : kind) (a : list (string * value)) (ni : nat)
| OQuery (o : nat) (q : query)
| OFreeze (o : nat)
| OUnfreeze (o : nat)
| OSet (o : nat) (name : string) (v : value)
| OSetItem (o : nat) (key : string) (v : value)
| ODerive (o : nat)
| OAppend (o : nat) (v : value)
| ODel (o : nat) (name : string)
| OCopy (o : nat)
| ORestore (o : nat) (m : rmode)
| OFailWalk (o : nat).

Definition unit_ans (c : M unit) : M answer := _ <- c ;; ret AUnit.

(* does a successful setattr / delattr on object o pass through an assert_not_frozen wrapper? *)
Definition counted_target (cfg : config) (st : state) (o : nat) : bool :=
  match get st o with Some ob => is_pm_kind (okind ob) || gtuple cfg | None => false end.

Definition step (cfg : config) (x : op) : M answer :=
  match x with
  | ONew k a ni => unit_ans (bump cfg true (op_new cfg k a ni))
  | OQuery o q => run_query cfg o q
  | OFreeze o => unit_ans (freeze cfg FUEL o)
  | OUnfreeze o => unit_ans (unfreeze cfg FUEL o)
  | OSet o name v => unit_ans (fun st => bump cfg (counted_target cfg st o) (op_set cfg o name v) st)
  | OSetItem o key v => unit_ans (bump cfg true (op_setitem cfg o key v))
  | ODerive o => unit_ans (op_derive cfg o)
  | OAppend o v => unit_ans (bump cfg true (op_append o v))
  | ODel o name => unit_ans (fun st => bump cfg (match get st o with Some ob => del_guarded cfg (okind ob) | None => false end)
                                            (op_del cfg o name) st)
  | OCopy o => unit_ans (bump cfg true (op_copy cfg o))
  | ORestore o m => unit_ans (bump cfg true (op_restore cfg o m))
  | OFailWalk o => unit_ans (op_failwalk cfg o)
  end.

Definition init (cfg : config) : state := mkState [] [] (priors cfg).

Fixpoint run (cfg : config) (ops : list op) (st : state) : state * list (res answer) :=
  match ops with
  | [] => (st, [])
  | x :: r => let (st1, a) := step cfg x st in
              let (st2, rest) := run cfg r st1 in
              (st2, a :: rest)
  end.

(* ------------------------------------------------------------------ correspondence *)
Fixpoint inst_eqb (a b : inst) : bool :=
  match a, b with
  | IVal c, IVal d => Z.eqb c d
  | ITup l, ITup m => list_eqb Z.eqb l m
  | IRaw, IRaw => true
  | IObj f, IObj g =>
      (fix go (f g : list (string * inst)) : bool :=
         match f, g with
         | [], [] => true
         | (k, i) :: f', (k', i') :: g' => String.eqb k k' && inst_eqb i i' && go f' g'
         | _, _ => false
         end) f g
  | _, _ => false
  end.

Definition pent_eqb (a b : path * option nat * nat) : bool :=
  path_eqb (fst (fst a)) (fst (fst b)) && optnat_eqb (snd (fst a)) (snd (fst b)) && Nat.eqb (snd a) (snd b).

Definition answer_eqb (a b : answer) : bool :=
  match a, b with
  | AUnit, AUnit => true
  | ANat n, ANat m => Nat.eqb n m
  | AItems l, AItems m => list_eqb item_eqb l m
  | AInst i, AInst j => inst_eqb i j
  | AInfo a1 n1 b1, AInfo a2 n2 b2 => list_eqb item_eqb a1 a2 && Nat.eqb n1 n2 && list_eqb pent_eqb b1 b2
  | AGroups g, AGroups h => list_eqb (list_eqb path_eqb) g h
  | _, _ => false
  end.
Definition outcome_eqb (a b : res answer) : bool :=
  match a, b with
  | Ok x, Ok y => answer_eqb x y
  | Exn e, Exn f => exn_eqb e f
  | _, _ => false
  end.

(* a case = configuration, operation history, and the implementation's outcome of every
   operation; the frozen flags of all live objects at the end are compared too *)
Inductive case := Case (classes : list (list string)) (priors : list (nat * (Z * Z)))
                       (ops : list op) (outs : list (res answer)) (frozen_end : list bool).

Definition check_case (c : case) : bool :=
  match c with
  | Case cl pr ops outs fz =>
      let cfg := mkConfig cl pr wrapper_cleanup derive_thaws setitem_transfers delattr_guarded tuples_frozen
                          cache_counts_modifications tuple_flag_restored in
      let (st, got) := run cfg ops (init cfg) in
      list_eqb outcome_eqb got outs && list_eqb Bool.eqb (map ofrozen (heap st)) fz
  end.
