(* C13 proofs, part 2: freeze / unfreeze keep the invariant and the composition; locality of
   the cached functions (they read only objects reachable from their receiver); modifications
   that are "quiet" (touch nothing below a frozen object) keep the invariant. *)
From Coq Require Import ZArith List String Bool Arith Lia.
From PAFC13 Require Import Model Proofs1.
Import ListNotations.
Open Scope list_scope.
Local Opaque FUEL.

(* ------------------------------------------------------------------ composition-preserving steps *)
Definition Pres {A} (c : M A) : Prop :=
  forall st, Inv st -> Inv (fst (c st)) /\ thaw (fst (c st)) = thaw st.

Lemma Coh_Pres : forall {A} (c : M A), Coh c -> Pres c.
Proof. intros A c H st HI. destruct (H st HI) as (I & S & _). split; auto. now apply skel_thaw. Qed.

Lemma Pres_ret : forall {A} (a : A), Pres (ret a).
Proof. intros A a st H. simpl. auto. Qed.
Lemma Pres_raise : forall {A} e, Pres (@raise A e).
Proof. intros A e st H. simpl. auto. Qed.

Lemma Pres_bind : forall {A B} (c : M A) (f : A -> M B), Pres c -> (forall a, Pres (f a)) -> Pres (bind c f).
Proof.
  intros A B c f Hc Hf st HI. unfold bind. destruct (Hc st HI) as (I1 & T1).
  destruct (c st) as [st1 r]. simpl in *. destruct r as [a|e]; simpl; auto.
  destruct (Hf a st1 I1) as (I2 & T2). split; auto. congruence.
Qed.

Lemma Pres_mapM : forall {A B} (f : A -> M B) l, (forall a, Pres (f a)) -> Pres (mapM f l).
Proof.
  induction l as [|x l IH]; intros H; simpl; [apply Pres_ret|].
  apply Pres_bind; [apply H|]. intros y. apply Pres_bind; [now apply IH|]. intros; apply Pres_ret.
Qed.

Lemma pure_key_thaw_eq : forall st1 st2 o k, thaw st1 = thaw st2 -> pure_key st1 o k = pure_key st2 o k.
Proof. intros. rewrite <- (pure_key_thaw st1), <- (pure_key_thaw st2). now rewrite H. Qed.

Lemma thaw_put : forall st o ob ob', get st o = Some ob -> thaw_obj ob' = thaw_obj ob -> thaw (put st o ob') = thaw st.
Proof.
  intros st o ob ob' G E. unfold thaw, put. simpl. f_equal. rewrite map_update, E.
  apply update_same. unfold get in G. now apply map_nth_error.
Qed.

(* a state whose frozen objects' cache entries are cache entries of frozen objects of st *)
Lemma valid_mono : forall st st', valid st -> thaw st' = thaw st ->
  (forall o ob' k v, get st' o = Some ob' -> ofrozen ob' = true -> lookup k (ocache ob') = Some v ->
     exists ob, get st o = Some ob /\ ofrozen ob = true /\ lookup k (ocache ob) = Some v) ->
  valid st'.
Proof.
  intros st st' V T H o ob' k v G F L. destruct (H o ob' k v G F L) as (ob & G0 & F0 & Hl).
  rewrite (pure_key_thaw_eq st' st) by exact T. apply (V o ob k v); auto.
Qed.

Lemma Pres_set_frozen : forall o, Pres (modify o (fun ob => with_frozen ob true)).
Proof.
  intros o st [V U]. unfold modify. destruct (get st o) as [ob|] eqn:G; simpl; [|split; [split|]; auto].
  assert (T : thaw (put st o (with_frozen ob true)) = thaw st) by (now apply (thaw_put st o ob)).
  split; [split|exact T].
  - apply (valid_mono st); auto. intros o' ob' k v G' F' L.
    destruct (Nat.eq_dec o o') as [->|Hne].
    + rewrite (get_put_eq _ _ _ _ G) in G'. injection G' as <-. simpl in L.
      destruct (ofrozen ob) eqn:Fz.
      * exists ob. auto.
      * rewrite (U o' ob G Fz) in L. discriminate.
    + rewrite get_put_neq in G' by auto. exists ob'. auto.
  - intros o' ob' G' F'. destruct (Nat.eq_dec o o') as [->|Hne].
    + rewrite (get_put_eq _ _ _ _ G) in G'. injection G' as <-. simpl in F'. discriminate.
    + rewrite get_put_neq in G' by auto. now apply (U o' ob').
Qed.

Lemma Pres_gets0 : forall {A} (f : state -> A), Pres (gets f).
Proof. intros A f st H. simpl. auto. Qed.

Lemma Pres_freeze_tuples : forall cfg o, Pres (freeze_tuples cfg o).
Proof.
  intros cfg o. unfold freeze_tuples. destruct (gtuple cfg); [|apply Pres_ret].
  apply Pres_bind; [apply Pres_gets0|]. intros [[k attrs]|]; [|apply Pres_ret].
  apply Pres_bind; [|intros; apply Pres_ret].
  apply Pres_mapM. intros [kk v]. simpl. destruct v as [p|c|t]; try apply Pres_ret.
  apply Pres_bind; [apply Pres_gets0|]. intros [|]; [apply Pres_set_frozen|apply Pres_ret].
Qed.

Lemma Pres_freeze : forall cfg n o, Pres (freeze cfg n o).
Proof.
  intros cfg. induction n as [|n IH]; intros o; simpl; [apply Pres_raise|].
  apply Pres_bind; [apply Coh_Pres, Coh_call_direct|]. intros c.
  apply Pres_bind; [apply Coh_Pres, Coh_as_list|]. intros l.
  apply Pres_bind.
  { apply Pres_mapM. intros it. destruct (Nat.eqb (item_oid it) o); [apply Pres_ret|apply IH]. }
  intros _. apply Pres_bind; [apply Pres_freeze_tuples|]. intros; apply Pres_set_frozen.
Qed.

(* unfreeze *)
Definition empty_except (S : list nat) (st : state) : Prop :=
  forall o ob, get st o = Some ob -> ofrozen ob = false -> In o S \/ ocache ob = [].

Lemma thaw_tuple_ok : forall S t s, valid s -> empty_except S s ->
  valid (thaw_tuple s t) /\ empty_except S (thaw_tuple s t) /\ thaw (thaw_tuple s t) = thaw s.
Proof.
  intros S t s V E. unfold thaw_tuple. destruct (get s t) as [tb|] eqn:G; auto.
  assert (T : thaw (put s t (with_cache (with_frozen tb false) [])) = thaw s) by (now apply (thaw_put s t tb)).
  split; [|split; auto].
  - apply (valid_mono s); auto. intros o' ob' k v G' F' L. destruct (Nat.eq_dec t o') as [->|Hne].
    + rewrite (get_put_eq _ _ _ _ G) in G'. injection G' as <-. simpl in F'. discriminate.
    + rewrite get_put_neq in G' by auto. exists ob'. auto.
  - intros o' ob' G' F'. destruct (Nat.eq_dec t o') as [->|Hne].
    + rewrite (get_put_eq _ _ _ _ G) in G'. injection G' as <-. now right.
    + rewrite get_put_neq in G' by auto. now apply (E o' ob').
Qed.

Lemma thaw_tuples_ok : forall S ts s, valid s -> empty_except S s ->
  valid (fold_left thaw_tuple ts s) /\ empty_except S (fold_left thaw_tuple ts s) /\ thaw (fold_left thaw_tuple ts s) = thaw s.
Proof.
  intros S. induction ts as [|t ts IH]; intros s V E; simpl; auto.
  destruct (thaw_tuple_ok S t s V E) as (V1 & E1 & T1). destruct (IH _ V1 E1) as (V2 & E2 & T2).
  split; auto. split; auto. congruence.
Qed.

Lemma unfreeze_st_ok : forall cfg n o st S, valid st -> empty_except S st ->
  valid (unfreeze_st cfg n o st) /\ empty_except S (unfreeze_st cfg n o st) /\ thaw (unfreeze_st cfg n o st) = thaw st.
Proof.
  intros cfg. induction n as [|n IH]; intros o st S V E; simpl; auto.
  destruct (get st o) as [ob|] eqn:G; auto.
  set (st1 := put st o (with_frozen ob false)).
  assert (T1 : thaw st1 = thaw st) by (now apply (thaw_put st o ob)).
  assert (V1 : valid st1).
  { apply (valid_mono st); auto. intros o' ob' k v G' F' L. destruct (Nat.eq_dec o o') as [->|Hne].
    - unfold st1 in G'. rewrite (get_put_eq _ _ _ _ G) in G'. injection G' as <-. simpl in F'. discriminate.
    - unfold st1 in G'. rewrite get_put_neq in G' by auto. exists ob'. auto. }
  assert (E1 : empty_except (o :: S) st1).
  { intros o' ob' G' F'. destruct (Nat.eq_dec o o') as [->|Hne]; [left; now left|].
    unfold st1 in G'. rewrite get_put_neq in G' by auto. destruct (E o' ob' G' F'); auto. left. now right. }
  assert (Hfold : forall kids s, valid s -> empty_except (o :: S) s ->
            let s' := fold_left (fun s c => if Nat.eqb c o then s else unfreeze_st cfg n c s) kids s in
            valid s' /\ empty_except (o :: S) s' /\ thaw s' = thaw s).
  { induction kids as [|c kids IHk]; intros s Vs Es; simpl; auto.
    destruct (Nat.eqb c o).
    - apply IHk; auto.
    - destruct (IH c s (o :: S) Vs Es) as (V' & E' & T').
      destruct (IHk _ V' E') as (V'' & E'' & T''). split; auto. split; auto. congruence. }
  destruct (Hfold (pm_children st1 (oattrs ob)) st1 V1 E1) as (V2' & E2' & T2').
  set (st2' := fold_left _ _ st1) in *.
  assert (H3 : let s3 := (if gtuple cfg then fold_left thaw_tuple (tuple_children st2' (oattrs ob)) st2' else st2') in
               valid s3 /\ empty_except (o :: S) s3 /\ thaw s3 = thaw st2').
  { destruct (gtuple cfg); simpl; auto. now apply thaw_tuples_ok. }
  destruct H3 as (V2 & E2 & T2x).
  set (st2 := if gtuple cfg then _ else _) in *.
  assert (T2 : thaw st2 = thaw st1) by congruence.
  destruct (get st2 o) as [ob2|] eqn:G2.
  - assert (T3 : thaw (put st2 o (with_cache ob2 [])) = thaw st2) by (now apply (thaw_put st2 o ob2)).
    split; [|split; [|congruence]].
    + apply (valid_mono st2); auto. intros o' ob' k v G' F' L. destruct (Nat.eq_dec o o') as [->|Hne].
      * rewrite (get_put_eq _ _ _ _ G2) in G'. injection G' as <-. simpl in L. discriminate.
      * rewrite get_put_neq in G' by auto. exists ob'. auto.
    + intros o' ob' G' F'. destruct (Nat.eq_dec o o') as [->|Hne].
      * rewrite (get_put_eq _ _ _ _ G2) in G'. injection G' as <-. now right.
      * rewrite get_put_neq in G' by auto. destruct (E2 o' ob' G' F') as [[->|H]|H]; auto. congruence.
  - split; auto. split; [|congruence].
    intros o' ob' G' F'. destruct (E2 o' ob' G' F') as [[->|H]|H]; auto. congruence.
Qed.

Lemma Pres_unfreeze : forall cfg n o, Pres (unfreeze cfg n o).
Proof.
  intros cfg n o st [V U]. unfold unfreeze. simpl.
  destruct (unfreeze_st_ok cfg n o st [] V) as (V' & E' & T').
  - intros o' ob' G' F'. right. now apply (U o' ob').
  - split; auto. split; auto. intros o' ob' G' F'. destruct (E' o' ob' G' F') as [[]|]; auto.
Qed.

(* ------------------------------------------------------------------ reachability and locality *)
Definition comp_at (st : state) (t : nat) : option (kind * list (string * value) * nat) :=
  match get st t with Some ob => Some (okind ob, oattrs ob, onitems ob) | None => None end.

Inductive Reach (st : state) : nat -> nat -> Prop :=
| Reach_refl : forall o, Reach st o o
| Reach_step : forall o ob k c t, get st o = Some ob -> In (k, VRef c) (oattrs ob) -> Reach st c t -> Reach st o t.

(* st' has the same composition as st on everything reachable from o *)
(* priors hanging directly on objects reachable from o *)
Definition holds_prior (st : state) (o p : nat) : Prop :=
  exists t ob k, Reach st o t /\ get st t = Some ob /\ In (k, VPrior p) (oattrs ob).
Definition agree (st st' : state) (o : nat) : Prop :=
  (forall t, Reach st o t -> comp_at st' t = comp_at st t) /\
  (forall p, holds_prior st o p -> pid_of st' p = pid_of st p).

Lemma agree_child : forall st st' o ob k c, agree st st' o -> get st o = Some ob -> In (k, VRef c) (oattrs ob) -> agree st st' c.
Proof.
  intros st st' o ob k c [H1 H2] G I. split.
  - intros t R. apply H1. now apply (Reach_step st o ob k c).
  - intros p (t & tb & kk & R & Gt & It). apply H2. exists t, tb, kk. split; auto. now apply (Reach_step st o ob k c).
Qed.

Lemma agree_get : forall st st' o ob, agree st st' o -> get st o = Some ob ->
  exists ob', get st' o = Some ob' /\ okind ob' = okind ob /\ oattrs ob' = oattrs ob.
Proof.
  intros st st' o ob [H _] G. pose proof (H o (Reach_refl st o)) as E. unfold comp_at in E. rewrite G in E.
  destruct (get st' o) as [ob'|]; [|discriminate]. exists ob'. injection E as E1 E2 E3. auto.
Qed.

Lemma agree_none : forall st st' o, agree st st' o -> get st o = None -> get st' o = None.
Proof.
  intros st st' o [H _] G. pose proof (H o (Reach_refl st o)) as E. unfold comp_at in E. rewrite G in E.
  destruct (get st' o); [discriminate|reflexivity].
Qed.

Lemma walk_val_local : forall st st', inflight st' = inflight st ->
  forall n s vis o, agree st st' o -> walk_val st' n s vis (VRef o) = walk_val st n s vis (VRef o).
Proof.
  intros st st' Hi n. induction n as [|n IH]; intros s vis o A; simpl; rewrite Hi; auto.
  destruct (memb o (inflight st) || memb o vis); auto.
  destruct (get st o) as [ob|] eqn:G.
  - destruct (agree_get _ _ _ _ A G) as (ob' & G' & K & At). rewrite G', K, At.
    destruct (sel_obj s (okind ob)); auto. f_equal. f_equal. apply walk_list_ext.
    intros [k v] Hin. simpl. destruct v as [p|c|c]; try (destruct n; reflexivity).
    apply IH. now apply (agree_child st st' o ob k c).
  - now rewrite (agree_none _ _ _ A G).
Qed.

(* with the Model selector every walk result is an object reachable from the receiver *)
Lemma walk_list_in : forall f l it, In it (walk_list f l) ->
  exists k v items p, In (k, v) l /\ f v = WList items /\ In (p, snd it) items.
Proof.
  induction l as [|[k v] l IH]; intros it H; simpl in H; [contradiction|].
  destruct (f v) as [items|] eqn:E; [|contradiction].
  apply in_app_or in H as [H|H].
  - apply in_map_iff in H as ([p lf] & <- & Hin). exists k, v, items, p. simpl. split; [now left|]. auto.
  - destruct (IH it H) as (k' & v' & items' & p' & I1 & I2 & I3). exists k', v', items', p'. split; [now right|]. auto.
Qed.

Lemma walk_models_reach : forall st n vis o l it, walk_val st n SModelRec vis (VRef o) = WList l -> In it l ->
  exists c, snd it = LObj c /\ Reach st o c.
Proof.
  intros st n. induction n as [|n IH]; intros vis o l it W Hin; simpl in W.
  - destruct (memb o (inflight st) || memb o vis); [discriminate|]. injection W as <-. contradiction.
  - destruct (memb o (inflight st) || memb o vis); [discriminate|].
    destruct (get st o) as [ob|] eqn:G; [|injection W as <-; contradiction].
    assert (Hs : sel_obj SModelRec (okind ob) = false) by (destruct (okind ob); reflexivity).
    try rewrite Hs in W. injection W as <-. apply in_app_or in Hin as [Hin|Hin].
    + destruct (okind ob); simpl in Hin; try contradiction. destruct Hin as [<-|[]].
      exists o. split; auto. apply Reach_refl.
    + destruct (walk_list_in _ _ _ Hin) as (k & v & items & p & I1 & I2 & I3).
      destruct v as [pp|cc|c].
      * destruct n; simpl in I2; injection I2 as <-; contradiction.
      * destruct n; simpl in I2; injection I2 as <-; contradiction.
      * destruct (IH (o :: vis) c items (p, snd it) I2 I3) as (c' & E & R). exists c'. split; auto.
        now apply (Reach_step st o ob k c).
Qed.

(* every prior leaf of a walk hangs on an object reachable from the receiver *)
Lemma walk_priors_held : forall st n s vis o l it p, walk_val st n s vis (VRef o) = WList l -> In it l ->
  snd it = LPrior p -> holds_prior st o p.
Proof.
  intros st n. induction n as [|n IH]; intros s vis o l it p W Hin E; simpl in W.
  - destruct (memb o (inflight st) || memb o vis); [discriminate|]. injection W as <-. contradiction.
  - destruct (memb o (inflight st) || memb o vis); [discriminate|].
    destruct (get st o) as [ob|] eqn:G; [|injection W as <-; contradiction].
    destruct (sel_obj s (okind ob)).
    + injection W as <-. destruct Hin as [<-|[]]. discriminate.
    + injection W as <-. apply in_app_or in Hin as [Hin|Hin].
      * destruct (sel_also s (okind ob)); [|contradiction]. destruct Hin as [<-|[]]. discriminate.
      * destruct (walk_list_in _ _ _ Hin) as (k & v & items & pp & I1 & I2 & I3).
        destruct v as [q|cc|c].
        -- destruct n; simpl in I2; injection I2 as <-; (destruct (sel_prior s); [|contradiction]);
             destruct I3 as [I3|[]]; injection I3 as _ I3; rewrite E in I3; injection I3 as <-;
             exists o, ob, k; (split; [apply Reach_refl|split; auto]).
        -- destruct n; simpl in I2; injection I2 as <-; (destruct (sel_float s); [|contradiction]);
             destruct I3 as [I3|[]]; injection I3 as _ I3; rewrite E in I3; discriminate.
        -- destruct (IH s (o :: vis) c items (pp, snd it) p I2 I3 E) as (t & tb & kk & R & Gt & It).
           exists t, tb, kk. split; auto. now apply (Reach_step st o ob k c).
Qed.

Local Opaque walk_val.

Lemma direct_items_local : forall st st' d o ob, agree st st' o -> get st o = Some ob ->
  forall l, (forall kv, In kv l -> In kv (oattrs ob)) -> direct_items st' d l = direct_items st d l.
Proof.
  intros st st' d o ob A G. induction l as [|[k v] l IH]; intros Hl; simpl; auto.
  assert (E : direct_match st' d v = direct_match st d v).
  { destruct v as [p|c|c]; [destruct d; reflexivity|destruct d; reflexivity|].
    assert (Ac : agree st st' c) by (apply (agree_child st st' o ob k c); auto; apply Hl; now left).
    assert (Ek : match get st' c with Some cb => Some (okind cb) | None => None end =
                 match get st c with Some cb => Some (okind cb) | None => None end).
    { destruct (get st c) as [cb|] eqn:Gc.
      - destruct (agree_get _ _ _ _ Ac Gc) as (cb' & Gc' & K & _). now rewrite Gc', K.
      - now rewrite (agree_none _ _ _ Ac Gc). }
    destruct d; simpl; auto; destruct (get st' c), (get st c); try discriminate; auto; injection Ek as ->; reflexivity. }
  rewrite E, IH; auto. intros kv Hin. apply Hl. now right.
Qed.

Lemma agree_trans_reach : forall st st' o c, agree st st' o -> Reach st o c -> agree st st' c.
Proof.
  intros st st' o c A R. induction R as [o|o ob k c0 c G I R IH]; auto.
  apply IH. now apply (agree_child st st' o ob k c0).
Qed.

(* dedup / sort depend on the id function only through the priors they see *)
Definition ids_agree (idf idf' : nat -> nat) (l : list item) : Prop :=
  forall it p, In it l -> snd it = LPrior p -> idf' p = idf p.

Lemma leaf_same_ext : forall idf idf' a b, (forall p, a = LPrior p -> idf' p = idf p) ->
  (forall p, b = LPrior p -> idf' p = idf p) -> leaf_same idf' a b = leaf_same idf a b.
Proof.
  intros idf idf' a b Ha Hb. destruct a as [p|c|o], b as [q|d|o']; simpl; try reflexivity.
  rewrite (Ha p eq_refl), (Hb q eq_refl). reflexivity.
Qed.

Lemma dict_put_ext : forall idf idf' it d, ids_agree idf idf' (it :: d) ->
  dict_put idf' it d = dict_put idf it d /\ (forall x, In x (dict_put idf it d) -> In x (it :: d)).
Proof.
  intros idf idf' it d. induction d as [|y d IH]; intros H; simpl.
  - split; auto.
  - rewrite (leaf_same_ext idf idf' (snd it) (snd y)).
    2:{ intros p E. apply (H it p); auto. now left. }
    2:{ intros p E. apply (H y p); auto. right. now left. }
    destruct (leaf_same idf (snd it) (snd y)).
    + split; auto. intros x [<-|Hx]; [left; now destruct it|right; now right].
    + destruct IH as [E1 E2].
      { intros x p Hx. apply H. destruct Hx as [<-|Hx]; [now left|right; now right]. }
      rewrite E1. split; auto. intros x [<-|Hx]; [right; now left|].
      destruct (E2 x Hx) as [<-|Hd]; [now left|right; now right].
Qed.

Lemma dedup_last_ext : forall idf idf' l, ids_agree idf idf' l -> dedup_last idf' l = dedup_last idf l.
Proof.
  intros idf idf' l H. unfold dedup_last.
  assert (G : forall l acc, ids_agree idf idf' (l ++ acc) ->
              fold_left (fun d it => dict_put idf' it d) l acc = fold_left (fun d it => dict_put idf it d) l acc).
  { clear l H. induction l as [|x l IH]; intros acc H; simpl; auto.
    destruct (dict_put_ext idf idf' x acc) as [E1 E2].
    { intros y p Hy. apply H. simpl. destruct Hy as [<-|Hy]; [now left|right; apply in_or_app; now right]. }
    rewrite E1. apply IH. intros y p Hy. apply H. apply in_app_or in Hy as [Hy|Hy].
    - right. apply in_or_app. now left.
    - destruct (E2 y Hy) as [<-|Hd]; [now left|right; apply in_or_app; now right]. }
  apply G. now rewrite app_nil_r.
Qed.

Lemma insert_by_ext : forall {A} (le le' : A -> A -> bool) x l, (forall y, In y l -> le' y x = le y x) ->
  insert_by le' x l = insert_by le x l.
Proof.
  induction l as [|y l IH]; intros H; simpl; auto.
  rewrite (H y) by (now left). destruct (le y x); auto. f_equal. apply IH. intros z Hz. apply H. now right.
Qed.

Lemma insert_by_in : forall {A} (le : A -> A -> bool) x l z, In z (insert_by le x l) -> z = x \/ In z l.
Proof.
  induction l as [|y l IH]; intros z H; simpl in H.
  - destruct H as [<-|[]]. now left.
  - destruct (le y x).
    + destruct H as [<-|H]; [right; now left|]. destruct (IH z H); auto. right. now right.
    + destruct H as [<-|H]; auto.
Qed.

Lemma sort_by_ext : forall {A} (le le' : A -> A -> bool) l, (forall x y, In x l -> In y l -> le' y x = le y x) ->
  sort_by le' l = sort_by le l.
Proof.
  intros A le le' l H. unfold sort_by.
  assert (G : forall l acc, (forall x y, In x (l ++ acc) -> In y (l ++ acc) -> le' y x = le y x) ->
              fold_left (fun a x => insert_by le' x a) l acc = fold_left (fun a x => insert_by le x a) l acc).
  { clear l H. induction l as [|x l IH]; intros acc H; simpl; auto.
    rewrite (insert_by_ext le le' x acc).
    2:{ intros y Hy. apply H; [now left|right; apply in_or_app; now right]. }
    apply IH. intros a b Ha Hb. apply H.
    - apply in_app_or in Ha as [Ha|Ha]; [right; apply in_or_app; now left|].
      destruct (insert_by_in le x acc a Ha) as [->|Hd]; [now left|right; apply in_or_app; now right].
    - apply in_app_or in Hb as [Hb|Hb]; [right; apply in_or_app; now left|].
      destruct (insert_by_in le x acc b Hb) as [->|Hd]; [now left|right; apply in_or_app; now right]. }
  apply G. now rewrite app_nil_r.
Qed.

Lemma dedup_last_in : forall idf l x, In x (dedup_last idf l) -> In x l.
Proof.
  intros idf l x. unfold dedup_last.
  assert (G : forall m acc, In x (fold_left (fun d it => dict_put idf it d) m acc) -> In x m \/ In x acc).
  { induction m as [|y m IH]; intros acc H; simpl in *; auto.
    destruct (IH _ H) as [H1|H1]; auto.
    destruct (dict_put_ext idf idf y acc (fun _ _ _ _ => eq_refl)) as [_ E2].
    destruct (E2 x H1) as [<-|Hd]; auto. }
  intros H. destruct (G l [] H) as [|[]]; auto.
Qed.

Lemma has_obj_local : forall st st' o, agree st st' o -> has_obj st' o = has_obj st o.
Proof.
  intros st st' o A. unfold has_obj. destruct (get st o) as [ob|] eqn:G.
  - destruct (agree_get _ _ _ _ A G) as (ob' & G' & _). now rewrite G'.
  - now rewrite (agree_none _ _ _ A G).
Qed.

Section Local.
  Variables st st' : state.
  Hypothesis Hi : inflight st' = inflight st.

  Lemma p_pit_local : forall o s, agree st st' o -> p_pit st' o s = p_pit st o s.
  Proof. intros o s A. unfold p_pit, walk_top. now rewrite (has_obj_local st st' o A), (walk_val_local st st' Hi). Qed.

  (* the priors in the attribute list of o are held below o *)
  Lemma p_attr_priors : forall o s l it p, p_attr st o s = Ok (CList l) -> In it l -> snd it = LPrior p -> holds_prior st o p.
  Proof.
    intros o s l it p Pa Hin E. unfold p_attr in Pa. destruct (has_obj st o) eqn:Ho; [|discriminate].
    unfold p_pit in Pa. rewrite Ho in Pa. simpl in Pa. unfold walk_top in Pa.
    destruct (walk_val st FUEL s [] (VRef o)) as [l0|] eqn:W; simpl in Pa; [|discriminate].
    injection Pa as <-. apply in_map_iff in Hin as (it0 & <- & Hin0). simpl in E.
    apply (walk_priors_held st FUEL s [] o l0 it0 p W Hin0 E).
  Qed.
  Lemma p_attr_local : forall o s, agree st st' o -> p_attr st' o s = p_attr st o s.
  Proof. intros o s A. unfold p_attr. now rewrite (has_obj_local st st' o A), p_pit_local. Qed.
  Lemma p_unique_local : forall o, agree st st' o -> p_unique st' o = p_unique st o.
  Proof.
    intros o A. unfold p_unique. rewrite (has_obj_local st st' o A), p_attr_local by auto.
    destruct (has_obj st o); [|reflexivity].
    destruct (p_attr st o SPrior) as [[l|]|e] eqn:Pa; try reflexivity. cbn [rbind r_list].
    rewrite (dedup_last_ext (pid_of st) (pid_of st') l); [reflexivity|].
    intros it p Hin E. destruct A as [_ A2]. apply A2. now apply (p_attr_priors o SPrior l it p).
  Qed.
  Lemma p_unique_priors : forall o l it p, p_unique st o = Ok (CList l) -> In it l -> snd it = LPrior p -> holds_prior st o p.
  Proof.
    intros o l it p Pu Hin E. unfold p_unique in Pu. destruct (has_obj st o); [|discriminate].
    destruct (p_attr st o SPrior) as [[l0|]|e] eqn:Pa; try discriminate. cbn [rbind r_list] in Pu.
    injection Pu as <-. apply dedup_last_in in Hin. now apply (p_attr_priors o SPrior l0 it p).
  Qed.
  Lemma p_count_local : forall o, agree st st' o -> p_count st' o = p_count st o.
  Proof. intros o A. unfold p_count. now rewrite p_unique_local. Qed.

  Lemma kind_of_local : forall c, agree st st' c -> kind_of st' c = kind_of st c.
  Proof.
    intros c A. unfold kind_of, view. destruct (get st c) as [cb|] eqn:G.
    - destruct (agree_get _ _ _ _ A G) as (cb' & G' & K & At). rewrite G'. simpl. now rewrite K.
    - now rewrite (agree_none _ _ _ A G).
  Qed.

  Lemma p_mtt_local : forall o c z, agree st st' o -> p_mtt st' o c z = p_mtt st o c z.
  Proof.
    intros o c z A. unfold p_mtt. rewrite (has_obj_local st st' o A), p_attr_local by auto.
    destruct (has_obj st o) eqn:Ho; auto.
    destruct (p_attr st o SModelRec) as [[l|]|e] eqn:Pa; auto. simpl.
    rewrite (mapR_ext (mtt_item st' c z) (mtt_item st c z)); auto.
    intros it Hin.
    assert (R : exists c0, snd it = LObj c0 /\ Reach st o c0).
    { unfold p_attr in Pa. rewrite Ho in Pa. unfold p_pit in Pa. rewrite Ho in Pa. simpl in Pa.
      unfold walk_top in Pa. destruct (walk_val st FUEL SModelRec [] (VRef o)) as [l0|] eqn:W; simpl in Pa; [|discriminate].
      injection Pa as <-. apply in_map_iff in Hin as (it0 & <- & Hin0). simpl.
      apply (walk_models_reach st FUEL [] o l0 it0 W Hin0). }
    destruct R as (c0 & E & R). unfold mtt_item, item_oid. rewrite E.
    pose proof (agree_trans_reach st st' o c0 A R) as Ac.
    now rewrite kind_of_local, p_count_local.
  Qed.
End Local.

Lemma pure_key_local : forall st st' o k, inflight st' = inflight st -> agree st st' o ->
  pure_key st' o k = pure_key st o k.
Proof.
  intros st st' o k Hi A.
  destruct k; cbn [pure_key];
    [now apply p_pit_local|now apply p_attr_local|now apply p_unique_local| | |now apply p_mtt_local|].
  - unfold p_ordered. rewrite (has_obj_local st st' o A), (p_unique_local st st' Hi) by auto.
    destruct (has_obj st o); [|reflexivity].
    destruct (p_unique st o) as [[l|]|e] eqn:Pu; try reflexivity. cbn [rbind r_list].
    rewrite (sort_by_ext (item_id_le (pid_of st)) (item_id_le (pid_of st')) l); [reflexivity|].
    assert (Hid : forall it, In it l -> leaf_id (pid_of st') (snd it) = leaf_id (pid_of st) (snd it)).
    { intros it Hin. destruct (snd it) as [p|c|oo] eqn:E; simpl; auto. destruct A as [_ A2]. apply A2.
      now apply (p_unique_priors st o l it p). }
    intros x y Hx Hy. unfold item_id_le. now rewrite (Hid x Hx), (Hid y Hy).
  - unfold p_direct. destruct (get st o) as [ob|] eqn:G.
    + destruct (agree_get _ _ _ _ A G) as (ob' & G' & _ & At). rewrite G', At.
      now rewrite (direct_items_local st st' d o ob A G).
    + now rewrite (agree_none _ _ _ A G).
  - unfold p_mwt. now rewrite (has_obj_local st st' o A), (p_mtt_local st st' Hi).
Qed.

(* ------------------------------------------------------------------ modifications *)
(* nothing reachable from a frozen object changes its composition *)
Definition quiet (st st' : state) : Prop :=
  forall o ob, get st o = Some ob -> ofrozen ob = true -> agree st st' o.

(* flags and caches of existing objects are untouched; new objects start with an empty cache *)
Definition kept (ob ob' : obj) : Prop := (ofrozen ob' = ofrozen ob /\ ocache ob' = ocache ob) \/ ocache ob' = [].
Definition frame (st st' : state) : Prop :=
  inflight st' = inflight st /\
  (forall o ob, get st o = Some ob -> exists ob', get st' o = Some ob' /\ kept ob ob') /\
  (forall o ob', get st o = None -> get st' o = Some ob' -> ocache ob' = []).

Lemma kept_refl : forall ob, kept ob ob.
Proof. intros. left. auto. Qed.
Lemma kept_trans : forall a b c, kept a b -> kept b c -> kept a c.
Proof. intros a b c [[F1 C1]|E1] [[F2 C2]|E2]; [left; split; congruence|now right|right; congruence|now right]. Qed.

Lemma frame_refl : forall st, frame st st.
Proof. intros st. split; auto. split; [intros o ob G; exists ob; split; auto; apply kept_refl|]. intros o ob' G G'. congruence. Qed.

Lemma frame_trans : forall a b c, frame a b -> frame b c -> frame a c.
Proof.
  intros a b c (I1 & E1 & N1) (I2 & E2 & N2). split; [congruence|]. split.
  - intros o ob G. destruct (E1 o ob G) as (ob1 & G1 & K1). destruct (E2 o ob1 G1) as (ob2 & G2 & K2).
    exists ob2. split; auto. now apply (kept_trans ob ob1 ob2).
  - intros o ob' G G'. destruct (get b o) as [ob1|] eqn:Gb.
    + destruct (E2 o ob1 Gb) as (ob2 & G2 & K2). rewrite G' in G2. injection G2 as <-.
      destruct K2 as [[F2 C2]|E]; auto. rewrite C2. now apply (N1 o ob1).
    + now apply (N2 o ob').
Qed.

Theorem inv_frame : forall st st', Inv st -> frame st st' -> quiet st st' -> Inv st'.
Proof.
  intros st st' [V U] (Hi & E & N) Q. split.
  - intros o ob' k v G' F' L'. destruct (get st o) as [ob|] eqn:G.
    + destruct (E o ob G) as (ob1 & G1 & K1). rewrite G' in G1. injection G1 as <-.
      destruct K1 as [[F1 C1]|E1]; [|rewrite E1 in L'; discriminate].
      rewrite (pure_key_local st st' o k Hi); [|apply (Q o ob G); congruence].
      apply (V o ob k v); auto; congruence.
    + rewrite (N o ob' G G') in L'. discriminate.
  - intros o ob' G' F'. destruct (get st o) as [ob|] eqn:G.
    + destruct (E o ob G) as (ob1 & G1 & K1). rewrite G' in G1. injection G1 as <-.
      destruct K1 as [[F1 C1]|E1]; auto. rewrite C1. apply (U o ob G). congruence.
    + now apply (N o ob').
Qed.

(* frames of the monadic building blocks *)
Definition Frm {A} (c : M A) : Prop := forall st, frame st (fst (c st)).

Lemma Frm_ret : forall {A} (a : A), Frm (ret a).
Proof. intros A a st. apply frame_refl. Qed.
Lemma Frm_raise : forall {A} e, Frm (@raise A e).
Proof. intros A e st. apply frame_refl. Qed.
Lemma Frm_gets : forall {A} (f : state -> A), Frm (gets f).
Proof. intros A f st. apply frame_refl. Qed.
Lemma Frm_bind : forall {A B} (c : M A) (f : A -> M B), Frm c -> (forall a, Frm (f a)) -> Frm (bind c f).
Proof.
  intros A B c f Hc Hf st. unfold bind. pose proof (Hc st) as F1. destruct (c st) as [st1 r]. simpl in *.
  destruct r as [a|e]; simpl; auto. apply (frame_trans st st1); auto. apply Hf.
Qed.

Lemma Frm_modify : forall o f, (forall ob, ofrozen (f ob) = ofrozen ob /\ ocache (f ob) = ocache ob) -> Frm (modify o f).
Proof.
  intros o f Hf st. unfold modify. destruct (get st o) as [ob|] eqn:G; simpl; [|apply frame_refl].
  split; auto. split.
  - intros o' ob' G'. destruct (Nat.eq_dec o o') as [->|Hne].
    + rewrite G in G'. injection G' as <-. exists (f ob). rewrite (get_put_eq _ _ _ _ G). destruct (Hf ob). split; auto. now left.
    + exists ob'. rewrite get_put_neq by auto. split; auto. apply kept_refl.
  - intros o' ob' G' G''. destruct (Nat.eq_dec o o') as [->|Hne]; [congruence|].
    rewrite get_put_neq in G'' by auto. congruence.
Qed.

Lemma Frm_op_set : forall cfg o name v, Frm (op_set cfg o name v).
Proof.
  intros. unfold op_set. apply Frm_bind; [apply Frm_gets|]. intros [ob|]; [|apply Frm_raise].
  destruct (okind ob).
  - destruct (ofrozen ob); [apply Frm_raise|]. apply Frm_bind; [apply Frm_gets|]. intros [|]; [apply Frm_raise|].
    destruct (has_us name); [|apply Frm_modify; intros; auto].
    apply Frm_bind; [apply Frm_gets|]. intros tl. destruct (filter _ tl); [apply Frm_modify; intros; auto|].
    destruct (smemb _ _); [apply Frm_modify; intros; auto|].
    apply Frm_bind; [apply Frm_gets|]. intros tf. destruct (gtuple cfg && tf); [apply Frm_raise|apply Frm_modify; intros; auto].
  - destruct (ofrozen ob); [apply Frm_raise|]. apply Frm_modify; intros; auto.
  - destruct (gtuple cfg && ofrozen ob); [apply Frm_raise|]. apply Frm_modify; intros; auto.
Qed.

Lemma Frm_op_append : forall o v, Frm (op_append o v).
Proof.
  intros. unfold op_append. apply Frm_bind; [apply Frm_gets|]. intros [ob|]; [|apply Frm_raise].
  destruct (okind ob); try apply Frm_raise. destruct (ofrozen ob); [apply Frm_raise|].
  apply Frm_modify; intros; auto.
Qed.

Lemma Frm_op_del : forall cfg o name, Frm (op_del cfg o name).
Proof.
  intros. unfold op_del. apply Frm_bind; [apply Frm_gets|]. intros [ob|]; [|apply Frm_raise].
  destruct (del_guarded cfg (okind ob) && ofrozen ob); [apply Frm_raise|].
  destruct (sassoc name (oattrs ob)); [|apply Frm_raise]. apply Frm_modify; intros; auto.
Qed.

Lemma get_app_old : forall st ext o ob pt, get st o = Some ob -> get (mkState (heap st ++ ext) (inflight st) pt) o = Some ob.
Proof.
  intros st ext o ob pt G. unfold get in *. simpl. rewrite nth_error_app1; auto. apply nth_error_Some. congruence.
Qed.

Lemma frame_extend : forall st ext pt, Forall (fun ob => ocache ob = []) ext ->
  frame st (mkState (heap st ++ ext) (inflight st) pt).
Proof.
  intros st ext pt Hext. split; auto. split.
  - intros o ob G. exists ob. split; [now apply get_app_old|apply kept_refl].
  - intros o ob' G G'. unfold get in *. simpl in G'. apply nth_error_None in G.
    rewrite nth_error_app2 in G' by exact G. apply nth_error_In in G'.
    rewrite Forall_forall in Hext. now apply Hext.
Qed.

Lemma Frm_op_new : forall cfg k a ni, Frm (op_new cfg k a ni).
Proof.
  intros cfg k a ni st. unfold op_new.
  assert (F : frame st (mkState (heap st ++ [new_obj st k a ni]) (inflight st) (ptab st))).
  { apply frame_extend. constructor; auto. }
  destruct k; simpl; auto. destruct (existsb _ a); simpl; auto. apply frame_refl.
Qed.

Lemma Frm_set_pid : forall p i, Frm (set_pid p i).
Proof.
  intros p i st. unfold set_pid. destruct (nth_error (ptab st) p) as [[j l]|]; simpl; [|apply frame_refl].
  split; auto. split.
  - intros o ob G. exists ob. split; auto. apply kept_refl.
  - intros o ob' G G'. unfold get in *. simpl in G'. congruence.
Qed.

Lemma Frm_op_setitem : forall cfg o key v, Frm (op_setitem cfg o key v).
Proof.
  intros. unfold op_setitem. apply Frm_bind; [apply Frm_gets|]. intros [ob|]; [|apply Frm_raise].
  destruct (okind ob); try apply Frm_raise. destruct (ofrozen ob); [apply Frm_raise|].
  apply Frm_bind; [apply Frm_gets|]. intros old.
  apply Frm_bind; [|intros; apply Frm_modify; intros; auto].
  destruct (if itransfers cfg then old else None) as [i|]; [|destruct v; apply Frm_ret].
  destruct v as [p|c|c]; [apply Frm_set_pid|apply Frm_ret|].
  apply Frm_bind; [apply Frm_gets|]. intros [|]; [apply Frm_raise|apply Frm_modify; intros; auto].
Qed.

(* ------------------------------------------------------------------ copies and restores *)
(* a heap that differs from h only by flag / cache changes which leave `kept`, plus new objects with empty caches *)
Definition hframe (h h' : list obj) : Prop :=
  List.length h <= List.length h' /\
  (forall o ob, nth_error h o = Some ob -> exists ob', nth_error h' o = Some ob' /\ kept ob ob') /\
  (forall o ob', nth_error h o = None -> nth_error h' o = Some ob' -> ocache ob' = []).

Lemma hframe_refl : forall h, hframe h h.
Proof. intros h. split; auto. split; [intros o ob G; exists ob; split; auto; apply kept_refl|]. intros; congruence. Qed.

Lemma hframe_trans : forall a b c, hframe a b -> hframe b c -> hframe a c.
Proof.
  intros a b c (L1 & E1 & N1) (L2 & E2 & N2). split; [lia|]. split.
  - intros o ob G. destruct (E1 o ob G) as (ob1 & G1 & K1). destruct (E2 o ob1 G1) as (ob2 & G2 & K2).
    exists ob2. split; auto. now apply (kept_trans ob ob1 ob2).
  - intros o ob' G G'. destruct (nth_error b o) as [ob1|] eqn:Gb.
    + destruct (E2 o ob1 Gb) as (ob2 & G2 & K2). rewrite G' in G2. injection G2 as <-.
      destruct K2 as [[F2 C2]|E]; auto. rewrite C2. now apply (N1 o ob1).
    + now apply (N2 o ob').
Qed.

Lemma hframe_app : forall h x, ocache x = [] -> hframe h (h ++ [x]).
Proof.
  intros h x Hx. split; [rewrite app_length; simpl; lia|]. split.
  - intros o ob G. exists ob. split; [|apply kept_refl]. rewrite nth_error_app1; auto. apply nth_error_Some. congruence.
  - intros o ob' G G'. apply nth_error_None in G. rewrite nth_error_app2 in G' by exact G.
    destruct (o - List.length h); simpl in G'; [now injection G' as <-|destruct n; discriminate].
Qed.

Lemma hframe_update : forall h i x, ocache x = [] -> hframe h (update h i x).
Proof.
  intros h i x Hx. split; [now rewrite update_length|]. split.
  - intros o ob G. destruct (Nat.eq_dec i o) as [->|Hne].
    + exists x. split; [|now right]. apply nth_error_update_eq. apply nth_error_Some. congruence.
    + exists ob. split; [|apply kept_refl]. now rewrite nth_error_update_neq.
  - intros o ob' G G'. destruct (Nat.eq_dec i o) as [->|Hne].
    + apply nth_error_None in G. assert (List.length (update h o x) <= o) by (now rewrite update_length).
      apply nth_error_None in H. congruence.
    + rewrite nth_error_update_neq in G' by auto. congruence.
Qed.

Lemma hframe_retuple_one : forall b base h kv, hframe h (retuple_one b base h kv).
Proof.
  intros b base h [k v]. unfold retuple_one. simpl. destruct v as [p|c|u]; try apply hframe_refl.
  destruct (Nat.leb base u); [|apply hframe_refl]. destruct (nth_error h u) as [ub|]; [|apply hframe_refl].
  destruct (okind ub); try apply hframe_refl. now apply hframe_update.
Qed.

Lemma hframe_retuple : forall b base attrs h, hframe h (retuple b base h attrs).
Proof.
  intros b base. unfold retuple. induction attrs as [|kv attrs IH]; intros h; simpl; [apply hframe_refl|].
  apply (hframe_trans h (retuple_one b base h kv)); [apply hframe_retuple_one|apply IH].
Qed.

Lemma copy_attrs_hframe : forall f, (forall v cs, hframe (cheap cs) (cheap (fst (f v cs)))) ->
  forall l cs, hframe (cheap cs) (cheap (fst (copy_attrs f l cs))).
Proof.
  intros f Hf. induction l as [|[k v] l IH]; intros cs; simpl; [apply hframe_refl|].
  pose proof (Hf v cs) as A1. destruct (f v cs) as [cs1 v']. simpl in A1.
  pose proof (IH cs1) as A2. destruct (copy_attrs f l cs1) as [cs2 r']. simpl in *.
  now apply (hframe_trans (cheap cs) (cheap cs1) (cheap cs2)).
Qed.

Lemma copy_val_hframe : forall cfg db n v cs, hframe (cheap cs) (cheap (fst (copy_val cfg db n v cs))).
Proof.
  intros cfg db. induction n as [|n IH]; intros v cs; destruct v as [p|c|c]; simpl; try apply hframe_refl.
  - destruct (if db then None else nassoc p (cpmemo cs)); [apply hframe_refl|].
    destruct (nth_error (cptab cs) p); apply hframe_refl.
  - destruct (if db then None else nassoc c (cmemo cs)); apply hframe_refl.
  - destruct (if db then None else nassoc p (cpmemo cs)); [apply hframe_refl|].
    destruct (nth_error (cptab cs) p); apply hframe_refl.
  - destruct (if db then None else nassoc c (cmemo cs)); [apply hframe_refl|].
    destruct (nth_error (cheap cs) c) as [ob|]; [|apply hframe_refl].
    set (nb := if db then with_nitems (with_frozen (with_cache ob []) false) (db_nitems ob) else with_cache ob []).
    assert (Hnb : ocache nb = []) by (unfold nb; destruct db; reflexivity).
    set (cs1 := mkC (cheap cs ++ [nb]) _ _ _ _ _).
    pose proof (copy_attrs_hframe (copy_val cfg db n) IH (oattrs ob) cs1) as H2.
    destruct (copy_attrs (copy_val cfg db n) (oattrs ob) cs1) as [cs2 a']. simpl in *.
    apply (hframe_trans (cheap cs) (cheap cs ++ [nb])); [now apply hframe_app|].
    apply (hframe_trans _ (cheap cs2)); [exact H2|].
    apply (hframe_trans _ (update (cheap cs2) (List.length (cheap cs)) (with_attrs nb a'))); [now apply hframe_update|].
    destruct (gtuple cfg && trestore cfg && is_pm_kind (okind ob)); [apply hframe_retuple|apply hframe_refl].
Qed.

Lemma frame_of_hframe : forall st h pt, hframe (heap st) h -> frame st (mkState h (inflight st) pt).
Proof.
  intros st h pt (L & E & N). split; [reflexivity|]. split.
  - intros o ob G. now apply E.
  - intros o ob' G G'. now apply (N o ob').
Qed.

Lemma Frm_op_copy : forall cfg o, Frm (op_copy cfg o).
Proof.
  intros cfg o st. unfold op_copy.
  pose proof (copy_val_hframe cfg false FUEL (VRef o) (copy_start st)) as H.
  destruct (copy_val cfg false FUEL (VRef o) (copy_start st)) as [cs v]. simpl in *. now apply frame_of_hframe.
Qed.

Lemma Frm_op_restore : forall cfg o m, Frm (op_restore cfg o m).
Proof.
  intros cfg o m st. unfold op_restore. destruct m.
  - destruct (get st o) as [ob|]; simpl; [|apply frame_refl]. apply frame_of_hframe.
    apply (hframe_trans _ (heap st ++ [with_cache ob []])); [now apply hframe_app|].
    destruct (gtuple cfg && trestore cfg && is_pm_kind (okind ob)); [apply hframe_retuple|apply hframe_refl].
  - pose proof (copy_val_hframe cfg true FUEL (VRef o) (copy_start st)) as H.
    destruct (copy_val cfg true FUEL (VRef o) (copy_start st)) as [cs v]. simpl in *.
    destruct (gtuple cfg && negb (trestore cfg) && cbad cs); simpl; [apply frame_refl|now apply frame_of_hframe].
Qed.

(* a copy never changes kind / attributes / item number of an object that existed before it started *)
Definition hcomp (base : nat) (h h' : list obj) : Prop :=
  forall x, x < base -> match nth_error h' x, nth_error h x with
                        | Some b, Some a => Some (okind b, oattrs b, onitems b) = Some (okind a, oattrs a, onitems a)
                        | None, None => True
                        | Some _, None => True
                        | None, Some _ => False
                        end.
Lemma hcomp_refl : forall base h, hcomp base h h.
Proof. intros base h x Hx. destruct (nth_error h x); auto. Qed.
Lemma hcomp_trans : forall base a b c, hcomp base a b -> hcomp base b c -> hcomp base a c.
Proof.
  intros base a b c H1 H2 x Hx. specialize (H1 x Hx). specialize (H2 x Hx).
  destruct (nth_error c x), (nth_error b x), (nth_error a x); auto; try contradiction; congruence.
Qed.
Lemma hcomp_app : forall base h y, hcomp base h (h ++ [y]).
Proof.
  intros base h y x Hx. destruct (nth_error h x) as [a|] eqn:G.
  - rewrite nth_error_app1 by (apply nth_error_Some; congruence). now rewrite G.
  - destruct (nth_error (h ++ [y]) x); auto.
Qed.
Lemma hcomp_update_ge : forall base h i y, base <= i -> hcomp base h (update h i y).
Proof.
  intros base h i y Hi x Hx. rewrite nth_error_update_neq by lia. destruct (nth_error h x); auto.
Qed.
Lemma hcomp_update_same : forall base h i ub y, nth_error h i = Some ub ->
  okind y = okind ub -> oattrs y = oattrs ub -> onitems y = onitems ub -> hcomp base h (update h i y).
Proof.
  intros base h i ub y G K A N x Hx. destruct (Nat.eq_dec i x) as [->|Hne].
  - rewrite nth_error_update_eq by (apply nth_error_Some; congruence). rewrite G. now rewrite K, A, N.
  - rewrite nth_error_update_neq by auto. destruct (nth_error h x); auto.
Qed.
Lemma hcomp_retuple : forall b base0 base attrs h, hcomp base0 h (retuple b base h attrs).
Proof.
  intros b base0 base. unfold retuple. induction attrs as [|[k v] attrs IH]; intros h; simpl; [apply hcomp_refl|].
  apply (hcomp_trans base0 h (retuple_one b base h (k, v))); [|apply IH].
  unfold retuple_one. simpl. destruct v as [p|c|u]; try apply hcomp_refl.
  destruct (Nat.leb base u); [|apply hcomp_refl]. destruct (nth_error h u) as [ub|] eqn:G; [|apply hcomp_refl].
  destruct (okind ub) eqn:K; try apply hcomp_refl. apply (hcomp_update_same base0 h u ub); auto.
Qed.

Lemma retuple_length : forall b base attrs h, List.length (retuple b base h attrs) = List.length h.
Proof.
  intros b base. unfold retuple. induction attrs as [|[k v] attrs IH]; intros h; simpl; auto.
  rewrite IH. unfold retuple_one. simpl. destruct v as [p|c|u]; auto.
  destruct (Nat.leb base u); auto. destruct (nth_error h u) as [ub|]; auto. destruct (okind ub); auto. apply update_length.
Qed.

Lemma copy_attrs_comp : forall base f, (forall v cs, base <= List.length (cheap cs) ->
     hcomp base (cheap cs) (cheap (fst (f v cs))) /\ base <= List.length (cheap (fst (f v cs)))) ->
  forall l cs, base <= List.length (cheap cs) ->
     hcomp base (cheap cs) (cheap (fst (copy_attrs f l cs))) /\ base <= List.length (cheap (fst (copy_attrs f l cs))).
Proof.
  intros base f Hf. induction l as [|[k v] l IH]; intros cs Hb; simpl; [split; [apply hcomp_refl|auto]|].
  pose proof (Hf v cs Hb) as [A1 B1]. destruct (f v cs) as [cs1 v']. simpl in *.
  pose proof (IH cs1 B1) as [A2 B2]. destruct (copy_attrs f l cs1) as [cs2 r']. simpl in *.
  split; auto. now apply (hcomp_trans base (cheap cs) (cheap cs1) (cheap cs2)).
Qed.

Lemma copy_val_comp_gen : forall cfg db base n v cs, base <= List.length (cheap cs) ->
  hcomp base (cheap cs) (cheap (fst (copy_val cfg db n v cs))) /\ base <= List.length (cheap (fst (copy_val cfg db n v cs))).
Proof.
  intros cfg db base. induction n as [|n IH]; intros v cs Hb; destruct v as [p|c|c]; simpl;
    try (split; [apply hcomp_refl|auto]; fail).
  - destruct (if db then None else nassoc p (cpmemo cs)); [split; [apply hcomp_refl|auto]|].
    destruct (nth_error (cptab cs) p); split; auto; apply hcomp_refl.
  - destruct (if db then None else nassoc c (cmemo cs)); split; auto; apply hcomp_refl.
  - destruct (if db then None else nassoc p (cpmemo cs)); [split; [apply hcomp_refl|auto]|].
    destruct (nth_error (cptab cs) p); split; auto; apply hcomp_refl.
  - destruct (if db then None else nassoc c (cmemo cs)); [split; [apply hcomp_refl|auto]|].
    destruct (nth_error (cheap cs) c) as [ob|]; [|split; [apply hcomp_refl|auto]].
    set (nb := if db then with_nitems (with_frozen (with_cache ob []) false) (db_nitems ob) else with_cache ob []).
    set (cs1 := mkC (cheap cs ++ [nb]) _ _ _ _ _).
    assert (Hb1 : base <= List.length (cheap cs1)) by (unfold cs1; simpl; rewrite app_length; simpl; lia).
    pose proof (copy_attrs_comp base (copy_val cfg db n) IH (oattrs ob) cs1 Hb1) as [H2 B2].
    pose proof (copy_attrs_hframe (copy_val cfg db n) (copy_val_hframe cfg db n) (oattrs ob) cs1) as (L & _).
    destruct (copy_attrs (copy_val cfg db n) (oattrs ob) cs1) as [cs2 a']. simpl in *.
    assert (Hlen : List.length (cheap cs) < List.length (cheap cs2)).
    { rewrite app_length in L. simpl in L. lia. }
    split.
    + apply (hcomp_trans base _ (cheap cs ++ [nb])); [apply hcomp_app|].
      apply (hcomp_trans base _ (cheap cs2)); [exact H2|].
      apply (hcomp_trans base _ (update (cheap cs2) (List.length (cheap cs)) (with_attrs nb a'))); [now apply hcomp_update_ge|].
      destruct (gtuple cfg && trestore cfg && is_pm_kind (okind ob)); [apply hcomp_retuple|apply hcomp_refl].
    + destruct (gtuple cfg && trestore cfg && is_pm_kind (okind ob)).
      * rewrite retuple_length, update_length. lia.
      * rewrite update_length. lia.
Qed.

Lemma copy_val_comp : forall cfg db n v cs x, x < List.length (cheap cs) ->
  match nth_error (cheap (fst (copy_val cfg db n v cs))) x with
  | Some b => Some (okind b, oattrs b, onitems b) | None => None end =
  match nth_error (cheap cs) x with Some a => Some (okind a, oattrs a, onitems a) | None => None end.
Proof.
  intros cfg db n v cs x Hx.
  destruct (copy_val_comp_gen cfg db (List.length (cheap cs)) n v cs (le_n _)) as [H _].
  specialize (H x Hx). destruct (nth_error (cheap cs) x) as [a|] eqn:G.
  - destruct (nth_error (cheap (fst (copy_val cfg db n v cs))) x); [exact H|contradiction].
  - apply nth_error_None in G. lia.
Qed.
