(* C13 witnesses: refutations of the full statement on the faithful model (each is a history
   that the implementation replays identically, see findings/C13-*.json) and non-vacuity
   examples for the hypotheses of the theorems. *)
From Coq Require Import ZArith List String Bool Arith.
From PAFC13 Require Import Model Proofs1 Proofs2 Proofs3.
Import ListNotations.
Open Scope string_scope.
Open Scope list_scope.

Definition cls0 : list (list string) := [["a"; "b"]; ["a"; "b"; "c"]; ["pos"; "w"]; ["x"]].
Definition pri0 : list (nat * (Z * Z)) := map (fun p => (p, (0, 10)%Z)) (seq 0 8).
(* the pinned wrapper: no clean-up on exceptions (Model.wrapper_cleanup = false at the pinned commit) *)
Definition cfg_pinned : config := mkConfig cls0 pri0 false.
Definition cfg_repaired : config := mkConfig cls0 pri0 true.

Definition leaf_model (p q : nat) : op := ONew (KModel 0) [("a", VPrior p); ("b", VPrior q)] 0.

(* 1. a failing call poisons the recursion cache: the next query raises TypeError, a parent
      silently loses the child *)
Definition h_poison : list op :=
  [leaf_model 0 1; leaf_model 2 3; ONew KColl [("m", VRef 0); ("n", VRef 1)] 0; OFailWalk 0].

Lemma poison_self : snd (run cfg_pinned (h_poison ++ [OQuery 0 QCount]) init)
                    = snd (run cfg_pinned h_poison init) ++ [Exn ETypeError].
Proof. vm_compute. reflexivity. Qed.
Lemma poison_parent : snd (run cfg_pinned (h_poison ++ [OQuery 2 QCount]) init)
                      = snd (run cfg_pinned h_poison init) ++ [Ok (ANat 0)].
Proof. vm_compute. reflexivity. Qed.
Lemma poison_fresh : snd (run_query cfg_pinned 2 QCount (fresh (fst (run cfg_pinned h_poison init)))) = Ok (ANat 4).
Proof. vm_compute. reflexivity. Qed.

Lemma refuted_failing_call_unrepaired : ~ coherent_everywhere cfg_pinned.
Proof.
  intros H. specialize (H h_poison 2 QCount). rewrite poison_parent, poison_fresh in H.
  apply app_inv_head in H. discriminate.
Qed.

(* tied to the constant the correspondence uses: as long as the model of the code does not clean
   up (which the correspondence run forces while the code does not), the full statement fails *)
Lemma refuted_failing_call : wrapper_cleanup = false -> ~ coherent_everywhere (mkConfig cls0 pri0 wrapper_cleanup).
Proof. intros E. rewrite E. exact refuted_failing_call_unrepaired. Qed.

(* the same history on the repaired wrapper *)
Lemma repaired_poison : guardedb cfg_repaired h_poison init = true
  /\ snd (run cfg_repaired (h_poison ++ [OQuery 2 QCount]) init) = snd (run cfg_repaired h_poison init) ++ [Ok (ANat 4)].
Proof. split; vm_compute; reflexivity. Qed.

(* 2. a child shared by two parents is unfrozen through the second parent: the first parent
      stays frozen and keeps answering from the old composition *)
Definition h_stale : list op :=
  [leaf_model 0 1; ONew KColl [("m", VRef 0)] 0; ONew KColl [("m", VRef 0); ("n", VPrior 2)] 0;
   OFreeze 1; OFreeze 2; OQuery 1 QCount; OUnfreeze 2; OSet 0 "e" (VPrior 3)].

Lemma stale_answer : snd (run cfg_repaired (h_stale ++ [OQuery 1 QCount]) init)
                     = snd (run cfg_repaired h_stale init) ++ [Ok (ANat 2)].
Proof. vm_compute. reflexivity. Qed.
Lemma stale_fresh : snd (run_query cfg_repaired 1 QCount (fresh (fst (run cfg_repaired h_stale init)))) = Ok (ANat 3).
Proof. vm_compute. reflexivity. Qed.

(* refuted even for the repaired wrapper: this finding is independent of the first *)
Lemma refuted_stale_ancestor : ~ coherent_everywhere cfg_repaired.
Proof.
  intros H. specialize (H h_stale 1 QCount). rewrite stale_answer, stale_fresh in H.
  apply app_inv_head in H. discriminate.
Qed.

(* 3. TuplePrior is not freezable *)
Definition h_tuple : list op :=
  [ONew KTuple [("pos_0", VPrior 0); ("pos_1", VConst 2)] 0; ONew (KModel 2) [("pos", VRef 0); ("w", VPrior 1)] 0;
   OFreeze 1; OQuery 1 QCount; OSet 1 "pos_1" (VPrior 2); OSet 0 "pos_1" (VPrior 2)].

Lemma tuple_outcomes : snd (run cfg_repaired (h_tuple ++ [OQuery 1 QCount]) init)
  = [Ok AUnit; Ok AUnit; Ok AUnit; Ok (ANat 2); Exn EAssertion; Ok AUnit; Ok (ANat 2)].
Proof. vm_compute. reflexivity. Qed.
Lemma tuple_fresh : snd (run_query cfg_repaired 1 QCount (fresh (fst (run cfg_repaired h_tuple init)))) = Ok (ANat 3).
Proof. vm_compute. reflexivity. Qed.

(* 4. delattr is not guarded *)
Definition h_del : list op := [leaf_model 0 1; OFreeze 0; OQuery 0 QCount; ODel 0 "a"].
Lemma del_outcomes : snd (run cfg_repaired (h_del ++ [OQuery 0 QCount]) init)
  = [Ok AUnit; Ok AUnit; Ok (ANat 2); Ok AUnit; Ok (ANat 2)].
Proof. vm_compute. reflexivity. Qed.
Lemma del_fresh : snd (run_query cfg_repaired 0 QCount (fresh (fst (run cfg_repaired h_del init)))) = Ok (ANat 1).
Proof. vm_compute. reflexivity. Qed.

(* none of the four satisfies the guard (so the partial theorem excludes exactly these) *)
Lemma witnesses_unguarded :
  guardedb cfg_pinned h_poison init = false /\ guardedb cfg_repaired h_stale init = false /\
  guardedb cfg_repaired h_tuple init = false /\ guardedb cfg_repaired h_del init = false.
Proof. repeat split; vm_compute; reflexivity. Qed.

(* ------------------------------------------------------------------ non-vacuity *)
(* a guarded history of the pinned configuration with freeze, cached queries, a rejected and an
   accepted modification, unfreeze, copy and several live models *)
Definition h_good : list op :=
  [leaf_model 0 1; leaf_model 2 3; ONew KColl [("m", VRef 0); ("k", VConst 3)] 0;
   OFreeze 2; OQuery 2 QCount; OQuery 2 QInfo; OSet 0 "e" (VPrior 4); OSet 1 "a" (VConst 5);
   OQuery 2 (QInstance [1; 2]%Z); OCopy 2; OUnfreeze 2; OSet 0 "b" (VPrior 2); OAppend 2 (VRef 1);
   OFreeze 2; OQuery 2 QPaths; OQuery 2 QCount; OQuery 3 QCount].

Example good_is_guarded : guarded cfg_pinned h_good init.
Proof. apply guardedb_sound. vm_compute. reflexivity. Qed.

Example good_outcomes :
  map (fun r => match r with Ok (ANat n) => Some n | _ => None end)
      (snd (run cfg_pinned h_good init))
  = [None; None; None; None; Some 2; None; None; None; None; None; None; None; None; None; None; Some 3; Some 2].
Proof. vm_compute. reflexivity. Qed.

Example frozen_rejects_hypotheses :
  let st := fst (run cfg_pinned [leaf_model 0 1; OFreeze 0] init) in
  exists ob, get st 0 = Some ob /\ okind ob <> KTuple /\ ofrozen ob = true.
Proof. eexists. split; [vm_compute; reflexivity|]. split; [discriminate|reflexivity]. Qed.

Example inv_holds_somewhere_frozen :
  let st := fst (run cfg_pinned [leaf_model 0 1; OFreeze 0; OQuery 0 QCount] init) in
  Inv st /\ exists ob, get st 0 = Some ob /\ ocache ob <> [].
Proof.
  split.
  - apply (guarded_ok cfg_pinned [leaf_model 0 1; OFreeze 0; OQuery 0 QCount] init Inv_init eq_refl).
    apply guardedb_sound. vm_compute. reflexivity.
  - eexists. split; [vm_compute; reflexivity|]. discriminate.
Qed.

Example agree_nonvacuous :
  let st := fst (run cfg_pinned [leaf_model 0 1; leaf_model 2 3] init) in
  let st' := fst (run cfg_pinned [leaf_model 0 1; leaf_model 2 3; OSet 1 "a" (VConst 7)] init) in
  quiet st st' /\ comp_at st' 1 <> comp_at st 1.
Proof. split; [apply quietb_sound; vm_compute; reflexivity|vm_compute; discriminate]. Qed.

(* two different guarded histories with the same final composition (hypotheses of C13_history_independent) *)
Definition h_a : list op := [leaf_model 0 1; OFreeze 0; OQuery 0 QCount; OQuery 0 QInfo; OUnfreeze 0; OFreeze 0].
Definition h_b : list op := [leaf_model 0 1].
Example history_independent_hypotheses :
  guarded cfg_pinned h_a init /\ guarded cfg_pinned h_b init /\
  fresh (fst (run cfg_pinned h_a init)) = fresh (fst (run cfg_pinned h_b init)) /\
  fst (run cfg_pinned h_a init) <> fst (run cfg_pinned h_b init).
Proof.
  split; [apply guardedb_sound; vm_compute; reflexivity|].
  split; [apply guardedb_sound; vm_compute; reflexivity|].
  split; [vm_compute; reflexivity|vm_compute; discriminate].
Qed.

(* hypotheses of C13_reflects_changes: an unfrozen collection *)
Example reflects_changes_hypotheses :
  let st := fst (run cfg_pinned [leaf_model 0 1; ONew KColl [("m", VRef 0)] 0] init) in
  exists ob, get st 1 = Some ob /\ okind ob = KColl /\ ofrozen ob = false.
Proof. eexists. split; [vm_compute; reflexivity|]. split; reflexivity. Qed.

(* hypotheses of C13_other_models_irrelevant: two states that differ (another live model was
   modified) and agree on everything reachable from object 2 *)
Example other_models_hypotheses :
  let st := fst (run cfg_pinned [leaf_model 0 1; leaf_model 2 3; ONew KColl [("m", VRef 0)] 0] init) in
  let st' := fst (run cfg_pinned [leaf_model 0 1; leaf_model 2 3; ONew KColl [("m", VRef 0)] 0; OSet 1 "a" (VConst 7)] init) in
  agree st st' 2 /\ inflight st' = inflight st /\ st' <> st.
Proof.
  split; [|split; [reflexivity|vm_compute; discriminate]].
  intros t R. apply comp_eqb_eq.
  assert (C : closedb (fst (run cfg_pinned [leaf_model 0 1; leaf_model 2 3; ONew KColl [("m", VRef 0)] 0] init)) [2; 0] = true)
    by (vm_compute; reflexivity).
  pose proof (Reach_closed _ _ C 2 t R (or_introl eq_refl)) as Hin.
  destruct Hin as [<-|[<-|[]]]; vm_compute; reflexivity.
Qed.

(* models_with_type goes through two more cached functions; a frozen history that uses them *)
Example models_query_cached :
  snd (run cfg_pinned [leaf_model 0 1; ONew (KModel 3) [("x", VConst 1)] 0; ONew KColl [("m", VRef 0); ("n", VRef 1)] 0;
                       OFreeze 2; OQuery 2 (QModels None false); OQuery 2 (QModels None true); OQuery 2 (QModels (Some 3) true)] init)
  = [Ok AUnit; Ok AUnit; Ok AUnit; Ok AUnit; Ok (AItems [([], LObj 0)]); Ok (AItems [([], LObj 0); ([], LObj 1)]);
     Ok (AItems [([], LObj 1)])].
Proof. vm_compute. reflexivity. Qed.
