From Coq Require Import ZArith List String Bool Arith.
From PAFC13 Require Import Model Proofs.
