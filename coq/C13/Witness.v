(* C13 witnesses: refutations of the full statement on the faithful model (each is a history
   that the implementation replays identically, see findings/C13-*.json) and non-vacuity
   examples for the hypotheses of the theorems. *)
From Coq Require Import ZArith List String Bool Arith Lia.
From PAFC13 Require Import Model ClassArgs Proofs1 Proofs2 Proofs3 Proofs4 Proofs5.
Import ListNotations.
Open Scope string_scope.
Open Scope list_scope.

Definition cls0 : list (list string) := [["a"; "b"]; ["a"; "b"; "c"]; ["pos"; "w"]; ["x"]].
Definition pri0 : list (nat * (Z * Z)) := map (fun p => (p, (0, 10)%Z)) (seq 0 8).
(* HISTORY: the pinned wrapper, no clean-up on exceptions (before 5afd9f1) *)
Definition cfg_pinned : config := mkConfig cls0 pri0 false true true false false false false.
(* HISTORY: wrapper repaired (5afd9f1), prior passing still thaws self, __setitem__ still transfers ids *)
Definition cfg_repaired : config := mkConfig cls0 pri0 true true true false false false false.
(* HISTORY: b8214a7 (prior passing works on a copy) and 6df133a (no id transfer to a caller's object) as well; deletion
   unguarded, TuplePrior not freezable, no modification counter (before 6ba0708, b49160e, 29fc8b9) *)
Definition cfg_fixed : config := mkConfig cls0 pri0 true false false false false false false.
(* /repo today: 6ba0708 delattr guarded, b49160e tuple priors frozen with their owner, 29fc8b9 caches count modifications *)
(* HISTORY (b49160e .. 916e580): all repairs but a restored TuplePrior kept its stored flag *)
Definition cfg_norestore : config := mkConfig cls0 pri0 true false false true true true false.
Definition cfg_all : config := mkConfig cls0 pri0 true false false true true true true.
(* ... the applied repairs are switched on in the configuration the correspondence runs (breaks if a constant of
   Model.v is flipped back); the three proposed repairs are cfg_all below, selected by delattr_guarded, tuples_frozen,
   cache_counts_modifications *)
Example current_is_fixed :
  wrapper_cleanup = true /\ derive_thaws = false /\ setitem_transfers = false /\
  delattr_guarded = true /\ tuples_frozen = true /\ cache_counts_modifications = true /\ tuple_flag_restored = true.
Proof. repeat split. Qed.
(* both configurations start from the same empty heap with the eight priors of pri0 *)
Definition init0 : state := mkState [] [] pri0.

Definition leaf_model (p q : nat) : op := ONew (KModel 0) [("a", VPrior p); ("b", VPrior q)] 0.

(* 1. a failing call poisons the recursion cache: the next query raises TypeError, a parent
      silently loses the child *)
Definition h_poison : list op :=
  [leaf_model 0 1; leaf_model 2 3; ONew KColl [("m", VRef 0); ("n", VRef 1)] 0; OFailWalk 0].

Lemma poison_self : snd (run cfg_pinned (h_poison ++ [OQuery 0 QCount]) init0)
                    = snd (run cfg_pinned h_poison init0) ++ [Exn ETypeError].
Proof. vm_compute. reflexivity. Qed.
Lemma poison_parent : snd (run cfg_pinned (h_poison ++ [OQuery 2 QCount]) init0)
                      = snd (run cfg_pinned h_poison init0) ++ [Ok (ANat 0)].
Proof. vm_compute. reflexivity. Qed.
Lemma poison_fresh : snd (run_query cfg_pinned 2 QCount (fresh (fst (run cfg_pinned h_poison init0)))) = Ok (ANat 4).
Proof. vm_compute. reflexivity. Qed.

Lemma refuted_failing_call_unrepaired : ~ coherent_everywhere cfg_pinned.
Proof.
  intros H. specialize (H h_poison 2 QCount). change (init cfg_pinned) with init0 in H. rewrite poison_parent, poison_fresh in H.
  apply app_inv_head in H. discriminate.
Qed.

(* the same history on the repaired wrapper *)
Lemma repaired_poison : guardedb cfg_repaired h_poison init0 = true
  /\ snd (run cfg_repaired (h_poison ++ [OQuery 2 QCount]) init0) = snd (run cfg_repaired h_poison init0) ++ [Ok (ANat 4)].
Proof. split; vm_compute; reflexivity. Qed.

(* 2. a child shared by two parents is unfrozen through the second parent: the first parent
      stays frozen and keeps answering from the old composition *)
Definition h_stale : list op :=
  [leaf_model 0 1; ONew KColl [("m", VRef 0)] 0; ONew KColl [("m", VRef 0); ("n", VPrior 2)] 0;
   OFreeze 1; OFreeze 2; OQuery 1 QCount; OUnfreeze 2; OSet 0 "e" (VPrior 3)].

Lemma stale_answer : snd (run cfg_fixed (h_stale ++ [OQuery 1 QCount]) init0)
                     = snd (run cfg_fixed h_stale init0) ++ [Ok (ANat 2)].
Proof. vm_compute. reflexivity. Qed.
Lemma stale_fresh : snd (run_query cfg_fixed 1 QCount (fresh (fst (run cfg_fixed h_stale init0)))) = Ok (ANat 3).
Proof. vm_compute. reflexivity. Qed.

(* refuted even for the repaired wrapper: this finding is independent of the first *)
Lemma refuted_stale_ancestor : ~ coherent_everywhere cfg_fixed.
Proof.
  intros H. specialize (H h_stale 1 QCount). change (init cfg_fixed) with init0 in H. rewrite stale_answer, stale_fresh in H.
  apply app_inv_head in H. discriminate.
Qed.

(* 3. TuplePrior is not freezable *)
Definition h_tuple : list op :=
  [ONew KTuple [("pos_0", VPrior 0); ("pos_1", VConst 2)] 0; ONew (KModel 2) [("pos", VRef 0); ("w", VPrior 1)] 0;
   OFreeze 1; OQuery 1 QCount; OSet 1 "pos_1" (VPrior 2); OSet 0 "pos_1" (VPrior 2)].

Lemma tuple_outcomes : snd (run cfg_fixed (h_tuple ++ [OQuery 1 QCount]) init0)
  = [Ok AUnit; Ok AUnit; Ok AUnit; Ok (ANat 2); Exn EAssertion; Ok AUnit; Ok (ANat 2)].
Proof. vm_compute. reflexivity. Qed.
Lemma tuple_fresh : snd (run_query cfg_fixed 1 QCount (fresh (fst (run cfg_fixed h_tuple init0)))) = Ok (ANat 3).
Proof. vm_compute. reflexivity. Qed.

(* 4. delattr is not guarded *)
Definition h_del : list op := [leaf_model 0 1; OFreeze 0; OQuery 0 QCount; ODel 0 "a"].
Lemma del_outcomes : snd (run cfg_fixed (h_del ++ [OQuery 0 QCount]) init0)
  = [Ok AUnit; Ok AUnit; Ok (ANat 2); Ok AUnit; Ok (ANat 2)].
Proof. vm_compute. reflexivity. Qed.
Lemma del_fresh : snd (run_query cfg_fixed 0 QCount (fresh (fst (run cfg_fixed h_del init0)))) = Ok (ANat 1).
Proof. vm_compute. reflexivity. Qed.

(* none of the four satisfies the guard (so the partial theorem excludes exactly these) *)
Lemma witnesses_unguarded :
  guardedb cfg_pinned h_poison init0 = false /\ guardedb cfg_fixed h_stale init0 = false /\
  guardedb cfg_fixed h_tuple init0 = false /\ guardedb cfg_fixed h_del init0 = false.
Proof. repeat split; vm_compute; reflexivity. Qed.

(* ------------------------------------------------------------------ non-vacuity *)
(* a guarded history of the pinned configuration with freeze, cached queries, a rejected and an
   accepted modification, unfreeze, copy and several live models *)
Definition h_good : list op :=
  [leaf_model 0 1; leaf_model 2 3; ONew KColl [("m", VRef 0); ("k", VConst 3)] 0;
   OFreeze 2; OQuery 2 QCount; OQuery 2 QInfo; OSet 0 "e" (VPrior 4); OSet 1 "a" (VConst 5);
   OQuery 2 (QInstance [1; 2]%Z); OCopy 2; OUnfreeze 2; OSet 0 "b" (VPrior 2); OAppend 2 (VRef 1);
   OFreeze 2; OQuery 2 QPaths; OQuery 2 QCount; OQuery 3 QCount].

Example good_is_guarded : guarded cfg_fixed h_good init0.
Proof. apply guardedb_sound. vm_compute. reflexivity. Qed.

Example good_outcomes :
  map (fun r => match r with Ok (ANat n) => Some n | _ => None end)
      (snd (run cfg_fixed h_good init0))
  = [None; None; None; None; Some 2; None; None; None; None; None; None; None; None; None; None; Some 3; Some 2].
Proof. vm_compute. reflexivity. Qed.

Example frozen_rejects_hypotheses :
  let st := fst (run cfg_fixed [leaf_model 0 1; OFreeze 0] init0) in
  exists ob, get st 0 = Some ob /\ okind ob <> KTuple /\ ofrozen ob = true.
Proof. eexists. split; [vm_compute; reflexivity|]. split; [discriminate|reflexivity]. Qed.

Example inv_holds_somewhere_frozen :
  let st := fst (run cfg_fixed [leaf_model 0 1; OFreeze 0; OQuery 0 QCount] init0) in
  Inv st /\ exists ob, get st 0 = Some ob /\ ocache ob <> [].
Proof.
  split.
  - apply (guarded_ok cfg_fixed [leaf_model 0 1; OFreeze 0; OQuery 0 QCount] (init cfg_fixed) (Inv_init cfg_fixed) eq_refl).
    apply guardedb_sound. vm_compute. reflexivity.
  - eexists. split; [vm_compute; reflexivity|]. discriminate.
Qed.

Example agree_nonvacuous :
  let st := fst (run cfg_fixed [leaf_model 0 1; leaf_model 2 3] init0) in
  let st' := fst (run cfg_fixed [leaf_model 0 1; leaf_model 2 3; OSet 1 "a" (VConst 7)] init0) in
  quiet st st' /\ comp_at st' 1 <> comp_at st 1.
Proof. split; [apply quietb_sound; vm_compute; reflexivity|vm_compute; discriminate]. Qed.

(* two different guarded histories with the same final composition (hypotheses of C13_history_independent) *)
Definition h_a : list op := [leaf_model 0 1; OFreeze 0; OQuery 0 QCount; OQuery 0 QInfo; OUnfreeze 0; OFreeze 0].
Definition h_b : list op := [leaf_model 0 1].
Example history_independent_hypotheses :
  guarded cfg_fixed h_a init0 /\ guarded cfg_fixed h_b init0 /\
  fresh (fst (run cfg_fixed h_a init0)) = fresh (fst (run cfg_fixed h_b init0)) /\
  fst (run cfg_fixed h_a init0) <> fst (run cfg_fixed h_b init0).
Proof.
  split; [apply guardedb_sound; vm_compute; reflexivity|].
  split; [apply guardedb_sound; vm_compute; reflexivity|].
  split; [vm_compute; reflexivity|vm_compute; discriminate].
Qed.

(* hypotheses of C13_reflects_changes: an unfrozen collection *)
Example reflects_changes_hypotheses :
  let st := fst (run cfg_fixed [leaf_model 0 1; ONew KColl [("m", VRef 0)] 0] init0) in
  exists ob, get st 1 = Some ob /\ okind ob = KColl /\ ofrozen ob = false.
Proof. eexists. split; [vm_compute; reflexivity|]. split; reflexivity. Qed.

(* hypotheses of C13_other_models_irrelevant: two states that differ (another live model was
   modified) and agree on everything reachable from object 2 *)
Example other_models_hypotheses :
  let st := fst (run cfg_fixed [leaf_model 0 1; leaf_model 2 3; ONew KColl [("m", VRef 0)] 0] init0) in
  let st' := fst (run cfg_fixed [leaf_model 0 1; leaf_model 2 3; ONew KColl [("m", VRef 0)] 0; OSet 1 "a" (VConst 7)] init0) in
  agree st st' 2 /\ inflight st' = inflight st /\ st' <> st.
Proof.
  split; [|split; [reflexivity|vm_compute; discriminate]].
  split; [|intros p _; reflexivity].
  intros t R. apply comp_eqb_eq.
  assert (C : closedb (fst (run cfg_fixed [leaf_model 0 1; leaf_model 2 3; ONew KColl [("m", VRef 0)] 0] init0)) [2; 0] = true)
    by (vm_compute; reflexivity).
  pose proof (Reach_closed _ _ C 2 t R (or_introl eq_refl)) as Hin.
  destruct Hin as [<-|[<-|[]]]; vm_compute; reflexivity.
Qed.

(* models_with_type goes through two more cached functions; a frozen history that uses them *)
Example models_query_cached :
  snd (run cfg_fixed [leaf_model 0 1; ONew (KModel 3) [("x", VConst 1)] 0; ONew KColl [("m", VRef 0); ("n", VRef 1)] 0;
                       OFreeze 2; OQuery 2 (QModels None false); OQuery 2 (QModels None true); OQuery 2 (QModels (Some 3) true)] init0)
  = [Ok AUnit; Ok AUnit; Ok AUnit; Ok AUnit; Ok (AItems [([], LObj 0)]); Ok (AItems [([], LObj 0); ([], LObj 1)]);
     Ok (AItems [([], LObj 1)])].
Proof. vm_compute. reflexivity. Qed.

(* ------------------------------------------------------------------ HISTORY (before 6df133a): item assignment rewrote ids *)
(* collection 1 assigns the prior p3 (which collection 0 also holds) over its key "m": p3 receives the
   id of the prior that sat there (p2), collection 0 -- never touched, not containing collection 1 --
   now reports a different id for its own parameter *)
Definition h_items : list op :=
  [ONew KColl [("m", VPrior 0); ("n", VPrior 3); ("k", VPrior 1)] 0; ONew KColl [("m", VPrior 2)] 0].

Lemma items_before : snd (run_query cfg_repaired 0 QOrdered (fst (run cfg_repaired h_items init0)))
  = Ok (AItems [(["m"], LPrior 0); (["k"], LPrior 1); (["n"], LPrior 3)]).
Proof. vm_compute. reflexivity. Qed.
Lemma items_after : snd (run_query cfg_repaired 0 QOrdered
                           (fst (step cfg_repaired (OSetItem 1 "m" (VPrior 3)) (fst (run cfg_repaired h_items init0)))))
  = Ok (AItems [(["m"], LPrior 0); (["k"], LPrior 1); (["n"], LPrior 2)]).
Proof. vm_compute. reflexivity. Qed.
Lemma items_unreached : ~ Reach (fst (run cfg_repaired h_items init0)) 0 1.
Proof.
  intros R.
  assert (C : closedb (fst (run cfg_repaired h_items init0)) [0] = true) by (vm_compute; reflexivity).
  destruct (Reach_closed _ _ C 0 1 R (or_introl eq_refl)) as [E|[]]. discriminate.
Qed.

Lemma setitem_leaks : ~ setitem_is_local cfg_repaired.
Proof.
  intros H. specialize (H h_items 1 "m" (VPrior 3) 0 QOrdered items_unreached).
  change (init cfg_repaired) with init0 in H. rewrite items_after, items_before in H. discriminate.
Qed.

(* merging: assigning p1 over the key that held p0 gives two priors the same id; the untouched
   collection 0 loses a parameter *)
Example items_merge :
  snd (run cfg_repaired (h_items ++ [OQuery 0 QCount; OSetItem 1 "m" (VPrior 1); OSetItem 1 "m" (VPrior 0); OQuery 0 QCount]) init0)
  = [Ok AUnit; Ok AUnit; Ok (ANat 3); Ok AUnit; Ok AUnit; Ok (ANat 2)].
Proof. vm_compute. reflexivity. Qed.

(* ------------------------------------------------------------------ HISTORY (before b8214a7): prior passing thawed *)
Definition h_derive : list op := [leaf_model 0 1; ONew KColl [("m", VRef 0)] 0; OFreeze 1; OQuery 1 QCount].

Lemma derive_flags : map ofrozen (heap (fst (step cfg_repaired (ODerive 1) (fst (run cfg_repaired h_derive init0))))) = [false; true]
  /\ map ofrozen (heap (fst (run cfg_repaired h_derive init0))) = [true; true].
Proof. split; vm_compute; reflexivity. Qed.

Lemma derive_thaws_flags : ~ derive_keeps_flags cfg_repaired.
Proof.
  intros H. specialize (H h_derive 1). change (init cfg_repaired) with init0 in H.
  destruct derive_flags as [E1 E2]. rewrite E1, E2 in H. discriminate.
Qed.

(* ... after which the frozen collection accepts a new parameter below it and keeps its old answer *)
Example derive_then_stale :
  snd (run cfg_repaired (h_derive ++ [ODerive 1; OSet 0 "e" (VPrior 2); OQuery 1 QCount; OCopy 1; OQuery 2 QCount]) init0)
  = [Ok AUnit; Ok AUnit; Ok AUnit; Ok (ANat 2); Ok AUnit; Ok AUnit; Ok (ANat 2); Ok AUnit; Ok (ANat 3)].
Proof. vm_compute. reflexivity. Qed.

(* ------------------------------------------------------------------ freeze does not reach tuple members *)
Lemma tuple_unprotected : ~ freeze_protects_all cfg_fixed.
Proof.
  intros H.
  specialize (H [ONew KTuple [("pos_0", VPrior 0); ("pos_1", VConst 2)] 0; ONew (KModel 2) [("pos", VRef 0); ("w", VPrior 1)] 0]
                1 0 "pos_1" (VPrior 2)).
  change (init cfg_fixed) with init0 in H.
  assert (R : Reach (fst (run cfg_fixed ([ONew KTuple [("pos_0", VPrior 0); ("pos_1", VConst 2)] 0;
                       ONew (KModel 2) [("pos", VRef 0); ("w", VPrior 1)] 0] ++ [OFreeze 1]) init0)) 1 0).
  { eapply Reach_step; [vm_compute; reflexivity|left; reflexivity|apply Reach_refl]. }
  specialize (H R). vm_compute in H. discriminate.
Qed.

(* hypotheses of the freeze theorem: a successful freeze of a collection over a model over a collection *)
Example freeze_depth_hypotheses :
  let st := fst (run cfg_fixed [leaf_model 0 1; ONew KColl [("m", VRef 0)] 0; ONew (KModel 3) [("x", VRef 1)] 0;
                                  ONew KColl [("q", VRef 2); ("r", VRef 0)] 0] init0) in
  Inv st /\ snd (freeze cfg_fixed FUEL 3 st) = Ok tt /\ PMReach st 3 0.
Proof.
  split; [|split].
  - apply (guarded_ok cfg_fixed _ (init cfg_fixed) (Inv_init cfg_fixed) eq_refl). apply guardedb_sound. vm_compute. reflexivity.
  - vm_compute. reflexivity.
  - eapply PM_step; [vm_compute; reflexivity|right; left; reflexivity|vm_compute; reflexivity|reflexivity|apply PM_refl].
Qed.

(* a self-referential collection: the recursion guard truncates the walk at the loop *)
Example self_reference :
  snd (run cfg_fixed [ONew KColl [("m", VPrior 0)] 0; OSet 0 "q" (VRef 0); OSet 0 "n" (VPrior 1); OQuery 0 QCount;
                         OQuery 0 QPaths; OFreeze 0; OQuery 0 QCount; OCopy 0; OQuery 1 QCount] init0)
  = [Ok AUnit; Ok AUnit; Ok AUnit; Ok (ANat 1); Ok (AItems [(["m"], LPrior 0)]); Ok AUnit; Ok (ANat 1); Ok AUnit; Ok (ANat 1)].
Proof. vm_compute. reflexivity. Qed.

(* the same two histories with the proposed repairs: nothing leaks, nothing thaws *)
Example fixed_items :
  snd (run_query cfg_fixed 0 QOrdered (fst (step cfg_fixed (OSetItem 1 "m" (VPrior 3)) (fst (run cfg_fixed h_items init0)))))
  = snd (run_query cfg_fixed 0 QOrdered (fst (run cfg_fixed h_items init0))).
Proof. vm_compute. reflexivity. Qed.
Example fixed_derive :
  map ofrozen (heap (fst (step cfg_fixed (ODerive 1) (fst (run cfg_fixed h_derive init0))))) = [true; true].
Proof. vm_compute. reflexivity. Qed.

(* the former witnesses on today's configuration: the frozen collection keeps its component frozen,
   the later assignment is rejected, the answers stay right *)
Example fixed_derive_history :
  snd (run cfg_fixed (h_derive ++ [ODerive 1; OSet 0 "e" (VPrior 2); OQuery 1 QCount; OCopy 1; OQuery 2 QCount]) init0)
  = [Ok AUnit; Ok AUnit; Ok AUnit; Ok (ANat 2); Ok AUnit; Exn EAssertion; Ok (ANat 2); Ok AUnit; Ok (ANat 2)].
Proof. vm_compute. reflexivity. Qed.
Example fixed_items_no_merge :
  snd (run cfg_fixed (h_items ++ [OQuery 0 QCount; OSetItem 1 "m" (VPrior 1); OSetItem 1 "m" (VPrior 0); OQuery 0 QCount; OQuery 0 QOrdered]) init0)
  = [Ok AUnit; Ok AUnit; Ok (ANat 3); Ok AUnit; Ok AUnit; Ok (ANat 3);
     Ok (AItems [(["m"], LPrior 0); (["k"], LPrior 1); (["n"], LPrior 3)])].
Proof. vm_compute. reflexivity. Qed.
Example fixed_histories_guarded :
  guardedb cfg_fixed (h_derive ++ [ODerive 1; OSet 0 "e" (VPrior 2); OQuery 1 QCount]) init0 = true /\
  guardedb cfg_fixed (h_items ++ [OSetItem 1 "m" (VPrior 3); OSetItem 1 "m" (VPrior 0)]) init0 = true.
Proof. split; vm_compute; reflexivity. Qed.
(* the redirect of tuple member names uses the part before the LAST underscore (595e741) *)
Example redirect_last_underscore :
  snd (run cfg_fixed [ONew KTuple [("pos_0", VPrior 0)] 0; ONew (KModel 2) [("pos", VRef 0); ("w", VPrior 1)] 0;
                      OSet 1 "pos_1" (VPrior 2); OSet 1 "pos_0_1" (VPrior 3); OQuery 1 QPaths] init0)
  = [Ok AUnit; Ok AUnit; Ok AUnit; Ok AUnit;
     Ok (AItems [(["pos"; "pos_0"], LPrior 0); (["w"], LPrior 1); (["pos"; "pos_1"], LPrior 2); (["pos_0_1"], LPrior 3)])].
Proof. vm_compute. reflexivity. Qed.

(* ------------------------------------------------------------------ today's code: all repairs applied *)
Example all_repaired_cfg : all_repaired cfg_all.
Proof. repeat split. Qed.

(* the three remaining witnesses under the proposed repairs: the modification is rejected or the cache dropped *)
Example repaired_stale : snd (run cfg_all (h_stale ++ [OQuery 1 QCount]) init0)
  = [Ok AUnit; Ok AUnit; Ok AUnit; Ok AUnit; Ok AUnit; Ok (ANat 2); Ok AUnit; Ok AUnit; Ok (ANat 3)].
Proof. vm_compute. reflexivity. Qed.
Example repaired_tuple : snd (run cfg_all (h_tuple ++ [OQuery 1 QCount]) init0)
  = [Ok AUnit; Ok AUnit; Ok AUnit; Ok (ANat 2); Exn EAssertion; Exn EAssertion; Ok (ANat 2)].
Proof. vm_compute. reflexivity. Qed.
Example repaired_del : snd (run cfg_all (h_del ++ [OQuery 0 QCount]) init0)
  = [Ok AUnit; Ok AUnit; Ok (ANat 2); Exn EAssertion; Ok (ANat 2)].
Proof. vm_compute. reflexivity. Qed.
Example repaired_tuple_thaws_with_owner :
  snd (run cfg_all (h_tuple ++ [OUnfreeze 1; OSet 0 "pos_1" (VPrior 2); OQuery 1 QCount; OFreeze 1; ODel 0 "pos_0"; OQuery 1 QCount]) init0)
  = [Ok AUnit; Ok AUnit; Ok AUnit; Ok (ANat 2); Exn EAssertion; Exn EAssertion; Ok AUnit; Ok AUnit; Ok (ANat 3); Ok AUnit;
     Exn EAssertion; Ok (ANat 3)].
Proof. vm_compute. reflexivity. Qed.

(* the configuration the correspondence runs, for any class table and prior pool, satisfies the
   hypothesis of the full theorem: no guard is left *)
Lemma current_all_repaired : forall cl pr,
  all_repaired (mkConfig cl pr wrapper_cleanup derive_thaws setitem_transfers delattr_guarded tuples_frozen
                         cache_counts_modifications tuple_flag_restored).
Proof. intros. repeat split. Qed.

Lemma coherent_current : forall cl pr,
  coherent_everywhere (mkConfig cl pr wrapper_cleanup derive_thaws setitem_transfers delattr_guarded tuples_frozen
                                cache_counts_modifications tuple_flag_restored).
Proof. intros. apply coherent_when_repaired. apply current_all_repaired. Qed.

(* an unguarded history of today's code (modification below a frozen ancestor, tuple member, delattr) *)
Example current_unguarded_history_is_coherent :
  guardedb cfg_all h_stale init0 = false /\
  snd (run cfg_all (h_stale ++ [OQuery 1 QCount]) init0)
  = snd (run cfg_all h_stale init0) ++ [snd (run_query cfg_all 1 QCount (fresh (fst (run cfg_all h_stale init0))))].
Proof. split; vm_compute; reflexivity. Qed.

(* ------------------------------------------------------------------ restoring a frozen model with a TuplePrior (916e580) *)
Definition h_restore : list op :=
  [ONew KTuple [("pos_0", VPrior 0); ("pos_1", VConst 2)] 0; ONew (KModel 2) [("pos", VRef 0); ("w", VPrior 1)] 0; OFreeze 1].

(* HISTORY (b49160e without 916e580): the database form of a frozen model holding a TuplePrior could not be rebuilt *)
Lemma restore_legacy_raises : snd (step cfg_norestore (ORestore 1 RDatabase) (fst (run cfg_norestore h_restore init0))) = Exn EAssertion.
Proof. vm_compute. reflexivity. Qed.

(* today: every restore succeeds, the restored object answers like the original, and the tuple prior carries the
   flag of its owner: frozen for copy / pickle / shallow copy of a frozen model, unfrozen for the database form *)
Example restore_now :
  snd (run cfg_all (h_restore ++ [OQuery 1 QCount; OCopy 1; ORestore 1 RShallow; ORestore 1 RDatabase;
                                  OQuery 2 QCount; OQuery 4 QCount; OQuery 5 QCount;
                                  OSet 3 "pos_1" (VPrior 2); OSet 6 "pos_1" (VPrior 2); OQuery 5 QCount; OQuery 1 QCount]) init0)
  = [Ok AUnit; Ok AUnit; Ok AUnit; Ok (ANat 2); Ok AUnit; Ok AUnit; Ok AUnit; Ok (ANat 2); Ok (ANat 2); Ok (ANat 2);
     Exn EAssertion; Ok AUnit; Ok (ANat 3); Ok (ANat 2)]
  /\ map ofrozen (heap (fst (run cfg_all (h_restore ++ [OCopy 1; ORestore 1 RShallow; ORestore 1 RDatabase]) init0)))
     = [true; true; true; true; true; false; false]
  /\ tuple_flags_ok (fst (run cfg_all (h_restore ++ [OCopy 1; ORestore 1 RShallow; ORestore 1 RDatabase]) init0)) = true.
Proof. repeat split; vm_compute; reflexivity. Qed.

(* delete a middle positional item, rebuild from the database form, append: the new item gets a fresh key (acffd7c) *)
Example db_restore_then_append :
  snd (run cfg_all [ONew KColl [("0", VPrior 0); ("1", VPrior 1); ("2", VPrior 2)] 3; ODel 0 "1"; ORestore 0 RDatabase;
                    OAppend 1 (VPrior 3); OQuery 1 QPaths; OQuery 1 QCount] init0)
  = [Ok AUnit; Ok AUnit; Ok AUnit; Ok AUnit;
     Ok (AItems [(["0"], LPrior 0); (["2"], LPrior 2); (["3"], LPrior 3)]); Ok (ANat 3)].
Proof. vm_compute. reflexivity. Qed.

(* ---- constructor-argument memo (ClassArgs.v): non-vacuity of C13_class_args_* ---- *)
(* two classes of one name with different constructors exist in cls0 when classes 0 and 1 are both called "P" *)
Definition names_shared : list string := ["P"; "P"; "Q"; "P"].
Example class_args_now :
  snd (class_args_run cfg_all (fst (class_args_run cfg_all [] [1; 3])) [0; 1; 0; 3])
  = [["a"; "b"]; ["a"; "b"; "c"]; ["a"; "b"]; ["x"]].
Proof. vm_compute. reflexivity. Qed.
(* hypotheses of C13_class_args_key_necessary / _name_key_leaks are met by that table ... *)
Example name_key_hypotheses_met :
  nth 1 names_shared EmptyString = nth 0 names_shared EmptyString /\ ctor_names cfg_all 1 <> ctor_names cfg_all 0.
Proof. split; [reflexivity | vm_compute; discriminate]. Qed.
(* ... and the leak is the one of seeded change C13 (memo keyed by module.qualname): the narrow model composed after the
   wide one is handed the wide constructor, and the other way round *)
Example name_keyed_memo_leaks :
  snd (name_keyed_run names_shared cfg_all [] [1; 0]) = [["a"; "b"; "c"]; ["a"; "b"; "c"]] /\
  snd (name_keyed_run names_shared cfg_all [] [0; 1]) = [["a"; "b"]; ["a"; "b"]] /\
  snd (name_keyed_run names_shared cfg_all [] [0; 2; 3]) = [["a"; "b"]; ["pos"; "w"]; ["a"; "b"]].
Proof. repeat split; vm_compute; reflexivity. Qed.
(* hypothesis of C13_class_args_key_sufficient met by a name key: distinct names *)
Example name_key_sound_when_names_differ :
  forall c d, c < 4 -> d < 4 -> nth c ["K0"; "K1"; "K2"; "K3"] EmptyString = nth d ["K0"; "K1"; "K2"; "K3"] EmptyString ->
  ctor_names cfg_all c = ctor_names cfg_all d.
Proof.
  intros c d Hc Hd.
  destruct c as [|[|[|[|c]]]]; destruct d as [|[|[|[|d]]]]; try (exfalso; lia); simpl; intro E; try reflexivity; discriminate E.
Qed.
(* the correspondence check accepts what the code reports and rejects the leak *)
Example check_ccase_discriminates :
  check_ccase (CCase cls0 [(1, Some ["a"; "b"; "c"]); (0, Some ["a"; "b"]); (0, None); (1, Some ["a"; "b"; "c"])]) = true /\
  check_ccase (CCase cls0 [(1, Some ["a"; "b"; "c"]); (0, Some ["a"; "b"; "c"])]) = false.
Proof. split; vm_compute; reflexivity. Qed.
