(* C13, the process-wide constructor-argument memo (`class_args_dict` of mapper/prior_model/prior_model.py,
   read through `Model.constructor_argument_names` by Model.__init__, instance_for_arguments, info ...).

   A class is its index in the class table of the history (object identity: two classes of one name are two
   indices).  The memo is a dict `key -> argument names`; the code derives the key from the class.  The model is
   generic in the key so that the theorems (Proofs5.v) can say which keys are sound:
   `can` = one evaluation of `constructor_argument_names` of a model of class c,
   `can_run` = the evaluations a history makes, in order (one per composed Model, one per query on a Model). *)
From Coq Require Import List String Bool Arith.
From PAFC13 Require Import Model.
Import ListNotations.
Open Scope list_scope.

Section Memo.
  Variable K : Type.
  Variable keqb : K -> K -> bool.
  Variable key : nat -> K.                  (* the dict key the code computes from a class *)
  Variable sig : nat -> list string.        (* inspect.getfullargspec(cls).args without "self" *)

  Definition memo := list (K * list string).

  Fixpoint mget (m : memo) (k : K) : option (list string) :=
    match m with
    | [] => None
    | (k', a) :: r => if keqb k' k then Some a else mget r k
    end.

  (* if key not in class_args_dict: class_args_dict[key] = <signature>; return class_args_dict[key] *)
  Definition can (m : memo) (c : nat) : memo * list string :=
    match mget m (key c) with
    | Some a => (m, a)
    | None => ((key c, sig c) :: m, sig c)
    end.

  Fixpoint can_run (m : memo) (h : list nat) : memo * list (list string) :=
    match h with
    | [] => (m, [])
    | c :: r => match can m c with
                | (m1, a) => match can_run m1 r with (m2, l) => (m2, a :: l) end
                end
    end.
End Memo.

Arguments mget {K} keqb m k.
Arguments can {K} keqb key sig m c.
Arguments can_run {K} keqb key sig m h.

(* the code as it is: the dict is keyed by the class object itself *)
Definition class_args_run (cfg : config) : memo nat -> list nat -> memo nat * list (list string) :=
  can_run Nat.eqb (fun c => c) (ctor_names cfg).

(* a memo keyed by a name of the class (`__name__`, `__qualname__`, `module.qualname`, repr ...) *)
Definition name_keyed_run (names : list string) (cfg : config) : memo string -> list nat -> memo string * list (list string) :=
  can_run String.eqb (fun c => nth c names EmptyString) (ctor_names cfg).

(* ------------------------------------------------------------------ correspondence *)
Fixpoint strs_eqb (a b : list string) : bool :=
  match a, b with
  | [], [] => true
  | x :: r, y :: t => String.eqb x y && strs_eqb r t
  | _, _ => false
  end.

Inductive ccase := CCase (classes : list (list string)) (h : list (nat * option (list string))).

Fixpoint agree (obs : list (nat * option (list string))) (got : list (list string)) : bool :=
  match obs, got with
  | [], [] => true
  | (_, None) :: r, _ :: g => agree r g
  | (_, Some a) :: r, b :: g => strs_eqb a b && agree r g
  | _, _ => false
  end.

Definition check_ccase (c : ccase) : bool :=
  match c with
  | CCase cl h =>
      let cfg := mkConfig cl [] true false false true true true true in
      agree h (snd (class_args_run cfg [] (map fst h)))
  end.
