(* C19 syntax shared by the generated data (Gen.v) and the model: the three DDL statement
   forms of autofit/database/migration/steps.py and schemas as association lists. *)
From Coq Require Import List String.

Inductive stmt :=
| AddColumn (t c : string)                       (* ALTER TABLE t ADD [COLUMN] c <type>; *)
| CreateTable (t : string) (cols : list string)  (* CREATE TABLE t (cols..., keys...);   *)
| RenameColumn (t a b : string).                 (* ALTER TABLE t RENAME COLUMN a TO b;  *)

(* table name -> ordered column names *)
Definition schema := list (string * list string).

(* a migration step: its statements, each as (raw SQL text, parsed form) *)
Definition step := list (string * stmt).

(* which of the three proposed repairs the code contains (read off the source by the translator;
   a wrong reading can only make the correspondence fail, never pass) *)
Record variant := mkvariant {
  v_commit : bool;      (* Migrator.migrate commits after stamping *)
  v_insert : bool;      (* revision_id setter inserts a row when the UPDATE matched none *)
  v_stamp_new : bool    (* open_database stamps a file it has just created *)
}.
