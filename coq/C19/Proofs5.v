(* C19 lemmas, part 5: the general theorems INSTANTIATED at the code as it is -- real_md5, the generated
   steps / mappers and code_variant (read off the source on every run).  If a repair is reverted,
   code_has_repairs no longer computes to true and this file stops compiling. *)
From Coq Require Import List String Bool Arith Lia.
From PAFC19 Require Import Syntax Gen Model Proofs Proofs2 Proofs3 Proofs4.
Import ListNotations.
Open Scope string_scope.
Open Scope list_scope.

Lemma code_has_repairs : v_commit code_variant && v_insert code_variant && v_stamp_new code_variant = true.
Proof. reflexivity. Qed.

Lemma code_commits : v_commit code_variant = true.
Proof. pose proof code_has_repairs as H. apply andb_true_iff in H. destruct H as [H _]. apply andb_true_iff in H. tauto. Qed.
Lemma code_inserts : v_insert code_variant = true.
Proof. pose proof code_has_repairs as H. apply andb_true_iff in H. destruct H as [H _]. apply andb_true_iff in H. tauto. Qed.
Lemma code_stamps_new : v_stamp_new code_variant = true.
Proof. pose proof code_has_repairs as H. apply andb_true_iff in H. tauto. Qed.

(* FULL fixed point, for the code as it is: whatever the file (any schema, any revision-table state, or no
   file at all) and whatever the user does in the first session (commit, write, rollback, nothing), the
   file is then stamped current with the schema that session saw, and every further session executes
   nothing and leaves schema and revision alone *)
Lemma code_fixpoint (f : file) (ops : list op) (h : list (list op)) :
  exists d1, snd (code_session f ops) = File d1
    /\ d_rev d1 = RRow (Some latest_id)
    /\ d_schema d1 = d_schema (s_open (fst (code_session f ops)))
    /\ Forall (fun o => s_trace o = [ESelectRev true] /\ sr (s_open o) = sr d1 /\ sr (s_end o) = sr d1 /\ sr (s_disk o) = sr d1)
              (fst (code_history (File d1) h))
    /\ exists d2, snd (code_history (File d1) h) = File d2 /\ sr d2 = sr d1.
Proof.
  exact (fixed_fixpoint real_md5 code_variant code_commits code_inserts orm_schema steps f ops h
           steps_ids_distinct steps_revs_distinct steps_nonempty (fun _ => code_stamps_new)).
Qed.

(* a file stamped current: the open reads the stamp and does nothing else *)
Lemma code_idempotent (c : conn) : d_rev (cur c) = RRow (Some latest_id) ->
  migrate_v real_md5 code_variant steps c = (c, [ESelectRev true]).
Proof.
  exact (migrate_v_current real_md5 code_variant steps c steps_ids_distinct steps_revs_distinct).
Qed.

(* a file stamped by a released version (PINNED id number k+1): exactly the statements of the later steps *)
Lemma code_released_applies_missing_once (k : nat) (c : conn) :
  k < List.length pinned_revision_ids -> S k < List.length steps ->
  d_rev (cur c) = RRow (Some (nth k pinned_revision_ids "")) ->
  stmts_of (snd (migrate_v real_md5 code_variant steps c)) = raw_stmts (skipn (S k) steps).
Proof.
  intros Hk Hn Hs.
  pose proof pinned_ids_are_prefix_b as B. apply andb_true_iff in B. destruct B as [_ B2].
  pose proof (forallb_seq _ _ _ B2 k ltac:(lia)) as E. unfold pinned_ok in E. apply String.eqb_eq in E.
  rewrite E in Hs.
  exact (migrate_v_prefix real_md5 code_variant code_commits code_inserts steps (S k) c
           steps_ids_distinct steps_revs_distinct ltac:(lia) Hs).
Qed.

(* a new file: made with the mappers' schema, stamped current, nothing else executed *)
Lemma code_new_file_b :
  let o := fst (code_session NoFile []) in
  schema_beq (d_schema (s_disk o)) orm_schema && rev_eqb (d_rev (s_disk o)) (RRow (Some latest_id))
  && Nat.eqb (List.length (stmts_of (s_trace o))) 0 = true.
Proof. vm_compute. reflexivity. Qed.

Lemma code_new_file :
  d_schema (s_disk (fst (code_session NoFile []))) = orm_schema
  /\ d_rev (s_disk (fst (code_session NoFile []))) = RRow (Some latest_id)
  /\ stmts_of (s_trace (fst (code_session NoFile []))) = [].
Proof.
  pose proof code_new_file_b as B. cbv zeta in B.
  apply andb_true_iff in B. destruct B as [B B3]. apply andb_true_iff in B. destruct B as [B1 B2].
  split; [apply schema_beq_eq; exact B1|]. split.
  - destruct (d_rev (s_disk (fst (code_session NoFile [])))) as [| |[x|]]; simpl in B2; try discriminate B2.
    apply String.eqb_eq in B2. subst. reflexivity.
  - destruct (stmts_of (s_trace (fst (code_session NoFile [])))); [reflexivity | discriminate B3].
Qed.
