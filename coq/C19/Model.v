(* C19 model: revision ids, Migrator.get_steps / Revision.__sub__, Migrator.migrate,
   SessionWrapper.revision_id (getter / setter with needs_revision_table), open_database,
   over an explicit model of the SQLite file + one DB-API connection (pysqlite legacy
   transaction control: DML opens a transaction, DDL does not; a failing statement is a
   no-op because migrate swallows OperationalError).  Executable definitions only. *)
From Coq Require Import List String Bool Arith.
From PAFC19 Require Import Syntax Gen.
Import ListNotations.
Open Scope string_scope.
Open Scope list_scope.

(* ---------- schemas and the three DDL statements ---------- *)

Fixpoint lookup (t : string) (s : schema) : option (list string) :=
  match s with
  | [] => None
  | (t', cols) :: s' => if String.eqb t t' then Some cols else lookup t s'
  end.

Fixpoint update (t : string) (cols : list string) (s : schema) : schema :=
  match s with
  | [] => []
  | (t', c') :: s' => if String.eqb t t' then (t', cols) :: s' else (t', c') :: update t cols s'
  end.

Definition mem (c : string) (l : list string) : bool := existsb (String.eqb c) l.

Definition rename (a b : string) (l : list string) : list string :=
  map (fun x => if String.eqb x a then b else x) l.

(* None = sqlite3.OperationalError (the statement changes nothing) *)
Definition exec (s : schema) (st : stmt) : option schema :=
  match st with
  | AddColumn t c =>
      match lookup t s with
      | None => None
      | Some cols => if mem c cols then None else Some (update t (cols ++ [c]) s)
      end
  | CreateTable t cols =>
      match lookup t s with
      | Some _ => None
      | None => Some (s ++ [(t, cols)])
      end
  | RenameColumn t a b =>
      match lookup t s with
      | None => None
      | Some cols => if mem a cols && negb (mem b cols) then Some (update t (rename a b cols) s) else None
      end
  end.

(* ---------- database file, connection, transactions ---------- *)

Inductive rev :=
| RNoTable                       (* no table `revision` *)
| REmpty                         (* table exists, no row *)
| RRow (r : option string).      (* one row, NULL or a revision id *)

Record db := mkdb { d_schema : schema; d_rev : rev; d_data : nat }.

Definition set_schema (s : schema) (d : db) : db := mkdb s (d_rev d) (d_data d).
Definition set_rev (r : rev) (d : db) : db := mkdb (d_schema d) r (d_data d).
Definition add_data (d : db) : db := mkdb (d_schema d) (d_rev d) (S (d_data d)).

(* disk = committed content of the file; work = Some w while a transaction is open *)
Record conn := mkconn { disk : db; work : option db }.

Definition cur (c : conn) : db := match work c with Some w => w | None => disk c end.
(* DDL: joins an open transaction, otherwise takes effect (autocommit) immediately *)
Definition ddl (f : db -> db) (c : conn) : conn :=
  match work c with
  | Some w => mkconn (disk c) (Some (f w))
  | None => mkconn (f (disk c)) None
  end.
(* DML: pysqlite issues BEGIN first when no transaction is open *)
Definition dml (f : db -> db) (c : conn) : conn := mkconn (disk c) (Some (f (cur c))).
Definition commit (c : conn) : conn := mkconn (cur c) None.
Definition rollback (c : conn) : conn := mkconn (disk c) None.

(* ---------- trace of executed statements ---------- *)

Inductive ev :=
| ESelectRev (ok : bool)    (* SELECT revision_id FROM revision *)
| ESelectOne (ok : bool)    (* SELECT 1 FROM revision (is_table) *)
| ECreateRev                (* CREATE TABLE revision ... *)
| EInsertNull               (* INSERT INTO revision (revision_id) VALUES (null) *)
| EUpdateRev (ok : bool)    (* UPDATE revision SET revision_id = :id *)
| EStmt (raw : string) (ok : bool)   (* a statement of a migration step *)
| ECreateAll                (* Base.metadata.create_all *)
| EInsertRev.               (* INSERT INTO revision (revision_id) VALUES (:id)  -- repaired setter only *)

(* ---------- identifiers ---------- *)

Fixpoint join (sep : string) (l : list string) : string :=
  match l with
  | [] => ""
  | [x] => x
  | x :: l' => (x ++ sep ++ join sep l')%string
  end.

Inductive file := NoFile | File (d : db).
Inductive op := OpCommit | OpWrite | OpRollback.
Record sobs := mksobs { s_trace : list ev; s_open : db; s_end : db; s_disk : db }.

Section Migrator.
  Variable md5 : string -> string.

  Definition step_id (st : step) : string := md5 (join ":" (map fst st)).
  Definition rev_id (ss : list step) : string := md5 (join ":" (map step_id ss)).

  (* Migrator.revisions: prefixes of length 1..n *)
  Definition revisions (ss : list step) : list (list step) :=
    map (fun i => firstn i ss) (seq 1 (List.length ss)).

  (* `step in other.steps` is Identifiable.__eq__: equality of ids *)
  Definition step_in (s : step) (l : list step) : bool :=
    existsb (fun o => String.eqb (step_id s) (step_id o)) l.

  (* Revision.__sub__ *)
  Definition rev_sub (a b : list step) : list step := filter (fun s => negb (step_in s b)) a.

  Fixpoint find_rev (rid : string) (revs : list (list step)) : option (list step) :=
    match revs with
    | [] => None
    | r :: revs' => if String.eqb rid (rev_id r) then Some r else find_rev rid revs'
    end.

  (* Migrator.get_steps *)
  Definition get_steps (ss : list step) (rid : option string) : list step :=
    match rid with
    | None => ss
    | Some r => match find_rev r (revisions ss) with
                | Some rv => rev_sub ss rv
                | None => ss
                end
    end.

  (* ---------- SessionWrapper ---------- *)

  Definition init_rev_table (c : conn) : conn :=
    dml (set_rev (RRow None)) (ddl (set_rev REmpty) c).

  (* revision_id getter under @needs_revision_table *)
  Definition get_revision (c : conn) : conn * option string * list ev :=
    match d_rev (cur c) with
    | RNoTable => (init_rev_table c, None,
                   [ESelectRev false; ESelectOne false; ECreateRev; EInsertNull; ESelectRev true])
    | REmpty => (c, None, [ESelectRev true])
    | RRow r => (c, r, [ESelectRev true])
    end.

  (* revision_id setter under @needs_revision_table: an UPDATE (no row => no effect) *)
  Definition set_revision (rid : string) (c : conn) : conn * list ev :=
    match d_rev (cur c) with
    | RNoTable => (dml (set_rev (RRow (Some rid))) (init_rev_table c),
                   [EUpdateRev false; ESelectOne false; ECreateRev; EInsertNull; EUpdateRev true])
    | REmpty => (dml (fun d => d) c, [EUpdateRev true])
    | RRow _ => (dml (set_rev (RRow (Some rid))) c, [EUpdateRev true])
    end.

  (* ---------- Migrator.migrate ---------- *)

  Fixpoint run_stmts (l : list (string * stmt)) (c : conn) : conn * list ev :=
    match l with
    | [] => (c, [])
    | (raw, st) :: l' =>
        match exec (d_schema (cur c)) st with
        | Some s' => let (c', tr) := run_stmts l' (ddl (set_schema s') c) in (c', EStmt raw true :: tr)
        | None => let (c', tr) := run_stmts l' c in (c', EStmt raw false :: tr)
        end
    end.

  Definition run_steps (ss : list step) (c : conn) : conn * list ev := run_stmts (List.concat ss) c.

  Definition migrate (ss : list step) (c : conn) : conn * list ev :=
    let '(c1, r, tr1) := get_revision c in
    match get_steps ss r with
    | [] => (c1, tr1)
    | todo =>
        let (c2, tr2) := run_steps todo c1 in
        let (c3, tr3) := set_revision (rev_id ss) c2 in
        (c3, tr1 ++ tr2 ++ tr3 ++ [ESelectRev true])
    end.

  (* ---------- open_database, user operations, sessions ---------- *)

  Definition open_database (orm : schema) (ss : list step) (f : file) : conn * list ev :=
    match f with
    | File d => migrate ss (mkconn d None)
    | NoFile => (mkconn (mkdb orm RNoTable 0) None, [ECreateAll])
    end.

  Definition do_op (c : conn) (o : op) : conn :=
    match o with
    | OpCommit => commit c
    | OpWrite => dml add_data c
    | OpRollback => rollback c
    end.

  (* observations of one session: trace of the open, the session's view after the open and
     before the close, and the file after the close (close = rollback of what is uncommitted) *)
  Definition run_session (orm : schema) (ss : list step) (f : file) (ops : list op) : sobs * file :=
    let (c, tr) := open_database orm ss f in
    let c' := fold_left do_op ops c in
    (mksobs tr (cur c) (cur c') (disk (rollback c')), File (disk (rollback c'))).

  Fixpoint run_history (orm : schema) (ss : list step) (f : file) (h : list (list op)) : list sobs * file :=
    match h with
    | [] => ([], f)
    | ops :: h' =>
        let (o, f') := run_session orm ss f ops in
        let (os, f'') := run_history orm ss f' h' in
        (o :: os, f'')
    end.

  Definition run_steps_schema (ss : list step) (s : schema) : schema :=
    d_schema (cur (fst (run_steps ss (mkconn (mkdb s RNoTable 0) None)))).

  (* ---------- the same functions with the proposed repairs switched on by `v` ---------- *)
  (* (v = all false is the code as pinned, see the variant_none lemmas of Proofs4) *)

  Definition set_revision_v (v : variant) (rid : string) (c : conn) : conn * list ev :=
    match d_rev (cur c) with
    | RNoTable => (dml (set_rev (RRow (Some rid))) (init_rev_table c),
                   [EUpdateRev false; ESelectOne false; ECreateRev; EInsertNull; EUpdateRev true])
    | REmpty => if v_insert v
                then (dml (set_rev (RRow (Some rid))) c, [EUpdateRev true; EInsertRev])
                else (dml (fun d => d) c, [EUpdateRev true])
    | RRow _ => (dml (set_rev (RRow (Some rid))) c, [EUpdateRev true])
    end.

  Definition migrate_v (v : variant) (ss : list step) (c : conn) : conn * list ev :=
    let '(c1, r, tr1) := get_revision c in
    match get_steps ss r with
    | [] => (c1, tr1)
    | todo =>
        let (c2, tr2) := run_steps todo c1 in
        let (c3, tr3) := set_revision_v v (rev_id ss) c2 in
        (if v_commit v then commit c3 else c3, tr1 ++ tr2 ++ tr3 ++ [ESelectRev true])
    end.

  Definition open_database_v (v : variant) (orm : schema) (ss : list step) (f : file) : conn * list ev :=
    match f with
    | File d => migrate_v v ss (mkconn d None)
    | NoFile =>
        let c := mkconn (mkdb orm RNoTable 0) None in
        if v_stamp_new v
        then let (c', tr) := set_revision_v v (rev_id ss) c in (commit c', ECreateAll :: tr)
        else (c, [ECreateAll])
    end.

  Definition run_session_v (v : variant) (orm : schema) (ss : list step) (f : file) (ops : list op) : sobs * file :=
    let (c, tr) := open_database_v v orm ss f in
    let c' := fold_left do_op ops c in
    (mksobs tr (cur c) (cur c') (disk (rollback c')), File (disk (rollback c'))).

  Fixpoint run_history_v (v : variant) (orm : schema) (ss : list step) (f : file) (h : list (list op)) : list sobs * file :=
    match h with
    | [] => ([], f)
    | ops :: h' =>
        let (o, f') := run_session_v v orm ss f ops in
        let (os, f'') := run_history_v v orm ss f' h' in
        (o :: os, f'')
    end.
End Migrator.

Definition variant_none : variant := mkvariant false false false.
Definition variant_all : variant := mkvariant true true true.

(* the migration-step statements a trace executed (all of them / those that took effect) *)
Definition stmts_of (tr : list ev) : list string :=
  flat_map (fun e => match e with EStmt raw _ => [raw] | _ => [] end) tr.
Definition ok_stmts_of (tr : list ev) : list string :=
  flat_map (fun e => match e with EStmt raw true => [raw] | _ => [] end) tr.
(* the part of a database the migrator is responsible for *)
Definition sr (d : db) : schema * rev := (d_schema d, d_rev d).

(* ---------- the concrete instance: generated steps, hashlib.md5 as a finite table ---------- *)

Fixpoint table_md5 (t : list (string * string)) (x : string) : string :=
  match t with
  | [] => "?md5-not-in-table"
  | (k, v) :: t' => if String.eqb k x then v else table_md5 t' x
  end.

Definition real_md5 : string -> string := table_md5 md5_table.

(* schema of a database that has received the first k steps on top of `b` *)
Definition schema_at (b : schema) (k : nat) : schema := run_steps_schema (firstn k steps) b.

(* every table / column of `need` is present in `s` *)
Definition covers (s need : schema) : bool :=
  forallb (fun tc => match lookup (fst tc) s with
                     | Some cols => forallb (fun c => mem c cols) (snd tc)
                     | None => false
                     end) need.

(* gaps: (table, column) pairs *)
Definition has_col (s : schema) (g : string * string) : bool :=
  match lookup (fst g) s with Some cols => mem (snd g) cols | None => false end.
Definition is_gap (gaps : list (string * string)) (t c : string) : bool :=
  existsb (fun g => String.eqb (fst g) t && String.eqb (snd g) c) gaps.
(* `need` without the listed columns; tables left without any column are dropped *)
Definition remove_gaps (gaps : list (string * string)) (need : schema) : schema :=
  filter (fun tc => match snd tc with [] => false | _ => true end)
         (map (fun tc => (fst tc, filter (fun c => negb (is_gap gaps (fst tc) c)) (snd tc))) need).

(* vocabulary for the statements about the generated step list *)
Definition current_schema (b : schema) : schema := schema_at b (List.length steps).
Definition latest_id : string := rev_id real_md5 steps.
(* a database that received the first k steps and carries the stamp of that revision *)
Definition stamped_db (b : schema) (k : nat) : db :=
  mkdb (schema_at b k) (RRow (Some (rev_id real_md5 (firstn k steps)))) 0.
(* ... or carries no stamp: r is RNoTable, REmpty or RRow None *)
Definition unstamped_db (b : schema) (k : nat) (r : rev) : db := mkdb (schema_at b k) r 0.
Definition unstamped (r : rev) : Prop := r = RNoTable \/ r = REmpty \/ r = RRow None.
(* the migration performed by open_database on an existing file -- by the code AS IT IS (code_variant is read
   off the source on every run; the correspondence ties exactly this function to the implementation) *)
Definition opened (d : db) : conn * list ev := migrate_v real_md5 code_variant steps (mkconn d None).
(* one session / a history of sessions of the code as it is, on the generated step list and mappers *)
Definition code_session (f : file) (ops : list op) : sobs * file := run_session_v real_md5 code_variant orm_schema steps f ops.
Definition code_history (f : file) (h : list (list op)) : list sobs * file := run_history_v real_md5 code_variant orm_schema steps f h.
Definition raw_stmts (ss : list step) : list string := map fst (List.concat ss).

(* ---------- correspondence cases ---------- *)

Definition raw_at (ss : list step) (i j : nat) : string :=
  fst (nth j (nth i ss []) ("?no-such-statement", AddColumn "" "")).
(* trace entries as printed by the harness: statement j of step i *)
Definition T (ss : list step) (i j : nat) (ok : bool) : ev := EStmt (raw_at ss i j) ok.
Definition R (i j : nat) (ok : bool) : ev := T steps i j ok.

Fixpoint list_eqb {A} (eqb : A -> A -> bool) (a b : list A) : bool :=
  match a, b with
  | [], [] => true
  | x :: a', y :: b' => eqb x y && list_eqb eqb a' b'
  | _, _ => false
  end.

Definition opt_eqb {A} (eqb : A -> A -> bool) (a b : option A) : bool :=
  match a, b with Some x, Some y => eqb x y | None, None => true | _, _ => false end.

(* same tables (any order), same ordered columns *)
Definition schema_eqb (a b : schema) : bool :=
  Nat.eqb (List.length a) (List.length b) &&
  forallb (fun tc => match lookup (fst tc) b with
                     | Some cols => list_eqb String.eqb (snd tc) cols
                     | None => false
                     end) a.

Definition rev_eqb (a b : rev) : bool :=
  match a, b with
  | RNoTable, RNoTable => true
  | REmpty, REmpty => true
  | RRow x, RRow y => opt_eqb String.eqb x y
  | _, _ => false
  end.

Definition db_eqb (a b : db) : bool :=
  schema_eqb (d_schema a) (d_schema b) && rev_eqb (d_rev a) (d_rev b) && Nat.eqb (d_data a) (d_data b).

Definition ev_eqb (a b : ev) : bool :=
  match a, b with
  | ESelectRev x, ESelectRev y => Bool.eqb x y
  | ESelectOne x, ESelectOne y => Bool.eqb x y
  | ECreateRev, ECreateRev => true
  | EInsertNull, EInsertNull => true
  | EUpdateRev x, EUpdateRev y => Bool.eqb x y
  | EStmt r x, EStmt s y => String.eqb r s && Bool.eqb x y
  | ECreateAll, ECreateAll => true
  | EInsertRev, EInsertRev => true
  | _, _ => false
  end.

(* what the harness saw in one session; None = "identical to the previous observation of this case" *)
Record seen := mkseen { n_trace : list ev; n_open : option db; n_end : option db; n_disk : option db }.

Definition resolve (prev : db) (o : option db) : db := match o with Some d => d | None => prev end.

Fixpoint sessions_ok (prev : db) (model : list sobs) (impl : list seen) : bool :=
  match model, impl with
  | [], [] => true
  | m :: model', i :: impl' =>
      let o := resolve prev (n_open i) in
      let e := resolve o (n_end i) in
      let d := resolve e (n_disk i) in
      list_eqb ev_eqb (s_trace m) (n_trace i) && db_eqb (s_open m) o && db_eqb (s_end m) e && db_eqb (s_disk m) d
      && sessions_ok d model' impl'
  | _, _ => false
  end.

Definition start_db (f : file) : db := match f with File d => d | NoFile => mkdb [] RNoTable 0 end.

Inductive case :=
(* the real migrator: ids of steps / revisions as reported by the implementation *)
| CIds (step_ids rev_ids : list string) (latest : string)
(* migrator.get_steps(rid) on the real step list: ids of the returned steps *)
| CGetSteps (rid : option string) (ids : list string)
(* Migrator( *toy ).get_steps(rid): toy steps (possibly with duplicates), their md5 table *)
| CToyGetSteps (tab : list (string * string)) (ss : list step) (rid : option string) (ids : list string)
(* a history of sessions through open_database on a file at a historical revision *)
| CHistory (start : file) (h : list (list op)) (impl : list seen)
(* a history of Migrator( *toy ).migrate(session) calls on a toy database *)
| CToyHistory (tab : list (string * string)) (ss : list step) (start : db) (h : list (list op)) (impl : list seen).

Definition check_case (c : case) : bool :=
  match c with
  | CIds sids rids latest =>
      list_eqb String.eqb (map (step_id real_md5) steps) sids
      && list_eqb String.eqb (map (rev_id real_md5) (revisions steps)) rids
      && String.eqb (rev_id real_md5 steps) latest
  | CGetSteps rid ids =>
      list_eqb String.eqb (map (step_id real_md5) (get_steps real_md5 steps rid)) ids
  | CToyGetSteps tab ss rid ids =>
      list_eqb String.eqb (map (step_id (table_md5 tab)) (get_steps (table_md5 tab) ss rid)) ids
  | CHistory start h impl =>
      sessions_ok (start_db start) (fst (run_history_v real_md5 code_variant orm_schema steps start h)) impl
  | CToyHistory tab ss start h impl =>
      sessions_ok start (fst (run_history_v (table_md5 tab) code_variant [] ss (File start) h)) impl
  end.
