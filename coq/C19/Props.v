(* C19 property theorems: statements only, each closed by `exact`.
   md5 is a parameter of the general theorems (identifier distinctness is a hypothesis there and is
   PROVED for the generated step list: C19_generated_ids_distinct).  `steps`, `orm_schema`,
   `base_schema`, `orm_gaps`, ... are regenerated from /repo on every run (Gen.v). *)
From Coq Require Import List String Bool.
From PAFC19 Require Import Syntax Gen Model Proofs Proofs2 Proofs3 Proofs4.
Import ListNotations.
Open Scope bool_scope.
Open Scope list_scope.

(* ---- exactly the missing steps, each once, in order (Migrator.get_steps, Revision.__sub__) ---- *)

Theorem C19_missing_steps : forall (md5 : string -> string) (ss : list step) (k : nat),
  ids_distinct md5 ss -> revs_distinct md5 ss -> 1 <= k <= List.length ss ->
  get_steps md5 ss (Some (rev_id md5 (firstn k ss))) = skipn k ss.
Proof. exact get_steps_prefix. Qed.

Theorem C19_no_revision_all_steps : forall (md5 : string -> string) (ss : list step), get_steps md5 ss None = ss.
Proof. exact get_steps_none. Qed.

Theorem C19_unrecognised_all_steps : forall (md5 : string -> string) (ss : list step) (rid : string),
  (forall r, In r (revisions ss) -> rev_id md5 r <> rid) -> get_steps md5 ss (Some rid) = ss.
Proof. exact get_steps_unknown. Qed.

Theorem C19_generated_ids_distinct : ids_distinct real_md5 steps /\ revs_distinct real_md5 steps /\ steps <> [].
Proof. exact generated_ids_distinct. Qed.

(* a file stamped with the revision of the first k steps: the open executes exactly the statements of
   the remaining steps, each once, in order; the session sees the current stamp; no row is touched *)
Theorem C19_stamped_applies_missing_once : forall (md5 : string -> string) (ss : list step) (k : nat) (c : conn),
  ids_distinct md5 ss -> revs_distinct md5 ss -> 1 <= k < List.length ss ->
  d_rev (cur c) = RRow (Some (rev_id md5 (firstn k ss))) ->
  stmts_of (snd (migrate md5 ss c)) = map fst (List.concat (skipn k ss))
  /\ d_rev (cur (fst (migrate md5 ss c))) = RRow (Some (rev_id md5 ss))
  /\ d_data (cur (fst (migrate md5 ss c))) = d_data (cur c).
Proof. exact migrate_prefix. Qed.

(* ---- a file stamped current: the open changes nothing; fixed point for every later history ---- *)

Theorem C19_idempotent : forall (md5 : string -> string) (ss : list step) (c : conn),
  ids_distinct md5 ss -> revs_distinct md5 ss -> d_rev (cur c) = RRow (Some (rev_id md5 ss)) ->
  migrate md5 ss c = (c, [ESelectRev true]).
Proof. exact migrate_current. Qed.

Theorem C19_fixpoint_once_stamped : forall (md5 : string -> string) (orm : schema) (ss : list step) (h : list (list op)) (d : db),
  ids_distinct md5 ss -> revs_distinct md5 ss -> d_rev d = RRow (Some (rev_id md5 ss)) ->
  Forall (fun o => s_trace o = [ESelectRev true] /\ sr (s_open o) = sr d /\ sr (s_end o) = sr d /\ sr (s_disk o) = sr d)
         (fst (run_history md5 orm ss (File d) h))
  /\ exists d', snd (run_history md5 orm ss (File d) h) = File d' /\ sr d' = sr d.
Proof. exact history_current. Qed.

(* ---- "repeated opens reach a fixed point after the first": FULL statement refuted, PARTIAL proved ---- *)

(* full statement, on the generated steps: false for the original schema without revision table *)
Theorem C19_fixpoint_refuted :
  exists d : db, ~ (forall o1 o2 f, run_history real_md5 orm_schema steps (File d) [[]; []] = ([o1; o2], f) ->
                    stmts_of (s_trace o2) = [] /\ sr (s_disk o2) = sr (s_disk o1)).
Proof. exact fixpoint_refuted. Qed.

(* why, for every step list: without a commit the first open of a file without revision table is rolled
   back entirely, except for an EMPTY revision table ... *)
Theorem C19_first_open_rolled_back : forall (md5 : string -> string) (orm : schema) (ss : list step) (d : db) (ops : list op),
  ss <> [] -> d_rev d = RNoTable -> ~ In OpCommit ops ->
  snd (run_session md5 orm ss (File d) ops) = File (set_rev REmpty d).
Proof. exact session_no_table_no_commit. Qed.

(* ... and a file with an empty revision table is never stamped by any history whatsoever (commits
   included): every open executes every statement of every step again *)
Theorem C19_empty_table_never_stamped : forall (md5 : string -> string) (orm : schema) (ss : list step) (h : list (list op)) (d : db),
  ss <> [] -> d_rev d = REmpty ->
  Forall (fun o => stmts_of (s_trace o) = map fst (List.concat ss)) (fst (run_history md5 orm ss (File d) h))
  /\ exists d', snd (run_history md5 orm ss (File d) h) = File d' /\ d_rev d' = REmpty.
Proof. exact history_empty_table. Qed.

Theorem C19_read_only_never_stamps : forall (md5 : string -> string) (orm : schema) (ss : list step) (ops : list op) (h : list (list op)) (d : db),
  ss <> [] -> d_rev d = RNoTable -> ~ In OpCommit ops ->
  exists d', snd (run_history md5 orm ss (File d) (ops :: h)) = File d' /\ d_rev d' = REmpty.
Proof. exact history_read_only_never_stamps. Qed.

(* partial: if the first session commits (file with a revision row, or without revision table), the file
   is stamped current with the schema the session saw, and every later session is the identity on
   schema and revision and executes nothing *)
Theorem C19_fixpoint_partial : forall (md5 : string -> string) (orm : schema) (ss : list step) (d : db) (ops : list op) (h : list (list op)),
  ids_distinct md5 ss -> revs_distinct md5 ss -> ss <> [] -> d_rev d <> REmpty -> In OpCommit ops ->
  exists d1, snd (run_session md5 orm ss (File d) ops) = File d1
    /\ d_rev d1 = RRow (Some (rev_id md5 ss))
    /\ d_schema d1 = d_schema (s_open (fst (run_session md5 orm ss (File d) ops)))
    /\ Forall (fun o => s_trace o = [ESelectRev true] /\ sr (s_open o) = sr d1 /\ sr (s_end o) = sr d1 /\ sr (s_disk o) = sr d1)
              (fst (run_history md5 orm ss (File d1) h))
    /\ exists d2, snd (run_history md5 orm ss (File d1) h) = File d2 /\ sr d2 = sr d1.
Proof. exact commit_then_fixpoint. Qed.

(* ---- the model with the proposed repairs (Model.*_v; check_case uses the variant read off the code) ---- *)

(* variant_none IS the model all theorems above are about *)
Theorem C19_variant_none_is_pinned_model : forall (md5 : string -> string) (orm : schema) (ss : list step) (h : list (list op)) (f : file),
  run_history_v md5 variant_none orm ss f h = run_history md5 orm ss f h.
Proof. exact run_history_v_none. Qed.

(* FULL fixed point for a variant that commits in migrate and inserts the missing revision row: after the
   first session on ANY file (any revision-table state, commit or no commit; a new file if new files are
   stamped) the file is stamped current with the schema the session saw, and every further session
   executes nothing and leaves schema and revision alone *)
Theorem C19_fixed_fixpoint : forall (md5 : string -> string) (v : variant), v_commit v = true -> v_insert v = true ->
  forall (orm : schema) (ss : list step) (f : file) (ops : list op) (h : list (list op)),
  ids_distinct md5 ss -> revs_distinct md5 ss -> ss <> [] -> (f = NoFile -> v_stamp_new v = true) ->
  exists d1, snd (run_session_v md5 v orm ss f ops) = File d1
    /\ d_rev d1 = RRow (Some (rev_id md5 ss))
    /\ d_schema d1 = d_schema (s_open (fst (run_session_v md5 v orm ss f ops)))
    /\ Forall (fun o => s_trace o = [ESelectRev true] /\ sr (s_open o) = sr d1 /\ sr (s_end o) = sr d1 /\ sr (s_disk o) = sr d1)
              (fst (run_history_v md5 v orm ss (File d1) h))
    /\ exists d2, snd (run_history_v md5 v orm ss (File d1) h) = File d2 /\ sr d2 = sr d1.
Proof. exact fixed_fixpoint. Qed.

Theorem C19_fixed_applies_missing_once : forall (md5 : string -> string) (v : variant), v_commit v = true -> v_insert v = true ->
  forall (ss : list step) (k : nat) (c : conn),
  ids_distinct md5 ss -> revs_distinct md5 ss -> 1 <= k < List.length ss ->
  d_rev (cur c) = RRow (Some (rev_id md5 (firstn k ss))) ->
  stmts_of (snd (migrate_v md5 v ss c)) = map fst (List.concat (skipn k ss)).
Proof. exact migrate_v_prefix. Qed.

(* ---- every earlier revision reaches the current schema (generated steps; finite family) ---- *)

Theorem C19_reaches_current_stamped : forall k : nat, 1 <= k <= List.length steps ->
  d_schema (cur (fst (opened (stamped_db base_schema k)))) = current_schema base_schema
  /\ stmts_of (snd (opened (stamped_db base_schema k))) = raw_stmts (skipn k steps)
  /\ ok_stmts_of (snd (opened (stamped_db base_schema k))) = raw_stmts (skipn k steps).
Proof. exact reaches_current_stamped. Qed.

(* no stamp (no revision table / empty table / NULL row) at a schema below exact_upto: every statement is
   attempted, exactly those of the missing steps take effect, the session sees the current schema *)
Theorem C19_reaches_current_unstamped : forall (k : nat) (r : rev), k < exact_upto -> k <= List.length steps -> unstamped r ->
  d_schema (cur (fst (opened (unstamped_db base_schema k r)))) = current_schema base_schema
  /\ ok_stmts_of (snd (opened (unstamped_db base_schema k r))) = raw_stmts (skipn k steps)
  /\ stmts_of (snd (opened (unstamped_db base_schema k r))) = raw_stmts steps.
Proof. exact reaches_current_unstamped. Qed.

(* ... and the bound is sharp: at revision exact_upto (generated; on the pinned tree = the current revision)
   a statement of an already applied step takes effect again *)
Theorem C19_reaches_current_unstamped_refuted :
  Nat.leb exact_upto (List.length steps) = true ->
  negb (list_eqb String.eqb (ok_stmts_of (snd (opened (unstamped_db base_schema exact_upto RNoTable))))
                            (raw_stmts (skipn exact_upto steps))) = true.
Proof. exact exact_upto_sharp. Qed.

(* no stamp at the CURRENT schema (every file made by create_all): "changes nothing" is refuted ... *)
Theorem C19_unstamped_current_unchanged_refuted :
  d_schema (cur (fst (opened (mkdb orm_schema RNoTable 0)))) <> orm_schema
  /\ ok_stmts_of (snd (opened (unstamped_db base_schema n_steps RNoTable))) <> [].
Proof. exact created_file_changed_by_reopen. Qed.

(* ... partial: nothing the mappers / the current schema need is lost *)
Theorem C19_unstamped_current_partial :
  forallb (fun r => covers (d_schema (cur (fst (opened (unstamped_db base_schema n_steps r))))) (current_schema base_schema)
                    && covers (d_schema (cur (fst (opened (mkdb orm_schema r 0))))) orm_schema) unstamped_revs = true.
Proof. exact unstamped_current_covers_b. Qed.

(* ---- the migrated schema provides what the current mappers read and write ---- *)

(* partial: all of Base.metadata except the generated list orm_gaps (full statement iff orm_gaps = []) *)
Theorem C19_reaches_orm_partial : covers (current_schema base_schema) (remove_gaps orm_gaps orm_schema) = true.
Proof. exact current_covers_orm_but_gaps. Qed.

(* refuted part: every entry of orm_gaps is a mapper column the migrated schema lacks *)
Theorem C19_reaches_orm_refuted :
  forallb (fun g => negb (has_col (current_schema base_schema) g) && has_col orm_schema g) orm_gaps = true.
Proof. exact orm_gaps_real. Qed.

Theorem C19_artifact_reaches_orm_partial :
  covers (run_steps_schema steps artifact_schema) (remove_gaps artifact_gaps orm_schema) = true \/ artifact_schema = [].
Proof. exact artifact_covers_orm_but_gaps. Qed.

Theorem C19_artifact_reaches_orm_refuted :
  forallb (fun g => negb (has_col (run_steps_schema steps artifact_schema) g) && has_col orm_schema g) artifact_gaps = true.
Proof. exact artifact_gaps_real. Qed.

(* ---- existing fits stay readable: no row, table or column is ever lost by a migration ---- *)

Theorem C19_rows_preserved : forall (md5 : string -> string) (ss : list step) (c : conn),
  d_data (cur (fst (migrate md5 ss c))) = d_data (cur c) /\ d_data (disk (fst (migrate md5 ss c))) = d_data (disk c).
Proof. exact migrate_keeps_data. Qed.

Theorem C19_tables_preserved : forall (md5 : string -> string) (ss : list step) (c : conn) (t : string) (cols : list string),
  lookup t (d_schema (cur c)) = Some cols ->
  exists cols', lookup t (d_schema (cur (fst (migrate md5 ss c)))) = Some cols' /\ List.length cols <= List.length cols'.
Proof. exact migrate_keeps_tables. Qed.

Theorem C19_columns_preserved : forall (s s' : schema) (st : stmt) (t : string) (cols : list string),
  exec s st = Some s' -> lookup t s = Some cols ->
  exists cols', lookup t s' = Some cols' /\ List.length cols <= List.length cols'
                /\ forall c, In c cols -> In (renamed st t c) cols'.
Proof. exact exec_preserves. Qed.

Print Assumptions C19_missing_steps.
Print Assumptions C19_fixpoint_partial.
Print Assumptions C19_empty_table_never_stamped.
Print Assumptions C19_reaches_current_unstamped.
Print Assumptions C19_fixpoint_refuted.
Print Assumptions C19_fixed_fixpoint.
