(* C19 property theorems: statements only, each closed by `exact`.
   Part A: Migrator.get_steps for every step list.   Part B: THE CODE AS IT IS -- real_md5, the step list /
   mappers regenerated from /repo, the PINNED history (corpus/C19/pinned_history.json) and code_variant (read
   off migrate / the revision_id setter / open_database on every run; the correspondence check ties
   Model.*_v code_variant to the implementation).  Part C: any variant with the repairs.  Part D: the
   UNREPAIRED variant (the code before fix 8b3dae9): refutations that motivated the repairs, kept as
   theorems about Model.migrate = migrate_v variant_none. *)
From Coq Require Import List String Bool.
From PAFC19 Require Import Syntax Gen Model Proofs Proofs2 Proofs3 Proofs4 Proofs5.
Import ListNotations.
Open Scope bool_scope.
Open Scope list_scope.

(* ================= A. exactly the missing steps, each once, in order ================= *)

Theorem C19_missing_steps : forall (md5 : string -> string) (ss : list step) (k : nat),
  ids_distinct md5 ss -> revs_distinct md5 ss -> 1 <= k <= List.length ss ->
  get_steps md5 ss (Some (rev_id md5 (firstn k ss))) = skipn k ss.
Proof. exact get_steps_prefix. Qed.

Theorem C19_no_revision_all_steps : forall (md5 : string -> string) (ss : list step), get_steps md5 ss None = ss.
Proof. exact get_steps_none. Qed.

Theorem C19_unrecognised_all_steps : forall (md5 : string -> string) (ss : list step) (rid : string),
  (forall r, In r (revisions ss) -> rev_id md5 r <> rid) -> get_steps md5 ss (Some rid) = ss.
Proof. exact get_steps_unknown. Qed.

(* ================= B. the code as it is ================= *)

Theorem C19_generated_ids_distinct : ids_distinct real_md5 steps /\ revs_distinct real_md5 steps /\ steps <> [].
Proof. exact generated_ids_distinct. Qed.

(* the three repairs are in the code (breaks the build when one is reverted) *)
Theorem C19_code_has_repairs : v_commit code_variant && v_insert code_variant && v_stamp_new code_variant = true.
Proof. exact code_has_repairs. Qed.

(* every id a RELEASED version stamped files with (pinned) is recognised and leaves exactly the later steps:
   old steps were neither reworded, reordered nor merged *)
Theorem C19_released_revisions_recognised : forall k : nat, k < List.length pinned_revision_ids ->
  get_steps real_md5 steps (Some (nth k pinned_revision_ids "")) = skipn (S k) steps.
Proof. exact released_revisions_recognised. Qed.

Theorem C19_code_released_applies_missing_once : forall (k : nat) (c : conn),
  k < List.length pinned_revision_ids -> S k < List.length steps ->
  d_rev (cur c) = RRow (Some (nth k pinned_revision_ids "")) ->
  stmts_of (snd (migrate_v real_md5 code_variant steps c)) = raw_stmts (skipn (S k) steps).
Proof. exact code_released_applies_missing_once. Qed.

(* opening a file stamped current changes nothing and executes nothing *)
Theorem C19_code_idempotent : forall c : conn, d_rev (cur c) = RRow (Some latest_id) ->
  migrate_v real_md5 code_variant steps c = (c, [ESelectRev true]).
Proof. exact code_idempotent. Qed.

(* FULL fixed point after the first open: any file (any schema and revision-table state, or none), any
   user operations (commit / write / rollback / none) in the first session *)
Theorem C19_code_fixpoint : forall (f : file) (ops : list op) (h : list (list op)),
  exists d1, snd (code_session f ops) = File d1
    /\ d_rev d1 = RRow (Some latest_id)
    /\ d_schema d1 = d_schema (s_open (fst (code_session f ops)))
    /\ Forall (fun o => s_trace o = [ESelectRev true] /\ sr (s_open o) = sr d1 /\ sr (s_end o) = sr d1 /\ sr (s_disk o) = sr d1)
              (fst (code_history (File d1) h))
    /\ exists d2, snd (code_history (File d1) h) = File d2 /\ sr d2 = sr d1.
Proof. exact code_fixpoint. Qed.

(* a new file gets the mappers' schema and the current stamp at once *)
Theorem C19_code_new_file :
  d_schema (s_disk (fst (code_session NoFile []))) = orm_schema
  /\ d_rev (s_disk (fst (code_session NoFile []))) = RRow (Some latest_id)
  /\ stmts_of (s_trace (fst (code_session NoFile []))) = [].
Proof. exact code_new_file. Qed.

(* every earlier revision reaches the current schema (`opened` = migrate_v real_md5 code_variant steps;
   base_schema is the PINNED schema before the first step; finite family: every prefix) *)
Theorem C19_reaches_current_stamped : forall k : nat, 1 <= k <= List.length steps ->
  d_schema (cur (fst (opened (stamped_db base_schema k)))) = current_schema base_schema
  /\ stmts_of (snd (opened (stamped_db base_schema k))) = raw_stmts (skipn k steps)
  /\ ok_stmts_of (snd (opened (stamped_db base_schema k))) = raw_stmts (skipn k steps).
Proof. exact reaches_current_stamped. Qed.

(* no stamp (no revision table / empty table / NULL row) at a schema below exact_upto: every statement is
   attempted, exactly those of the missing steps take effect, the session sees the current schema *)
Theorem C19_reaches_current_unstamped : forall (k : nat) (r : rev), k < exact_upto -> k <= List.length steps -> unstamped r ->
  d_schema (cur (fst (opened (unstamped_db base_schema k r)))) = current_schema base_schema
  /\ ok_stmts_of (snd (opened (unstamped_db base_schema k r))) = raw_stmts (skipn k steps)
  /\ stmts_of (snd (opened (unstamped_db base_schema k r))) = raw_stmts steps.
Proof. exact reaches_current_unstamped. Qed.

(* REFUTED beyond that bound (the one recorded finding): at revision exact_upto -- the rename step -- a
   statement of an already applied step takes effect again on an unstamped file ... *)
Theorem C19_reaches_current_unstamped_refuted :
  Nat.leb exact_upto (List.length steps) = true ->
  negb (list_eqb String.eqb (ok_stmts_of (snd (opened (unstamped_db base_schema exact_upto RNoTable))))
                            (raw_stmts (skipn exact_upto steps))) = true.
Proof. exact exact_upto_sharp. Qed.

Theorem C19_unstamped_current_unchanged_refuted :
  d_schema (cur (fst (opened (mkdb orm_schema RNoTable 0)))) <> orm_schema
  /\ ok_stmts_of (snd (opened (unstamped_db base_schema n_steps RNoTable))) <> [].
Proof. exact created_file_changed_by_reopen. Qed.

(* ... PARTIAL: nothing the mappers / the current schema need is lost, at any revision and stamp state *)
Theorem C19_unstamped_current_partial :
  forallb (fun r => covers (d_schema (cur (fst (opened (unstamped_db base_schema n_steps r))))) (current_schema base_schema)
                    && covers (d_schema (cur (fst (opened (mkdb orm_schema r 0))))) orm_schema) unstamped_revs = true.
Proof. exact unstamped_current_covers_b. Qed.

Theorem C19_opened_file_covers_mappers :
  forallb (fun k => forallb (fun r => covers (d_schema (disk (fst (opened (unstamped_db base_schema k r))))) orm_schema
                                     || negb (v_commit code_variant)) unstamped_revs)
          (seq 0 (S (List.length steps))) = true.
Proof. exact opened_disk_covers_orm_b. Qed.

(* the migrated schema provides everything the current mappers read and write (Base.metadata of this run
   against the PINNED original schema / the PINNED schema of the repository's historical database) *)
Theorem C19_reaches_orm : covers (current_schema base_schema) orm_schema = true.
Proof. exact current_covers_orm. Qed.

Theorem C19_artifact_reaches_orm : covers (run_steps_schema steps artifact_schema) orm_schema = true.
Proof. exact artifact_covers_orm. Qed.

(* existing fits stay readable: no row, table or column is lost by a migration, whatever the variant.
   (Rows: by construction of the statement type -- the fail-closed parser admits no DROP / DELETE / UPDATE;
   the oracle compares the row counts of every table and reads old fits back through the ORM.) *)
Theorem C19_rows_preserved : forall (md5 : string -> string) (v : variant) (ss : list step) (c : conn),
  d_data (cur (fst (migrate_v md5 v ss c))) = d_data (cur c)
  /\ (work c = None -> d_data (disk (fst (migrate_v md5 v ss c))) = d_data (disk c)).
Proof. exact migrate_any_keeps_data. Qed.

Theorem C19_tables_preserved : forall (md5 : string -> string) (v : variant) (ss : list step) (c : conn) (t : string) (cols : list string),
  lookup t (d_schema (cur c)) = Some cols ->
  exists cols', lookup t (d_schema (cur (fst (migrate_v md5 v ss c)))) = Some cols' /\ List.length cols <= List.length cols'.
Proof. exact migrate_any_keeps_tables. Qed.

Theorem C19_columns_preserved : forall (s s' : schema) (st : stmt) (t : string) (cols : list string),
  exec s st = Some s' -> lookup t s = Some cols ->
  exists cols', lookup t s' = Some cols' /\ List.length cols <= List.length cols'
                /\ forall c, In c cols -> In (renamed st t c) cols'.
Proof. exact exec_preserves. Qed.

(* ================= C. every variant that commits in migrate and inserts the missing row ================= *)

Theorem C19_fixed_fixpoint : forall (md5 : string -> string) (v : variant), v_commit v = true -> v_insert v = true ->
  forall (orm : schema) (ss : list step) (f : file) (ops : list op) (h : list (list op)),
  ids_distinct md5 ss -> revs_distinct md5 ss -> ss <> [] -> (f = NoFile -> v_stamp_new v = true) ->
  exists d1, snd (run_session_v md5 v orm ss f ops) = File d1
    /\ d_rev d1 = RRow (Some (rev_id md5 ss))
    /\ d_schema d1 = d_schema (s_open (fst (run_session_v md5 v orm ss f ops)))
    /\ Forall (fun o => s_trace o = [ESelectRev true] /\ sr (s_open o) = sr d1 /\ sr (s_end o) = sr d1 /\ sr (s_disk o) = sr d1)
              (fst (run_history_v md5 v orm ss (File d1) h))
    /\ exists d2, snd (run_history_v md5 v orm ss (File d1) h) = File d2 /\ sr d2 = sr d1.
Proof. exact fixed_fixpoint. Qed.

Theorem C19_fixed_applies_missing_once : forall (md5 : string -> string) (v : variant), v_commit v = true -> v_insert v = true ->
  forall (ss : list step) (k : nat) (c : conn),
  ids_distinct md5 ss -> revs_distinct md5 ss -> 1 <= k < List.length ss ->
  d_rev (cur c) = RRow (Some (rev_id md5 (firstn k ss))) ->
  stmts_of (snd (migrate_v md5 v ss c)) = map fst (List.concat (skipn k ss)).
Proof. exact migrate_v_prefix. Qed.

(* ================= D. the UNREPAIRED variant (before 8b3dae9): why the repairs were needed ================= *)

Theorem C19_unrepaired_is_variant_none : forall (md5 : string -> string) (orm : schema) (ss : list step) (h : list (list op)) (f : file),
  run_history_v md5 variant_none orm ss f h = run_history md5 orm ss f h.
Proof. exact run_history_v_none. Qed.

(* the full fixed-point statement was false: two read-only opens of the original schema *)
Theorem C19_unrepaired_fixpoint_refuted :
  exists d : db, ~ (forall o1 o2 f, run_history real_md5 orm_schema steps (File d) [[]; []] = ([o1; o2], f) ->
                    stmts_of (s_trace o2) = [] /\ sr (s_disk o2) = sr (s_disk o1)).
Proof. exact fixpoint_refuted. Qed.

(* for every step list: without a commit the first open of a file without revision table was rolled back
   entirely, except for an EMPTY revision table ... *)
Theorem C19_unrepaired_first_open_rolled_back : forall (md5 : string -> string) (orm : schema) (ss : list step) (d : db) (ops : list op),
  ss <> [] -> d_rev d = RNoTable -> ~ In OpCommit ops ->
  snd (run_session md5 orm ss (File d) ops) = File (set_rev REmpty d).
Proof. exact session_no_table_no_commit. Qed.

(* ... and a file with an empty revision table was never stamped by any history whatsoever *)
Theorem C19_unrepaired_empty_table_never_stamped : forall (md5 : string -> string) (orm : schema) (ss : list step) (h : list (list op)) (d : db),
  ss <> [] -> d_rev d = REmpty ->
  Forall (fun o => stmts_of (s_trace o) = map fst (List.concat ss)) (fst (run_history md5 orm ss (File d) h))
  /\ exists d', snd (run_history md5 orm ss (File d) h) = File d' /\ d_rev d' = REmpty.
Proof. exact history_empty_table. Qed.

Theorem C19_unrepaired_read_only_never_stamps : forall (md5 : string -> string) (orm : schema) (ss : list step) (ops : list op) (h : list (list op)) (d : db),
  ss <> [] -> d_rev d = RNoTable -> ~ In OpCommit ops ->
  exists d', snd (run_history md5 orm ss (File d) (ops :: h)) = File d' /\ d_rev d' = REmpty.
Proof. exact history_read_only_never_stamps. Qed.

(* what did hold: a committing, rollback-free first session on a file with a revision row or without
   revision table stamped it, and every later session was the identity *)
Theorem C19_unrepaired_fixpoint_partial : forall (md5 : string -> string) (orm : schema) (ss : list step) (d : db) (ops : list op) (h : list (list op)),
  ids_distinct md5 ss -> revs_distinct md5 ss -> ss <> [] -> d_rev d <> REmpty -> In OpCommit ops -> ~ In OpRollback ops ->
  exists d1, snd (run_session md5 orm ss (File d) ops) = File d1
    /\ d_rev d1 = RRow (Some (rev_id md5 ss))
    /\ d_schema d1 = d_schema (s_open (fst (run_session md5 orm ss (File d) ops)))
    /\ Forall (fun o => s_trace o = [ESelectRev true] /\ sr (s_open o) = sr d1 /\ sr (s_end o) = sr d1 /\ sr (s_disk o) = sr d1)
              (fst (run_history md5 orm ss (File d1) h))
    /\ exists d2, snd (run_history md5 orm ss (File d1) h) = File d2 /\ sr d2 = sr d1.
Proof. exact commit_then_fixpoint. Qed.

Print Assumptions C19_missing_steps.
Print Assumptions C19_code_fixpoint.
Print Assumptions C19_released_revisions_recognised.
Print Assumptions C19_reaches_current_unstamped.
Print Assumptions C19_unrepaired_fixpoint_refuted.
