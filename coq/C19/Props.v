From Coq Require Import List String.
From PAFC19 Require Import Syntax Gen Model Proofs.
Theorem C19_placeholder : True.
Proof. exact placeholder. Qed.
