(* C19 lemmas, part 3: facts about the GENERATED step list, ORM schema, base schema and md5 table
   (Gen.v), established by kernel-checked computation over the finite family "every prefix". *)
From Coq Require Import List String Bool Arith Lia.
From PAFC19 Require Import Syntax Gen Model Proofs Proofs2.
Import ListNotations.
Open Scope string_scope.
Open Scope list_scope.

(* ---------- boolean equality on schemas, sound ---------- *)

Definition table_beq (x y : string * list string) : bool :=
  String.eqb (fst x) (fst y) && list_eqb String.eqb (snd x) (snd y).
Definition schema_beq (a b : schema) : bool := list_eqb table_beq a b.

Lemma schema_beq_eq (a b : schema) : schema_beq a b = true -> a = b.
Proof.
  unfold schema_beq. revert b. induction a as [|[t c] a IH]; destruct b as [|[t' c'] b]; simpl; intro H; try discriminate; [reflexivity|].
  apply andb_true_iff in H. destruct H as [H1 H2]. unfold table_beq in H1. simpl in H1.
  apply andb_true_iff in H1. destruct H1 as [H1 H3]. apply String.eqb_eq in H1. apply list_eqb_string_eq in H3.
  subst. f_equal. auto.
Qed.

Lemma forallb_seq (f : nat -> bool) (lo n : nat) :
  forallb f (seq lo n) = true -> forall k, lo <= k < lo + n -> f k = true.
Proof. intros H k Hk. rewrite forallb_forall in H. apply H. apply in_seq. exact Hk. Qed.

(* ---------- the identifiers of the generated steps are pairwise distinct ---------- *)

Lemma steps_nodupb : nodupb (map (step_id real_md5) steps) = true.
Proof. vm_compute. reflexivity. Qed.
Lemma revisions_nodupb : nodupb (map (rev_id real_md5) (revisions steps)) = true.
Proof. vm_compute. reflexivity. Qed.

Lemma steps_ids_distinct : ids_distinct real_md5 steps.
Proof. apply nodupb_NoDup. exact steps_nodupb. Qed.
Lemma steps_revs_distinct : revs_distinct real_md5 steps.
Proof. apply nodupb_NoDup. exact revisions_nodupb. Qed.

Lemma steps_nonempty_b : negb (Nat.eqb (List.length steps) 0) = true.
Proof. vm_compute. reflexivity. Qed.
Lemma steps_nonempty : steps <> [].
Proof. intro H. pose proof steps_nonempty_b as B. rewrite H in B. discriminate B. Qed.

(* every hash the model needs is in the table (no lookup fell through to the sentinel) *)
Definition no_sentinel (l : list string) : bool := negb (existsb (String.eqb "?md5-not-in-table") l).
Lemma md5_table_complete :
  no_sentinel (map (step_id real_md5) steps ++ map (rev_id real_md5) (revisions steps)) = true.
Proof. vm_compute. reflexivity. Qed.

(* ---------- stamped at revision k: exactly the missing statements, all succeed, current schema ---------- *)

Definition chk_stamped (b : schema) (k : nat) : bool :=
  schema_beq (d_schema (cur (fst (opened (stamped_db b k))))) (current_schema b)
  && list_eqb String.eqb (ok_stmts_of (snd (opened (stamped_db b k)))) (raw_stmts (skipn k steps))
  && list_eqb String.eqb (stmts_of (snd (opened (stamped_db b k)))) (raw_stmts (skipn k steps)).

Lemma chk_stamped_base : forallb (chk_stamped base_schema) (seq 1 (List.length steps)) = true.
Proof. vm_compute. reflexivity. Qed.

Lemma reaches_current_stamped (k : nat) : 1 <= k <= List.length steps ->
  d_schema (cur (fst (opened (stamped_db base_schema k)))) = current_schema base_schema
  /\ stmts_of (snd (opened (stamped_db base_schema k))) = raw_stmts (skipn k steps)
  /\ ok_stmts_of (snd (opened (stamped_db base_schema k))) = raw_stmts (skipn k steps).
Proof.
  intro Hk. pose proof (forallb_seq _ _ _ chk_stamped_base k ltac:(lia)) as H.
  unfold chk_stamped in H. apply andb_true_iff in H. destruct H as [H H3]. apply andb_true_iff in H. destruct H as [H1 H2].
  split; [apply schema_beq_eq; exact H1|]. split; apply list_eqb_string_eq; assumption.
Qed.

(* ---------- no stamp (no table / empty table / NULL row), schema of revision k < n ---------- *)

Definition unstamped_revs : list rev := [RNoTable; REmpty; RRow None].

Definition chk_unstamped (b : schema) (k : nat) : bool :=
  forallb (fun r =>
    schema_beq (d_schema (cur (fst (opened (unstamped_db b k r))))) (current_schema b)
    && list_eqb String.eqb (ok_stmts_of (snd (opened (unstamped_db b k r)))) (raw_stmts (skipn k steps))
    && list_eqb String.eqb (stmts_of (snd (opened (unstamped_db b k r)))) (raw_stmts steps)) unstamped_revs.

(* exact_upto (Gen.v): the first revision at which an unstamped file is NOT migrated by exactly the
   missing steps; below it, and up to the current revision, it is *)
Definition exact_range : nat := Nat.min exact_upto (S (List.length steps)).

Lemma chk_unstamped_base : forallb (chk_unstamped base_schema) (seq 0 exact_range) = true.
Proof. vm_compute. reflexivity. Qed.

(* exact_upto is sharp: if it is a revision at all, exactness fails there (a statement of an applied
   step takes effect again) *)
Lemma exact_upto_sharp :
  Nat.leb exact_upto (List.length steps) = true ->
  negb (list_eqb String.eqb (ok_stmts_of (snd (opened (unstamped_db base_schema exact_upto RNoTable))))
                            (raw_stmts (skipn exact_upto steps))) = true.
Proof. vm_compute. first [ reflexivity | discriminate ]. Qed.

Lemma unstamped_in (r : rev) : unstamped r -> In r unstamped_revs.
Proof. unfold unstamped, unstamped_revs. simpl. intuition. Qed.

Lemma reaches_current_unstamped (k : nat) (r : rev) : k < exact_upto -> k <= List.length steps -> unstamped r ->
  d_schema (cur (fst (opened (unstamped_db base_schema k r)))) = current_schema base_schema
  /\ ok_stmts_of (snd (opened (unstamped_db base_schema k r))) = raw_stmts (skipn k steps)
  /\ stmts_of (snd (opened (unstamped_db base_schema k r))) = raw_stmts steps.
Proof.
  intros Hk Hk2 Hr. pose proof (forallb_seq _ _ _ chk_unstamped_base k ltac:(unfold exact_range; lia)) as H.
  unfold chk_unstamped in H. rewrite forallb_forall in H. specialize (H r (unstamped_in r Hr)).
  apply andb_true_iff in H. destruct H as [H H3]. apply andb_true_iff in H. destruct H as [H1 H2].
  split; [apply schema_beq_eq; exact H1|]. split; apply list_eqb_string_eq; assumption.
Qed.

(* ---------- no stamp, CURRENT schema (every file made by create_all): a step takes effect again ---------- *)

Definition n_steps : nat := List.length steps.

Lemma unstamped_current_changes_b :
  negb (schema_beq (d_schema (cur (fst (opened (unstamped_db base_schema n_steps RNoTable))))) (current_schema base_schema))
  && negb (Nat.eqb (List.length (ok_stmts_of (snd (opened (unstamped_db base_schema n_steps RNoTable))))) 0)
  && negb (schema_beq (d_schema (cur (fst (opened (mkdb orm_schema RNoTable 0))))) orm_schema) = true.
Proof. vm_compute. reflexivity. Qed.

Lemma unstamped_current_covers_b :
  forallb (fun r => covers (d_schema (cur (fst (opened (unstamped_db base_schema n_steps r))))) (current_schema base_schema)
                    && covers (d_schema (cur (fst (opened (mkdb orm_schema r 0))))) orm_schema) unstamped_revs = true.
Proof. vm_compute. reflexivity. Qed.

(* ---------- the migrated schema contains what the current mappers read and write ---------- *)
(* base_schema / artifact_schema are PINNED historical schemas, orm_schema is Base.metadata of this run:
   a mapper column without a migration step makes these two computations fail *)

Lemma current_covers_orm : covers (current_schema base_schema) orm_schema = true.
Proof. vm_compute. reflexivity. Qed.

Lemma artifact_covers_orm : covers (run_steps_schema steps artifact_schema) orm_schema = true.
Proof. vm_compute. reflexivity. Qed.

(* what open_database leaves on disk for a pinned historical file covers the mappers too (any stamp state) *)
Lemma opened_disk_covers_orm_b :
  forallb (fun k => forallb (fun r => covers (d_schema (disk (fst (opened (unstamped_db base_schema k r))))) orm_schema
                                     || negb (v_commit code_variant)) unstamped_revs)
          (seq 0 (S (List.length steps))) = true.
Proof. vm_compute. reflexivity. Qed.

(* ---------- released revision ids (PINNED) stay recognised: the step list is append-only ---------- *)

Definition pinned_ok (k : nat) : bool :=
  String.eqb (nth k pinned_revision_ids "") (rev_id real_md5 (firstn (S k) steps)).

Lemma pinned_ids_are_prefix_b :
  Nat.leb (List.length pinned_revision_ids) (List.length steps)
  && forallb pinned_ok (seq 0 (List.length pinned_revision_ids)) = true.
Proof. vm_compute. reflexivity. Qed.

Lemma released_revisions_recognised (k : nat) : k < List.length pinned_revision_ids ->
  get_steps real_md5 steps (Some (nth k pinned_revision_ids "")) = skipn (S k) steps.
Proof.
  intro Hk. pose proof pinned_ids_are_prefix_b as B. apply andb_true_iff in B. destruct B as [B1 B2].
  apply Nat.leb_le in B1. pose proof (forallb_seq _ _ _ B2 k ltac:(lia)) as E.
  unfold pinned_ok in E. apply String.eqb_eq in E. rewrite E.
  apply (get_steps_prefix real_md5 steps (S k) steps_ids_distinct steps_revs_distinct). lia.
Qed.

(* ---------- the full fixed-point statement fails on the generated steps ---------- *)

(* two read-only sessions on a file without revision table at the original schema: the second one
   still executes statements and changes the file *)
Definition two_readonly : list sobs * file :=
  run_history real_md5 orm_schema steps (File (mkdb base_schema RNoTable 0)) [[]; []].

Lemma fixpoint_witness_b :
  match fst two_readonly with
  | [o1; o2] => negb (Nat.eqb (List.length (ok_stmts_of (s_trace o2))) 0)
                && negb (schema_beq (d_schema (s_disk o1)) (d_schema (s_disk o2)))
                && rev_eqb (d_rev (s_disk o2)) REmpty
  | _ => false
  end = true.
Proof. vm_compute. reflexivity. Qed.

Lemma ok_stmts_of_nil (tr : list ev) : stmts_of tr = [] -> ok_stmts_of tr = [].
Proof.
  induction tr as [|e tr IH]; simpl; intro H; [reflexivity|].
  destruct e; simpl in *; try (apply IH; exact H). discriminate.
Qed.

(* the FULL fixed-point statement (any two sessions; the second changes and executes nothing) is false *)
Lemma fixpoint_refuted :
  exists d : db, ~ (forall o1 o2 f, run_history real_md5 orm_schema steps (File d) [[]; []] = ([o1; o2], f) ->
                    stmts_of (s_trace o2) = [] /\ sr (s_disk o2) = sr (s_disk o1)).
Proof.
  exists (mkdb base_schema RNoTable 0). intro H.
  pose proof fixpoint_witness_b as B. unfold two_readonly in B.
  destruct (run_history real_md5 orm_schema steps (File (mkdb base_schema RNoTable 0)) [[]; []]) as [os f] eqn:E.
  simpl in B. destruct os as [|o1 [|o2 [|o3 os]]]; try discriminate B.
  destruct (H o1 o2 f eq_refl) as [H1 _]. apply ok_stmts_of_nil in H1. rewrite H1 in B. simpl in B.
  discriminate B.
Qed.

(* a file made by create_all (current schema, no stamp) is changed by its first reopen *)
Lemma created_file_changed_by_reopen :
  d_schema (cur (fst (opened (mkdb orm_schema RNoTable 0)))) <> orm_schema
  /\ ok_stmts_of (snd (opened (unstamped_db base_schema n_steps RNoTable))) <> [].
Proof.
  pose proof unstamped_current_changes_b as B.
  apply andb_true_iff in B. destruct B as [B B3]. apply andb_true_iff in B. destruct B as [B1 B2]. split.
  - intro E. rewrite E in B3.
    assert (R : forall a, schema_beq a a = true).
    { unfold schema_beq. induction a as [|[t c] a IH]; simpl; [reflexivity|]. rewrite IH, andb_true_r.
      unfold table_beq. simpl. rewrite String.eqb_refl. simpl.
      induction c as [|x c IHc]; simpl; [reflexivity|]. rewrite String.eqb_refl. exact IHc. }
    rewrite R in B3. discriminate B3.
  - intro E. rewrite E in B2. discriminate B2.
Qed.

(* generated facts packaged for Props.v *)
Lemma generated_ids_distinct : ids_distinct real_md5 steps /\ revs_distinct real_md5 steps /\ steps <> [].
Proof. exact (conj steps_ids_distinct (conj steps_revs_distinct steps_nonempty)). Qed.
