(* C19 lemmas, part 4: the model with the proposed repairs switched on (Model.*_v).
   variant_none is the pinned code (equalities below); for a variant that commits in migrate and
   inserts the missing revision row the FULL fixed-point statement holds, for every file. *)
From Coq Require Import List String Bool Arith Lia.
From PAFC19 Require Import Syntax Gen Model Proofs Proofs2.
Import ListNotations.
Open Scope string_scope.
Open Scope list_scope.

Section Variants.
  Variable md5 : string -> string.
  Notation rev_id := (rev_id md5).
  Notation get_steps := (get_steps md5).
  Notation ids_distinct := (ids_distinct md5).
  Notation revs_distinct := (revs_distinct md5).

  (* ---------- variant_none = the functions the other theorems are about ---------- *)

  Lemma set_revision_v_none (rid : string) (c : conn) : set_revision_v variant_none rid c = set_revision rid c.
  Proof. unfold set_revision_v, set_revision. destruct (d_rev (cur c)); reflexivity. Qed.

  Lemma migrate_v_none (ss : list step) (c : conn) : migrate_v md5 variant_none ss c = migrate md5 ss c.
  Proof.
    unfold migrate_v, migrate. destruct (get_revision c) as [[c1 r] tr1].
    destruct (get_steps ss r) as [|s0 rest]; [reflexivity|].
    destruct (run_steps (s0 :: rest) c1) as [c2 tr2]. rewrite set_revision_v_none.
    destruct (set_revision (rev_id ss) c2) as [c3 tr3]. reflexivity.
  Qed.

  Lemma open_database_v_none (orm : schema) (ss : list step) (f : file) :
    open_database_v md5 variant_none orm ss f = open_database md5 orm ss f.
  Proof. destruct f; simpl; [reflexivity | apply migrate_v_none]. Qed.

  Lemma run_session_v_none (orm : schema) (ss : list step) (f : file) (ops : list op) :
    run_session_v md5 variant_none orm ss f ops = run_session md5 orm ss f ops.
  Proof. unfold run_session_v, run_session. rewrite open_database_v_none. reflexivity. Qed.

  Lemma run_history_v_none (orm : schema) (ss : list step) (h : list (list op)) : forall f,
    run_history_v md5 variant_none orm ss f h = run_history md5 orm ss f h.
  Proof.
    induction h as [|ops h IH]; intro f; simpl; [reflexivity|].
    rewrite run_session_v_none. destruct (run_session md5 orm ss f ops) as [o f']. rewrite IH. reflexivity.
  Qed.

  (* ---------- every variant: no row, table or column is ever lost ---------- *)

  Lemma set_revision_any_keeps (w : variant) (rid : string) (c : conn) :
    d_schema (cur (fst (set_revision_v w rid c))) = d_schema (cur c)
    /\ d_data (cur (fst (set_revision_v w rid c))) = d_data (cur c)
    /\ d_data (disk (fst (set_revision_v w rid c))) = d_data (disk c).
  Proof.
    unfold set_revision_v. destruct (d_rev (cur c)); [| destruct (v_insert w) |]; simpl; auto.
    unfold init_rev_table, ddl, cur. destruct (work c); simpl; auto.
  Qed.

  Lemma migrate_any_shape (w : variant) (ss : list step) (c c1 : conn) (r : option string) (tr1 : list ev) :
    get_revision c = (c1, r, tr1) ->
    (get_steps ss r = [] /\ migrate_v md5 w ss c = (c1, tr1))
    \/ (exists s0 rest, get_steps ss r = s0 :: rest /\
         let c3 := fst (set_revision_v w (rev_id ss) (fst (run_stmts (List.concat (s0 :: rest)) c1))) in
         fst (migrate_v md5 w ss c) = if v_commit w then commit c3 else c3).
  Proof.
    intro Hg. unfold migrate_v, run_steps. rewrite Hg.
    destruct (get_steps ss r) as [|s0 rest]; [left; auto|]. right. exists s0, rest. split; [reflexivity|].
    destruct (run_stmts (List.concat (s0 :: rest)) c1) as [c2 tr2]. simpl.
    destruct (set_revision_v w (rev_id ss) c2) as [c3 tr3]. simpl. reflexivity.
  Qed.

  (* the session's view keeps every row; what is on disk keeps every row too *)
  Lemma migrate_any_keeps_data (w : variant) (ss : list step) (c : conn) :
    d_data (cur (fst (migrate_v md5 w ss c))) = d_data (cur c)
    /\ (work c = None -> d_data (disk (fst (migrate_v md5 w ss c))) = d_data (disk c)).
  Proof.
    pose proof (get_revision_keeps c) as [_ [G1 G2]].
    destruct (get_revision c) as [[c1 r] tr1] eqn:Hg. simpl in G1, G2.
    destruct (migrate_any_shape w ss c c1 r tr1 Hg) as [[_ M]|[s0 [rest [_ M]]]].
    - rewrite M. simpl. split; [exact G1 | intros _; exact G2].
    - cbv zeta in M. rewrite M. remember (List.concat (s0 :: rest)) as l.
      pose proof (run_stmts_cur l c1) as [_ Hc]. pose proof (run_stmts_disk l c1) as [_ Hd].
      destruct (set_revision_any_keeps w (rev_id ss) (fst (run_stmts l c1))) as [_ [K1 K2]].
      assert (CC : forall x, cur (commit x) = cur x) by reflexivity.
      assert (DC : forall x, disk (commit x) = cur x) by reflexivity.
      destruct (v_commit w).
      + rewrite CC, DC. split; [congruence|]. intro Hw. rewrite K1, Hc, G1. apply f_equal. apply cur_autocommit. exact Hw.
      + split; [congruence|]. intros _. congruence.
  Qed.

  Lemma migrate_any_keeps_tables (w : variant) (ss : list step) (c : conn) (t : string) (cols : list string) :
    lookup t (d_schema (cur c)) = Some cols ->
    exists cols', lookup t (d_schema (cur (fst (migrate_v md5 w ss c)))) = Some cols' /\ List.length cols <= List.length cols'.
  Proof.
    intro Hl. pose proof (get_revision_keeps c) as [G _].
    destruct (get_revision c) as [[c1 r] tr1] eqn:Hg. simpl in G.
    destruct (migrate_any_shape w ss c c1 r tr1 Hg) as [[_ M]|[s0 [rest [_ M]]]].
    - rewrite M. simpl. rewrite G. exists cols. auto.
    - cbv zeta in M. rewrite M. remember (List.concat (s0 :: rest)) as l. rewrite <- G in Hl.
      destruct (run_stmts_keeps_tables l c1 t cols Hl) as [cols' [H1 H2]].
      destruct (set_revision_any_keeps w (rev_id ss) (fst (run_stmts l c1))) as [K _].
      assert (CC : forall x, cur (commit x) = cur x) by reflexivity.
      exists cols'. split; [|exact H2]. destruct (v_commit w); [rewrite CC|]; rewrite K; exact H1.
  Qed.

  (* ---------- a variant that commits and inserts ---------- *)

  Variable v : variant.
  Hypothesis Hcommit : v_commit v = true.
  Hypothesis Hinsert : v_insert v = true.

  Lemma set_revision_v_view (rid : string) (c : conn) :
    d_rev (cur (fst (set_revision_v v rid c))) = RRow (Some rid).
  Proof. unfold set_revision_v. rewrite Hinsert. destruct (d_rev (cur c)); reflexivity. Qed.

  Lemma set_revision_v_keeps (rid : string) (c : conn) :
    d_schema (cur (fst (set_revision_v v rid c))) = d_schema (cur c)
    /\ d_data (cur (fst (set_revision_v v rid c))) = d_data (cur c).
  Proof.
    unfold set_revision_v. rewrite Hinsert. destruct (d_rev (cur c)); simpl; auto.
    unfold init_rev_table, ddl, cur. destruct (work c); simpl; auto.
  Qed.

  Lemma set_revision_v_stmts (rid : string) (c : conn) : stmts_of (snd (set_revision_v v rid c)) = [].
  Proof. unfold set_revision_v. rewrite Hinsert. destruct (d_rev (cur c)); reflexivity. Qed.

  Lemma migrate_v_done (ss : list step) (c c1 : conn) (r : option string) (tr1 : list ev) :
    get_revision c = (c1, r, tr1) -> get_steps ss r = [] -> migrate_v md5 v ss c = (c1, tr1).
  Proof. intros Hg He. unfold migrate_v. rewrite Hg, He. reflexivity. Qed.

  Lemma migrate_v_todo (ss : list step) (c c1 : conn) (r : option string) (tr1 : list ev) (s0 : step) (rest : list step) :
    get_revision c = (c1, r, tr1) -> get_steps ss r = s0 :: rest ->
    let c2 := fst (run_stmts (List.concat (s0 :: rest)) c1) in
    fst (migrate_v md5 v ss c) = commit (fst (set_revision_v v (rev_id ss) c2))
    /\ snd (migrate_v md5 v ss c) = tr1 ++ snd (run_stmts (List.concat (s0 :: rest)) c1)
                                  ++ snd (set_revision_v v (rev_id ss) c2) ++ [ESelectRev true].
  Proof.
    intros Hg He. unfold migrate_v, run_steps. rewrite Hg, He, Hcommit.
    destruct (run_stmts (List.concat (s0 :: rest)) c1) as [c2 tr2]. simpl.
    destruct (set_revision_v v (rev_id ss) c2) as [c3 tr3]. simpl. auto.
  Qed.

  Lemma migrate_v_current (ss : list step) (c : conn) :
    ids_distinct ss -> revs_distinct ss -> d_rev (cur c) = RRow (Some (rev_id ss)) ->
    migrate_v md5 v ss c = (c, [ESelectRev true]).
  Proof.
    intros Hi Hr Hs. apply (migrate_v_done ss c c (Some (rev_id ss))).
    - rewrite (get_revision_table c); rewrite Hs; [reflexivity | discriminate].
    - apply (get_steps_latest md5 ss Hi Hr).
  Qed.

  (* exactly the missing statements, each once, in order -- unchanged by the repairs *)
  Lemma migrate_v_prefix (ss : list step) (k : nat) (c : conn) :
    ids_distinct ss -> revs_distinct ss -> 1 <= k < List.length ss ->
    d_rev (cur c) = RRow (Some (rev_id (firstn k ss))) ->
    stmts_of (snd (migrate_v md5 v ss c)) = map fst (List.concat (skipn k ss)).
  Proof.
    intros Hi Hr Hk Hs.
    assert (Hg : get_revision c = (c, Some (rev_id (firstn k ss)), [ESelectRev true])).
    { rewrite (get_revision_table c); rewrite Hs; [reflexivity | discriminate]. }
    assert (He : get_steps ss (Some (rev_id (firstn k ss))) = skipn k ss).
    { apply (get_steps_prefix md5 ss k Hi Hr). lia. }
    destruct (skipn k ss) as [|s0 rest] eqn:E.
    { exfalso. assert (L : List.length (skipn k ss) = 0) by (rewrite E; reflexivity). rewrite skipn_length in L. lia. }
    destruct (migrate_v_todo ss c c _ _ s0 rest Hg He) as [_ M2]. rewrite M2.
    rewrite !stmts_of_app, set_revision_v_stmts, run_stmts_trace. simpl. rewrite app_nil_r. reflexivity.
  Qed.

  (* after the open of ANY existing file the stamp and the migrated schema are on disk *)
  Lemma migrate_v_stamps_disk (ss : list step) (d : db) :
    ids_distinct ss -> revs_distinct ss -> ss <> [] ->
    let c' := fst (migrate_v md5 v ss (mkconn d None)) in
    work c' = None /\ d_rev (disk c') = RRow (Some (rev_id ss)) /\ d_data (disk c') = d_data d.
  Proof.
    intros Hi Hr Hne. set (c := mkconn d None).
    assert (Hcur : cur c = d) by reflexivity.
    destruct (get_revision c) as [[c1 r] tr1] eqn:Hg.
    pose proof (get_revision_keeps c) as K. rewrite Hg in K. simpl in K. destruct K as [_ [K1 _]].
    destruct (get_steps ss r) as [|s0 rest] eqn:E.
    - rewrite (migrate_v_done ss c c1 r tr1 Hg E). simpl.
      pose proof (get_steps_nil_inv md5 ss r Hi Hne E) as Er. subst r.
      assert (Hd : d_rev (cur c) = d_rev d) by reflexivity.
      destruct (d_rev d) as [| |r'] eqn:Ed.
      + rewrite (get_revision_no_table c Hd) in Hg. discriminate.
      + rewrite (get_revision_table c) in Hg by (rewrite Hd; discriminate). rewrite Hd in Hg. discriminate.
      + rewrite (get_revision_table c) in Hg by (rewrite Hd; discriminate). rewrite Hd in Hg.
        injection Hg as E1 E2 E3. subst c1. simpl. rewrite Ed, E2. auto.
    - destruct (migrate_v_todo ss c _ _ _ s0 rest Hg E) as [M1 _].
      remember (List.concat (s0 :: rest)) as l eqn:El. cbv zeta in *. rewrite M1. simpl.
      split; [reflexivity|]. split; [apply set_revision_v_view|].
      destruct (set_revision_v_keeps (rev_id ss) (fst (run_stmts l c1))) as [_ S2].
      rewrite S2. pose proof (run_stmts_cur l c1) as [_ R2]. rewrite R2, K1. reflexivity.
  Qed.

  Variable orm : schema.

  (* FULL: the first session on any file (existing in whatever state, or new when new files are
     stamped) leaves it stamped current with the schema the session saw -- commit or no commit *)
  Lemma session_v_stamps (ss : list step) (f : file) (ops : list op) :
    ids_distinct ss -> revs_distinct ss -> ss <> [] -> (f = NoFile -> v_stamp_new v = true) ->
    exists d1, snd (run_session_v md5 v orm ss f ops) = File d1
      /\ d_rev d1 = RRow (Some (rev_id ss))
      /\ d_schema d1 = d_schema (s_open (fst (run_session_v md5 v orm ss f ops))).
  Proof.
    intros Hi Hr Hne Hnew. unfold run_session_v.
    assert (A : let c := fst (open_database_v md5 v orm ss f) in work c = None /\ d_rev (disk c) = RRow (Some (rev_id ss))).
    { destruct f as [|d]; simpl.
      - rewrite (Hnew eq_refl). unfold set_revision_v. simpl. auto.
      - destruct (migrate_v_stamps_disk ss d Hi Hr Hne) as [A1 [A2 _]]. auto. }
    destruct (open_database_v md5 v orm ss f) as [c tr]. simpl in *. destruct A as [A1 A2].
    eexists. split; [reflexivity|].
    assert (Hag : sr (disk c) = sr (cur c)) by (rewrite (cur_autocommit c A1); reflexivity).
    pose proof (ops_agree ops c Hag) as H. unfold sr in H. injection H as H1 H2.
    split; [rewrite H2, (cur_autocommit c A1); exact A2 | exact H1].
  Qed.

  Lemma session_v_current (ss : list step) (d : db) (ops : list op) :
    ids_distinct ss -> revs_distinct ss -> d_rev d = RRow (Some (rev_id ss)) ->
    let (o, f') := run_session_v md5 v orm ss (File d) ops in
    s_trace o = [ESelectRev true] /\ s_open o = d /\ sr (s_end o) = sr d /\ sr (s_disk o) = sr d
    /\ exists d', f' = File d' /\ sr d' = sr d.
  Proof.
    intros Hi Hr Hs. unfold run_session_v, open_database_v.
    rewrite (migrate_v_current ss (mkconn d None) Hi Hr Hs). simpl.
    split; [reflexivity|]. split; [reflexivity|].
    destruct (ops_agree2 ops (mkconn d None) eq_refl) as [H2 H1]. simpl in H1, H2.
    split; [exact H1|]. split; [exact H2|]. eexists. split; [reflexivity | exact H2].
  Qed.

  Lemma history_v_current (ss : list step) (h : list (list op)) : forall d,
    ids_distinct ss -> revs_distinct ss -> d_rev d = RRow (Some (rev_id ss)) ->
    Forall (fun o => s_trace o = [ESelectRev true] /\ sr (s_open o) = sr d /\ sr (s_end o) = sr d /\ sr (s_disk o) = sr d)
           (fst (run_history_v md5 v orm ss (File d) h))
    /\ exists d', snd (run_history_v md5 v orm ss (File d) h) = File d' /\ sr d' = sr d.
  Proof.
    induction h as [|ops h IH]; intros d Hi Hr Hs; simpl.
    - split; [constructor | eauto].
    - pose proof (session_v_current ss d ops Hi Hr Hs) as S.
      destruct (run_session_v md5 v orm ss (File d) ops) as [o f'].
      destruct S as [S1 [S2 [S3 [S4 [d' [-> S5]]]]]].
      assert (Hs' : d_rev d' = RRow (Some (rev_id ss))).
      { unfold sr in S5. injection S5 as _ S6. congruence. }
      specialize (IH d' Hi Hr Hs'). destruct (run_history_v md5 v orm ss (File d') h) as [os f'']. simpl in *.
      destruct IH as [I1 [d'' [-> I2]]]. split.
      + constructor; [rewrite S2; auto|]. rewrite S5 in I1. exact I1.
      + exists d''. split; [reflexivity | congruence].
  Qed.

  (* FULL fixed point for the repaired code: after the first session -- whatever the file, whatever
     the user does -- every further session executes nothing and leaves schema and revision alone *)
  Lemma fixed_fixpoint (ss : list step) (f : file) (ops : list op) (h : list (list op)) :
    ids_distinct ss -> revs_distinct ss -> ss <> [] -> (f = NoFile -> v_stamp_new v = true) ->
    exists d1, snd (run_session_v md5 v orm ss f ops) = File d1
      /\ d_rev d1 = RRow (Some (rev_id ss))
      /\ d_schema d1 = d_schema (s_open (fst (run_session_v md5 v orm ss f ops)))
      /\ Forall (fun o => s_trace o = [ESelectRev true] /\ sr (s_open o) = sr d1 /\ sr (s_end o) = sr d1 /\ sr (s_disk o) = sr d1)
                (fst (run_history_v md5 v orm ss (File d1) h))
      /\ exists d2, snd (run_history_v md5 v orm ss (File d1) h) = File d2 /\ sr d2 = sr d1.
  Proof.
    intros Hi Hr Hne Hnew.
    destruct (session_v_stamps ss f ops Hi Hr Hne Hnew) as [d1 [S0 [S1 S2]]].
    exists d1. split; [exact S0|]. split; [exact S1|]. split; [exact S2|].
    apply history_v_current; assumption.
  Qed.
End Variants.
