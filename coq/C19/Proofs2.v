(* C19 lemmas, part 2: connection / transaction facts, Migrator.migrate, sessions and histories. *)
From Coq Require Import List String Bool Arith Lia.
From PAFC19 Require Import Syntax Gen Model Proofs.
Import ListNotations.
Open Scope string_scope.
Open Scope list_scope.

(* ---------- connection facts ---------- *)

Lemma cur_ddl (f : db -> db) (c : conn) : cur (ddl f c) = f (cur c).
Proof. unfold ddl, cur. destruct (work c); reflexivity. Qed.

Lemma cur_dml (f : db -> db) (c : conn) : cur (dml f c) = f (cur c).
Proof. reflexivity. Qed.

Lemma disk_dml (f : db -> db) (c : conn) : disk (dml f c) = disk c.
Proof. reflexivity. Qed.

Lemma disk_ddl_intx (f : db -> db) (c : conn) (w : db) : work c = Some w -> disk (ddl f c) = disk c.
Proof. unfold ddl. intro H. rewrite H. reflexivity. Qed.

Lemma work_ddl_none (f : db -> db) (c : conn) : work c = None -> work (ddl f c) = None.
Proof. unfold ddl. intro H. rewrite H. reflexivity. Qed.

Lemma work_ddl_some (f : db -> db) (c : conn) (w : db) : work c = Some w -> work (ddl f c) = Some (f w).
Proof. unfold ddl. intro H. rewrite H. reflexivity. Qed.

Lemma cur_autocommit (c : conn) : work c = None -> cur c = disk c.
Proof. unfold cur. intro H. rewrite H. reflexivity. Qed.

(* ---------- running statements ---------- *)

Lemma run_stmts_trace (l : list (string * stmt)) : forall c, stmts_of (snd (run_stmts l c)) = map fst l.
Proof.
  induction l as [|[raw st] l IH]; intro c; simpl; [reflexivity|].
  destruct (exec (d_schema (cur c)) st) as [s'|].
  - specialize (IH (ddl (set_schema s') c)). destruct (run_stmts l (ddl (set_schema s') c)) as [c' tr].
    simpl in *. f_equal. exact IH.
  - specialize (IH c). destruct (run_stmts l c) as [c' tr]. simpl in *. f_equal. exact IH.
Qed.

(* statements change neither the revision table nor any row, in the session's view *)
Lemma run_stmts_cur (l : list (string * stmt)) : forall c,
  d_rev (cur (fst (run_stmts l c))) = d_rev (cur c) /\ d_data (cur (fst (run_stmts l c))) = d_data (cur c).
Proof.
  induction l as [|[raw st] l IH]; intro c; simpl; [auto|].
  destruct (exec (d_schema (cur c)) st) as [s'|].
  - specialize (IH (ddl (set_schema s') c)). destruct (run_stmts l (ddl (set_schema s') c)) as [c' tr].
    simpl in *. rewrite cur_ddl in IH. exact IH.
  - specialize (IH c). destruct (run_stmts l c) as [c' tr]. exact IH.
Qed.

(* ... nor on disk *)
Lemma run_stmts_disk (l : list (string * stmt)) : forall c,
  d_rev (disk (fst (run_stmts l c))) = d_rev (disk c) /\ d_data (disk (fst (run_stmts l c))) = d_data (disk c).
Proof.
  induction l as [|[raw st] l IH]; intro c; simpl; [auto|].
  destruct (exec (d_schema (cur c)) st) as [s'|].
  - specialize (IH (ddl (set_schema s') c)). destruct (run_stmts l (ddl (set_schema s') c)) as [c' tr].
    simpl in *. destruct IH as [I1 I2]. unfold ddl in I1, I2. destruct (work c); simpl in *; auto.
  - specialize (IH c). destruct (run_stmts l c) as [c' tr]. exact IH.
Qed.

(* inside a transaction nothing reaches the file *)
Lemma run_stmts_intx (l : list (string * stmt)) : forall c w, work c = Some w ->
  disk (fst (run_stmts l c)) = disk c /\ exists w', work (fst (run_stmts l c)) = Some w'.
Proof.
  induction l as [|[raw st] l IH]; intros c w Hw; simpl; [eauto|].
  destruct (exec (d_schema (cur c)) st) as [s'|].
  - specialize (IH (ddl (set_schema s') c) _ (work_ddl_some _ c w Hw)).
    destruct (run_stmts l (ddl (set_schema s') c)) as [c' tr]. simpl in *.
    rewrite (disk_ddl_intx _ c w Hw) in IH. exact IH.
  - specialize (IH c w Hw). destruct (run_stmts l c) as [c' tr]. exact IH.
Qed.

(* outside a transaction every statement is committed at once *)
Lemma run_stmts_autocommit (l : list (string * stmt)) : forall c, work c = None ->
  work (fst (run_stmts l c)) = None.
Proof.
  induction l as [|[raw st] l IH]; intros c Hw; simpl; [exact Hw|].
  destruct (exec (d_schema (cur c)) st) as [s'|].
  - specialize (IH (ddl (set_schema s') c) (work_ddl_none _ c Hw)).
    destruct (run_stmts l (ddl (set_schema s') c)) as [c' tr]. exact IH.
  - specialize (IH c Hw). destruct (run_stmts l c) as [c' tr]. exact IH.
Qed.

(* tables and columns survive (data preservation at the level of the schema) *)
Lemma run_stmts_keeps_tables (l : list (string * stmt)) : forall c t cols,
  lookup t (d_schema (cur c)) = Some cols ->
  exists cols', lookup t (d_schema (cur (fst (run_stmts l c)))) = Some cols' /\ List.length cols <= List.length cols'.
Proof.
  induction l as [|[raw st] l IH]; intros c t cols Hl; simpl; [exists cols; auto|].
  destruct (exec (d_schema (cur c)) st) as [s'|] eqn:E.
  - destruct (exec_preserves _ _ _ _ _ E Hl) as [cols1 [H1 [H2 _]]].
    specialize (IH (ddl (set_schema s') c) t cols1). rewrite cur_ddl in IH. simpl in IH. specialize (IH H1).
    destruct (run_stmts l (ddl (set_schema s') c)) as [c' tr]. simpl in *.
    destruct IH as [cols' [I1 I2]]. exists cols'. split; [exact I1 | lia].
  - specialize (IH c t cols Hl). destruct (run_stmts l c) as [c' tr]. exact IH.
Qed.

(* ---------- user operations (commit / write / rollback) ---------- *)

Lemma do_op_cur_sr (c : conn) (o : op) : o <> OpRollback -> sr (cur (do_op c o)) = sr (cur c).
Proof. destruct o; intro H; [reflexivity | reflexivity | contradiction]. Qed.

(* without a rollback the session's view of schema and revision never changes *)
Lemma ops_cur_sr (ops : list op) : forall c, ~ In OpRollback ops -> sr (cur (fold_left do_op ops c)) = sr (cur c).
Proof.
  induction ops as [|o ops IH]; intros c H; simpl; [reflexivity|].
  rewrite IH; [|intro Hin; apply H; right; exact Hin].
  apply do_op_cur_sr. intro E. apply H. left. exact E.
Qed.

Lemma ops_no_commit_disk (ops : list op) : forall c, ~ In OpCommit ops -> disk (fold_left do_op ops c) = disk c.
Proof.
  induction ops as [|o ops IH]; intros c H; simpl; [reflexivity|].
  rewrite IH; [|intro Hin; apply H; right; exact Hin].
  destruct o; [exfalso; apply H; left; reflexivity | reflexivity | reflexivity].
Qed.

(* once the session's view and the file agree on schema and revision, they keep agreeing -- whatever the
   user does, rollbacks included *)
Lemma do_op_agree (c : conn) (o : op) : sr (disk c) = sr (cur c) ->
  sr (disk (do_op c o)) = sr (cur c) /\ sr (cur (do_op c o)) = sr (cur c).
Proof. intro H. destruct o; simpl; auto. Qed.

Lemma ops_agree2 (ops : list op) : forall c, sr (disk c) = sr (cur c) ->
  sr (disk (fold_left do_op ops c)) = sr (cur c) /\ sr (cur (fold_left do_op ops c)) = sr (cur c).
Proof.
  induction ops as [|o ops IH]; intros c H; simpl; [auto|].
  destruct (do_op_agree c o H) as [H1 H2].
  destruct (IH (do_op c o) ltac:(congruence)) as [I1 I2]. split; congruence.
Qed.

Lemma ops_agree (ops : list op) : forall c, sr (disk c) = sr (cur c) -> sr (disk (fold_left do_op ops c)) = sr (cur c).
Proof. intros c H. apply (ops_agree2 ops c H). Qed.

(* a commit anywhere in a session without rollback stores the session's schema and revision *)
Lemma ops_commit_disk (ops : list op) : forall c, ~ In OpRollback ops -> In OpCommit ops ->
  sr (disk (fold_left do_op ops c)) = sr (cur c).
Proof.
  induction ops as [|o ops IH]; intros c Hr H; simpl; [contradiction|].
  assert (Hr' : ~ In OpRollback ops) by (intro Hin; apply Hr; right; exact Hin).
  destruct o.
  - rewrite ops_agree; reflexivity.
  - destruct H as [H|H]; [discriminate|]. rewrite (IH _ Hr' H). reflexivity.
  - exfalso. apply Hr. left. reflexivity.
Qed.

(* whatever the operations: the file ends with the old or with the session's schema / revision *)
Lemma ops_two (D C : schema * rev) (ops : list op) : forall c,
  (sr (disk c) = D \/ sr (disk c) = C) -> (sr (cur c) = D \/ sr (cur c) = C) ->
  sr (disk (fold_left do_op ops c)) = D \/ sr (disk (fold_left do_op ops c)) = C.
Proof.
  induction ops as [|o ops IH]; intros c Hd Hc; simpl; [exact Hd|].
  apply IH; destruct o; simpl; auto.
Qed.

Lemma ops_disk_cases (ops : list op) : forall c,
  sr (disk (fold_left do_op ops c)) = sr (disk c) \/ sr (disk (fold_left do_op ops c)) = sr (cur c).
Proof. intro c. apply ops_two; auto. Qed.

(* ---------- migrate ---------- *)

Section Sessions.
  Variable md5 : string -> string.
  Notation step_id := (step_id md5).
  Notation rev_id := (rev_id md5).
  Notation get_steps := (get_steps md5).
  Notation migrate := (migrate md5).
  Notation run_session := (run_session md5).
  Notation run_history := (run_history md5).
  Notation ids_distinct := (ids_distinct md5).
  Notation revs_distinct := (revs_distinct md5).

  (* the two ways through Migrator.migrate, in terms of projections *)
  Lemma migrate_done (ss : list step) (c c1 : conn) (r : option string) (tr1 : list ev) :
    get_revision c = (c1, r, tr1) -> get_steps ss r = [] -> migrate ss c = (c1, tr1).
  Proof. intros Hg He. unfold Model.migrate. rewrite Hg, He. reflexivity. Qed.

  Lemma migrate_todo (ss : list step) (c c1 : conn) (r : option string) (tr1 : list ev) (s0 : step) (rest : list step) :
    get_revision c = (c1, r, tr1) -> get_steps ss r = s0 :: rest ->
    let c2 := fst (run_stmts (List.concat (s0 :: rest)) c1) in
    fst (migrate ss c) = fst (set_revision (rev_id ss) c2)
    /\ snd (migrate ss c) = tr1 ++ snd (run_stmts (List.concat (s0 :: rest)) c1)
                            ++ snd (set_revision (rev_id ss) c2) ++ [ESelectRev true].
  Proof.
    intros Hg He. unfold Model.migrate, run_steps. rewrite Hg, He.
    destruct (run_stmts (List.concat (s0 :: rest)) c1) as [c2 tr2]. simpl.
    destruct (set_revision (rev_id ss) c2) as [c3 tr3]. simpl. auto.
  Qed.

  Lemma stmts_of_app (a b : list ev) : stmts_of (a ++ b) = stmts_of a ++ stmts_of b.
  Proof. unfold stmts_of. apply flat_map_app. Qed.

  (* SessionWrapper facts *)
  Lemma get_revision_table (c : conn) : d_rev (cur c) <> RNoTable -> 
    get_revision c = (c, match d_rev (cur c) with RRow r => r | _ => None end, [ESelectRev true]).
  Proof. unfold get_revision. destruct (d_rev (cur c)); [contradiction | reflexivity | reflexivity]. Qed.

  Lemma get_revision_no_table (c : conn) : d_rev (cur c) = RNoTable ->
    get_revision c = (init_rev_table c, None, [ESelectRev false; ESelectOne false; ECreateRev; EInsertNull; ESelectRev true]).
  Proof. unfold get_revision. intro H. rewrite H. reflexivity. Qed.

  Lemma get_revision_stmts (c : conn) : stmts_of (snd (get_revision c)) = [].
  Proof. unfold get_revision. destruct (d_rev (cur c)); reflexivity. Qed.

  Lemma get_revision_keeps (c : conn) :
    let c1 := fst (fst (get_revision c)) in
    d_schema (cur c1) = d_schema (cur c) /\ d_data (cur c1) = d_data (cur c) /\ d_data (disk c1) = d_data (disk c).
  Proof.
    unfold get_revision. destruct (d_rev (cur c)); simpl; auto.
    unfold init_rev_table, ddl, cur. destruct (work c); simpl; auto.
  Qed.

  Lemma set_revision_view (rid : string) (c : conn) : d_rev (cur c) <> REmpty ->
    d_rev (cur (fst (set_revision rid c))) = RRow (Some rid).
  Proof. unfold set_revision. destruct (d_rev (cur c)); [reflexivity | contradiction | reflexivity]. Qed.

  Lemma set_revision_empty (rid : string) (c : conn) : d_rev (cur c) = REmpty ->
    set_revision rid c = (dml (fun d => d) c, [EUpdateRev true]).
  Proof. unfold set_revision. intro H. rewrite H. reflexivity. Qed.

  Lemma set_revision_stmts (rid : string) (c : conn) : stmts_of (snd (set_revision rid c)) = [].
  Proof. unfold set_revision. destruct (d_rev (cur c)); reflexivity. Qed.

  Lemma set_revision_disk (rid : string) (c : conn) : d_rev (cur c) <> RNoTable ->
    disk (fst (set_revision rid c)) = disk c.
  Proof. unfold set_revision. destruct (d_rev (cur c)); [contradiction | reflexivity | reflexivity]. Qed.

  Lemma set_revision_keeps (rid : string) (c : conn) :
    let c3 := fst (set_revision rid c) in
    d_schema (cur c3) = d_schema (cur c) /\ d_data (cur c3) = d_data (cur c) /\ d_data (disk c3) = d_data (disk c).
  Proof.
    unfold set_revision. destruct (d_rev (cur c)); simpl; auto.
    unfold init_rev_table, ddl, cur. destruct (work c); simpl; auto.
  Qed.

  (* a stamped-current database: the migrator reads the stamp and does nothing else *)
  Lemma migrate_current (ss : list step) (c : conn) :
    ids_distinct ss -> revs_distinct ss -> d_rev (cur c) = RRow (Some (rev_id ss)) ->
    migrate ss c = (c, [ESelectRev true]).
  Proof.
    intros Hi Hr Hs. apply (migrate_done ss c c (Some (rev_id ss))).
    - rewrite get_revision_table; rewrite Hs; [reflexivity | discriminate].
    - apply (get_steps_latest md5 ss Hi Hr).
  Qed.

  (* a database stamped with the revision of the first k steps: exactly the missing statements are
     executed, each once, in order; the session's view is stamped current; no row is touched *)
  Lemma migrate_prefix (ss : list step) (k : nat) (c : conn) :
    ids_distinct ss -> revs_distinct ss -> 1 <= k < List.length ss ->
    d_rev (cur c) = RRow (Some (rev_id (firstn k ss))) ->
    stmts_of (snd (migrate ss c)) = map fst (List.concat (skipn k ss))
    /\ d_rev (cur (fst (migrate ss c))) = RRow (Some (rev_id ss))
    /\ d_data (cur (fst (migrate ss c))) = d_data (cur c).
  Proof.
    intros Hi Hr Hk Hs.
    assert (Hg : get_revision c = (c, Some (rev_id (firstn k ss)), [ESelectRev true])).
    { rewrite get_revision_table; rewrite Hs; [reflexivity | discriminate]. }
    assert (He : get_steps ss (Some (rev_id (firstn k ss))) = skipn k ss).
    { apply (get_steps_prefix md5 ss k Hi Hr). lia. }
    destruct (skipn k ss) as [|s0 rest] eqn:E.
    { exfalso. assert (L : List.length (skipn k ss) = 0) by (rewrite E; reflexivity). rewrite skipn_length in L. lia. }
    destruct (migrate_todo ss c c _ _ s0 rest Hg He) as [M1 M2]. rewrite M1, M2.
    pose proof (run_stmts_cur (List.concat (s0 :: rest)) c) as [Hc1 Hc2].
    split; [|split].
    - rewrite !stmts_of_app, set_revision_stmts, run_stmts_trace. simpl. rewrite app_nil_r. reflexivity.
    - apply set_revision_view. rewrite Hc1, Hs. discriminate.
    - destruct (set_revision_keeps (rev_id ss) (fst (run_stmts (List.concat (s0 :: rest)) c))) as [_ [K _]].
      rewrite K. exact Hc2.
  Qed.

  (* the session's view after a migration, from a file that has a revision row or no revision
     table at all: stamped current *)
  Lemma migrate_stamps_view (ss : list step) (d : db) :
    ids_distinct ss -> revs_distinct ss -> ss <> [] -> d_rev d <> REmpty ->
    d_rev (cur (fst (migrate ss (mkconn d None)))) = RRow (Some (rev_id ss)).
  Proof.
    intros Hi Hr Hne Hemp. set (c := mkconn d None).
    assert (Hcur : cur c = d) by reflexivity.
    destruct (d_rev d) as [| |r] eqn:Ed; [| contradiction |].
    - assert (Hg := get_revision_no_table c). rewrite Hcur in Hg. specialize (Hg Ed).
      destruct ss as [|s0 rest]; [contradiction|].
      destruct (migrate_todo (s0 :: rest) c _ _ _ s0 rest Hg eq_refl) as [M1 _]. rewrite M1.
      apply set_revision_view.
      pose proof (run_stmts_cur (List.concat (s0 :: rest)) (init_rev_table c)) as [Hc1 _]. rewrite Hc1.
      simpl. discriminate.
    - assert (Hg := get_revision_table c). rewrite Hcur, Ed in Hg. specialize (Hg ltac:(discriminate)).
      destruct (get_steps ss r) as [|s0 rest] eqn:E.
      + rewrite (migrate_done ss c c r _ Hg E). simpl. rewrite Hcur, Ed. f_equal.
        apply (get_steps_nil_inv md5 ss r Hi Hne E).
      + destruct (migrate_todo ss c _ _ _ s0 rest Hg E) as [M1 _]. rewrite M1.
        apply set_revision_view.
        pose proof (run_stmts_cur (List.concat (s0 :: rest)) c) as [Hc1 _]. rewrite Hc1, Hcur, Ed. discriminate.
  Qed.

  (* rows are never touched by a migration *)
  Lemma migrate_keeps_data (ss : list step) (c : conn) :
    d_data (cur (fst (migrate ss c))) = d_data (cur c) /\ d_data (disk (fst (migrate ss c))) = d_data (disk c).
  Proof.
    pose proof (get_revision_keeps c) as [_ [G1 G2]].
    destruct (get_revision c) as [[c1 r] tr1] eqn:Hg. simpl in G1, G2.
    destruct (get_steps ss r) as [|s0 rest] eqn:E.
    - rewrite (migrate_done ss c c1 r tr1 Hg E). simpl. auto.
    - destruct (migrate_todo ss c _ _ _ s0 rest Hg E) as [M1 _]. rewrite M1.
      pose proof (run_stmts_cur (List.concat (s0 :: rest)) c1) as [_ Hc].
      pose proof (run_stmts_disk (List.concat (s0 :: rest)) c1) as [_ Hd].
      destruct (set_revision_keeps (rev_id ss) (fst (run_stmts (List.concat (s0 :: rest)) c1))) as [_ [K1 K2]].
      split; congruence.
  Qed.

  (* tables and columns are never dropped by a migration *)
  Lemma migrate_keeps_tables (ss : list step) (c : conn) (t : string) (cols : list string) :
    lookup t (d_schema (cur c)) = Some cols ->
    exists cols', lookup t (d_schema (cur (fst (migrate ss c)))) = Some cols' /\ List.length cols <= List.length cols'.
  Proof.
    intro Hl. pose proof (get_revision_keeps c) as [G _].
    destruct (get_revision c) as [[c1 r] tr1] eqn:Hg. simpl in G.
    destruct (get_steps ss r) as [|s0 rest] eqn:E.
    - rewrite (migrate_done ss c c1 r tr1 Hg E). simpl. rewrite G. exists cols. auto.
    - destruct (migrate_todo ss c _ _ _ s0 rest Hg E) as [M1 _]. rewrite M1.
      rewrite <- G in Hl.
      destruct (run_stmts_keeps_tables (List.concat (s0 :: rest)) c1 t cols Hl) as [cols' [H1 H2]].
      destruct (set_revision_keeps (rev_id ss) (fst (run_stmts (List.concat (s0 :: rest)) c1))) as [K _].
      exists cols'. rewrite K. auto.
  Qed.

  (* ---------- sessions ---------- *)

  (* opening a stamped-current file changes nothing and executes nothing, whatever the user then does *)
  Lemma session_current (orm : schema) (ss : list step) (d : db) (ops : list op) :
    ids_distinct ss -> revs_distinct ss -> d_rev d = RRow (Some (rev_id ss)) ->
    let (o, f') := run_session orm ss (File d) ops in
    s_trace o = [ESelectRev true] /\ s_open o = d /\ sr (s_end o) = sr d /\ sr (s_disk o) = sr d
    /\ exists d', f' = File d' /\ sr d' = sr d.
  Proof.
    intros Hi Hr Hs. unfold Model.run_session, open_database.
    rewrite (migrate_current ss (mkconn d None) Hi Hr Hs). simpl.
    split; [reflexivity|]. split; [reflexivity|].
    destruct (ops_agree2 ops (mkconn d None) eq_refl) as [H2 H1]. simpl in H1, H2.
    split; [exact H1|]. split; [exact H2|]. eexists. split; [reflexivity | exact H2].
  Qed.

  Lemma history_current (orm : schema) (ss : list step) (h : list (list op)) : forall d,
    ids_distinct ss -> revs_distinct ss -> d_rev d = RRow (Some (rev_id ss)) ->
    Forall (fun o => s_trace o = [ESelectRev true] /\ sr (s_open o) = sr d /\ sr (s_end o) = sr d /\ sr (s_disk o) = sr d)
           (fst (run_history orm ss (File d) h))
    /\ exists d', snd (run_history orm ss (File d) h) = File d' /\ sr d' = sr d.
  Proof.
    induction h as [|ops h IH]; intros d Hi Hr Hs; simpl.
    - split; [constructor | eauto].
    - pose proof (session_current orm ss d ops Hi Hr Hs) as S.
      destruct (run_session orm ss (File d) ops) as [o f'].
      destruct S as [S1 [S2 [S3 [S4 [d' [-> S5]]]]]].
      assert (Hs' : d_rev d' = RRow (Some (rev_id ss))).
      { unfold sr in S5. inversion S5. congruence. }
      specialize (IH d' Hi Hr Hs'). destruct (run_history orm ss (File d') h) as [os f'']. simpl in *.
      destruct IH as [I1 [d'' [-> I2]]]. split.
      + constructor; [rewrite S2; auto|]. rewrite S5 in I1. exact I1.
      + exists d''. split; [reflexivity | congruence].
  Qed.

  (* PARTIAL fixed point: if the first session commits, the file is stamped current afterwards *)
  Lemma session_commit_stamps (orm : schema) (ss : list step) (d : db) (ops : list op) :
    ids_distinct ss -> revs_distinct ss -> ss <> [] -> d_rev d <> REmpty -> In OpCommit ops -> ~ In OpRollback ops ->
    let (o, f') := run_session orm ss (File d) ops in
    exists d', f' = File d' /\ d_rev d' = RRow (Some (rev_id ss)) /\ d_schema d' = d_schema (s_open o).
  Proof.
    intros Hi Hr Hne Hemp Hc Hnr. unfold Model.run_session, open_database.
    pose proof (migrate_stamps_view ss d Hi Hr Hne Hemp) as Hv.
    destruct (migrate ss (mkconn d None)) as [c tr]. simpl in *.
    eexists. split; [reflexivity|].
    pose proof (ops_commit_disk ops c Hnr Hc) as H. unfold sr in H. injection H as H1 H2.
    split; [rewrite H2; exact Hv | exact H1].
  Qed.

  (* REFUTATION, universally: a file whose revision table is empty is never stamped, by any session
     whatsoever, and every open executes every statement of every step again *)
  Lemma session_empty_table (orm : schema) (ss : list step) (d : db) (ops : list op) :
    ss <> [] -> d_rev d = REmpty ->
    let (o, f') := run_session orm ss (File d) ops in
    stmts_of (s_trace o) = map fst (List.concat ss) /\ exists d', f' = File d' /\ d_rev d' = REmpty.
  Proof.
    intros Hne Hs. unfold Model.run_session, open_database. set (c := mkconn d None).
    assert (Hcur : cur c = d) by reflexivity.
    assert (Hg := get_revision_table c). rewrite Hcur, Hs in Hg. specialize (Hg ltac:(discriminate)).
    destruct ss as [|s0 rest]; [contradiction|].
    destruct (migrate_todo (s0 :: rest) c _ _ _ s0 rest Hg eq_refl) as [M1 M2].
    destruct (migrate (s0 :: rest) c) as [c3 tr]. simpl in M1, M2. subst c3 tr. simpl.
    pose proof (run_stmts_cur (List.concat (s0 :: rest)) c) as [Hc _].
    pose proof (run_stmts_disk (List.concat (s0 :: rest)) c) as [Hd _].
    set (c2 := fst (run_stmts (List.concat (s0 :: rest)) c)) in *.
    assert (He : d_rev (cur c2) = REmpty) by (rewrite Hc, Hcur; exact Hs).
    rewrite (set_revision_empty _ c2 He). simpl. split.
    - rewrite stmts_of_app. rewrite run_stmts_trace. simpl. rewrite app_nil_r. reflexivity.
    - eexists. split; [reflexivity|].
      destruct (ops_disk_cases ops (dml (fun d0 => d0) c2)) as [H|H]; unfold sr in H; injection H as H1 H2; rewrite H2.
      + simpl. rewrite Hd. exact Hs.
      + simpl. exact He.
  Qed.

  Lemma history_empty_table (orm : schema) (ss : list step) (h : list (list op)) : forall d,
    ss <> [] -> d_rev d = REmpty ->
    Forall (fun o => stmts_of (s_trace o) = map fst (List.concat ss)) (fst (run_history orm ss (File d) h))
    /\ exists d', snd (run_history orm ss (File d) h) = File d' /\ d_rev d' = REmpty.
  Proof.
    induction h as [|ops h IH]; intros d Hne Hs; simpl.
    - split; [constructor | eauto].
    - pose proof (session_empty_table orm ss d ops Hne Hs) as S.
      destruct (run_session orm ss (File d) ops) as [o f']. destruct S as [S1 [d' [-> S2]]].
      specialize (IH d' Hne S2). destruct (run_history orm ss (File d') h) as [os f'']. simpl in *.
      destruct IH as [I1 I2]. split; [constructor; assumption | exact I2].
  Qed.

  (* REFUTATION, universally: a first session that does not commit on a file without revision table
     rolls the whole migration back and leaves exactly one trace on disk: an empty revision table *)
  Lemma session_no_table_no_commit (orm : schema) (ss : list step) (d : db) (ops : list op) :
    ss <> [] -> d_rev d = RNoTable -> ~ In OpCommit ops ->
    snd (run_session orm ss (File d) ops) = File (set_rev REmpty d).
  Proof.
    intros Hne Hs Hc. unfold Model.run_session, open_database. set (c := mkconn d None).
    assert (Hcur : cur c = d) by reflexivity.
    assert (Hg := get_revision_no_table c). rewrite Hcur in Hg. specialize (Hg Hs).
    destruct ss as [|s0 rest]; [contradiction|].
    destruct (migrate_todo (s0 :: rest) c _ _ _ s0 rest Hg eq_refl) as [M1 _].
    remember (List.concat (s0 :: rest)) as l eqn:El.
    destruct (migrate (s0 :: rest) c) as [c3 tr]. simpl in M1. subst c3. simpl.
    set (c1 := init_rev_table c) in *.
    assert (Hw : work c1 = Some (set_rev (RRow None) (set_rev REmpty d))) by reflexivity.
    assert (Hd1 : disk c1 = set_rev REmpty d) by reflexivity.
    destruct (run_stmts_intx l c1 _ Hw) as [Hdisk _].
    pose proof (run_stmts_cur l c1) as [Hc1 _].
    rewrite (ops_no_commit_disk ops _ Hc). rewrite set_revision_disk.
    - rewrite Hdisk. rewrite Hd1. reflexivity.
    - rewrite Hc1. simpl. discriminate.
  Qed.

  (* hence: read-only opens never stamp a file that came without a stamp *)
  Lemma history_read_only_never_stamps (orm : schema) (ss : list step) (ops : list op) (h : list (list op)) (d : db) :
    ss <> [] -> d_rev d = RNoTable -> ~ In OpCommit ops ->
    exists d', snd (run_history orm ss (File d) (ops :: h)) = File d' /\ d_rev d' = REmpty.
  Proof.
    intros Hne Hs Hc. simpl.
    pose proof (session_no_table_no_commit orm ss d ops Hne Hs Hc) as S.
    destruct (run_session orm ss (File d) ops) as [o f']. simpl in S. subst f'.
    destruct (history_empty_table orm ss h (set_rev REmpty d) Hne eq_refl) as [_ H].
    destruct (run_history orm ss (File (set_rev REmpty d)) h) as [os f'']. exact H.
  Qed.

  (* PARTIAL fixed point, complete form: first session commits => stamped; afterwards every session
     (any operations) executes nothing and leaves schema and revision untouched *)
  Lemma commit_then_fixpoint (orm : schema) (ss : list step) (d : db) (ops : list op) (h : list (list op)) :
    ids_distinct ss -> revs_distinct ss -> ss <> [] -> d_rev d <> REmpty -> In OpCommit ops -> ~ In OpRollback ops ->
    exists d1, snd (run_session orm ss (File d) ops) = File d1
      /\ d_rev d1 = RRow (Some (rev_id ss))
      /\ d_schema d1 = d_schema (s_open (fst (run_session orm ss (File d) ops)))
      /\ Forall (fun o => s_trace o = [ESelectRev true] /\ sr (s_open o) = sr d1 /\ sr (s_end o) = sr d1 /\ sr (s_disk o) = sr d1)
                (fst (run_history orm ss (File d1) h))
      /\ exists d2, snd (run_history orm ss (File d1) h) = File d2 /\ sr d2 = sr d1.
  Proof.
    intros Hi Hr Hne Hemp Hc Hnr.
    pose proof (session_commit_stamps orm ss d ops Hi Hr Hne Hemp Hc Hnr) as S.
    destruct (run_session orm ss (File d) ops) as [o f']. destruct S as [d1 [-> [S1 S2]]].
    exists d1. simpl. split; [reflexivity|]. split; [exact S1|]. split; [exact S2|].
    apply history_current; assumption.
  Qed.
End Sessions.
