(* C19 lemmas, part 1: identifiers, Migrator.get_steps / Revision.__sub__, the DDL statements. *)
From Coq Require Import List String Bool Arith Lia.
From PAFC19 Require Import Syntax Gen Model.
Import ListNotations.
Open Scope string_scope.
Open Scope list_scope.

(* ---------- generic list facts ---------- *)

Lemma NoDup_app_disjoint {A} (l1 l2 : list A) (x : A) :
  NoDup (l1 ++ l2) -> In x l1 -> In x l2 -> False.
Proof.
  induction l1 as [|a l1 IH]; simpl; intros ND H1 H2; [contradiction|].
  inversion ND as [|? ? Hn ND']; subst.
  destruct H1 as [->|H1].
  - apply Hn. apply in_or_app. right. exact H2.
  - exact (IH ND' H1 H2).
Qed.

Lemma list_eqb_string_eq (a b : list string) : list_eqb String.eqb a b = true -> a = b.
Proof.
  revert b. induction a as [|x a IH]; destruct b as [|y b]; simpl; intro H; try discriminate; [reflexivity|].
  apply andb_true_iff in H. destruct H as [H1 H2]. apply String.eqb_eq in H1. subst. f_equal. auto.
Qed.

Fixpoint nodupb (l : list string) : bool :=
  match l with
  | [] => true
  | x :: l' => negb (existsb (String.eqb x) l') && nodupb l'
  end.

Lemma nodupb_NoDup (l : list string) : nodupb l = true -> NoDup l.
Proof.
  induction l as [|x l IH]; simpl; intro H; [constructor|].
  apply andb_true_iff in H. destruct H as [H1 H2]. constructor; [|auto].
  intro Hin. apply negb_true_iff in H1.
  assert (E : existsb (String.eqb x) l = true).
  { apply existsb_exists. exists x. split; [exact Hin | apply String.eqb_refl]. }
  congruence.
Qed.

(* ---------- get_steps ---------- *)

Section GetSteps.
  Variable md5 : string -> string.
  Notation step_id := (step_id md5).
  Notation rev_id := (rev_id md5).
  Notation step_in := (step_in md5).
  Notation rev_sub := (rev_sub md5).
  Notation find_rev := (find_rev md5).
  Notation get_steps := (get_steps md5).

  Definition ids_distinct (ss : list step) : Prop := NoDup (map step_id ss).
  Definition revs_distinct (ss : list step) : Prop := NoDup (map rev_id (revisions ss)).

  Lemma step_in_self (s : step) (l : list step) : In s l -> step_in s l = true.
  Proof.
    intro H. unfold Model.step_in. apply existsb_exists. exists s. split; [exact H | apply String.eqb_refl].
  Qed.

  Lemma step_in_false (a b : list step) (s : step) :
    NoDup (map step_id (a ++ b)) -> In s b -> step_in s a = false.
  Proof.
    intros ND Hb. destruct (step_in s a) eqn:E; [|reflexivity]. exfalso.
    unfold Model.step_in in E. apply existsb_exists in E. destruct E as [o [Ho Heq]].
    apply String.eqb_eq in Heq. rewrite map_app in ND.
    apply (NoDup_app_disjoint _ _ (step_id s) ND).
    - rewrite Heq. apply in_map. exact Ho.
    - apply in_map. exact Hb.
  Qed.

  Lemma filter_all_false {A} (f : A -> bool) (l : list A) : (forall x, In x l -> f x = false) -> filter f l = [].
  Proof.
    induction l as [|x l IH]; simpl; intro H; [reflexivity|].
    rewrite (H x (or_introl eq_refl)). apply IH. intros y Hy. apply H. right. exact Hy.
  Qed.

  Lemma filter_all_true {A} (f : A -> bool) (l : list A) : (forall x, In x l -> f x = true) -> filter f l = l.
  Proof.
    induction l as [|x l IH]; simpl; intro H; [reflexivity|].
    rewrite (H x (or_introl eq_refl)). f_equal. apply IH. intros y Hy. apply H. right. exact Hy.
  Qed.

  (* Revision.__sub__ of a prefix leaves exactly the suffix (distinct step ids) *)
  Lemma rev_sub_app (a b : list step) : NoDup (map step_id (a ++ b)) -> rev_sub (a ++ b) a = b.
  Proof.
    intro ND. unfold Model.rev_sub. rewrite filter_app.
    rewrite (filter_all_false _ a), (filter_all_true _ b); [reflexivity| |].
    - intros s Hs. rewrite (step_in_false a b s ND Hs). reflexivity.
    - intros s Hs. rewrite (step_in_self s a Hs). reflexivity.
  Qed.

  Lemma rev_sub_prefix (ss : list step) (k : nat) : ids_distinct ss -> rev_sub ss (firstn k ss) = skipn k ss.
  Proof.
    intro ND. pose proof (rev_sub_app (firstn k ss) (skipn k ss)) as H.
    rewrite firstn_skipn in H. apply H. exact ND.
  Qed.

  Lemma find_rev_in (revs : list (list step)) (r : list step) :
    NoDup (map rev_id revs) -> In r revs -> find_rev (rev_id r) revs = Some r.
  Proof.
    induction revs as [|r0 revs IH]; simpl; intros ND Hin; [contradiction|].
    inversion ND as [|? ? Hn ND']; subst.
    destruct (String.eqb (rev_id r) (rev_id r0)) eqn:E.
    - destruct Hin as [->|Hin]; [reflexivity|].
      apply String.eqb_eq in E. exfalso. apply Hn. rewrite <- E. apply in_map. exact Hin.
    - destruct Hin as [->|Hin]; [rewrite String.eqb_refl in E; discriminate|]. auto.
  Qed.

  Lemma find_rev_some (rid : string) (revs : list (list step)) (r : list step) :
    find_rev rid revs = Some r -> In r revs /\ rid = rev_id r.
  Proof.
    induction revs as [|r0 revs IH]; simpl; intro H; [discriminate|].
    destruct (String.eqb rid (rev_id r0)) eqn:E.
    - inversion H; subst. apply String.eqb_eq in E. auto.
    - destruct (IH H). auto.
  Qed.

  Lemma find_rev_none (rid : string) (revs : list (list step)) :
    (forall r, In r revs -> rev_id r <> rid) -> find_rev rid revs = None.
  Proof.
    induction revs as [|r0 revs IH]; simpl; intro H; [reflexivity|].
    destruct (String.eqb rid (rev_id r0)) eqn:E.
    - apply String.eqb_eq in E. exfalso. apply (H r0 (or_introl eq_refl)). auto.
    - apply IH. intros r Hr. apply H. right. exact Hr.
  Qed.

  Lemma prefix_in_revisions (ss : list step) (k : nat) :
    1 <= k <= List.length ss -> In (firstn k ss) (revisions ss).
  Proof.
    intro H. unfold revisions. apply in_map_iff. exists k. split; [reflexivity|]. apply in_seq. lia.
  Qed.

  Lemma in_revisions (ss r : list step) :
    In r (revisions ss) -> exists k, 1 <= k <= List.length ss /\ r = firstn k ss.
  Proof.
    unfold revisions. intro H. apply in_map_iff in H. destruct H as [k [Hk Hin]]. apply in_seq in Hin.
    exists k. split; [lia | auto].
  Qed.

  (* exactly the missing steps, once, in order *)
  Lemma get_steps_prefix (ss : list step) (k : nat) :
    ids_distinct ss -> revs_distinct ss -> 1 <= k <= List.length ss ->
    get_steps ss (Some (rev_id (firstn k ss))) = skipn k ss.
  Proof.
    intros Hi Hr Hk. unfold Model.get_steps.
    rewrite (find_rev_in _ _ Hr (prefix_in_revisions ss k Hk)). apply rev_sub_prefix. exact Hi.
  Qed.

  Lemma get_steps_none (ss : list step) : get_steps ss None = ss.
  Proof. reflexivity. Qed.

  Lemma get_steps_unknown (ss : list step) (rid : string) :
    (forall r, In r (revisions ss) -> rev_id r <> rid) -> get_steps ss (Some rid) = ss.
  Proof. intro H. unfold Model.get_steps. rewrite (find_rev_none _ _ H). reflexivity. Qed.

  Lemma get_steps_latest (ss : list step) :
    ids_distinct ss -> revs_distinct ss -> get_steps ss (Some (rev_id ss)) = [].
  Proof.
    intros Hi Hr. destruct ss as [|s ss'] eqn:E; [reflexivity|]. rewrite <- E in *.
    assert (Hl : 1 <= List.length ss <= List.length ss) by (subst; simpl; lia).
    pose proof (get_steps_prefix ss (List.length ss) Hi Hr Hl) as H.
    rewrite firstn_all, skipn_all in H. exact H.
  Qed.

  (* converse: nothing to do only when the stamp is the current revision *)
  Lemma get_steps_nil_inv (ss : list step) (r : option string) :
    ids_distinct ss -> ss <> [] -> get_steps ss r = [] -> r = Some (rev_id ss).
  Proof.
    intros Hi Hne H. destruct r as [rid|]; [|simpl in H; contradiction].
    unfold Model.get_steps in H. destruct (find_rev rid (revisions ss)) as [rv|] eqn:E; [|contradiction].
    apply find_rev_some in E. destruct E as [Hin ->].
    apply in_revisions in Hin. destruct Hin as [k [Hk ->]].
    rewrite (rev_sub_prefix ss k Hi) in H.
    assert (Hlen : List.length (skipn k ss) = 0) by (rewrite H; reflexivity).
    rewrite skipn_length in Hlen. assert (k = List.length ss) by lia. subst k.
    rewrite firstn_all. reflexivity.
  Qed.
End GetSteps.

(* ---------- the three DDL statements never lose anything ---------- *)

Lemma lookup_update_same (t : string) (cols new : list string) (s : schema) :
  lookup t s = Some cols -> lookup t (update t new s) = Some new.
Proof.
  induction s as [|[t' c'] s IH]; simpl; intro H; [discriminate|].
  destruct (String.eqb t t') eqn:E; simpl; rewrite E; [reflexivity | auto].
Qed.

Lemma lookup_update_other (t u : string) (new : list string) (s : schema) :
  u <> t -> lookup u (update t new s) = lookup u s.
Proof.
  intro Hne. induction s as [|[t' c'] s IH]; simpl; [reflexivity|].
  destruct (String.eqb t t') eqn:E; simpl.
  - apply String.eqb_eq in E. subst t'. destruct (String.eqb u t) eqn:E2; [apply String.eqb_eq in E2; contradiction | reflexivity].
  - destruct (String.eqb u t'); [reflexivity | exact IH].
Qed.

Lemma lookup_app_some (t : string) (s s2 : schema) (cols : list string) :
  lookup t s = Some cols -> lookup t (s ++ s2) = Some cols.
Proof.
  induction s as [|[t' c'] s IH]; simpl; intro H; [discriminate|].
  destruct (String.eqb t t'); [exact H | auto].
Qed.

(* the name a column carries after a statement *)
Definition renamed (st : stmt) (t c : string) : string :=
  match st with
  | RenameColumn t' a b => if String.eqb t t' && String.eqb c a then b else c
  | _ => c
  end.

Lemma in_rename (a b c : string) (l : list string) :
  In c l -> In (if String.eqb c a then b else c) (rename a b l).
Proof.
  intro H. unfold rename. apply in_map_iff. exists c. split; [reflexivity | exact H].
Qed.

(* a successful statement keeps every table, keeps every column (under its possibly new name)
   and never shortens a table *)
Lemma exec_preserves (s s' : schema) (st : stmt) (t : string) (cols : list string) :
  exec s st = Some s' -> lookup t s = Some cols ->
  exists cols', lookup t s' = Some cols' /\ List.length cols <= List.length cols'
                /\ forall c, In c cols -> In (renamed st t c) cols'.
Proof.
  intros He Hl. destruct st as [t0 c0 | t0 cs | t0 a b]; simpl in He.
  - destruct (lookup t0 s) as [cols0|] eqn:E0; [|discriminate].
    destruct (mem c0 cols0); [discriminate|]. inversion He; subst s'; clear He.
    destruct (String.eqb t t0) eqn:Et.
    + apply String.eqb_eq in Et. subst t0. rewrite Hl in E0. inversion E0; subst cols0.
      exists (cols ++ [c0]). rewrite (lookup_update_same t cols _ s Hl). split; [reflexivity|]. split.
      * rewrite app_length. lia.
      * intros c Hc. simpl. apply in_or_app. left. exact Hc.
    + exists cols. rewrite lookup_update_other; [|intro; subst; rewrite String.eqb_refl in Et; discriminate].
      split; [exact Hl|]. split; [lia|]. intros c Hc. exact Hc.
  - destruct (lookup t0 s) eqn:E0; [discriminate|]. inversion He; subst s'; clear He.
    exists cols. split; [apply lookup_app_some; exact Hl|]. split; [lia|]. intros c Hc. exact Hc.
  - destruct (lookup t0 s) as [cols0|] eqn:E0; [|discriminate].
    destruct (mem a cols0 && negb (mem b cols0)); [|discriminate]. inversion He; subst s'; clear He.
    destruct (String.eqb t t0) eqn:Et.
    + apply String.eqb_eq in Et. subst t0. rewrite Hl in E0. inversion E0; subst cols0.
      exists (rename a b cols). rewrite (lookup_update_same t cols _ s Hl). split; [reflexivity|]. split.
      * unfold rename. rewrite map_length. lia.
      * intros c Hc. simpl. rewrite String.eqb_refl. simpl. apply in_rename. exact Hc.
    + exists cols. rewrite lookup_update_other; [|intro; subst; rewrite String.eqb_refl in Et; discriminate].
      split; [exact Hl|]. split; [lia|]. intros c Hc. simpl. rewrite Et. simpl. exact Hc.
Qed.
