From Coq Require Import List String Bool Arith.
From PAFC19 Require Import Syntax Gen Model.
Import ListNotations.
Lemma placeholder : True. Proof. exact I. Qed.
