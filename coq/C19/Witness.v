(* Non-vacuity examples for C19: concrete states meeting the theorems' hypotheses, and the concrete
   runs behind the `_refuted` theorems. *)
From Coq Require Import List String Bool Arith.
From PAFC19 Require Import Syntax Gen Model Proofs Proofs2 Proofs3 Proofs4 Proofs5.
Import ListNotations.
Open Scope string_scope.
Open Scope list_scope.

(* hypotheses of C19_missing_steps / C19_stamped_applies_missing_once hold for the generated steps *)
Example distinct_and_a_prefix_exists :
  ids_distinct real_md5 steps /\ revs_distinct real_md5 steps /\ 1 <= 3 < List.length steps.
Proof. split; [exact steps_ids_distinct|]. split; [exact steps_revs_distinct|]. vm_compute. split; repeat constructor. Qed.

Example get_steps_from_revision_3 :
  map (step_id real_md5) (get_steps real_md5 steps (Some (rev_id real_md5 (firstn 3 steps))))
  = map (step_id real_md5) (skipn 3 steps).
Proof. vm_compute. reflexivity. Qed.

(* duplicate steps are outside C19_missing_steps: Revision.__sub__ removes both copies *)
Example duplicate_steps_break_sub :
  let md5 := fun s => s in
  let a : step := [("A", AddColumn "t" "a")] in
  let b : step := [("B", AddColumn "t" "b")] in
  get_steps md5 [a; b; a] (Some (rev_id md5 [a])) = [b].
Proof. vm_compute. reflexivity. Qed.

(* hypotheses of C19_unrepaired_fixpoint_partial: no revision table, first session commits, no rollback *)
Example partial_hypotheses : d_rev (mkdb base_schema RNoTable 0) <> REmpty /\ In OpCommit [OpWrite; OpCommit] /\ ~ In OpRollback [OpWrite; OpCommit].
Proof. split; [discriminate|]. split; [right; left; reflexivity|]. intros [H|[H|H]]; try discriminate H; exact H. Qed.

Example commit_first_then_identity :
  let h := run_history real_md5 orm_schema steps (File (mkdb base_schema RNoTable 2)) [[OpCommit]; []; [OpWrite]] in
  map (fun o => List.length (stmts_of (s_trace o))) (fst h) = [List.length (raw_stmts steps); 0; 0]
  /\ match snd h with File d => rev_eqb (d_rev d) (RRow (Some latest_id)) && Nat.eqb (d_data d) 2 | NoFile => false end = true.
Proof. vm_compute. split; reflexivity. Qed.

(* the run behind C19_fixpoint_refuted: three read-only opens of the original schema *)
Example read_only_opens :
  let h := run_history real_md5 orm_schema steps (File (mkdb base_schema RNoTable 2)) [[]; []; []; []] in
  map (fun o => (List.length (stmts_of (s_trace o)), List.length (ok_stmts_of (s_trace o)))) (fst h)
    = (let n := List.length (raw_stmts steps) in [(n, n); (n, n); (n, 1); (n, 0)])
  /\ map (fun o => rev_eqb (d_rev (s_disk o)) REmpty) (fst h) = [true; true; true; true]
  /\ map (fun o => schema_beq (d_schema (s_disk o)) base_schema) (fst h) = [true; false; false; false].
Proof. vm_compute. repeat split; reflexivity. Qed.

(* hypotheses of C19_empty_table_never_stamped / C19_first_open_rolled_back are satisfiable *)
Example empty_table_state : d_rev (mkdb base_schema REmpty 0) = REmpty /\ steps <> [].
Proof. split; [reflexivity | exact steps_nonempty]. Qed.

(* the run behind C19_unstamped_current_unchanged_refuted: the column added again *)
Example created_file_gets_extra_column :
  lookup "object" (d_schema (cur (fst (opened (mkdb orm_schema RNoTable 0)))))
  = option_map (fun cols => cols ++ ["latent_variables_for_id"]) (lookup "object" orm_schema).
Proof. vm_compute. reflexivity. Qed.

(* hypotheses of C19_reaches_current_*: the ranges are inhabited, `unstamped` is satisfiable *)
Example ranges_inhabited : 1 <= 1 <= List.length steps /\ 0 < exact_upto /\ 0 <= List.length steps /\ unstamped RNoTable.
Proof. vm_compute. split; [split; repeat constructor|]. split; [repeat constructor|]. split; [repeat constructor | left; reflexivity]. Qed.

(* C19_columns_preserved: a successful statement exists for each of the three forms *)
Example exec_examples :
  exec [("t", ["a"])] (AddColumn "t" "b") = Some [("t", ["a"; "b"])]
  /\ exec [("t", ["a"])] (RenameColumn "t" "a" "b") = Some [("t", ["b"])]
  /\ exec [("t", ["a"])] (CreateTable "u" ["x"]) = Some [("t", ["a"]); ("u", ["x"])]
  /\ exec [("t", ["a"])] (AddColumn "t" "a") = None
  /\ exec [("t", ["a"; "b"])] (RenameColumn "t" "a" "b") = None
  /\ exec [("t", ["a"])] (CreateTable "t" ["x"]) = None.
Proof. vm_compute. repeat split; reflexivity. Qed.

(* C19_fixed_fixpoint: its hypotheses hold for variant_all and the generated steps; the same three
   read-only opens as above, now with the repairs: migrated and stamped by the first one *)
Example fixed_hypotheses : v_commit variant_all = true /\ v_insert variant_all = true /\ v_stamp_new variant_all = true.
Proof. repeat split. Qed.

Example fixed_read_only_opens :
  let h := run_history_v real_md5 variant_all orm_schema steps (File (mkdb base_schema RNoTable 2)) [[]; []; []] in
  map (fun o => List.length (ok_stmts_of (s_trace o))) (fst h) = [List.length (raw_stmts steps); 0; 0]
  /\ map (fun o => rev_eqb (d_rev (s_disk o)) (RRow (Some latest_id))) (fst h) = [true; true; true]
  /\ map (fun o => schema_beq (d_schema (s_disk o)) (current_schema base_schema)) (fst h) = [true; true; true].
Proof. vm_compute. repeat split; reflexivity. Qed.

Example fixed_heals_empty_table :
  let h := run_history_v real_md5 variant_all orm_schema steps (File (mkdb base_schema REmpty 0)) [[]; []] in
  map (fun o => rev_eqb (d_rev (s_disk o)) (RRow (Some latest_id))) (fst h) = [true; true].
Proof. vm_compute. repeat split; reflexivity. Qed.

Example fixed_new_file_is_stamped :
  let h := run_history_v real_md5 variant_all orm_schema steps NoFile [[]; []] in
  map (fun o => (List.length (stmts_of (s_trace o)), schema_beq (d_schema (s_disk o)) orm_schema)) (fst h) = [(0, true); (0, true)].
Proof. vm_compute. repeat split; reflexivity. Qed.

(* C19_unrecognised_all_steps: an identifier that is no revision id of the generated steps *)
Example unknown_id_is_unrecognised :
  forallb (fun r => negb (String.eqb (rev_id real_md5 r) "unknown")) (revisions steps) = true
  /\ map (step_id real_md5) (get_steps real_md5 steps (Some "unknown")) = map (step_id real_md5) steps.
Proof. vm_compute. split; reflexivity. Qed.

(* C19_reaches_current_unstamped_refuted is not vacuous on the pinned tree (exact_upto is a revision);
   should a later step list have no such revision, exact_upto is length steps + 1 *)
Example exact_upto_is_a_revision_or_none :
  Nat.leb exact_upto (List.length steps) = true \/ exact_upto = S (List.length steps).
Proof. first [ left; vm_compute; reflexivity | right; vm_compute; reflexivity ]. Qed.

(* C19_released_revisions_recognised / C19_code_released_applies_missing_once: there are pinned ids, and
   some of them are earlier than the current revision *)
Example pinned_ids_exist : 0 < List.length pinned_revision_ids /\ 1 < List.length steps.
Proof. vm_compute. split; repeat constructor. Qed.

(* C19_code_fixpoint on the code as it is: read-only opens, a rollback, an empty revision table, a new file *)
Example code_read_only_opens :
  let h := code_history (File (mkdb base_schema RNoTable 2)) [[]; [OpWrite; OpRollback]; []] in
  map (fun o => List.length (ok_stmts_of (s_trace o))) (fst h) = [List.length (raw_stmts steps); 0; 0]
  /\ map (fun o => rev_eqb (d_rev (s_disk o)) (RRow (Some latest_id)) && Nat.eqb (d_data (s_disk o)) 2) (fst h) = [true; true; true].
Proof. vm_compute. split; reflexivity. Qed.
