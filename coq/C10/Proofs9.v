(* C10 lemmas, part 9: the proposed repair of slicing.  Freezing a sliced aggregator into the ids of its fits
   (IdsQuery) and re-running the query with the same order keys returns exactly the fits of the slice, in the same
   order, when the id is among the keys. *)
From Coq Require Import ZArith List Bool String Lia Permutation Sorted.
From PAFC10 Require Import Model Proofs4 Proofs7 Proofs8.
Import ListNotations.
Open Scope list_scope.

Inductive sublist {A} : list A -> list A -> Prop :=
| sl_nil l : sublist [] l
| sl_skip x l' l : sublist l' l -> sublist l' (x :: l)
| sl_keep x l' l : sublist l' l -> sublist (x :: l') (x :: l).

Lemma sublist_refl {A} (l : list A) : sublist l l.
Proof. induction l; constructor; assumption. Qed.
Lemma sublist_incl {A} (l' l : list A) : sublist l' l -> forall x, In x l' -> In x l.
Proof. induction 1; intros y Hy; simpl in *; [destruct Hy | right; auto | destruct Hy; [left; assumption | right; auto]]. Qed.
Lemma sublist_trans {A} (a b c : list A) : sublist a b -> sublist b c -> sublist a c.
Proof.
  intros H1 H2. revert a H1. induction H2; intros a H1.
  - inversion H1. constructor.
  - constructor. apply IHsublist. exact H1.
  - inversion H1; subst; [constructor | constructor; apply IHsublist; assumption | constructor; apply IHsublist; assumption].
Qed.
Lemma sublist_filter {A} (P : A -> bool) l : sublist (filter P l) l.
Proof. induction l as [|x l IH]; simpl; [constructor|]. destruct (P x); constructor; exact IH. Qed.
Lemma sublist_firstn {A} n (l : list A) : sublist (firstn n l) l.
Proof. revert l. induction n; intro l; simpl; [constructor|]. destruct l; [constructor | apply sl_keep; apply IHn]. Qed.
Lemma sublist_skipn {A} n (l : list A) : sublist (skipn n l) l.
Proof. revert l. induction n; intro l; simpl; [apply sublist_refl|]. destruct l; [constructor | apply sl_skip; apply IHn]. Qed.
Lemma sublist_strongly {A} (R : A -> A -> Prop) l' l : sublist l' l -> StronglySorted R l -> StronglySorted R l'.
Proof.
  induction 1; intro S.
  - constructor.
  - apply StronglySorted_inv in S. apply IHsublist. tauto.
  - apply StronglySorted_inv in S. destruct S as [S F]. constructor; [apply IHsublist; exact S|].
    rewrite Forall_forall in *. intros y Hy. apply F. eapply sublist_incl; eassumption.
Qed.
Lemma sublist_nodup {A} (l' l : list A) : sublist l' l -> NoDup l -> NoDup l'.
Proof.
  induction 1; intro N.
  - constructor.
  - inversion N. auto.
  - inversion N as [|? ? Hn Hr]. subst. constructor; [|auto]. intro Hx. apply Hn. eapply sublist_incl; eassumption.
Qed.

Lemma filter_all {A} (P : A -> bool) l : (forall x, In x l -> P x = true) -> filter P l = l.
Proof.
  induction l as [|x l IH]; intro H; simpl; [reflexivity|].
  rewrite (H x (or_introl eq_refl)). f_equal. apply IH. intros y Hy. apply H. right. exact Hy.
Qed.
Lemma mem_str_true s l : mem_str s l = true <-> In s l.
Proof.
  induction l as [|x l IH]; simpl; [split; [discriminate | tauto]|].
  rewrite orb_true_iff, IH, String.eqb_eq. tauto.
Qed.
Lemma nodup_map_nodup {A B} (f : A -> B) l : NoDup (map f l) -> NoDup l.
Proof.
  induction l as [|x l IH]; simpl; intro H; [constructor|].
  inversion H as [|? ? Hn Hr]. subst. constructor; [|auto]. intro Hx. apply Hn. apply in_map. exact Hx.
Qed.

(* facts about the fits an aggregator returns *)
Lemma gfits_facts db st :
  NoDup (map fid db) -> g_keys st <> [] ->
  NoDup (g_fits current db st) /\ (forall f, In f (g_fits current db st) -> In f db) /\
  StronglySorted (fun a b => lex_le (g_keys st) a b = true) (g_fits current db st) /\
  (g_top st = true -> forall f, In f (g_fits current db st) -> is_top f = true).
Proof.
  intros ND Kne.
  set (W := g_fits current db st). set (keys := g_keys st) in *.
  set (S := gsel (g_pred st) db). set (L := ordered keys S).
  set (T := if g_top st then filter is_top L else L).
  assert (HW : W = take_lim (g_lim st) (drop_z (g_off st) T)) by reflexivity.
  assert (SubWT : sublist W T).
  { rewrite HW. unfold take_lim, drop_z. destruct (g_lim st) as [n|].
    - destruct (n <? 0)%Z; [apply sublist_skipn | eapply sublist_trans; [apply sublist_firstn | apply sublist_skipn]].
    - apply sublist_skipn. }
  assert (SubTL : sublist T L) by (unfold T; destruct (g_top st); [apply sublist_filter | apply sublist_refl]).
  assert (SubWL : sublist W L) by (eapply sublist_trans; eassumption).
  assert (NDdb : NoDup db) by (eapply nodup_map_nodup; exact ND).
  assert (NDS : NoDup S).
  { unfold S. destruct (gsel_is_filter (g_pred st) db) as [P E]. rewrite E. apply NoDup_filter. exact NDdb. }
  destruct (ordered_spec keys S) as [PermL _].
  assert (NDL : NoDup L) by (eapply Permutation_NoDup; eassumption).
  split; [eapply sublist_nodup; eassumption|]. split; [|split].
  - intros f Hf. apply (gsel_incl (g_pred st)). eapply Permutation_in; [apply Permutation_sym; exact PermL|].
    eapply sublist_incl; eassumption.
  - eapply sublist_strongly; [exact SubWL|]. apply ordered_strongly. exact Kne.
  - intros Etop f Hf. assert (HfT : In f T) by (eapply sublist_incl; eassumption).
    unfold T in HfT. rewrite Etop in HfT. apply filter_In in HfT. tauto.
Qed.

(* fits re-selected by their ids and ordered by the same keys (the id among them) come back as they were *)
Lemma reselect_exact db keys top sel :
  NoDup (map fid db) -> keys_total keys = true ->
  NoDup sel -> (forall f, In f sel -> In f db) ->
  StronglySorted (fun a b => lex_le keys a b = true) sel ->
  (top = true -> forall f, In f sel -> is_top f = true) ->
  window current top 0%Z None (ordered keys (filter (fun f => mem_str (fid f) (map fid sel)) db)) = sel.
Proof.
  intros ND KT NDW InW SW Top.
  assert (Kne : keys <> []) by (intro E; rewrite E in KT; discriminate).
  assert (NDdb : NoDup db) by (eapply nodup_map_nodup; exact ND).
  set (S' := filter (fun f => mem_str (fid f) (map fid sel)) db).
  assert (InS' : forall f, In f S' <-> In f sel).
  { intro f. unfold S'. rewrite filter_In, mem_str_true, in_map_iff. split.
    - intros [Hf [g [Eg Hg]]]. rewrite <- (fid_inj db ND g f (InW g Hg) Hf Eg). exact Hg.
    - intro Hf. split; [apply InW; exact Hf | exists f; auto]. }
  assert (NDS' : NoDup S') by (apply NoDup_filter; exact NDdb).
  assert (PermS' : Permutation S' sel) by (apply NoDup_Permutation; assumption).
  assert (NDidS' : NoDup (map fid S')) by (unfold S'; apply filter_nodup_fid; exact ND).
  assert (E : ordered keys S' = sel).
  { symmetry. apply (ordered_unique keys S' sel Kne).
    - apply id_key_separates; assumption.
    - exact NDS'.
    - exact PermS'.
    - apply StronglySorted_Sorted. exact SW. }
  rewrite E. unfold window. cbn [fix_slice current]. unfold take_lim, drop_z. simpl skipn.
  destruct top; [|reflexivity]. apply filter_all. apply Top. reflexivity.
Qed.

(* slice-then-operation: the frozen aggregator returns the fits of the slice *)
Theorem freeze_exact db st :
  NoDup (map fid db) -> keys_total (g_keys st) = true ->
  g_fits current db (freeze current db st) = g_fits current db st.
Proof.
  intros ND KT. unfold freeze. destruct (has_slice st); [|reflexivity].
  assert (Kne : g_keys st <> []) by (intro E; rewrite E in KT; discriminate).
  destruct (gfits_facts db st ND Kne) as [F1 [F2 [F3 F4]]].
  unfold g_fits at 1. cbn [g_pred g_keys g_off g_lim g_top gsel].
  apply reselect_exact; assumption.
Qed.

(* ---------- a slice with a positive step ---------- *)
Definition pick {A} (l : list A) (i : Z) : list A := match nth_error l (Z.to_nat i) with Some x => [x] | None => [] end.
Lemma skipn_nth {A} (l : list A) : forall n x, nth_error l n = Some x -> skipn n l = x :: skipn (S n) l.
Proof.
  induction l as [|y l IH]; intros [|n] x H; simpl in *; try discriminate.
  - inversion H. reflexivity.
  - apply IH. exact H.
Qed.
Lemma sublist_skipn_le {A} (l : list A) a b : a <= b -> sublist (skipn b l) (skipn a l).
Proof.
  intro H. replace b with (a + (b - a)) by lia. rewrite <- skipn_skipn. apply sublist_skipn.
Qed.
Lemma range_pick_sublist {A} (l : list A) e stp : (0 < stp)%Z -> forall fuel s, (0 <= s)%Z ->
  sublist (flat_map (pick l) (range_z fuel s e stp)) (skipn (Z.to_nat s) l).
Proof.
  intros Hst. induction fuel as [|fuel IH]; intros s Hs; simpl; [constructor|].
  assert (P : (0 <? stp)%Z = true) by (apply Z.ltb_lt; exact Hst). rewrite P.
  destruct (s <? e)%Z; [|constructor]. simpl.
  specialize (IH (s + stp)%Z ltac:(lia)).
  unfold pick at 1. destruct (nth_error l (Z.to_nat s)) as [x|] eqn:E.
  - rewrite (skipn_nth l _ x E). cbn [app]. apply sl_keep.
    eapply sublist_trans; [exact IH|]. apply sublist_skipn_le. lia.
  - cbn [app]. eapply sublist_trans; [exact IH|]. apply sublist_skipn_le. lia.
Qed.
Lemma py_slice_step_pos_sublist {A} (l : list A) start stop stp :
  (0 < stp)%Z -> sublist (py_slice_step l start stop (Some stp)) l.
Proof.
  intro Hst. unfold py_slice_step.
  assert (P : (0 <? stp)%Z = true) by (apply Z.ltb_lt; exact Hst). rewrite P.
  set (n := Z.of_nat (List.length l)).
  set (s := match start with Some i => clamp n i | None => 0%Z end).
  assert (Hs : (0 <= s)%Z).
  { unfold s. destruct start as [i|]; [|lia]. apply clamp_range. unfold n. lia. }
  eapply sublist_trans; [apply (range_pick_sublist l _ stp Hst (List.length l) s Hs) | apply sublist_skipn].
Qed.

(* the repaired stepped slice (positive step) returns the Python list slice of the current fits *)
Theorem stepped_pos_exact db st start stop stp st' :
  NoDup (map fid db) -> keys_total (g_keys st) = true -> (1 < stp)%Z ->
  gop_step_s current false db st (GSlice start stop (Some stp)) = Ok st' ->
  g_fits current db st' = py_slice_step (g_fits current db st) start stop (Some stp).
Proof.
  intros ND KT Hst H. unfold gop_step_s in H.
  assert (E1 : (stp =? 1)%Z = false) by (apply Z.eqb_neq; lia). rewrite E1 in H.
  assert (E2 : (stp <? 0)%Z = false) by (apply Z.ltb_ge; lia). rewrite E2 in H.
  destruct (g_bad st || negb (gsql_ok false (g_pred st))) eqn:Eb; [discriminate|].
  inversion H. subst st'. clear H.
  assert (Kne : g_keys st <> []) by (intro E; rewrite E in KT; discriminate).
  destruct (gfits_facts db st ND Kne) as [F1 [F2 [F3 F4]]].
  set (W := g_fits current db st) in *.
  assert (Sub : sublist (py_slice_step W start stop (Some stp)) W) by (apply py_slice_step_pos_sublist; lia).
  unfold g_fits at 1. cbn [g_pred g_keys g_off g_lim g_top gsel].
  apply reselect_exact; try assumption.
  - eapply sublist_nodup; eassumption.
  - intros f Hf. apply F2. eapply sublist_incl; eassumption.
  - eapply sublist_strongly; eassumption.
  - intros Et f Hf. apply (F4 Et). eapply sublist_incl; eassumption.
Qed.

(* ---------- a slice with a negative step: the list slice walks backwards, the repaired code flips every key ---------- *)
Lemma sublist_app {A} (a b c d : list A) : sublist a b -> sublist c d -> sublist (a ++ c) (b ++ d).
Proof.
  intros H1 H2. induction H1; simpl.
  - induction l as [|x l IH]; simpl; [exact H2 | apply sl_skip; exact IH].
  - apply sl_skip. exact IHsublist.
  - apply sl_keep. exact IHsublist.
Qed.
Lemma firstn_le_sublist {A} (l : list A) a b : a <= b -> sublist (firstn a l) (firstn b l).
Proof.
  revert a b. induction l as [|x l IH]; intros a b H.
  - rewrite !firstn_nil. constructor.
  - destruct a; simpl; [constructor|]. destruct b; [lia|]. simpl. apply sl_keep. apply IH. lia.
Qed.
Lemma firstn_S_nth {A} (l : list A) : forall n x, nth_error l n = Some x -> firstn (S n) l = firstn n l ++ [x].
Proof.
  induction l as [|y l IH]; intros [|n] x H; simpl in *; try discriminate.
  - inversion H. reflexivity.
  - f_equal. apply IH. exact H.
Qed.
Lemma range_pick_rev_sublist {A} (l : list A) e stp : (stp < 0)%Z -> (-1 <= e)%Z -> forall fuel s,
  sublist (rev (flat_map (pick l) (range_z fuel s e stp))) (firstn (Z.to_nat (s + 1)) l).
Proof.
  intros Hst He. induction fuel as [|fuel IH]; intro s; simpl; [constructor|].
  assert (P : (0 <? stp)%Z = false) by (apply Z.ltb_ge; lia). rewrite P.
  destruct (e <? s)%Z eqn:Es; [|constructor]. apply Z.ltb_lt in Es. simpl.
  specialize (IH (s + stp)%Z). rewrite rev_app_distr.
  unfold pick at 2. destruct (nth_error l (Z.to_nat s)) as [x|] eqn:E.
  - replace (Z.to_nat (s + 1)) with (S (Z.to_nat s)) by lia.
    rewrite (firstn_S_nth l _ x E). simpl rev.
    apply sublist_app; [|apply sublist_refl].
    eapply sublist_trans; [exact IH|]. apply firstn_le_sublist. lia.
  - simpl rev. rewrite app_nil_r.
    eapply sublist_trans; [exact IH|]. apply firstn_le_sublist. lia.
Qed.

Lemma py_slice_step_neg_rev_sublist {A} (l : list A) start stop stp :
  (stp < 0)%Z -> sublist (rev (py_slice_step l start stop (Some stp))) l.
Proof.
  intro Hst. unfold py_slice_step.
  assert (P : (0 <? stp)%Z = false) by (apply Z.ltb_ge; lia). rewrite P.
  set (n := Z.of_nat (List.length l)).
  set (e := match stop with Some i => clamp_neg n i | None => (-1)%Z end).
  assert (He : (-1 <= e)%Z).
  { unfold e. destruct stop as [i|]; [|lia]. unfold clamp_neg. destruct (i <? 0)%Z eqn:Ei; [lia|].
    apply Z.ltb_ge in Ei. unfold n. lia. }
  eapply sublist_trans; [apply (range_pick_rev_sublist l e stp Hst He) | apply sublist_firstn].
Qed.

Lemma lex_cmp_flip keys a b : lex_cmp (flip_keys keys) a b = CompOpp (lex_cmp keys a b).
Proof.
  induction keys as [|[k rev] r IH]; simpl; [reflexivity|].
  rewrite IH. destruct rev; simpl; destruct (key_cmp k a b); reflexivity.
Qed.
Lemma lex_le_flip keys a b : lex_le (flip_keys keys) a b = lex_le keys b a.
Proof.
  unfold lex_le. rewrite lex_cmp_flip, (lex_cmp_antisym keys a b). destruct (lex_cmp keys a b); reflexivity.
Qed.
Lemma strongly_app {A} (R : A -> A -> Prop) l1 l2 :
  StronglySorted R l1 -> StronglySorted R l2 -> (forall x y, In x l1 -> In y l2 -> R x y) -> StronglySorted R (l1 ++ l2).
Proof.
  induction 1 as [|x l S IH F]; intros S2 H; simpl; [exact S2|].
  constructor.
  - apply IH; [exact S2|]. intros a b Ha Hb. apply H; [right; exact Ha | exact Hb].
  - rewrite Forall_forall in *. intros y Hy. apply in_app_or in Hy. destruct Hy as [Hy|Hy]; [apply F; exact Hy|].
    apply H; [left; reflexivity | exact Hy].
Qed.
Lemma strongly_rev {A} (R : A -> A -> Prop) l : StronglySorted R l -> StronglySorted (fun a b => R b a) (rev l).
Proof.
  induction 1 as [|x l S IH F]; simpl; [constructor|].
  apply strongly_app; [exact IH | repeat constructor |].
  intros a b Ha Hb. destruct Hb as [Hb|[]]. subst b. rewrite Forall_forall in F. apply F. apply in_rev. exact Ha.
Qed.
Lemma flip_keys_total keys : keys_total (flip_keys keys) = keys_total keys.
Proof. induction keys as [|[k r] l IH]; simpl; [reflexivity|]. unfold keys_total in *. simpl. rewrite IH. reflexivity. Qed.

(* the repaired stepped slice (negative step) returns the Python list slice of the current fits *)
Theorem stepped_neg_exact db st start stop stp st' :
  NoDup (map fid db) -> keys_total (g_keys st) = true -> (stp < 0)%Z ->
  gop_step_s current false db st (GSlice start stop (Some stp)) = Ok st' ->
  g_fits current db st' = py_slice_step (g_fits current db st) start stop (Some stp).
Proof.
  intros ND KT Hst H. unfold gop_step_s in H.
  assert (E1 : (stp =? 1)%Z = false) by (apply Z.eqb_neq; lia). rewrite E1 in H.
  assert (E2 : (stp <? 0)%Z = true) by (apply Z.ltb_lt; lia). rewrite E2 in H.
  destruct (g_bad st || negb (gsql_ok false (g_pred st))) eqn:Eb; [discriminate|].
  inversion H. subst st'. clear H.
  assert (Kne : g_keys st <> []) by (intro E; rewrite E in KT; discriminate).
  destruct (gfits_facts db st ND Kne) as [F1 [F2 [F3 F4]]].
  set (W := g_fits current db st) in *.
  set (sel := py_slice_step W start stop (Some stp)).
  assert (Sub : sublist (rev sel) W) by (apply py_slice_step_neg_rev_sublist; exact Hst).
  unfold g_fits at 1. cbn [g_pred g_keys g_off g_lim g_top gsel]. fold sel.
  apply reselect_exact.
  - exact ND.
  - rewrite flip_keys_total. exact KT.
  - rewrite <- (rev_involutive sel). apply NoDup_rev. eapply sublist_nodup; eassumption.
  - intros f Hf. apply F2. eapply sublist_incl; [exact Sub|]. apply -> in_rev. exact Hf.
  - rewrite <- (rev_involutive sel).
    assert (S1 : StronglySorted (fun a b => lex_le (g_keys st) a b = true) (rev sel)) by (eapply sublist_strongly; eassumption).
    apply strongly_rev in S1.
    eapply (sublist_strongly _ _ _ (sublist_refl _)).
    clear -S1. induction S1 as [|x l S IH F]; constructor; [exact IH|].
    rewrite Forall_forall in *. intros y Hy. rewrite lex_le_flip. apply F. exact Hy.
  - intros Et f Hf. apply (F4 Et). eapply sublist_incl; [exact Sub|]. apply -> in_rev. exact Hf.
Qed.
