(* C10 lemmas, part 8: the parent / child relation (ChildQuery), best fits (BestFitQuery) and the
   aggregator state machine over query / order_by / grid_searches / children / best_fits. *)
From Coq Require Import ZArith List Bool String Lia Permutation.
From PAFC10 Require Import Model Proofs Proofs2 Proofs3 Proofs4 Proofs5.
Import ListNotations.
Open Scope list_scope.

(* ---------- list facts ---------- *)
Lemma filter_filter {A} (P Q : A -> bool) l : filter Q (filter P l) = filter (fun x => P x && Q x) l.
Proof.
  induction l as [|x r IH]; simpl; [reflexivity|].
  destruct (P x); simpl; [destruct (Q x); simpl; rewrite IH; reflexivity | exact IH].
Qed.
Lemma filter_ext_in' {A} (P Q : A -> bool) l : (forall x, In x l -> P x = Q x) -> filter P l = filter Q l.
Proof.
  induction l as [|x r IH]; simpl; intro H; [reflexivity|].
  rewrite (H x (or_introl eq_refl)). rewrite IH; [reflexivity | intros y Hy; apply H; right; exact Hy].
Qed.

Lemma fid_inj db : NoDup (map fid db) -> forall a b, In a db -> In b db -> fid a = fid b -> a = b.
Proof.
  induction db as [|x l IH]; intros ND a b Ha Hb E; [destruct Ha|].
  simpl in ND. inversion ND as [|? ? Hn Hr]. subst.
  destruct Ha as [Ha|Ha], Hb as [Hb|Hb]; subst.
  - reflexivity.
  - exfalso. apply Hn. rewrite E. apply in_map. exact Hb.
  - exfalso. apply Hn. rewrite <- E. apply in_map. exact Ha.
  - apply IH; assumption.
Qed.

Lemma id_in_true i l : id_in i l = true <-> exists f, In f l /\ fid f = i.
Proof.
  unfold id_in. rewrite existsb_exists. split; intros [f [H E]]; exists f; split; auto.
  - apply String.eqb_eq. exact E.
  - apply String.eqb_eq. exact E.
Qed.

(* "id IN (SELECT id ... )" over a sub-selection of a table with a primary key is that sub-selection *)
Lemma id_in_filter db P f : NoDup (map fid db) -> In f db -> id_in (fid f) (filter P db) = P f.
Proof.
  intros ND Hf. destruct (P f) eqn:E.
  - apply id_in_true. exists f. split; [apply filter_In; split; assumption | reflexivity].
  - destruct (id_in (fid f) (filter P db)) eqn:I; [|reflexivity].
    apply id_in_true in I. destruct I as [g [Hg Eg]]. apply filter_In in Hg. destruct Hg as [Hg Pg].
    rewrite (fid_inj db ND g f Hg Hf Eg) in Pg. congruence.
Qed.
Lemma filter_id_in db P : NoDup (map fid db) -> filter (fun f => id_in (fid f) (filter P db)) db = filter P db.
Proof. intro ND. apply filter_ext_in'. intros f Hf. apply id_in_filter; assumption. Qed.

(* ---------- the parent / child relation ---------- *)
Theorem children_exact P db f :
  In f (children_of P db) <-> In f db /\ exists par, In par P /\ fparent f = Some (fid par).
Proof.
  unfold children_of, child_of. rewrite filter_In. split.
  - intros [Hf H]. split; [exact Hf|]. destruct (fparent f) as [p|]; [|discriminate].
    apply id_in_true in H. destruct H as [par [Hp E]]. exists par. split; [exact Hp | congruence].
  - intros [Hf [par [Hp E]]]. split; [exact Hf|]. rewrite E. apply id_in_true. exists par. auto.
Qed.
Lemma filter_nodup_fid (P : fit -> bool) db : NoDup (map fid db) -> NoDup (map fid (filter P db)).
Proof.
  induction db as [|f r IH]; simpl; intro H; [constructor|].
  inversion H as [|? ? Hn Hr]. subst. destruct (P f); simpl; auto.
  constructor; auto. intro Hin. apply Hn.
  apply in_map_iff in Hin. destruct Hin as [g [Eg Hg]]. apply filter_In in Hg.
  apply in_map_iff. exists g. tauto.
Qed.
Lemma children_nodup P db : NoDup (map fid db) -> NoDup (map fid (children_of P db)).
Proof. apply filter_nodup_fid. Qed.

(* ---------- best fits ---------- *)
Lemma opt_str_eqb_true a b : opt_str_eqb a b = true <-> a = b.
Proof.
  destruct a as [x|], b as [y|]; simpl; split; intro H; try congruence; try reflexivity.
  - apply String.eqb_eq in H. congruence.
  - inversion H. apply String.eqb_refl.
Qed.
Lemma same_parent_true a b : same_parent a b = true <-> fparent a = fparent b.
Proof. apply opt_str_eqb_true. Qed.

Theorem best_exact C c :
  In c (best_of C) <->
  In c C /\ exists m, fmll c = Some m /\
    forall c' m', In c' C -> fparent c' = fparent c -> fmll c' = Some m' -> (m' <= m)%Z.
Proof.
  unfold best_of, is_best. rewrite filter_In. split.
  - intros [Hc H]. split; [exact Hc|]. destruct (fmll c) as [m|]; [|discriminate]. exists m. split; [reflexivity|].
    intros c' m' Hc' Ep Em. rewrite forallb_forall in H. specialize (H c' Hc').
    assert (S : same_parent c c' = true) by (apply same_parent_true; congruence).
    rewrite S, Em in H. simpl in H. apply Z.leb_le. exact H.
  - intros [Hc [m [Em H]]]. split; [exact Hc|]. rewrite Em. apply forallb_forall. intros c' Hc'.
    destruct (same_parent c c') eqn:S; simpl; [|reflexivity].
    destruct (fmll c') as [m'|] eqn:Em'; [|reflexivity].
    apply Z.leb_le. apply (H c' m' Hc'); [apply same_parent_true in S; congruence | exact Em'].
Qed.

Lemma list_max_exists (g : fit -> Z) l : l <> [] -> exists b, In b l /\ forall x, In x l -> (g x <= g b)%Z.
Proof.
  induction l as [|a r IH]; [congruence|]. intros _. destruct r as [|a' r'].
  - exists a. split; [left; reflexivity|]. intros x [Hx|[]]. subst. lia.
  - destruct IH as [b [Hb Hmax]]; [discriminate|].
    destruct (Z_le_gt_dec (g a) (g b)) as [L|G].
    + exists b. split; [right; exact Hb|]. intros x [Hx|Hx]; [subst; exact L | apply Hmax; exact Hx].
    + exists a. split; [left; reflexivity|]. intros x [Hx|Hx]; [subst; lia|]. specialize (Hmax x Hx). lia.
Qed.

(* every selected grid search with a child whose likelihood is defined gets a best fit *)
Theorem best_exists C c m :
  In c C -> fmll c = Some m -> exists b, In b (best_of C) /\ fparent b = fparent c.
Proof.
  intros Hc Em.
  set (G := filter (fun x => same_parent c x && match fmll x with Some _ => true | None => false end) C).
  assert (HcG : In c G).
  { apply filter_In. split; [exact Hc|]. rewrite Em.
    assert (S : same_parent c c = true) by (apply same_parent_true; reflexivity). rewrite S. reflexivity. }
  destruct (list_max_exists (fun x => match fmll x with Some v => v | None => 0%Z end) G) as [b [Hb Hmax]].
  { intro E. rewrite E in HcG. destruct HcG. }
  apply filter_In in Hb. destruct Hb as [HbC Hb]. apply andb_prop in Hb. destruct Hb as [Sb Mb].
  apply same_parent_true in Sb. destruct (fmll b) as [mb|] eqn:Emb; [|discriminate].
  exists b. split; [|congruence].
  apply best_exact. split; [exact HbC|]. exists mb. split; [exact Emb|].
  intros c' m' Hc' Ep Em'.
  assert (Hc'G : In c' G).
  { apply filter_In. split; [exact Hc'|]. rewrite Em'.
    assert (S : same_parent c c' = true) by (apply same_parent_true; congruence). rewrite S. reflexivity. }
  specialize (Hmax c' Hc'G). simpl in Hmax. rewrite Em' in Hmax. exact Hmax.
Qed.

(* one best fit per grid search when the maximum is attained once *)
Definition no_ties (C : list fit) : Prop :=
  forall a b, In a C -> In b C -> fparent a = fparent b -> fmll a = fmll b -> fmll a <> None -> a = b.
Theorem best_unique C a b :
  no_ties C -> In a (best_of C) -> In b (best_of C) -> fparent a = fparent b -> a = b.
Proof.
  intros NT Ha Hb Ep. apply best_exact in Ha. apply best_exact in Hb.
  destruct Ha as [Ha [ma [Ema Hma]]]. destruct Hb as [Hb [mb [Emb Hmb]]].
  assert (L1 : (mb <= ma)%Z) by (apply (Hma b mb Hb); [congruence | exact Emb]).
  assert (L2 : (ma <= mb)%Z) by (apply (Hmb a ma Ha); [congruence | exact Ema]).
  apply NT; try assumption; [|congruence].
  rewrite Ema, Emb. f_equal. lia.
Qed.

(* ---------- every selection is a sub-selection of the fit table ---------- *)
Lemma gsel_is_filter g db : exists P, gsel g db = filter P db.
Proof.
  induction g as [[q|]|g IH|g IH|g IH q|ids]; simpl.
  - exists (sem q). reflexivity.
  - exists (fun _ => true). induction db as [|x r IHr]; simpl; [reflexivity | f_equal; exact IHr].
  - eexists. reflexivity.
  - unfold best_of, children_of. rewrite filter_filter. eexists. reflexivity.
  - eexists. reflexivity.
  - eexists. reflexivity.
Qed.
Lemma gsel_incl g db f : In f (gsel g db) -> In f db.
Proof. destruct (gsel_is_filter g db) as [P E]. rewrite E. intro H. apply filter_In in H. tauto. Qed.
Lemma gsel_id_in g db : NoDup (map fid db) -> filter (fun f => id_in (fid f) (gsel g db)) db = gsel g db.
Proof. intro ND. destruct (gsel_is_filter g db) as [P E]. rewrite E. apply filter_id_in. exact ND. Qed.
Theorem gsel_nodup g db : NoDup (map fid db) -> NoDup (map fid (gsel g db)).
Proof. intro ND. destruct (gsel_is_filter g db) as [P E]. rewrite E. apply filter_nodup_fid. exact ND. Qed.

(* ---------- self._predicate & query ---------- *)
Lemma junction_and_sem conds q f :
  junction current JAnd conds = Ok q -> junction_ok current false false JAnd conds = true -> wf_fit f = true ->
  sem q f = forallb (fun m => sem m f) conds.
Proof.
  intros Hq Hok W. unfold wf_fit in W. apply andb_prop in W. destruct W as [W _].
  unfold sem. unfold junction in Hq. unfold junction_ok in Hok.
  exact (mk_junction_sem f current false false (or_intror eq_refl) (or_intror eq_refl) _ JAnd conds q Hq Hok (finst f) W).
Qed.

Definition gand_ok (g : gpred) (cq : qobj) : bool :=
  match g with
  | GP None => true
  | GP (Some q0) | GPAnd _ q0 => junction_ok current false false JAnd [q0; cq]
  | _ => junction_ok current false false JAnd [cq]
  end.

Lemma gsel_and g q cq db :
  NoDup (map fid db) -> (forall f, In f db -> sem q f = sem cq f) ->
  gsel (GPAnd g q) db = filter (fun f => sem cq f) (gsel g db).
Proof.
  intros ND H. cbn [gsel].
  rewrite <- (filter_filter (fun f => id_in (fid f) (gsel g db)) (fun f => sem q f) db).
  rewrite (gsel_id_in g db ND). apply filter_ext_in'. intros f Hf. apply H. apply gsel_incl in Hf. exact Hf.
Qed.

Lemma gand_sem g cq g' db :
  NoDup (map fid db) -> forallb wf_fit db = true ->
  gand current g cq = Ok g' -> gand_ok g cq = true ->
  gsel g' db = filter (fun f => sem cq f) (gsel g db).
Proof.
  intros ND W H Hok. rewrite forallb_forall in W.
  destruct g as [[q0|]|g0|g0|g0 q0|ids]; simpl in H, Hok.
  - destruct (junction current JAnd [q0; cq]) as [q|e] eqn:J; simpl in H; [|discriminate]. inversion H. subst g'.
    simpl. unfold select. rewrite filter_filter. apply filter_ext_in'. intros f Hf.
    rewrite (junction_and_sem _ _ f J Hok (W f Hf)). simpl. rewrite andb_true_r. reflexivity.
  - inversion H. subst g'. reflexivity.
  - destruct (junction current JAnd [cq]) as [q|e] eqn:J; simpl in H; [|discriminate]. inversion H. subst g'.
    apply gsel_and; [exact ND|]. intros f Hf.
    rewrite (junction_and_sem _ _ f J Hok (W f Hf)). simpl. rewrite andb_true_r. reflexivity.
  - destruct (junction current JAnd [cq]) as [q|e] eqn:J; simpl in H; [|discriminate]. inversion H. subst g'.
    apply gsel_and; [exact ND|]. intros f Hf.
    rewrite (junction_and_sem _ _ f J Hok (W f Hf)). simpl. rewrite andb_true_r. reflexivity.
  - destruct (junction current JAnd [q0; cq]) as [q|e] eqn:J; simpl in H; [|discriminate]. inversion H. subst g'.
    cbn [gsel]. rewrite filter_filter. apply filter_ext_in'. intros f Hf.
    rewrite (junction_and_sem _ _ f J Hok (W f Hf)). simpl. rewrite andb_true_r, andb_assoc. reflexivity.
  - destruct (junction current JAnd [cq]) as [q|e] eqn:J; simpl in H; [|discriminate]. inversion H. subst g'.
    apply gsel_and; [exact ND|]. intros f Hf.
    rewrite (junction_and_sem _ _ f J Hok (W f Hf)). simpl. rewrite andb_true_r. reflexivity.
Qed.

(* ---------- the guard of an operation sequence (computable) ---------- *)
Definition pred_ok (db : list fit) (p : pred) : bool :=
  safe_with current false false true false p &&
  forallb (fun f => forallb (acond_plain f) (attr_tests p)) db.
Definition step_ok (db : list fit) (st : gstate) (o : gop) : bool :=
  match o with
  | GQuery p => pred_ok db p && match compile current p with Ok cq => gand_ok (g_pred st) cq | Err _ => true end
  | GGrid => gand_ok (g_pred st) is_grid_q
  | GSlice _ _ _ => false
  | _ => true
  end.
Fixpoint gguard (bfix : bool) (db : list fit) (st : gstate) (ops : list gop) : bool :=
  match ops with
  | [] => true
  | o :: r => step_ok db st o &&
              match gop_step current bfix db st o with Ok st' => gguard bfix db st' r | Err _ => true end
  end.

Lemma sem_is_grid f : sem is_grid_q f = is_grid f.
Proof. reflexivity. Qed.

Lemma gfold_sel bfix db :
  NoDup (map fid db) -> forallb wf_fit db = true ->
  forall ops st st', fold_gops current bfix db st ops = Ok st' -> gguard bfix db st ops = true ->
    gsel (g_pred st') db = spec_sel db (gsel (g_pred st) db) ops /\
    g_keys st' = spec_keys (g_keys st) ops /\ g_top st' = spec_top (g_top st) ops /\
    g_bad st' = g_bad st /\
    (g_off st = 0%Z -> g_lim st = None -> g_off st' = 0%Z /\ g_lim st' = None).
Proof.
  intros ND W. pose proof W as W'. rewrite forallb_forall in W'.
  induction ops as [|o r IH]; intros st st' H G.
  - simpl in H. inversion H. subst. simpl. tauto.
  - simpl in H, G. apply andb_prop in G. destruct G as [Gs Gr].
    destruct (gop_step current bfix db st o) as [st1|e] eqn:Es; simpl in H; [|discriminate].
    specialize (IH st1 st' H Gr). destruct IH as [I1 [I2 [I3 [I4 I5]]]].
    destruct o as [p|k rev|a b c| | |]; simpl in Es, Gs.
    + (* query *)
      apply andb_prop in Gs. destruct Gs as [Gp Gq]. unfold pred_ok in Gp. apply andb_prop in Gp. destruct Gp as [Gsafe Gplain].
      destruct (compile current p) as [cq|e] eqn:Ec; simpl in Es; [|discriminate].
      destruct (gand current (g_pred st) cq) as [g'|e] eqn:Eg; simpl in Es; [|discriminate].
      inversion Es. subst st1. simpl in *.
      rewrite (gand_sem _ _ _ db ND W Eg Gq) in I1.
      assert (E : filter (fun f => sem cq f) (gsel (g_pred st) db) = filter (eval p) (gsel (g_pred st) db)).
      { apply filter_ext_in'. intros f Hf. apply gsel_incl in Hf.
        rewrite forallb_forall in Gplain.
        apply (exact_current p cq f Ec Gsafe (W' f Hf) (Gplain f Hf)). }
      rewrite E in I1. assert (Q : quote_bad current p = false) by reflexivity. rewrite Q, orb_false_r in I4.
      repeat split; try assumption; try (apply I5; reflexivity).
    + inversion Es. subst st1. simpl in *. repeat split; try assumption; try (apply I5; reflexivity).
    + discriminate.
    + (* grid_searches *)
      destruct (gand current (g_pred st) is_grid_q) as [g'|e] eqn:Eg; simpl in Es; [|discriminate].
      inversion Es. subst st1. simpl in *.
      rewrite (gand_sem _ _ _ db ND W Eg Gs) in I1.
      repeat split; try assumption; try (apply I5; reflexivity).
    + destruct (g_grid st); [|discriminate]. inversion Es. subst st1. simpl in *.
      repeat split; try assumption; try (apply I5; reflexivity).
    + destruct (g_grid st); [|discriminate]. inversion Es. subst st1. simpl in *.
      repeat split; try assumption; try (apply I5; reflexivity).
Qed.

(* ---------- trailing slices ---------- *)
Definition gslice_ops (slices : list (option Z * option Z)) : list gop := map (fun s => GSlice (fst s) (snd s) None) slices.

Lemma fold_gops_app vr bfix db ops1 ops2 st :
  fold_gops vr bfix db st (ops1 ++ ops2) = bind (fold_gops vr bfix db st ops1) (fun st' => fold_gops vr bfix db st' ops2).
Proof.
  revert st. induction ops1 as [|o r IH]; intro st; simpl; [reflexivity|].
  destruct (gop_step vr bfix db st o); simpl; [apply IH | reflexivity].
Qed.

Lemma gfold_slices vr bfix db g keys top grid slices : gsql_ok bfix g = true -> forall off lim,
  fold_gops vr bfix db (mkG g false keys off lim top grid) (gslice_ops slices) =
  let st := slice_fold vr top (ordered keys (gsel g db)) slices (off, lim) in
  Ok (mkG g false keys (fst st) (snd st) top grid).
Proof.
  intro Hs. induction slices as [|[a b] r IH]; intros off lim; [reflexivity|].
  change (gslice_ops ((a, b) :: r)) with (GSlice a b None :: gslice_ops r).
  cbn [fold_gops gop_step g_bad g_pred g_keys g_off g_lim g_top g_grid bind fst snd].
  rewrite Hs. cbn [negb orb bind].
  unfold g_fits. cbn [g_bad g_pred g_keys g_off g_lim g_top g_grid].
  rewrite IH. unfold slice_fold. cbn [fold_left fst snd]. rewrite <- surjective_pairing. reflexivity.
Qed.

Lemma gop_preds_app a b : gop_preds (a ++ b) = gop_preds a ++ gop_preds b.
Proof. unfold gop_preds. apply flat_map_app. Qed.
Lemma gop_preds_slices l : gop_preds (gslice_ops l) = [].
Proof. induction l as [|[a b] l IH]; simpl; auto. Qed.

(* end to end: any sequence of query / order_by / grid_searches / children / best_fits, then slices *)
Theorem grid_pipeline bfix top db ops st' slices :
  NoDup (map fid db) -> forallb wf_fit db = true ->
  existsb has_shadow (gop_preds ops) = false ->
  fold_gops current bfix db (g_init top) ops = Ok st' -> gguard bfix db (g_init top) ops = true ->
  gsql_ok bfix (g_pred st') = true ->
  run_gops current bfix top db (ops ++ gslice_ops slices) =
  Ok (spec_slices (spec_top top ops) (ordered (spec_keys [] ops) (spec_sel db db ops)) slices, spec_keys [] ops).
Proof.
  intros ND W Hsh Hf G Hs.
  destruct (gfold_sel bfix db ND W ops (g_init top) st' Hf G) as [I1 [I2 [I3 [I4 I5]]]].
  simpl in I1, I2, I3, I4. destruct (I5 eq_refl eq_refl) as [I6 I7].
  unfold run_gops. rewrite gop_preds_app, gop_preds_slices, app_nil_r, Hsh.
  rewrite fold_gops_app, Hf. cbn [bind].
  destruct st' as [g bad keys off lim tp grid]. simpl in *. subst bad off lim keys tp.
  rewrite (gfold_slices current bfix db g _ _ grid slices Hs 0%Z None). cbn [bind g_bad g_pred].
  rewrite Hs. cbn [negb orb].
  unfold g_fits. cbn [g_keys g_pred g_off g_lim g_top]. rewrite I1.
  f_equal. f_equal. rewrite <- slices_current. reflexivity.
Qed.
