(* C10 model: the aggregator's query objects (autofit/database/query), the junction
   rewriting of AbstractJunction._match_conditions, NamedQuery / AbstractQuery negation,
   the relational meaning of the emitted SQL on the flattened instance tree (with the
   code's JOIN semantics), ordering, offset/limit slicing of Aggregator.__getitem__ and
   the top-level filter of Aggregator._fits_for_query.
   Executable definitions only; proofs are in Proofs*.v.

   Numbers are integers (the harness stores n/8 as a float, so equality and order of
   binary64 values coincide with equality and order of n).

   `variant` selects between the code as it is now (`current`: junction-inversion and slicing
   repairs f11f464 / 127fbf4 applied), the code before those repairs (`legacy`, kept only to
   document the repaired defects) and the code before string constants were escaped
   (`prequote`), and before the four repairs of negation / Or-merging (`pre4`).  The correspondence
   check runs `current` = every repair applied. *)
From Coq Require Import ZArith List Bool String Ascii Lia.
Import ListNotations.
Open Scope string_scope.
Open Scope list_scope.

(* ------------------------------------------------------------------ *)
(* stored objects, fits                                                *)
(* ------------------------------------------------------------------ *)

Inductive obj :=
| OVal (v : Z)                               (* row of `value`        *)
| OStr (s : string)                          (* row of `string_value` *)
| ONone                                      (* row of `none`         *)
| OInst (cls : string) (kids : list (string * obj)).  (* instance / collection / dict: class_path + named children *)

Definition kids (o : obj) : list (string * obj) :=
  match o with OInst _ ks => ks | _ => [] end.

Record fit := mkFit {
  fid : string;
  finst : obj;
  fstrs : list (string * option string);     (* name, unique_tag, path_prefix, parent_id, id (NULL = None) *)
  fnums : list (string * Z);                 (* max_log_likelihood (NULL = no entry) *)
  fbools : list (string * bool);             (* is_complete, is_grid_search (NULL = no entry) *)
  finfo : list (string * string);            (* rows of `info` *)
  fparent : option string                    (* parent_id (NULL = None) *)
}.
(* parent_id IS NOT NULL *)
Definition fchild (f : fit) : bool := match fparent f with Some _ => true | None => false end.

Fixpoint lookup {A} (n : string) (l : list (string * A)) : option A :=
  match l with
  | [] => None
  | (k, v) :: r => if String.eqb k n then Some v else lookup n r
  end.

(* ------------------------------------------------------------------ *)
(* comparisons                                                         *)
(* ------------------------------------------------------------------ *)

Inductive cmp := CEq | CLt | CLe | CGt | CGe.

Definition cmp_eqb (a b : cmp) : bool :=
  match a, b with CEq, CEq | CLt, CLt | CLe, CLe | CGt, CGt | CGe, CGe => true | _, _ => false end.

Definition zcmp (c : cmp) (x y : Z) : bool :=
  match c with CEq => Z.eqb x y | CLt => Z.ltb x y | CLe => Z.leb x y | CGt => Z.ltb y x | CGe => Z.leb y x end.

Definition scmp (c : cmp) (x y : string) : bool :=
  match c, String.compare x y with
  | CEq, Eq => true
  | CLt, Lt => true
  | CLe, (Lt | Eq) => true
  | CGt, Gt => true
  | CGe, (Gt | Eq) => true
  | _, _ => false
  end.

(* substring test (attribute contains / in_); generator strings are lower-case alphanumerics *)
Fixpoint prefixb (p s : string) : bool :=
  match p, s with
  | EmptyString, _ => true
  | String a p', String b s' => Ascii.eqb a b && prefixb p' s'
  | _, _ => false
  end.
Fixpoint substrb (p s : string) : bool :=
  prefixb p s || match s with EmptyString => false | String _ s' => substrb p s' end.

(* SQLite LIKE: % = any sequence, _ = any one character, ASCII letters compared case-insensitively *)
Definition lower (c : ascii) : ascii :=
  let n := nat_of_ascii c in
  if Nat.leb 65 n && Nat.leb n 90 then ascii_of_nat (n + 32) else c.
Definition ci_eqb (a b : ascii) : bool := Ascii.eqb (lower a) (lower b).
Definition is_pct (c : ascii) : bool := Ascii.eqb c "%"%char.
Definition is_us (c : ascii) : bool := Ascii.eqb c "_"%char.
Fixpoint like (p s : string) {struct p} : bool :=
  match p with
  | EmptyString => match s with EmptyString => true | _ => false end
  | String c p' =>
      if is_pct c
      then (fix any (t : string) : bool :=
              like p' t || match t with EmptyString => false | String _ t' => any t' end) s
      else match s with
           | EmptyString => false
           | String d s' => (is_us c || ci_eqb c d) && like p' s'
           end
  end.
Definition like_contains (needle hay : string) : bool := like (String "%"%char (needle ++ "%")) hay.
(* characters on which LIKE and exact matching agree: no wildcard, no upper-case letter *)
Definition plain_char (c : ascii) : bool :=
  negb (is_pct c) && negb (is_us c) && negb (Nat.leb 65 (nat_of_ascii c) && Nat.leb (nat_of_ascii c) 90).
Fixpoint plain (s : string) : bool :=
  match s with EmptyString => true | String c s' => plain_char c && plain s' end.
Fixpoint has_quote (s : string) : bool :=
  match s with EmptyString => false | String c s' => Ascii.eqb c "'"%char || has_quote s' end.

(* ------------------------------------------------------------------ *)
(* fit-attribute conditions                                            *)
(* ------------------------------------------------------------------ *)

Inductive acond :=
| AEqS (attr : string) (v : option string)    (* attr = 'v'  /  attr IS NULL *)
| AEqN (attr : string) (v : Z)                (* attr = number *)
| AContains (attr : string) (s : string)      (* attr LIKE '%s%' *)
| AIn (attr : string) (s : string)            (* 's' LIKE '%' || attr || '%' *)
| ABool (attr : string)                       (* boolean column as predicate *)
| AEqB (attr : string) (b : bool).            (* attr = True / attr = False *)

Definition opt_str_eqb (a b : option string) : bool :=
  match a, b with Some x, Some y => String.eqb x y | None, None => true | _, _ => false end.

Definition acond_eqb (a b : acond) : bool :=
  match a, b with
  | AEqS x v, AEqS y w => String.eqb x y && opt_str_eqb v w
  | AEqN x v, AEqN y w => String.eqb x y && Z.eqb v w
  | AContains x v, AContains y w => String.eqb x y && String.eqb v w
  | AIn x v, AIn y w => String.eqb x y && String.eqb v w
  | ABool x, ABool y => String.eqb x y
  | AEqB x v, AEqB y w => String.eqb x y && Bool.eqb v w
  | _, _ => false
  end.

(* the test evaluated directly on the Python attribute of the stored fit (None compares false) *)
Definition acond_holds (f : fit) (a : acond) : bool :=
  match a with
  | AEqS attr v =>
      match lookup attr (fstrs f), v with
      | Some None, None => true
      | Some (Some x), Some y => String.eqb x y
      | _, _ => false
      end
  | AEqN attr v => match lookup attr (fnums f) with Some x => Z.eqb x v | None => false end
  | AContains attr s => match lookup attr (fstrs f) with Some (Some x) => substrb s x | _ => false end
  | AIn attr s => match lookup attr (fstrs f) with Some (Some x) => substrb x s | _ => false end
  | ABool attr => match lookup attr (fbools f) with Some b => b | None => false end
  | AEqB attr v => match lookup attr (fbools f) with Some b => Bool.eqb b v | None => false end
  end.

(* the emitted SQL condition in SQL's three-valued logic: a NULL column makes comparisons and
   LIKE unknown (None); contains / in_ are LIKE patterns; WHERE keeps a row only when true *)
Definition acond3 (f : fit) (a : acond) : option bool :=
  match a with
  | AEqS attr None => Some (acond_holds f a)                       (* IS NULL is always definite *)
  | AEqS attr (Some _) =>
      match lookup attr (fstrs f) with
      | Some None => None
      | _ => Some (acond_holds f a)
      end
  | AContains attr s =>
      match lookup attr (fstrs f) with
      | Some None => None
      | Some (Some x) => Some (like_contains s x)
      | None => Some false
      end
  | AIn attr s =>
      match lookup attr (fstrs f) with
      | Some None => None
      | Some (Some x) => Some (like_contains x s)
      | None => Some false
      end
  | AEqN _ _ | ABool _ | AEqB _ _ => Some (acond_holds f a)
  end.
(* LIKE and exact substring agree on this test for this fit *)
Definition acond_plain (f : fit) (a : acond) : bool :=
  match a with
  | AContains attr s | AIn attr s =>
      plain s && match lookup attr (fstrs f) with Some (Some x) => plain x | _ => true end
  | _ => true
  end.
Definition attrs_defined (f : fit) : bool :=
  forallb (fun kv => match snd kv with Some _ => true | None => false end) (fstrs f).

(* ------------------------------------------------------------------ *)
(* query objects                                                       *)
(* ------------------------------------------------------------------ *)

Inductive jk := JAnd | JOr.
Definition jk_eqb (a b : jk) : bool := match a, b with JAnd, JAnd | JOr, JOr => true | _, _ => false end.

Inductive qobj :=
| QNoneC                                        (* NoneCondition            "1 = 1"           tables {none}         *)
| QVal (c : cmp) (v : Z)                        (* ValueCondition           "v.value c v"     tables {value}        *)
| QStr (c : cmp) (s : string)                   (* StringValueCondition     "sv.value c 's'"  tables {string_value} *)
| QType (cls : string)                          (* TypeCondition            "o.class_path ="  tables {object}       *)
| QNamed (n : string) (inner : qobj) (inv : bool)   (* NamedQuery(name, condition, inverted) *)
| QAttr (negs : nat) (a : acond)                (* AttributeQuery, wrapped `negs` times in NotCondition *)
| QInfo (negs : nat) (k v : string)             (* InfoQuery, wrapped `negs` times in NotCondition *)
| QAttrT (negs : nat) (a : acond)               (* AttributeQuery under `negs` "(...) IS NOT TRUE" (proposed NotCondition) *)
| QInfoI (inv : bool) (k v : string)            (* InfoQuery with an _inverted flag: id [NOT] IN the info sub-select (proposed) *)
| QJ (k : jk) (ms : list qobj).                 (* And / Or over a set of conditions *)

Fixpoint qobj_eqb (a b : qobj) {struct a} : bool :=
  match a, b with
  | QNoneC, QNoneC => true
  | QVal c v, QVal d w => cmp_eqb c d && Z.eqb v w
  | QStr c v, QStr d w => cmp_eqb c d && String.eqb v w
  | QType x, QType y => String.eqb x y
  | QNamed n i v, QNamed m j w => String.eqb n m && qobj_eqb i j && Bool.eqb v w
  | QAttr n x, QAttr m y => Nat.eqb n m && acond_eqb x y
  | QInfo n k v, QInfo m l w => Nat.eqb n m && String.eqb k l && String.eqb v w
  | QAttrT n x, QAttrT m y => Nat.eqb n m && acond_eqb x y
  | QInfoI n k v, QInfoI m l w => Bool.eqb n m && String.eqb k l && String.eqb v w
  | QJ k ms, QJ l ns =>
      jk_eqb k l &&
      (fix go (xs ys : list qobj) {struct xs} : bool :=
         match xs, ys with
         | [], [] => true
         | x :: xs', y :: ys' => qobj_eqb x y && go xs' ys'
         | _, _ => false
         end) ms ns
  | _, _ => false
  end.

(* tables: (none, value, string_value); `object` is always present in a NamedQuery and
   AbstractJunction.tables ignores NamedQuery members *)
Record tabs := mkTabs { t_none : bool; t_val : bool; t_str : bool }.
Definition tabs0 := mkTabs false false false.
Definition tabs_or (a b : tabs) := mkTabs (t_none a || t_none b) (t_val a || t_val b) (t_str a || t_str b).
Definition tabs_eqb (a b : tabs) := Bool.eqb (t_none a) (t_none b) && Bool.eqb (t_val a) (t_val b) && Bool.eqb (t_str a) (t_str b).
Definition tabs_count (a : tabs) : nat :=
  1 + (if t_none a then 1 else 0) + (if t_val a then 1 else 0) + (if t_str a then 1 else 0).

(* tables contributed by a condition when it is a member of the WHERE clause of a NamedQuery *)
Fixpoint mtabs (q : qobj) : tabs :=
  match q with
  | QNoneC => mkTabs true false false
  | QVal _ _ => mkTabs false true false
  | QStr _ _ => mkTabs false false true
  | QType _ => tabs0
  | QNamed _ _ _ => tabs0
  | QAttr _ _ => tabs0
  | QInfo _ _ _ => tabs0
  | QAttrT _ _ => tabs0
  | QInfoI _ _ _ => tabs0
  | QJ _ ms => fold_right (fun m acc => tabs_or (mtabs m) acc) tabs0 ms
  end.

(* the row of `object` for child c survives the JOIN with every table of t *)
Definition in_tabs (t : tabs) (c : obj) : bool :=
  (if t_none t then match c with ONone => true | _ => false end else true) &&
  (if t_val t then match c with OVal _ => true | _ => false end else true) &&
  (if t_str t then match c with OStr _ => true | _ => false end else true).

Fixpoint iter_negb (n : nat) (b : bool) : bool := match n with O => b | S n' => negb (iter_negb n' b) end.

(* meaning of a condition on the row of object `o` (for a fit f);
   a NamedQuery selects parents: "o.id IN (SELECT parent_id FROM object JOIN ... WHERE name = n AND inner)" *)
Fixpoint holds (f : fit) (q : qobj) (o : obj) {struct q} : bool :=
  match q with
  | QNoneC => true
  | QVal c v => match o with OVal x => zcmp c x v | _ => false end
  | QStr c s => match o with OStr x => scmp c x s | _ => false end
  | QType cls => match o with OInst cls' _ => String.eqb cls' cls | _ => false end
  | QNamed n inner inv =>
      xorb inv (existsb (fun nc => String.eqb (fst nc) n && in_tabs (mtabs inner) (snd nc) && holds f inner (snd nc)) (kids o))
  | QAttr negs a => match acond3 f a with Some b => iter_negb negs b | None => false end   (* not (NULL) is NULL *)
  | QInfo negs k v => existsb (fun kv => iter_negb negs (String.eqb (fst kv) k && String.eqb (snd kv) v)) (finfo f)
  | QAttrT negs a => iter_negb negs (match acond3 f a with Some b => b | None => false end)   (* NULL IS NOT TRUE is true *)
  | QInfoI inv k v => xorb inv (existsb (fun kv => String.eqb (fst kv) k && String.eqb (snd kv) v) (finfo f))
  | QJ JAnd ms => forallb (fun m => holds f m o) ms
  | QJ JOr ms => existsb (fun m => holds f m o) ms
  end.

(* fit_query: the fit is selected when the condition holds at its instance root *)
Definition sem (q : qobj) (f : fit) : bool := holds f q (finst f).

(* "Currently maximum of 2 tables supported": raised when a NamedQuery is rendered / hashed *)
Fixpoint tables_ok (q : qobj) : bool :=
  match q with
  | QNamed _ inner _ => Nat.leb (tabs_count (mtabs inner)) 2 && tables_ok inner
  | QJ _ ms => forallb tables_ok ms
  | _ => true
  end.

(* ------------------------------------------------------------------ *)
(* junction construction: AbstractJunction.__new__ / _match_conditions *)
(* ------------------------------------------------------------------ *)

Inductive err := EAssertion | ETypeError | EFuel | EShadow | ESql | EAttr.
Inductive result (A : Type) := Ok (a : A) | Err (e : err).
Arguments Ok {A} a.
Arguments Err {A} e.
Definition bind {A B} (r : result A) (k : A -> result B) : result B :=
  match r with Ok a => k a | Err e => Err e end.

Record variant := mkVariant {
  fix_inverted_merge : bool;     (* inverted NamedQuerys are not merged by name (f11f464) *)
  fix_slice : bool;              (* __getitem__ via slice.indices; top-level filter inside the SQL query (127fbf4) *)
  fix_quote : bool;              (* string constants are escaped (60fb795) *)
  fix_or_tables : bool;          (* an Or merges same-name queries only when they read the same tables (766ce6b) *)
  fix_not_info : bool;           (* ~InfoQuery selects the fits NOT IN the info sub-select (596613e) *)
  fix_not_null : bool;           (* NotCondition renders "(c) IS NOT TRUE" instead of "not (c)" (79488b4) *)
  fix_not_junction : bool        (* ~ of an And / Or by De Morgan (21e37aa) *)
}.
Definition legacy := mkVariant false false false false false false false.
Definition prequote := mkVariant true true false false false false false.
(* before 766ce6b / 21e37aa / 79488b4 / 596613e (history; reachable only through VERIF_C10_VARIANT) *)
Definition pre4 := mkVariant true true true false false false false.
(* the code as it is: every repair applied *)
Definition current := mkVariant true true true true true true true.

Fixpoint flatten (k : jk) (q : qobj) : list qobj :=
  match q with
  | QJ k' ms =>
      if jk_eqb k k'
      then (fix go (l : list qobj) : list qobj := match l with [] => [] | x :: r => flatten k x ++ go r end) ms
      else [q]
  | _ => [q]
  end.

(* isinstance(condition, NamedQuery) and none_table not in condition.tables *)
Definition mergeable (vr : variant) (q : qobj) : bool :=
  match q with
  | QNamed _ inner inv => negb (t_none (mtabs inner)) && negb (fix_inverted_merge vr && inv)
  | _ => false
  end.
Definition qname (q : qobj) : string := match q with QNamed n _ _ => n | _ => "" end.
Definition qinner (q : qobj) : qobj := match q with QNamed _ i _ => i | _ => q end.

(* the key under which a junction of type k groups a NamedQuery: its name, and (proposed repair, Or only)
   the tables it reads *)
Definition mkey (vr : variant) (k : jk) (q : qobj) : string * tabs :=
  (qname q, if fix_or_tables vr && jk_eqb k JOr then mtabs (qinner q) else tabs0).
Definition key_eqb (a b : string * tabs) : bool := String.eqb (fst a) (fst b) && tabs_eqb (snd a) (snd b).
Fixpoint mem_key (x : string * tabs) (l : list (string * tabs)) : bool :=
  match l with [] => false | y :: r => key_eqb y x || mem_key x r end.
Fixpoint nodup_key (l : list (string * tabs)) : list (string * tabs) :=
  match l with [] => [] | x :: r => if mem_key x r then nodup_key r else x :: nodup_key r end.

Fixpoint mem_str (s : string) (l : list string) : bool :=
  match l with [] => false | x :: r => String.eqb x s || mem_str s r end.
Fixpoint nodup_str (l : list string) : list string :=
  match l with [] => [] | x :: r => if mem_str x r then nodup_str r else x :: nodup_str r end.
Fixpoint mem_q (q : qobj) (l : list qobj) : bool :=
  match l with [] => false | x :: r => qobj_eqb x q || mem_q q r end.
Fixpoint dedupe (l : list qobj) : list qobj :=
  match l with [] => [] | x :: r => if mem_q x r then dedupe r else x :: dedupe r end.

Fixpoint map_result {A B} (f : A -> result B) (l : list A) : result (list B) :=
  match l with
  | [] => Ok []
  | x :: r => bind (f x) (fun y => bind (map_result f r) (fun ys => Ok (y :: ys)))
  end.

(* cls(conditions...): flatten same-type junctions, group NamedQuerys by key, apply cls to the grouped
   inner conditions, collect into a set, return the only member when there is exactly one *)
Fixpoint mk_junction (vr : variant) (fuel : nat) (k : jk) (conds : list qobj) : result qobj :=
  match fuel with
  | O => Err EFuel
  | S fuel' =>
      let flat := flat_map (flatten k) conds in
      let named := filter (mergeable vr) flat in
      let others := filter (fun q => negb (mergeable vr q)) flat in
      let keys := nodup_key (map (mkey vr k) named) in
      bind (map_result
              (fun key =>
                 bind (mk_junction vr fuel' k (map qinner (filter (fun q => key_eqb (mkey vr k q) key) named)))
                      (fun sub => let m := QNamed (fst key) sub false in
                                  if tables_ok m then Ok m else Err EAssertion))
              keys)
           (fun merged =>
              match dedupe (others ++ merged) with
              | [x] => Ok x
              | all => Ok (QJ k all)
              end)
  end.

Fixpoint qdepth (q : qobj) : nat :=
  match q with
  | QNamed _ inner _ => S (qdepth inner)
  | QJ _ ms => fold_right (fun m acc => Nat.max (qdepth m) acc) O ms
  | _ => O
  end.
Definition depth_list (l : list qobj) : nat := fold_right (fun m acc => Nat.max (qdepth m) acc) O l.

Definition junction (vr : variant) (k : jk) (conds : list qobj) : result qobj :=
  mk_junction vr (S (depth_list conds)) k conds.

Definition dual (k : jk) : jk := match k with JAnd => JOr | JOr => JAnd end.

(* ~ : NamedQuery.__invert__ toggles; AbstractQuery.__invert__ wraps the condition in NotCondition;
   plain conditions have none; junctions have none in the current code (proposed: De Morgan) *)
Fixpoint invert (vr : variant) (q : qobj) : result qobj :=
  match q with
  | QNamed n i inv => Ok (QNamed n i (negb inv))
  | QAttr negs a => if fix_not_null vr then Ok (QAttrT (S negs) a) else Ok (QAttr (S negs) a)
  | QAttrT negs a => Ok (QAttrT (S negs) a)
  | QInfo negs k v => Ok (QInfo (S negs) k v)
  | QInfoI inv k v => Ok (QInfoI (negb inv) k v)
  | QJ k ms =>
      if fix_not_junction vr
      then bind ((fix go (l : list qobj) : result (list qobj) :=
                    match l with
                    | [] => Ok []
                    | x :: r => bind (invert vr x) (fun y => bind (go r) (fun ys => Ok (y :: ys)))
                    end) ms)
                (fun ms' => junction vr (dual k) ms')
      else Err ETypeError
  | _ => Err ETypeError
  end.

(* ------------------------------------------------------------------ *)
(* user predicates                                                     *)
(* ------------------------------------------------------------------ *)

Inductive const := KNum (v : Z) | KStr (s : string) | KNone | KType (cls : string).

Inductive pred :=
| PCmp (path : list string) (c : cmp) (k : const)    (* agg.model.a.b.c <cmp> constant *)
| PAttr (a : acond)                                  (* agg.search.<attr> ... *)
| PInfo (k v : string)                               (* agg.info[k] == v *)
| PAnd (p q : pred)
| POr (p q : pred)
| PNot (p : pred).

(* _make_comparison *)
Definition leaf_of (c : cmp) (k : const) : result qobj :=
  match k with
  | KNone => if cmp_eqb c CEq then Ok QNoneC else Err EAssertion
  | KStr s => Ok (QStr c s)
  | KNum v => Ok (QVal c v)
  | KType cls => if cmp_eqb c CEq then Ok (QType cls) else Err EAssertion
  end.

Fixpoint named_path (path : list string) (leaf : qobj) : qobj :=
  match path with
  | [] => leaf
  | n :: r => QNamed n (named_path r leaf) false
  end.

Fixpoint compile (vr : variant) (p : pred) : result qobj :=
  match p with
  | PCmp [] _ _ => Err ETypeError
  | PCmp path c k => bind (leaf_of c k) (fun leaf => Ok (named_path path leaf))
  | PAttr a => Ok (QAttr 0 a)
  | PInfo k v => if fix_not_info vr then Ok (QInfoI false k v) else Ok (QInfo 0 k v)
  | PAnd p q => bind (compile vr p) (fun a => bind (compile vr q) (fun b => junction vr JAnd [a; b]))
  | POr p q => bind (compile vr p) (fun a => bind (compile vr q) (fun b => junction vr JOr [a; b]))
  | PNot p => bind (compile vr p) (invert vr)
  end.

(* predicates the API accepts by design: non-empty paths, inequalities only against numbers / strings *)
Fixpoint wf_pred (p : pred) : bool :=
  match p with
  | PCmp path c k =>
      match path with [] => false | _ => true end &&
      (cmp_eqb c CEq || match k with KNum _ | KStr _ => true | _ => false end)
  | PAnd a b | POr a b => wf_pred a && wf_pred b
  | PNot a => wf_pred a
  | _ => true
  end.
Fixpoint junction_free (p : pred) : bool :=
  match p with
  | PAnd _ _ | POr _ _ => false
  | PNot a => junction_free a
  | _ => true
  end.

(* ------------------------------------------------------------------ *)
(* the predicate evaluated directly on the stored objects              *)
(* ------------------------------------------------------------------ *)

Fixpoint resolve (path : list string) (o : obj) : option obj :=
  match path with
  | [] => Some o
  | n :: r => match lookup n (kids o) with Some c => resolve r c | None => None end
  end.

Definition const_holds (c : cmp) (k : const) (o : obj) : bool :=
  match k, o with
  | KNum v, OVal x => zcmp c x v
  | KStr s, OStr x => scmp c x s
  | KNone, ONone => cmp_eqb c CEq
  | KType cls, OInst cls' _ => cmp_eqb c CEq && String.eqb cls' cls
  | _, _ => false
  end.

Fixpoint eval (p : pred) (f : fit) : bool :=
  match p with
  | PCmp path c k => match resolve path (finst f) with Some o => const_holds c k o | None => false end
  | PAttr a => acond_holds f a
  | PInfo k v => match lookup k (finfo f) with Some w => String.eqb w v | None => false end
  | PAnd p q => eval p f && eval q f
  | POr p q => eval p f || eval q f
  | PNot p => negb (eval p f)
  end.

(* ------------------------------------------------------------------ *)
(* ordering                                                            *)
(* ------------------------------------------------------------------ *)

Inductive okey := OStrKey (attr : string) | ONumKey (attr : string) | OBoolKey (attr : string) | OIdKey.

(* SQLite: NULL is smaller than every value (first under ASC, last under DESC); NULLs tie with each other *)
Definition opt_cmp {A} (cmp : A -> A -> comparison) (x y : option A) : comparison :=
  match x, y with
  | None, None => Eq
  | None, Some _ => Lt
  | Some _, None => Gt
  | Some a, Some b => cmp a b
  end.
Definition b2z (b : bool) : Z := if b then 1%Z else 0%Z.
(* the value of an order key on a fit: None = NULL column *)
Definition kstr (attr : string) (f : fit) : option string :=
  match lookup attr (fstrs f) with Some (Some x) => Some x | _ => None end.
Definition knum (attr : string) (f : fit) : option Z := lookup attr (fnums f).
Definition kbool (attr : string) (f : fit) : option Z := option_map b2z (lookup attr (fbools f)).

Definition key_cmp (k : okey) (a b : fit) : comparison :=
  match k with
  | OStrKey attr => opt_cmp String.compare (kstr attr a) (kstr attr b)
  | ONumKey attr => opt_cmp Z.compare (knum attr a) (knum attr b)
  | OBoolKey attr => opt_cmp Z.compare (kbool attr a) (kbool attr b)
  | OIdKey => String.compare (fid a) (fid b)
  end.
(* the key of fit a is NULL *)
Definition key_null (k : okey) (a : fit) : bool :=
  match k with
  | OStrKey attr => match kstr attr a with None => true | _ => false end
  | ONumKey attr => match knum attr a with None => true | _ => false end
  | OBoolKey attr => match kbool attr a with None => true | _ => false end
  | OIdKey => false
  end.

(* ORDER BY k1 [DESC], k2 [DESC], ... : the first key takes precedence *)
Fixpoint lex_cmp (keys : list (okey * bool)) (a b : fit) : comparison :=
  match keys with
  | [] => Eq
  | (k, rev) :: r =>
      match (if rev then CompOpp (key_cmp k a b) else key_cmp k a b) with
      | Eq => lex_cmp r a b
      | c => c
      end
  end.
Definition lex_le (keys : list (okey * bool)) (a b : fit) : bool :=
  match lex_cmp keys a b with Gt => false | _ => true end.

Fixpoint insert_sorted (le : fit -> fit -> bool) (x : fit) (l : list fit) : list fit :=
  match l with
  | [] => [x]
  | y :: r => if le x y then x :: l else y :: insert_sorted le x r
  end.
Fixpoint sort_by (le : fit -> fit -> bool) (l : list fit) : list fit :=
  match l with [] => [] | x :: r => insert_sorted le x (sort_by le r) end.

(* ------------------------------------------------------------------ *)
(* offset / limit / top-level filter; Aggregator.__getitem__           *)
(* ------------------------------------------------------------------ *)

Definition drop_z {A} (n : Z) (l : list A) : list A := skipn (Z.to_nat n) l.   (* negative OFFSET = 0 *)
Definition take_lim {A} (lim : option Z) (l : list A) : list A :=
  match lim with
  | None => l
  | Some n => if (n <? 0)%Z then l else firstn (Z.to_nat n) l       (* negative LIMIT = no limit *)
  end.

Definition is_top (f : fit) : bool := negb (fchild f).

(* _fits_for_query on the ordered selection L *)
Definition window (vr : variant) (top_only : bool) (off : Z) (lim : option Z) (L : list fit) : list fit :=
  if fix_slice vr
  then take_lim lim (drop_z off (if top_only then filter is_top L else L))
  else let w := take_lim lim (drop_z off L) in if top_only then filter is_top w else w.

(* Python list slicing with step None *)
Definition clamp (n i : Z) : Z := if (i <? 0)%Z then Z.max 0 (n + i) else Z.min i n.
Definition py_slice {A} (l : list A) (start stop : option Z) : list A :=
  let n := Z.of_nat (List.length l) in
  let s := match start with None => 0%Z | Some i => clamp n i end in
  let e := match stop with None => n | Some i => clamp n i end in
  firstn (Z.to_nat (e - s)) (skipn (Z.to_nat s) l).

(* __getitem__(slice): new (offset, limit) from the old ones and len(self) *)
Definition slice_step (vr : variant) (n : Z) (off : Z) (lim : option Z) (start stop : option Z) : Z * option Z :=
  if fix_slice vr
  then
    let s := match start with None => 0%Z | Some i => clamp n i end in
    let e := match stop with None => n | Some i => clamp n i end in
    ((off + s)%Z, Some (Z.max 0 (e - s)))
  else
    let off' := match start with
                | None => off
                | Some s => if (0 <=? s)%Z then (off + s)%Z else (n + s)%Z
                end in
    let lim' := match stop with
                | None => lim
                | Some e => if (0 <=? e)%Z then Some (n - e - off')%Z else Some (n + e)%Z
                end in
    (off', lim').

(* agg.query(p).order_by(keys...)[start:stop].fits, on a database given as the list of fits
   in the order in which the unordered query would return them *)
Definition select (q : qobj) (db : list fit) : list fit := filter (sem q) db.
Definition ordered (keys : list (okey * bool)) (l : list fit) : list fit :=
  match keys with [] => l | _ => sort_by (lex_le keys) l end.

Definition run_slices (vr : variant) (top_only : bool) (L : list fit) (slices : list (option Z * option Z)) : list fit :=
  let st := fold_left
              (fun (st : Z * option Z) (sl : option Z * option Z) =>
                 let n := Z.of_nat (List.length (window vr top_only (fst st) (snd st) L)) in
                 slice_step vr n (fst st) (snd st) (fst sl) (snd sl))
              slices (0%Z, None) in
  window vr top_only (fst st) (snd st) L.

Definition spec_slices (top_only : bool) (L : list fit) (slices : list (option Z * option Z)) : list fit :=
  fold_left (fun l sl => py_slice l (fst sl) (snd sl)) slices (if top_only then filter is_top L else L).

(* ------------------------------------------------------------------ *)
(* guards: the classes of predicates on which the current code is wrong *)
(* ------------------------------------------------------------------ *)

(* every NamedQuery that takes part in a name merge is un-inverted, and every Or-merge joins
   conditions over the same tables; computed along the same recursion as mk_junction *)
Definition all_same_tabs (l : list qobj) : bool :=
  match l with [] => true | x :: r => forallb (fun y => tabs_eqb (mtabs x) (mtabs y)) r end.

Fixpoint merge_ok (vr : variant) (ci ct : bool) (fuel : nat) (k : jk) (conds : list qobj) : bool :=
  match fuel with
  | O => false
  | S fuel' =>
      let flat := flat_map (flatten k) conds in
      let named := filter (mergeable vr) flat in
      (negb ci || forallb (fun q => match q with QNamed _ _ inv => negb inv | _ => true end) named) &&
      forallb (fun key =>
                 let group := map qinner (filter (fun q => key_eqb (mkey vr k q) key) named) in
                 (negb ct || match k with JOr => all_same_tabs group | JAnd => true end) &&
                 merge_ok vr ci ct fuel' k group)
              (nodup_key (map (mkey vr k) named))
  end.
Definition junction_ok (vr : variant) (ci ct : bool) (k : jk) (conds : list qobj) : bool :=
  merge_ok vr ci ct (S (depth_list conds)) k conds.

(* a predicate is `safe` when every junction met while compiling it passes junction_ok and
   negation is applied neither to an info test nor to a fit-attribute test *)
(* negating q is exact: not an info test in NotCondition form (cn), not an attribute test in
   "not (c)" form (ca: needed only when a column holds NULL); for a junction (proposed De Morgan) every
   member and the dual junction of the negated members *)
Fixpoint neg_ok (vr : variant) (ci ct cn ca : bool) (q : qobj) : bool :=
  match q with
  | QInfo _ _ _ => negb cn
  | QAttr negs _ => if fix_not_null vr then Nat.eqb negs 0 else negb ca
  | QJ k ms =>
      forallb (neg_ok vr ci ct cn ca) ms &&
      match (fix go (l : list qobj) : result (list qobj) :=
               match l with
               | [] => Ok []
               | x :: r => bind (invert vr x) (fun y => bind (go r) (fun ys => Ok (y :: ys)))
               end) ms with
      | Ok ms' => junction_ok vr ci ct (dual k) ms'
      | Err _ => true
      end
  | _ => true
  end.

Fixpoint safe_with (vr : variant) (ci ct cn ca : bool) (p : pred) : bool :=
  match p with
  | PCmp _ _ _ | PAttr _ | PInfo _ _ => true
  | PAnd a b =>
      safe_with vr ci ct cn ca a && safe_with vr ci ct cn ca b &&
      match compile vr a, compile vr b with Ok x, Ok y => junction_ok vr ci ct JAnd [x; y] | _, _ => true end
  | POr a b =>
      safe_with vr ci ct cn ca a && safe_with vr ci ct cn ca b &&
      match compile vr a, compile vr b with Ok x, Ok y => junction_ok vr ci ct JOr [x; y] | _, _ => true end
  | PNot a =>
      safe_with vr ci ct cn ca a &&
      match compile vr a with Ok x => neg_ok vr ci ct cn ca x | Err _ => true end
  end.
(* ci: no inverted NamedQuery in a name merge; ct: Or-merges over equal tables; cn: no negated info
   test; ca: no negated fit-attribute test (needed only when an attribute column holds NULL) *)
Definition safe (vr : variant) (p : pred) : bool := safe_with vr true true true true p.

(* ~ applied to a junction (TypeError) somewhere in the predicate *)
Fixpoint has_not_junction (vr : variant) (p : pred) : bool :=
  match p with
  | PAnd a b | POr a b => has_not_junction vr a || has_not_junction vr b
  | PNot a => has_not_junction vr a || match compile vr a with Ok (QJ _ _) => true | _ => false end
  | _ => false
  end.

(* well-formed stored objects: child names unique (attributes of an object, indices of a list) *)
Fixpoint str_nodup (l : list string) : bool :=
  match l with [] => true | x :: r => negb (mem_str x r) && str_nodup r end.
Fixpoint wf_obj (o : obj) : bool :=
  match o with
  | OInst _ ks => str_nodup (map fst ks) && forallb (fun nc => wf_obj (snd nc)) ks
  | _ => true
  end.
Definition wf_fit (f : fit) : bool := wf_obj (finst f) && str_nodup (map fst (finfo f)).

(* ------------------------------------------------------------------ *)
(* what the query API cannot express although the predicate is legitimate *)
(* ------------------------------------------------------------------ *)

(* attribute names of NamedQuery found by normal lookup before __getattr__: a later path segment
   with such a name yields that attribute (a str, a condition, a set) instead of a query *)
Definition shadow_names : list string :=
  ["name"; "condition"; "query"; "tables"; "fit_query"; "tables_string"; "other_condition"].
Definition path_shadowed (path : list string) : bool :=
  match path with [] => false | _ :: r => existsb (fun n => mem_str n shadow_names) r end.
Fixpoint has_shadow (p : pred) : bool :=
  match p with
  | PCmp path _ _ => path_shadowed path
  | PAnd a b | POr a b => has_shadow a || has_shadow b
  | PNot a => has_shadow a
  | _ => false
  end.

(* string constants are interpolated between single quotes without escaping *)
Definition acond_quote (a : acond) : bool :=
  match a with
  | AEqS _ (Some v) => has_quote v
  | AContains _ v | AIn _ v => has_quote v
  | _ => false
  end.
Fixpoint pred_quote (p : pred) : bool :=
  match p with
  | PCmp _ _ (KStr v) => has_quote v
  | PCmp _ _ _ => false
  | PAttr a => acond_quote a
  | PInfo k v => has_quote k || has_quote v
  | PAnd a b | POr a b => pred_quote a || pred_quote b
  | PNot a => pred_quote a
  end.
Definition quote_bad (vr : variant) (p : pred) : bool := negb (fix_quote vr) && pred_quote p.

(* building the query object (construct stage), then executing its SQL (execute stage) *)
Definition compile_top (vr : variant) (p : pred) : result qobj :=
  if has_shadow p then Err EShadow else compile vr p.
Definition model_query (vr : variant) (db : list fit) (p : pred) : result (list fit) :=
  bind (compile_top vr p) (fun q => if quote_bad vr p then Err ESql else Ok (select q db)).

(* ------------------------------------------------------------------ *)
(* arbitrary sequences of query / order_by / slice on one aggregator   *)
(* ------------------------------------------------------------------ *)

Inductive op :=
| OQuery (p : pred)
| OOrder (k : okey) (rev : bool)
| OSlice (start stop step : option Z).

(* Aggregator state: predicate (None = NullPredicate), order_bys, offset, limit *)
Record astate := mkA { a_q : option qobj; a_bad : bool; a_keys : list (okey * bool); a_off : Z; a_lim : option Z }.
Definition a_init := mkA None false [] 0%Z None.
Definition a_fits (vr : variant) (top_only : bool) (db : list fit) (st : astate) : list fit :=
  window vr top_only (a_off st) (a_lim st)
         (ordered (a_keys st) (match a_q st with None => db | Some q => select q db end)).

(* _new_with does not carry offset / limit: query and order_by forget an earlier slice;
   __getitem__ ignores the step of a slice *)
Definition op_step (vr : variant) (top_only : bool) (db : list fit) (st : astate) (o : op) : result astate :=
  match o with
  | OQuery p =>
      bind (compile vr p) (fun cq =>
      bind (match a_q st with None => Ok cq | Some q0 => junction vr JAnd [q0; cq] end) (fun q' =>
      Ok (mkA (Some q') (a_bad st || quote_bad vr p) (a_keys st) 0%Z None)))
  | OOrder k rev => Ok (mkA (a_q st) (a_bad st) (a_keys st ++ [(k, rev)]) 0%Z None)
  | OSlice start stop _ =>
      if a_bad st then Err ESql
      else let n := Z.of_nat (List.length (a_fits vr top_only db st)) in
           let ol := slice_step vr n (a_off st) (a_lim st) start stop in
           Ok (mkA (a_q st) (a_bad st) (a_keys st) (fst ol) (snd ol))
  end.
Fixpoint fold_ops (vr : variant) (top_only : bool) (db : list fit) (st : astate) (ops : list op) : result astate :=
  match ops with
  | [] => Ok st
  | o :: r => bind (op_step vr top_only db st o) (fun st' => fold_ops vr top_only db st' r)
  end.
Definition op_preds (ops : list op) : list pred :=
  flat_map (fun o => match o with OQuery p => [p] | _ => [] end) ops.
(* the harness builds every predicate of the sequence first, then applies the operations *)
Definition run_ops (vr : variant) (top_only : bool) (db : list fit) (ops : list op) : result (list fit * list (okey * bool)) :=
  if existsb has_shadow (op_preds ops) then Err EShadow else
  bind (map_result (compile vr) (op_preds ops)) (fun _ =>
  bind (fold_ops vr top_only db a_init ops) (fun st =>
  if a_bad st then Err ESql else Ok (a_fits vr top_only db st, a_keys st))).

(* the same sequence on a Python list: query = filter, order_by = sort by all keys so far,
   slice = list slicing including the step *)
Fixpoint range_z (fuel : nat) (s e step : Z) : list Z :=
  match fuel with
  | O => []
  | S fuel' =>
      if (0 <? step)%Z then (if (s <? e)%Z then s :: range_z fuel' (s + step) e step else [])
      else (if (e <? s)%Z then s :: range_z fuel' (s + step) e step else [])
  end.
Definition clamp_neg (n i : Z) : Z := if (i <? 0)%Z then Z.max (-1) (n + i) else Z.min i (n - 1).
Definition py_slice_step {A} (l : list A) (start stop step : option Z) : list A :=
  match step with
  | None => py_slice l start stop
  | Some st =>
      let n := Z.of_nat (List.length l) in
      if (0 <? st)%Z then
        let s := match start with None => 0%Z | Some i => clamp n i end in
        let e := match stop with None => n | Some i => clamp n i end in
        flat_map (fun i => match nth_error l (Z.to_nat i) with Some x => [x] | None => [] end)
                 (range_z (List.length l) s e st)
      else
        let s := match start with None => (n - 1)%Z | Some i => clamp_neg n i end in
        let e := match stop with None => (-1)%Z | Some i => clamp_neg n i end in
        flat_map (fun i => match nth_error l (Z.to_nat i) with Some x => [x] | None => [] end)
                 (range_z (List.length l) s e st)
  end.
Definition spec_op (st : list fit * list (okey * bool)) (o : op) : list fit * list (okey * bool) :=
  match o with
  | OQuery p => (filter (eval p) (fst st), snd st)
  | OOrder k rev => let keys := snd st ++ [(k, rev)] in (ordered keys (fst st), keys)
  | OSlice start stop step => (py_slice_step (fst st) start stop step, snd st)
  end.
Definition spec_ops (top_only : bool) (db : list fit) (ops : list op) : list fit :=
  fst (fold_left spec_op ops (if top_only then filter is_top db else db, [])).

(* ------------------------------------------------------------------ *)
(* grid searches: Aggregator.grid_searches, GridSearchAggregator.children / best_fits, *)
(* ChildQuery / BestFitQuery (autofit/database/query/query/attribute.py)                *)
(* ------------------------------------------------------------------ *)

Definition fmll (f : fit) : option Z := lookup "max_log_likelihood" (fnums f).
Definition id_in (i : string) (l : list fit) : bool := existsb (fun f => String.eqb (fid f) i) l.
(* "parent_id in (SELECT id ...)": NULL parent_id is never in the set *)
Definition child_of (P : list fit) (f : fit) : bool :=
  match fparent f with Some p => id_in p P | None => false end.
Definition children_of (P db : list fit) : list fit := filter (child_of P) db.
Definition same_parent (a b : fit) : bool := opt_str_eqb (fparent a) (fparent b).
(* BestFitQuery: best = SELECT parent_id, max(max_log_likelihood) FROM children GROUP BY parent_id (max ignores
   NULL, is NULL when every value is NULL); a child is returned when its likelihood EQUALS the maximum of its
   group: never when its likelihood is NULL, every child attaining the maximum when there are ties *)
Definition is_best (C : list fit) (c : fit) : bool :=
  match fmll c with
  | None => false
  | Some m => forallb (fun c' => negb (same_parent c c') || match fmll c' with Some m' => Z.leb m' m | None => true end) C
  end.
Definition best_of (C : list fit) : list fit := filter (is_best C) C.

(* the predicate of an aggregator once grid-search operations are used *)
Inductive gpred :=
| GP (q : option qobj)              (* NullPredicate / an ordinary query object *)
| GPChild (g : gpred)               (* ChildQuery(g):   SELECT id FROM fit WHERE parent_id in (g.fit_query) *)
| GPBest (g : gpred)                (* BestFitQuery(g): WITH children AS (...), best AS (...) SELECT id ...; *)
| GPAnd (g : gpred) (q : qobj)      (* And(g, q...) with g a Child / BestFit / Ids query: id IN (g.fit_query) AND id IN (q.fit_query) *)
| GPIds (ids : list string).        (* IdsQuery(ids) of the proposed repair of slicing: SELECT id FROM fit WHERE id IN ('a', 'b') *)

Fixpoint gsel (g : gpred) (db : list fit) : list fit :=
  match g with
  | GP None => db
  | GP (Some q) => select q db
  | GPChild g' => children_of (gsel g' db) db
  | GPBest g' => best_of (children_of (gsel g' db) db)
  | GPAnd g' q => filter (fun f => id_in (fid f) (gsel g' db) && sem q f) db
  | GPIds ids => filter (fun f => mem_str (fid f) ids) db
  end.

(* BestFitQuery.fit_query ends with ';': it can only be executed as the whole statement; nested in
   "id IN (...)" / "parent_id in (...)" / another WITH it is a syntax error (sqlite3.OperationalError).
   bfix = the proposed repair (no ';') applied *)
Fixpoint has_best (g : gpred) : bool :=
  match g with
  | GP _ => false
  | GPChild g' => has_best g'
  | GPBest _ => true
  | GPAnd g' _ => has_best g'
  | GPIds _ => false
  end.
Definition gsql_ok (bfix : bool) (g : gpred) : bool :=
  bfix || match g with GPBest g' => negb (has_best g') | _ => negb (has_best g) end.

(* self._predicate & cq: NullPredicate.__and__ returns cq; otherwise And(self._predicate, cq), whose
   _match_conditions flattens both sides and re-merges the NamedQuerys by name; a Child / BestFit query is
   an AttributeQuery (never merged, never flattened) *)
Definition gand (vr : variant) (g : gpred) (cq : qobj) : result gpred :=
  match g with
  | GP None => Ok (GP (Some cq))
  | GP (Some q0) => bind (junction vr JAnd [q0; cq]) (fun q => Ok (GP (Some q)))
  | GPAnd g' q0 => bind (junction vr JAnd [q0; cq]) (fun q => Ok (GPAnd g' q))
  | _ => bind (junction vr JAnd [cq]) (fun q => Ok (GPAnd g q))
  end.

Inductive gop :=
| GQuery (p : pred)                            (* .query(p) / (p) *)
| GOrder (k : okey) (rev : bool)               (* .order_by(attr, reverse) *)
| GSlice (start stop step : option Z)          (* [start:stop:step] *)
| GGrid                                        (* .grid_searches() *)
| GChildren                                    (* .children()   (GridSearchAggregator only) *)
| GBestFits.                                   (* .best_fits()  (GridSearchAggregator only) *)

Record gstate := mkG { g_pred : gpred; g_bad : bool; g_keys : list (okey * bool); g_off : Z; g_lim : option Z;
                       g_top : bool; g_grid : bool }.
Definition g_init (top_only : bool) := mkG (GP None) false [] 0%Z None top_only false.
Definition g_fits (vr : variant) (db : list fit) (st : gstate) : list fit :=
  window vr (g_top st) (g_off st) (g_lim st) (ordered (g_keys st) (gsel (g_pred st) db)).
Definition is_grid_q : qobj := QAttr 0 (ABool "is_grid_search").

Definition gop_step (vr : variant) (bfix : bool) (db : list fit) (st : gstate) (o : gop) : result gstate :=
  match o with
  | GQuery p =>
      bind (compile vr p) (fun cq =>
      bind (gand vr (g_pred st) cq) (fun g' =>
      Ok (mkG g' (g_bad st || quote_bad vr p) (g_keys st) 0%Z None (g_top st) (g_grid st))))
  | GOrder k rev => Ok (mkG (g_pred st) (g_bad st) (g_keys st ++ [(k, rev)]) 0%Z None (g_top st) (g_grid st))
  | GSlice start stop _ =>
      if g_bad st || negb (gsql_ok bfix (g_pred st)) then Err ESql
      else let n := Z.of_nat (List.length (g_fits vr db st)) in
           let ol := slice_step vr n (g_off st) (g_lim st) start stop in
           Ok (mkG (g_pred st) (g_bad st) (g_keys st) (fst ol) (snd ol) (g_top st) (g_grid st))
  (* predicate & search.is_grid_search, order_bys=[id], top_level_only=False, type GridSearchAggregator *)
  | GGrid =>
      bind (gand vr (g_pred st) is_grid_q) (fun g' =>
      Ok (mkG g' (g_bad st) [(OIdKey, false)] 0%Z None false true))
  | GChildren =>
      if g_grid st
      then Ok (mkG (GPChild (g_pred st)) (g_bad st) [(OStrKey "parent_id", false)] 0%Z None (g_top st) true)
      else Err EAttr
  | GBestFits =>
      if g_grid st
      then Ok (mkG (GPBest (g_pred st)) (g_bad st) [(OStrKey "parent_id", false)] 0%Z None (g_top st) true)
      else Err EAttr
  end.
Fixpoint fold_gops (vr : variant) (bfix : bool) (db : list fit) (st : gstate) (ops : list gop) : result gstate :=
  match ops with
  | [] => Ok st
  | o :: r => bind (gop_step vr bfix db st o) (fun st' => fold_gops vr bfix db st' r)
  end.
Definition gop_preds (ops : list gop) : list pred :=
  flat_map (fun o => match o with GQuery p => [p] | _ => [] end) ops.
(* the harness builds each predicate when its operation is applied *)
Definition run_gops (vr : variant) (bfix : bool) (top_only : bool) (db : list fit) (ops : list gop)
  : result (list fit * list (okey * bool)) :=
  if existsb has_shadow (gop_preds ops) then Err EShadow else
  bind (fold_gops vr bfix db (g_init top_only) ops) (fun st =>
  if g_bad st || negb (gsql_ok bfix (g_pred st)) then Err ESql else Ok (g_fits vr db st, g_keys st)).

(* ----- the proposed repair of slicing (proposed_fixes/C10-slice-positional.diff): an aggregator that carries a
   slice stands for exactly its fits (IdsQuery) when it is queried / ordered / navigated further; a stepped slice
   keeps the fits of the list slice, walking the ordering backwards for a negative step ----- *)
Definition has_slice (st : gstate) : bool :=
  negb (Z.eqb (g_off st) 0 && match g_lim st with None => true | Some _ => false end).
Definition freeze (vr : variant) (db : list fit) (st : gstate) : gstate :=
  if has_slice st
  then mkG (GPIds (map fid (g_fits vr db st))) (g_bad st) (g_keys st) 0%Z None (g_top st) (g_grid st)
  else st.
Definition flip_keys (keys : list (okey * bool)) : list (okey * bool) := map (fun kr => (fst kr, negb (snd kr))) keys.
Definition gop_step_s (vr : variant) (bfix : bool) (db : list fit) (st : gstate) (o : gop) : result gstate :=
  match o with
  | GSlice start stop (Some stp) =>
      if Z.eqb stp 1 then gop_step vr bfix db st o
      else if g_bad st || negb (gsql_ok bfix (g_pred st)) then Err ESql
      else let sel := py_slice_step (g_fits vr db st) start stop (Some stp) in
           Ok (mkG (GPIds (map fid sel)) (g_bad st) (if (stp <? 0)%Z then flip_keys (g_keys st) else g_keys st)
                   0%Z None (g_top st) (g_grid st))
  | GSlice _ _ None => gop_step vr bfix db st o
  | _ => gop_step vr bfix db (freeze vr db st) o
  end.
Fixpoint fold_gops_s (vr : variant) (bfix : bool) (db : list fit) (st : gstate) (ops : list gop) : result gstate :=
  match ops with
  | [] => Ok st
  | o :: r => bind (gop_step_s vr bfix db st o) (fun st' => fold_gops_s vr bfix db st' r)
  end.
Definition run_gops_s (vr : variant) (bfix : bool) (top_only : bool) (db : list fit) (ops : list gop)
  : result (list fit * list (okey * bool)) :=
  if existsb has_shadow (gop_preds ops) then Err EShadow else
  bind (fold_gops_s vr bfix db (g_init top_only) ops) (fun st =>
  if g_bad st || negb (gsql_ok bfix (g_pred st)) then Err ESql else Ok (g_fits vr db st, g_keys st)).

(* the same sequence on Python lists of fits: query = filter; grid_searches = the grid searches among the
   selected fits (child fits included), ordered by id; children = the fits whose parent is in the list, ordered by
   parent_id; best_fits = per parent the children of maximal likelihood *)
Definition is_grid (f : fit) : bool := acond_holds f (ABool "is_grid_search").
Fixpoint spec_sel (db cur : list fit) (ops : list gop) : list fit :=
  match ops with
  | [] => cur
  | GQuery p :: r => spec_sel db (filter (eval p) cur) r
  | GGrid :: r => spec_sel db (filter is_grid cur) r
  | GChildren :: r => spec_sel db (children_of cur db) r
  | GBestFits :: r => spec_sel db (best_of (children_of cur db)) r
  | _ :: r => spec_sel db cur r
  end.
Fixpoint spec_keys (keys : list (okey * bool)) (ops : list gop) : list (okey * bool) :=
  match ops with
  | [] => keys
  | GOrder k rev :: r => spec_keys (keys ++ [(k, rev)]) r
  | GGrid :: r => spec_keys [(OIdKey, false)] r
  | (GChildren | GBestFits) :: r => spec_keys [(OStrKey "parent_id", false)] r
  | _ :: r => spec_keys keys r
  end.
Fixpoint spec_top (top : bool) (ops : list gop) : bool :=
  match ops with
  | [] => top
  | GGrid :: r => spec_top false r
  | _ :: r => spec_top top r
  end.

(* the order keys decide every position: the id is among them *)
Definition keys_total (keys : list (okey * bool)) : bool :=
  existsb (fun kr => match fst kr with OIdKey => true | _ => false end) keys.
Fixpoint sortedb (le : fit -> fit -> bool) (l : list fit) : bool :=
  match l with
  | a :: ((b :: _) as r) => le a b && sortedb le r
  | _ => true
  end.
Definition fits_of_ids (db : list fit) (ids : list string) : list fit :=
  flat_map (fun i => match find (fun f => String.eqb (fid f) i) db with Some f => [f] | None => [] end) ids.
(* the harness prints parent_id and id both as string columns and as fparent / fid *)
Definition fit_coherent (f : fit) : bool :=
  opt_str_eqb (kstr "parent_id" f) (fparent f) && opt_str_eqb (kstr "id" f) (Some (fid f)).

(* ------------------------------------------------------------------ *)
(* correspondence cases                                                *)
(* ------------------------------------------------------------------ *)

Inductive outcome :=
| RIds (ids : list string)      (* ids of the returned fits, in the returned order *)
| RExc (e : err).               (* the harness maps (exception class, stage) to err; anything unexpected to EFuel *)

Fixpoint str_list_eqb (a b : list string) : bool :=
  match a, b with
  | [], [] => true
  | x :: a', y :: b' => String.eqb x y && str_list_eqb a' b'
  | _, _ => false
  end.
Definition str_leb (a b : string) : bool := match String.compare a b with Gt => false | _ => true end.
Fixpoint insert_str (x : string) (l : list string) : list string :=
  match l with [] => [x] | y :: r => if str_leb x y then x :: l else y :: insert_str x r end.
Definition sort_str (l : list string) : list string := fold_right insert_str [] l.

Definition err_eqb (a b : err) : bool :=
  match a, b with
  | EAssertion, EAssertion | ETypeError, ETypeError | EFuel, EFuel | EShadow, EShadow | ESql, ESql | EAttr, EAttr => true
  | _, _ => false
  end.

Inductive case :=
(* agg.query(p).fits as a set *)
| CQuery (db : list fit) (p : pred) (top_only : bool) (observed : outcome)
(* agg.query(p).order_by(k1).order_by(k2)...[s1][s2]....fits as a list; the keys make the order total *)
| COrder (db : list fit) (p : pred) (top_only : bool) (keys : list (okey * bool))
         (slices : list (option Z * option Z)) (observed : outcome)
(* any sequence of query / order_by / slice; observed: fits, len(), aggregator[i].id *)
| COps (db : list fit) (top_only : bool) (ops : list op) (observed : outcome)
       (olen : Z) (oidx : option (Z * string))
(* any sequence of query / order_by / slice / grid_searches / children / best_fits; when the keys do not decide
   every position the observed list is compared as a set and must be sorted by the keys *)
| CGrid (db : list fit) (top_only : bool) (ops : list gop) (observed : outcome)
        (olen : Z) (oidx : option (Z * string)).

Definition nth_id (l : list fit) (i : Z) : option string :=
  let n := Z.of_nat (List.length l) in
  let j := if (i <? 0)%Z then (n + i)%Z else i in
  if (j <? 0)%Z then None else option_map fid (nth_error l (Z.to_nat j)).
Definition opt_str_eq (a : option string) (b : string) : bool :=
  match a with Some x => String.eqb x b | None => false end.

Definition grid_outcome_ok (db : list fit) (r : result (list fit * list (okey * bool))) (obs : outcome)
                           (olen : Z) (oidx : option (Z * string)) : bool :=
  forallb fit_coherent db &&
  match r, obs with
  | Ok (l, keys), RIds ids =>
      (if keys_total keys
       then str_list_eqb (map fid l) ids
       else str_list_eqb (sort_str (map fid l)) (sort_str ids)
            && sortedb (lex_le keys) (fits_of_ids db ids))
      && Z.eqb (Z.of_nat (List.length l)) olen
      && match oidx with
         | Some (i, x) => if keys_total keys then opt_str_eq (nth_id l i) x else true
         | None => true
         end
  | Err e, RExc e' => err_eqb e e'
  | _, _ => false
  end.
Definition ops_outcome_ok (r : result (list fit * list (okey * bool))) (obs : outcome)
                          (olen : Z) (oidx : option (Z * string)) : bool :=
  match r, obs with
  | Ok (l, keys), RIds ids =>
      (match keys with
       | [] => str_list_eqb (sort_str (map fid l)) (sort_str ids)
       | _ => str_list_eqb (map fid l) ids
       end)
      && Z.eqb (Z.of_nat (List.length l)) olen
      && match oidx, keys with
         | Some (i, x), _ :: _ => opt_str_eq (nth_id l i) x
         | _, _ => true
         end
  | Err e, RExc e' => err_eqb e e'
  | _, _ => false
  end.

Definition check_case_with (vr : variant) (bfix : bool) (c : case) : bool :=
  match c with
  | CGrid db top_only ops obs olen oidx => grid_outcome_ok db (run_gops vr bfix top_only db ops) obs olen oidx
  | CQuery db p top_only obs =>
      match model_query vr db p, obs with
      | Ok l, RIds ids => str_list_eqb (sort_str (map fid (if top_only then filter is_top l else l))) (sort_str ids)
      | Err e, RExc e' => err_eqb e e'
      | _, _ => false
      end
  | COrder db p top_only keys slices obs =>
      match model_query vr db p, obs with
      | Ok l, RIds ids => str_list_eqb (map fid (run_slices vr top_only (ordered keys l) slices)) ids
      | Err e, RExc e' => err_eqb e e'
      | _, _ => false
      end
  | COps db top_only ops obs olen oidx => ops_outcome_ok (run_ops vr top_only db ops) obs olen oidx
  end.
Definition check_case := check_case_with current false.
(* the proposed repair of slicing applied on a scratch copy *)
Definition gop_of_op (o : op) : gop :=
  match o with OQuery p => GQuery p | OOrder k rev => GOrder k rev | OSlice a b c => GSlice a b c end.
Definition check_case_s (vr : variant) (bfix : bool) (c : case) : bool :=
  match c with
  | CGrid db top_only ops obs olen oidx => grid_outcome_ok db (run_gops_s vr bfix top_only db ops) obs olen oidx
  | COps db top_only ops obs olen oidx => ops_outcome_ok (run_gops_s vr bfix top_only db (map gop_of_op ops)) obs olen oidx
  | _ => check_case_with vr bfix c
  end.

(* label functions evaluated by the harness on the abstract case (never on the outcome) *)
Definition case_db (c : case) : list fit :=
  match c with CQuery db _ _ _ => db | COrder db _ _ _ _ _ => db | COps db _ _ _ _ _ => db | CGrid db _ _ _ _ _ => db end.
(* the predicate of the case: for an op sequence the left-nested conjunction of its queries *)
Definition conj_preds (l : list pred) : option pred :=
  match l with [] => None | p :: r => Some (fold_left PAnd r p) end.
Definition case_pred (c : case) : option pred :=
  match c with
  | CQuery _ p _ _ => Some p
  | COrder _ p _ _ _ _ => Some p
  | COps _ _ ops _ _ _ => conj_preds (op_preds ops)
  | CGrid _ _ ops _ _ _ => conj_preds (gop_preds ops)
  end.
Definition on_pred (c : case) (f : pred -> bool) : bool := match case_pred c with Some p => f p | None => false end.

Definition model_exact (vr : variant) (c : case) : bool :=
  match case_pred c with
  | Some p =>
      match model_query vr (case_db c) p with
      | Ok l => str_list_eqb (map fid l) (map fid (filter (eval p) (case_db c)))
      | Err _ => false
      end
  | None => true
  end.
Definition slices_exact (vr : variant) (c : case) : bool :=
  match c with
  | COrder db p top_only keys slices _ =>
      match model_query vr db p with
      | Ok l => str_list_eqb (map fid (run_slices vr top_only (ordered keys l) slices))
                             (map fid (spec_slices top_only (ordered keys l) slices))
      | Err _ => true
      end
  | COps db top_only ops _ _ _ =>
      match run_ops vr top_only db ops with
      | Ok (l, _) => str_list_eqb (map fid l) (map fid (spec_ops top_only db ops))
      | Err _ => true
      end
  | _ => true
  end.

(* columns under a negated fit-attribute test whose SQL value can be NULL *)
Definition acond_col (a : acond) : list string :=
  match a with AEqS attr (Some _) | AContains attr _ | AIn attr _ => [attr] | _ => [] end.
Fixpoint neg_attr_cols (vr : variant) (p : pred) : list string :=
  match p with
  | PAnd a b | POr a b => neg_attr_cols vr a ++ neg_attr_cols vr b
  | PNot a => neg_attr_cols vr a ++ match compile vr a with Ok (QAttr _ ac) => acond_col ac | _ => [] end
  | _ => []
  end.
Definition col_null (db : list fit) (col : string) : bool :=
  existsb (fun f => match lookup col (fstrs f) with Some None => true | _ => false end) db.
Fixpoint attr_tests (p : pred) : list acond :=
  match p with
  | PAttr a => [a]
  | PAnd a b | POr a b => attr_tests a ++ attr_tests b
  | PNot a => attr_tests a
  | _ => []
  end.

Definition bit (b : bool) (w : N) : N := if b then w else 0%N.
Definition case_labels_gen (agree : bool) (vr : variant) (c : case) : N :=
  (bit agree 1
   + bit (on_pred c (fun p => negb (safe_with vr true false false false p))) 2    (* inverted NamedQuery in a name merge *)
   + bit (on_pred c (fun p => negb (safe_with vr false true false false p))) 4    (* Or-merge over different tables *)
   + bit (on_pred c (has_not_junction vr)) 8                                      (* ~ of a junction *)
   + bit (on_pred c (fun p => negb (safe_with vr false false true false p))) 16   (* ~ of an info test *)
   + bit (on_pred c (fun p => match compile vr p with Err EAssertion => true | _ => false end)) 32
   + bit (model_exact vr c) 64
   + bit (slices_exact vr c) 128
   + bit (on_pred c (fun p => existsb (col_null (case_db c)) (neg_attr_cols vr p))) 256  (* negated test on a column holding NULL *)
   + bit (on_pred c (fun p => existsb (fun a => existsb (fun f => negb (acond_plain f a)) (case_db c)) (attr_tests p))) 512  (* LIKE <> substring *)
   + bit (on_pred c (quote_bad vr)) 1024                                          (* unescaped quote *)
   + bit (on_pred c has_shadow) 2048)%N.                                          (* shadowed path segment *)
Definition case_labels_with' (vr : variant) (bfix : bool) (c : case) : N := case_labels_gen (check_case_with vr bfix c) vr c.
Definition case_labels_with (vr : variant) := case_labels_with' vr false.
Definition case_labels_slicefix (c : case) : N := case_labels_gen (check_case_s current false c) current c.
Definition case_labels_bothfix (c : case) : N := case_labels_gen (check_case_s current true c) current c.
Definition case_labels := case_labels_with current.
(* the proposed repair of BestFitQuery (no trailing ';') applied on a scratch copy *)
Definition case_labels_bestfix := case_labels_with' current true.
(* variants describing the code with repairs reverted, or with proposed repairs applied on a scratch
   copy (VERIF_C10_VARIANT) *)
Definition case_labels_prequote := case_labels_with prequote.
Definition case_labels_legacy := case_labels_with legacy.
Definition case_labels_pre4 := case_labels_with pre4.
Definition case_labels_ortab := case_labels_with (mkVariant true true true true false false false).
Definition case_labels_ninfo := case_labels_with (mkVariant true true true false true false false).
Definition case_labels_nnull := case_labels_with (mkVariant true true true false false true false).
Definition case_labels_njunc := case_labels_with (mkVariant true true true false false false true).
