(* C10 model: the aggregator's query objects (autofit/database/query), the junction
   rewriting of AbstractJunction._match_conditions, NamedQuery / AbstractQuery negation,
   the relational meaning of the emitted SQL on the flattened instance tree (with the
   code's JOIN semantics), ordering, offset/limit slicing of Aggregator.__getitem__ and
   the top-level filter of Aggregator._fits_for_query.
   Executable definitions only; proofs are in Proofs*.v.

   Numbers are integers (the harness stores n/8 as a float, so equality and order of
   binary64 values coincide with equality and order of n).

   `variant` selects between the code as it is (`current`) and the code with the
   proposed repairs (`repaired`); the correspondence check runs `current`. *)
From Coq Require Import ZArith List Bool String Ascii Lia.
Import ListNotations.
Open Scope string_scope.
Open Scope list_scope.

(* ------------------------------------------------------------------ *)
(* stored objects, fits                                                *)
(* ------------------------------------------------------------------ *)

Inductive obj :=
| OVal (v : Z)                               (* row of `value`        *)
| OStr (s : string)                          (* row of `string_value` *)
| ONone                                      (* row of `none`         *)
| OInst (cls : string) (kids : list (string * obj)).  (* instance / collection / dict: class_path + named children *)

Definition kids (o : obj) : list (string * obj) :=
  match o with OInst _ ks => ks | _ => [] end.

Record fit := mkFit {
  fid : string;
  finst : obj;
  fstrs : list (string * option string);     (* name, unique_tag, path_prefix (NULL = None) *)
  fnums : list (string * Z);                 (* max_log_likelihood *)
  fbools : list (string * bool);             (* is_complete, is_grid_search *)
  finfo : list (string * string);            (* rows of `info` *)
  fchild : bool                              (* parent_id IS NOT NULL *)
}.

Fixpoint lookup {A} (n : string) (l : list (string * A)) : option A :=
  match l with
  | [] => None
  | (k, v) :: r => if String.eqb k n then Some v else lookup n r
  end.

(* ------------------------------------------------------------------ *)
(* comparisons                                                         *)
(* ------------------------------------------------------------------ *)

Inductive cmp := CEq | CLt | CLe | CGt | CGe.

Definition cmp_eqb (a b : cmp) : bool :=
  match a, b with CEq, CEq | CLt, CLt | CLe, CLe | CGt, CGt | CGe, CGe => true | _, _ => false end.

Definition zcmp (c : cmp) (x y : Z) : bool :=
  match c with CEq => Z.eqb x y | CLt => Z.ltb x y | CLe => Z.leb x y | CGt => Z.ltb y x | CGe => Z.leb y x end.

Definition scmp (c : cmp) (x y : string) : bool :=
  match c, String.compare x y with
  | CEq, Eq => true
  | CLt, Lt => true
  | CLe, (Lt | Eq) => true
  | CGt, Gt => true
  | CGe, (Gt | Eq) => true
  | _, _ => false
  end.

(* substring test (attribute contains / in_); generator strings are lower-case alphanumerics *)
Fixpoint prefixb (p s : string) : bool :=
  match p, s with
  | EmptyString, _ => true
  | String a p', String b s' => Ascii.eqb a b && prefixb p' s'
  | _, _ => false
  end.
Fixpoint substrb (p s : string) : bool :=
  prefixb p s || match s with EmptyString => false | String _ s' => substrb p s' end.

(* ------------------------------------------------------------------ *)
(* fit-attribute conditions                                            *)
(* ------------------------------------------------------------------ *)

Inductive acond :=
| AEqS (attr : string) (v : option string)    (* attr = 'v'  /  attr IS NULL *)
| AEqN (attr : string) (v : Z)                (* attr = number *)
| AContains (attr : string) (s : string)      (* attr LIKE '%s%' *)
| AIn (attr : string) (s : string)            (* 's' LIKE '%' || attr || '%' *)
| ABool (attr : string).                      (* boolean column as predicate *)

Definition opt_str_eqb (a b : option string) : bool :=
  match a, b with Some x, Some y => String.eqb x y | None, None => true | _, _ => false end.

Definition acond_eqb (a b : acond) : bool :=
  match a, b with
  | AEqS x v, AEqS y w => String.eqb x y && opt_str_eqb v w
  | AEqN x v, AEqN y w => String.eqb x y && Z.eqb v w
  | AContains x v, AContains y w => String.eqb x y && String.eqb v w
  | AIn x v, AIn y w => String.eqb x y && String.eqb v w
  | ABool x, ABool y => String.eqb x y
  | _, _ => false
  end.

(* meaning of the SQL condition on one row of `fit`; NULL compares false *)
Definition acond_holds (f : fit) (a : acond) : bool :=
  match a with
  | AEqS attr v =>
      match lookup attr (fstrs f), v with
      | Some None, None => true
      | Some (Some x), Some y => String.eqb x y
      | _, _ => false
      end
  | AEqN attr v => match lookup attr (fnums f) with Some x => Z.eqb x v | None => false end
  | AContains attr s => match lookup attr (fstrs f) with Some (Some x) => substrb s x | _ => false end
  | AIn attr s => match lookup attr (fstrs f) with Some (Some x) => substrb x s | _ => false end
  | ABool attr => match lookup attr (fbools f) with Some b => b | None => false end
  end.

(* the same condition in SQL's three-valued logic: a NULL column makes comparisons and LIKE
   unknown (None); WHERE keeps a row only when the condition is true *)
Definition acond3 (f : fit) (a : acond) : option bool :=
  match a with
  | AEqS attr None => Some (acond_holds f a)                       (* IS NULL is always definite *)
  | AEqS attr (Some _) | AContains attr _ | AIn attr _ =>
      match lookup attr (fstrs f) with
      | Some None => None
      | _ => Some (acond_holds f a)
      end
  | AEqN _ _ | ABool _ => Some (acond_holds f a)
  end.
Definition attrs_defined (f : fit) : bool :=
  forallb (fun kv => match snd kv with Some _ => true | None => false end) (fstrs f).

(* ------------------------------------------------------------------ *)
(* query objects                                                       *)
(* ------------------------------------------------------------------ *)

Inductive jk := JAnd | JOr.
Definition jk_eqb (a b : jk) : bool := match a, b with JAnd, JAnd | JOr, JOr => true | _, _ => false end.

Inductive qobj :=
| QNoneC                                        (* NoneCondition            "1 = 1"           tables {none}         *)
| QVal (c : cmp) (v : Z)                        (* ValueCondition           "v.value c v"     tables {value}        *)
| QStr (c : cmp) (s : string)                   (* StringValueCondition     "sv.value c 's'"  tables {string_value} *)
| QType (cls : string)                          (* TypeCondition            "o.class_path ="  tables {object}       *)
| QNamed (n : string) (inner : qobj) (inv : bool)   (* NamedQuery(name, condition, inverted) *)
| QAttr (negs : nat) (a : acond)                (* AttributeQuery, wrapped `negs` times in NotCondition *)
| QInfo (negs : nat) (k v : string)             (* InfoQuery, wrapped `negs` times in NotCondition *)
| QJ (k : jk) (ms : list qobj).                 (* And / Or over a set of conditions *)

Fixpoint qobj_eqb (a b : qobj) {struct a} : bool :=
  match a, b with
  | QNoneC, QNoneC => true
  | QVal c v, QVal d w => cmp_eqb c d && Z.eqb v w
  | QStr c v, QStr d w => cmp_eqb c d && String.eqb v w
  | QType x, QType y => String.eqb x y
  | QNamed n i v, QNamed m j w => String.eqb n m && qobj_eqb i j && Bool.eqb v w
  | QAttr n x, QAttr m y => Nat.eqb n m && acond_eqb x y
  | QInfo n k v, QInfo m l w => Nat.eqb n m && String.eqb k l && String.eqb v w
  | QJ k ms, QJ l ns =>
      jk_eqb k l &&
      (fix go (xs ys : list qobj) {struct xs} : bool :=
         match xs, ys with
         | [], [] => true
         | x :: xs', y :: ys' => qobj_eqb x y && go xs' ys'
         | _, _ => false
         end) ms ns
  | _, _ => false
  end.

(* tables: (none, value, string_value); `object` is always present in a NamedQuery and
   AbstractJunction.tables ignores NamedQuery members *)
Record tabs := mkTabs { t_none : bool; t_val : bool; t_str : bool }.
Definition tabs0 := mkTabs false false false.
Definition tabs_or (a b : tabs) := mkTabs (t_none a || t_none b) (t_val a || t_val b) (t_str a || t_str b).
Definition tabs_eqb (a b : tabs) := Bool.eqb (t_none a) (t_none b) && Bool.eqb (t_val a) (t_val b) && Bool.eqb (t_str a) (t_str b).
Definition tabs_count (a : tabs) : nat :=
  1 + (if t_none a then 1 else 0) + (if t_val a then 1 else 0) + (if t_str a then 1 else 0).

(* tables contributed by a condition when it is a member of the WHERE clause of a NamedQuery *)
Fixpoint mtabs (q : qobj) : tabs :=
  match q with
  | QNoneC => mkTabs true false false
  | QVal _ _ => mkTabs false true false
  | QStr _ _ => mkTabs false false true
  | QType _ => tabs0
  | QNamed _ _ _ => tabs0
  | QAttr _ _ => tabs0
  | QInfo _ _ _ => tabs0
  | QJ _ ms => fold_right (fun m acc => tabs_or (mtabs m) acc) tabs0 ms
  end.

(* the row of `object` for child c survives the JOIN with every table of t *)
Definition in_tabs (t : tabs) (c : obj) : bool :=
  (if t_none t then match c with ONone => true | _ => false end else true) &&
  (if t_val t then match c with OVal _ => true | _ => false end else true) &&
  (if t_str t then match c with OStr _ => true | _ => false end else true).

Fixpoint iter_negb (n : nat) (b : bool) : bool := match n with O => b | S n' => negb (iter_negb n' b) end.

(* meaning of a condition on the row of object `o` (for a fit f);
   a NamedQuery selects parents: "o.id IN (SELECT parent_id FROM object JOIN ... WHERE name = n AND inner)" *)
Fixpoint holds (f : fit) (q : qobj) (o : obj) {struct q} : bool :=
  match q with
  | QNoneC => true
  | QVal c v => match o with OVal x => zcmp c x v | _ => false end
  | QStr c s => match o with OStr x => scmp c x s | _ => false end
  | QType cls => match o with OInst cls' _ => String.eqb cls' cls | _ => false end
  | QNamed n inner inv =>
      xorb inv (existsb (fun nc => String.eqb (fst nc) n && in_tabs (mtabs inner) (snd nc) && holds f inner (snd nc)) (kids o))
  | QAttr negs a => match acond3 f a with Some b => iter_negb negs b | None => false end   (* not (NULL) is NULL *)
  | QInfo negs k v => existsb (fun kv => iter_negb negs (String.eqb (fst kv) k && String.eqb (snd kv) v)) (finfo f)
  | QJ JAnd ms => forallb (fun m => holds f m o) ms
  | QJ JOr ms => existsb (fun m => holds f m o) ms
  end.

(* fit_query: the fit is selected when the condition holds at its instance root *)
Definition sem (q : qobj) (f : fit) : bool := holds f q (finst f).

(* "Currently maximum of 2 tables supported": raised when a NamedQuery is rendered / hashed *)
Fixpoint tables_ok (q : qobj) : bool :=
  match q with
  | QNamed _ inner _ => Nat.leb (tabs_count (mtabs inner)) 2 && tables_ok inner
  | QJ _ ms => forallb tables_ok ms
  | _ => true
  end.

(* ------------------------------------------------------------------ *)
(* junction construction: AbstractJunction.__new__ / _match_conditions *)
(* ------------------------------------------------------------------ *)

Inductive err := EAssertion | ETypeError | EFuel.
Inductive result (A : Type) := Ok (a : A) | Err (e : err).
Arguments Ok {A} a.
Arguments Err {A} e.
Definition bind {A B} (r : result A) (k : A -> result B) : result B :=
  match r with Ok a => k a | Err e => Err e end.

Record variant := mkVariant {
  fix_inverted_merge : bool;     (* inverted NamedQuerys are not merged by name *)
  fix_slice : bool               (* __getitem__ via slice.indices; top-level filter inside the SQL query *)
}.
Definition current := mkVariant false false.
Definition repaired := mkVariant true true.

Fixpoint flatten (k : jk) (q : qobj) : list qobj :=
  match q with
  | QJ k' ms =>
      if jk_eqb k k'
      then (fix go (l : list qobj) : list qobj := match l with [] => [] | x :: r => flatten k x ++ go r end) ms
      else [q]
  | _ => [q]
  end.

(* isinstance(condition, NamedQuery) and none_table not in condition.tables *)
Definition mergeable (vr : variant) (q : qobj) : bool :=
  match q with
  | QNamed _ inner inv => negb (t_none (mtabs inner)) && negb (fix_inverted_merge vr && inv)
  | _ => false
  end.
Definition qname (q : qobj) : string := match q with QNamed n _ _ => n | _ => "" end.
Definition qinner (q : qobj) : qobj := match q with QNamed _ i _ => i | _ => q end.

Fixpoint mem_str (s : string) (l : list string) : bool :=
  match l with [] => false | x :: r => String.eqb x s || mem_str s r end.
Fixpoint nodup_str (l : list string) : list string :=
  match l with [] => [] | x :: r => if mem_str x r then nodup_str r else x :: nodup_str r end.
Fixpoint mem_q (q : qobj) (l : list qobj) : bool :=
  match l with [] => false | x :: r => qobj_eqb x q || mem_q q r end.
Fixpoint dedupe (l : list qobj) : list qobj :=
  match l with [] => [] | x :: r => if mem_q x r then dedupe r else x :: dedupe r end.

Fixpoint map_result {A B} (f : A -> result B) (l : list A) : result (list B) :=
  match l with
  | [] => Ok []
  | x :: r => bind (f x) (fun y => bind (map_result f r) (fun ys => Ok (y :: ys)))
  end.

(* cls(conditions...): flatten same-type junctions, group NamedQuerys by name (dropping their
   `_inverted` flag in the current code), apply cls to the grouped inner conditions, collect
   into a set, return the only member when there is exactly one *)
Fixpoint mk_junction (vr : variant) (fuel : nat) (k : jk) (conds : list qobj) : result qobj :=
  match fuel with
  | O => Err EFuel
  | S fuel' =>
      let flat := flat_map (flatten k) conds in
      let named := filter (mergeable vr) flat in
      let others := filter (fun q => negb (mergeable vr q)) flat in
      let names := nodup_str (map qname named) in
      bind (map_result
              (fun n =>
                 bind (mk_junction vr fuel' k (map qinner (filter (fun q => String.eqb (qname q) n) named)))
                      (fun sub => let m := QNamed n sub false in
                                  if tables_ok m then Ok m else Err EAssertion))
              names)
           (fun merged =>
              match dedupe (others ++ merged) with
              | [x] => Ok x
              | all => Ok (QJ k all)
              end)
  end.

Fixpoint qdepth (q : qobj) : nat :=
  match q with
  | QNamed _ inner _ => S (qdepth inner)
  | QJ _ ms => fold_right (fun m acc => Nat.max (qdepth m) acc) O ms
  | _ => O
  end.
Definition depth_list (l : list qobj) : nat := fold_right (fun m acc => Nat.max (qdepth m) acc) O l.

Definition junction (vr : variant) (k : jk) (conds : list qobj) : result qobj :=
  mk_junction vr (S (depth_list conds)) k conds.

(* ~ : NamedQuery.__invert__, AbstractQuery.__invert__; junctions and plain conditions have none *)
Definition invert (q : qobj) : result qobj :=
  match q with
  | QNamed n i inv => Ok (QNamed n i (negb inv))
  | QAttr negs a => Ok (QAttr (S negs) a)
  | QInfo negs k v => Ok (QInfo (S negs) k v)
  | _ => Err ETypeError
  end.

(* ------------------------------------------------------------------ *)
(* user predicates                                                     *)
(* ------------------------------------------------------------------ *)

Inductive const := KNum (v : Z) | KStr (s : string) | KNone | KType (cls : string).

Inductive pred :=
| PCmp (path : list string) (c : cmp) (k : const)    (* agg.model.a.b.c <cmp> constant *)
| PAttr (a : acond)                                  (* agg.search.<attr> ... *)
| PInfo (k v : string)                               (* agg.info[k] == v *)
| PAnd (p q : pred)
| POr (p q : pred)
| PNot (p : pred).

(* _make_comparison *)
Definition leaf_of (c : cmp) (k : const) : result qobj :=
  match k with
  | KNone => if cmp_eqb c CEq then Ok QNoneC else Err EAssertion
  | KStr s => Ok (QStr c s)
  | KNum v => Ok (QVal c v)
  | KType cls => if cmp_eqb c CEq then Ok (QType cls) else Err EAssertion
  end.

Fixpoint named_path (path : list string) (leaf : qobj) : qobj :=
  match path with
  | [] => leaf
  | n :: r => QNamed n (named_path r leaf) false
  end.

Fixpoint compile (vr : variant) (p : pred) : result qobj :=
  match p with
  | PCmp [] _ _ => Err ETypeError
  | PCmp path c k => bind (leaf_of c k) (fun leaf => Ok (named_path path leaf))
  | PAttr a => Ok (QAttr 0 a)
  | PInfo k v => Ok (QInfo 0 k v)
  | PAnd p q => bind (compile vr p) (fun a => bind (compile vr q) (fun b => junction vr JAnd [a; b]))
  | POr p q => bind (compile vr p) (fun a => bind (compile vr q) (fun b => junction vr JOr [a; b]))
  | PNot p => bind (compile vr p) invert
  end.

(* predicates the API accepts by design: non-empty paths, inequalities only against numbers / strings *)
Fixpoint wf_pred (p : pred) : bool :=
  match p with
  | PCmp path c k =>
      match path with [] => false | _ => true end &&
      (cmp_eqb c CEq || match k with KNum _ | KStr _ => true | _ => false end)
  | PAnd a b | POr a b => wf_pred a && wf_pred b
  | PNot a => wf_pred a
  | _ => true
  end.
Fixpoint junction_free (p : pred) : bool :=
  match p with
  | PAnd _ _ | POr _ _ => false
  | PNot a => junction_free a
  | _ => true
  end.

(* ------------------------------------------------------------------ *)
(* the predicate evaluated directly on the stored objects              *)
(* ------------------------------------------------------------------ *)

Fixpoint resolve (path : list string) (o : obj) : option obj :=
  match path with
  | [] => Some o
  | n :: r => match lookup n (kids o) with Some c => resolve r c | None => None end
  end.

Definition const_holds (c : cmp) (k : const) (o : obj) : bool :=
  match k, o with
  | KNum v, OVal x => zcmp c x v
  | KStr s, OStr x => scmp c x s
  | KNone, ONone => cmp_eqb c CEq
  | KType cls, OInst cls' _ => cmp_eqb c CEq && String.eqb cls' cls
  | _, _ => false
  end.

Fixpoint eval (p : pred) (f : fit) : bool :=
  match p with
  | PCmp path c k => match resolve path (finst f) with Some o => const_holds c k o | None => false end
  | PAttr a => acond_holds f a
  | PInfo k v => match lookup k (finfo f) with Some w => String.eqb w v | None => false end
  | PAnd p q => eval p f && eval q f
  | POr p q => eval p f || eval q f
  | PNot p => negb (eval p f)
  end.

(* ------------------------------------------------------------------ *)
(* ordering                                                            *)
(* ------------------------------------------------------------------ *)

Inductive okey := OStrKey (attr : string) | ONumKey (attr : string) | OBoolKey (attr : string) | OIdKey.

Definition key_cmp (k : okey) (a b : fit) : comparison :=
  match k with
  | OStrKey attr =>
      match lookup attr (fstrs a), lookup attr (fstrs b) with
      | Some (Some x), Some (Some y) => String.compare x y
      | _, _ => Eq
      end
  | ONumKey attr =>
      match lookup attr (fnums a), lookup attr (fnums b) with
      | Some x, Some y => Z.compare x y
      | _, _ => Eq
      end
  | OBoolKey attr =>
      match lookup attr (fbools a), lookup attr (fbools b) with
      | Some x, Some y => Z.compare (if x then 1 else 0)%Z (if y then 1 else 0)%Z
      | _, _ => Eq
      end
  | OIdKey => String.compare (fid a) (fid b)
  end.

(* ORDER BY k1 [DESC], k2 [DESC], ... : the first key takes precedence *)
Fixpoint lex_cmp (keys : list (okey * bool)) (a b : fit) : comparison :=
  match keys with
  | [] => Eq
  | (k, rev) :: r =>
      match (if rev then CompOpp (key_cmp k a b) else key_cmp k a b) with
      | Eq => lex_cmp r a b
      | c => c
      end
  end.
Definition lex_le (keys : list (okey * bool)) (a b : fit) : bool :=
  match lex_cmp keys a b with Gt => false | _ => true end.

Fixpoint insert_sorted (le : fit -> fit -> bool) (x : fit) (l : list fit) : list fit :=
  match l with
  | [] => [x]
  | y :: r => if le x y then x :: l else y :: insert_sorted le x r
  end.
Fixpoint sort_by (le : fit -> fit -> bool) (l : list fit) : list fit :=
  match l with [] => [] | x :: r => insert_sorted le x (sort_by le r) end.

(* ------------------------------------------------------------------ *)
(* offset / limit / top-level filter; Aggregator.__getitem__           *)
(* ------------------------------------------------------------------ *)

Definition drop_z {A} (n : Z) (l : list A) : list A := skipn (Z.to_nat n) l.   (* negative OFFSET = 0 *)
Definition take_lim {A} (lim : option Z) (l : list A) : list A :=
  match lim with
  | None => l
  | Some n => if (n <? 0)%Z then l else firstn (Z.to_nat n) l       (* negative LIMIT = no limit *)
  end.

Definition is_top (f : fit) : bool := negb (fchild f).

(* _fits_for_query on the ordered selection L *)
Definition window (vr : variant) (top_only : bool) (off : Z) (lim : option Z) (L : list fit) : list fit :=
  if fix_slice vr
  then take_lim lim (drop_z off (if top_only then filter is_top L else L))
  else let w := take_lim lim (drop_z off L) in if top_only then filter is_top w else w.

(* Python list slicing with step None *)
Definition clamp (n i : Z) : Z := if (i <? 0)%Z then Z.max 0 (n + i) else Z.min i n.
Definition py_slice {A} (l : list A) (start stop : option Z) : list A :=
  let n := Z.of_nat (List.length l) in
  let s := match start with None => 0%Z | Some i => clamp n i end in
  let e := match stop with None => n | Some i => clamp n i end in
  firstn (Z.to_nat (e - s)) (skipn (Z.to_nat s) l).

(* __getitem__(slice): new (offset, limit) from the old ones and len(self) *)
Definition slice_step (vr : variant) (n : Z) (off : Z) (lim : option Z) (start stop : option Z) : Z * option Z :=
  if fix_slice vr
  then
    let s := match start with None => 0%Z | Some i => clamp n i end in
    let e := match stop with None => n | Some i => clamp n i end in
    ((off + s)%Z, Some (Z.max 0 (e - s)))
  else
    let off' := match start with
                | None => off
                | Some s => if (0 <=? s)%Z then (off + s)%Z else (n + s)%Z
                end in
    let lim' := match stop with
                | None => lim
                | Some e => if (0 <=? e)%Z then Some (n - e - off')%Z else Some (n + e)%Z
                end in
    (off', lim').

(* agg.query(p).order_by(keys...)[start:stop].fits, on a database given as the list of fits
   in the order in which the unordered query would return them *)
Definition select (q : qobj) (db : list fit) : list fit := filter (sem q) db.
Definition ordered (keys : list (okey * bool)) (l : list fit) : list fit :=
  match keys with [] => l | _ => sort_by (lex_le keys) l end.

Definition run_slices (vr : variant) (top_only : bool) (L : list fit) (slices : list (option Z * option Z)) : list fit :=
  let st := fold_left
              (fun (st : Z * option Z) (sl : option Z * option Z) =>
                 let n := Z.of_nat (List.length (window vr top_only (fst st) (snd st) L)) in
                 slice_step vr n (fst st) (snd st) (fst sl) (snd sl))
              slices (0%Z, None) in
  window vr top_only (fst st) (snd st) L.

Definition spec_slices (top_only : bool) (L : list fit) (slices : list (option Z * option Z)) : list fit :=
  fold_left (fun l sl => py_slice l (fst sl) (snd sl)) slices (if top_only then filter is_top L else L).

(* ------------------------------------------------------------------ *)
(* guards: the classes of predicates on which the current code is wrong *)
(* ------------------------------------------------------------------ *)

(* every NamedQuery that takes part in a name merge is un-inverted, and every Or-merge joins
   conditions over the same tables; computed along the same recursion as mk_junction *)
Definition all_same_tabs (l : list qobj) : bool :=
  match l with [] => true | x :: r => forallb (fun y => tabs_eqb (mtabs x) (mtabs y)) r end.

Fixpoint merge_ok (vr : variant) (ci ct : bool) (fuel : nat) (k : jk) (conds : list qobj) : bool :=
  match fuel with
  | O => false
  | S fuel' =>
      let flat := flat_map (flatten k) conds in
      let named := filter (mergeable vr) flat in
      (negb ci || forallb (fun q => match q with QNamed _ _ inv => negb inv | _ => true end) named) &&
      forallb (fun n =>
                 let group := map qinner (filter (fun q => String.eqb (qname q) n) named) in
                 (negb ct || match k with JOr => all_same_tabs group | JAnd => true end) &&
                 merge_ok vr ci ct fuel' k group)
              (nodup_str (map qname named))
  end.
Definition junction_ok (vr : variant) (ci ct : bool) (k : jk) (conds : list qobj) : bool :=
  merge_ok vr ci ct (S (depth_list conds)) k conds.

(* a predicate is `safe` when every junction met while compiling it passes junction_ok and
   negation is applied neither to an info test nor to a fit-attribute test *)
Fixpoint safe_with (vr : variant) (ci ct cn ca : bool) (p : pred) : bool :=
  match p with
  | PCmp _ _ _ | PAttr _ | PInfo _ _ => true
  | PAnd a b =>
      safe_with vr ci ct cn ca a && safe_with vr ci ct cn ca b &&
      match compile vr a, compile vr b with Ok x, Ok y => junction_ok vr ci ct JAnd [x; y] | _, _ => true end
  | POr a b =>
      safe_with vr ci ct cn ca a && safe_with vr ci ct cn ca b &&
      match compile vr a, compile vr b with Ok x, Ok y => junction_ok vr ci ct JOr [x; y] | _, _ => true end
  | PNot a =>
      safe_with vr ci ct cn ca a &&
      (negb cn || match compile vr a with Ok (QInfo _ _ _) => false | _ => true end) &&
      (negb ca || match compile vr a with Ok (QAttr _ _) => false | _ => true end)
  end.
(* ci: no inverted NamedQuery in a name merge; ct: Or-merges over equal tables; cn: no negated info
   test; ca: no negated fit-attribute test (needed only when an attribute column holds NULL) *)
Definition safe (vr : variant) (p : pred) : bool := safe_with vr true true true true p.

(* ~ applied to a junction (TypeError) somewhere in the predicate *)
Fixpoint has_not_junction (vr : variant) (p : pred) : bool :=
  match p with
  | PAnd a b | POr a b => has_not_junction vr a || has_not_junction vr b
  | PNot a => has_not_junction vr a || match compile vr a with Ok (QJ _ _) => true | _ => false end
  | _ => false
  end.

(* well-formed stored objects: child names unique (attributes of an object, indices of a list) *)
Fixpoint str_nodup (l : list string) : bool :=
  match l with [] => true | x :: r => negb (mem_str x r) && str_nodup r end.
Fixpoint wf_obj (o : obj) : bool :=
  match o with
  | OInst _ ks => str_nodup (map fst ks) && forallb (fun nc => wf_obj (snd nc)) ks
  | _ => true
  end.
Definition wf_fit (f : fit) : bool := wf_obj (finst f) && str_nodup (map fst (finfo f)).

(* ------------------------------------------------------------------ *)
(* correspondence cases                                                *)
(* ------------------------------------------------------------------ *)

Inductive outcome :=
| RIds (ids : list string)      (* ids of the returned fits, in the returned order *)
| RExc (e : err).

Fixpoint str_list_eqb (a b : list string) : bool :=
  match a, b with
  | [], [] => true
  | x :: a', y :: b' => String.eqb x y && str_list_eqb a' b'
  | _, _ => false
  end.
Definition str_leb (a b : string) : bool := match String.compare a b with Gt => false | _ => true end.
Fixpoint insert_str (x : string) (l : list string) : list string :=
  match l with [] => [x] | y :: r => if str_leb x y then x :: l else y :: insert_str x r end.
Definition sort_str (l : list string) : list string := fold_right insert_str [] l.

Definition err_eqb (a b : err) : bool :=
  match a, b with EAssertion, EAssertion | ETypeError, ETypeError | EFuel, EFuel => true | _, _ => false end.

Inductive case :=
(* agg.query(p).fits as a set *)
| CQuery (db : list fit) (p : pred) (top_only : bool) (observed : outcome)
(* agg.query(p).order_by(k1).order_by(k2)...[s1][s2]....fits as a list; the keys make the order total *)
| COrder (db : list fit) (p : pred) (top_only : bool) (keys : list (okey * bool))
         (slices : list (option Z * option Z)) (observed : outcome).

Definition model_query (vr : variant) (db : list fit) (p : pred) : result (list fit) :=
  bind (compile vr p) (fun q => Ok (select q db)).

Definition check_case_with (vr : variant) (c : case) : bool :=
  match c with
  | CQuery db p top_only obs =>
      match model_query vr db p, obs with
      | Ok l, RIds ids => str_list_eqb (sort_str (map fid (if top_only then filter is_top l else l))) (sort_str ids)
      | Err e, RExc e' => err_eqb e e'
      | _, _ => false
      end
  | COrder db p top_only keys slices obs =>
      match model_query vr db p, obs with
      | Ok l, RIds ids => str_list_eqb (map fid (run_slices vr top_only (ordered keys l) slices)) ids
      | Err e, RExc e' => err_eqb e e'
      | _, _ => false
      end
  end.
Definition check_case := check_case_with current.

(* label functions evaluated by the harness on the abstract case (never on the outcome) *)
Definition case_pred (c : case) : pred := match c with CQuery _ p _ _ => p | COrder _ p _ _ _ _ => p end.
Definition case_db (c : case) : list fit := match c with CQuery db _ _ _ => db | COrder db _ _ _ _ _ => db end.
Definition case_top (c : case) : bool := match c with CQuery _ _ t _ => t | COrder _ _ t _ _ _ => t end.
Definition model_exact (vr : variant) (c : case) : bool :=
  match model_query vr (case_db c) (case_pred c) with
  | Ok l => str_list_eqb (map fid l) (map fid (filter (eval (case_pred c)) (case_db c)))
  | Err _ => false
  end.
Definition slices_exact (vr : variant) (c : case) : bool :=
  match c with
  | COrder db p top_only keys slices _ =>
      match model_query vr db p with
      | Ok l => str_list_eqb (map fid (run_slices vr top_only (ordered keys l) slices))
                             (map fid (spec_slices top_only (ordered keys l) slices))
      | Err _ => true
      end
  | _ => true
  end.
Definition bit (b : bool) (w : N) : N := if b then w else 0%N.
Definition case_labels_with (vr : variant) (c : case) : N :=
  let p := case_pred c in
  (bit (check_case_with vr c) 1
   + bit (negb (safe_with vr true false false false p)) 2          (* inverted NamedQuery in a name merge *)
   + bit (negb (safe_with vr false true false false p)) 4          (* Or-merge over different tables *)
   + bit (has_not_junction vr p) 8                           (* ~ of a junction *)
   + bit (negb (safe_with vr false false true false p)) 16         (* ~ of an info test *)
   + bit (match compile vr p with Err EAssertion => true | _ => false end) 32
   + bit (model_exact vr c) 64
   + bit (slices_exact vr c) 128
   + bit (negb (safe_with vr false false false true p) && negb (forallb attrs_defined (case_db c))) 256)%N.   (* negated attribute test, NULL column *)
Definition case_labels := case_labels_with current.
(* variants used when a proposed repair is tried on a scratch copy (VERIF_C10_VARIANT) *)
Definition case_labels_repaired := case_labels_with repaired.
Definition case_labels_inv := case_labels_with (mkVariant true false).
Definition case_labels_slice := case_labels_with (mkVariant false true).
