(* C10 lemmas, part 2: the junction constructor (flatten, merge by name, de-duplicate)
   preserves meaning under the explicit guard `merge_ok`. *)
From Coq Require Import ZArith List Bool String Lia.
From PAFC10 Require Import Model Proofs.
Import ListNotations.
Open Scope string_scope.
Open Scope list_scope.

Definition grp (vr : variant) (k : jk) (key : string * tabs) (named : list qobj) : list qobj :=
  filter (fun q => key_eqb (mkey vr k q) key) named.

Definition merge_one (vr : variant) (fuel : nat) (k : jk) (named : list qobj) (key : string * tabs) : result qobj :=
  bind (mk_junction vr fuel k (map qinner (grp vr k key named)))
       (fun sub => let m := QNamed (fst key) sub false in if tables_ok m then Ok m else Err EAssertion).

(* keys: decidable equality, membership, nodup *)
Lemma tabs_eqb_refl t : tabs_eqb t t = true.
Proof. destruct t as [a b c]; destruct a, b, c; reflexivity. Qed.
Lemma key_eqb_eq a b : key_eqb a b = true <-> a = b.
Proof.
  destruct a as [n t], b as [m u]. unfold key_eqb. simpl. split.
  - intro H. apply andb_true_iff in H. destruct H as [H1 H2].
    apply String.eqb_eq in H1. apply tabs_eqb_eq in H2. congruence.
  - intro H. inversion H. subst. rewrite String.eqb_refl, tabs_eqb_refl. reflexivity.
Qed.
Lemma mem_key_in x l : mem_key x l = true <-> In x l.
Proof.
  induction l as [|y r IH]; simpl; [split; [congruence | tauto]|].
  rewrite orb_true_iff, IH, key_eqb_eq. tauto.
Qed.
Lemma nodup_key_in x l : In x (nodup_key l) <-> In x l.
Proof.
  induction l as [|y r IH]; simpl; [tauto|].
  destruct (mem_key y r) eqn:E.
  - rewrite IH. apply mem_key_in in E. split; [tauto | intros [H | H]; subst; auto].
  - simpl. rewrite IH. tauto.
Qed.

Definition finish (k : jk) (all : list qobj) : result qobj :=
  match all with [] => Ok (QJ k []) | [x] => Ok x | x :: y :: r => Ok (QJ k (x :: y :: r)) end.

Lemma mk_junction_S vr fuel k conds :
  mk_junction vr (S fuel) k conds =
  let flat := flat_map (flatten k) conds in
  let named := filter (mergeable vr) flat in
  let others := filter (fun q => negb (mergeable vr q)) flat in
  bind (map_result (merge_one vr fuel k named) (nodup_key (map (mkey vr k) named)))
       (fun merged => finish k (dedupe (others ++ merged))).
Proof. reflexivity. Qed.

Lemma merge_ok_S vr ci ct fuel k conds :
  merge_ok vr ci ct (S fuel) k conds =
  let flat := flat_map (flatten k) conds in
  let named := filter (mergeable vr) flat in
  (negb ci || forallb (fun q => match q with QNamed _ _ inv => negb inv | _ => true end) named) &&
  forallb (fun key =>
             let group := map qinner (grp vr k key named) in
             (negb ct || match k with JOr => all_same_tabs group | JAnd => true end) &&
             merge_ok vr ci ct fuel k group)
          (nodup_key (map (mkey vr k) named)).
Proof. reflexivity. Qed.

Lemma finish_spec k all q :
  finish k all = Ok q ->
  mtabs q = tabs_union all /\ (forall f o, holds f q o = jsem k (fun m => holds f m o) all).
Proof.
  unfold finish. destruct all as [|x [|y r]]; intro H; inversion H; subst; clear H.
  - split; [reflexivity | intros; apply holds_QJ].
  - split; [simpl; symmetry; apply tabs_or_0_r | intros; rewrite jsem_single; reflexivity].
  - split; [reflexivity | intros; apply holds_QJ].
Qed.

Lemma merge_one_ok vr fuel k named n y :
  merge_one vr fuel k named n = Ok y ->
  exists sub, mk_junction vr fuel k (map qinner (grp vr k n named)) = Ok sub /\ y = QNamed (fst n) sub false.
Proof.
  unfold merge_one. destruct (mk_junction vr fuel k (map qinner (grp vr k n named))) as [sub|e]; [|simpl; congruence].
  unfold bind. cbv zeta. destruct (tables_ok (QNamed (fst n) sub false)); [|congruence].
  intro H. inversion H. exists sub. auto.
Qed.

Lemma mergeable_named vr q : mergeable vr q = true -> exists n i inv, q = QNamed n i inv.
Proof. destruct q; simpl; try congruence. intros _. eauto. Qed.

Lemma mergeable_tabs0 vr q : mergeable vr q = true -> mtabs q = tabs0.
Proof. intro H. apply mergeable_named in H. destruct H as [n [i [inv E]]]. subst. reflexivity. Qed.

Lemma partition_same_set {A} (p : A -> bool) l x :
  In x l <-> In x (filter (fun q => negb (p q)) l ++ filter p l).
Proof.
  rewrite in_app_iff, !filter_In. destruct (p x); simpl; intuition congruence.
Qed.

(* ---------- tables of the constructed junction ---------- *)
Lemma mk_junction_tabs vr : forall fuel k conds q,
  mk_junction vr fuel k conds = Ok q -> mtabs q = tabs_union conds.
Proof.
  intros fuel k conds q H. destruct fuel as [|fuel]; [simpl in H; congruence|].
  rewrite mk_junction_S in H. cbv zeta in H.
  set (flat := flat_map (flatten k) conds) in *.
  set (named := filter (mergeable vr) flat) in *.
  set (others := filter (fun q => negb (mergeable vr q)) flat) in *.
  destruct (map_result (merge_one vr fuel k named) (nodup_key (map (mkey vr k) named))) as [merged|e] eqn:EM;
    simpl in H; [|congruence].
  apply finish_spec in H. destruct H as [Ht _]. rewrite Ht.
  rewrite (tabs_union_same_set _ (others ++ merged)) by (intro; apply dedupe_in).
  rewrite tabs_union_app.
  assert (Zm : tabs_union merged = tabs0).
  { apply tabs_union_zero. intros y Hy. apply map_result_ok in EM.
    clear -EM Hy. induction EM as [|n y' ns ys Hn _ IH]; simpl in Hy; [tauto|].
    destruct Hy as [Hy | Hy]; [subst y'|auto].
    apply merge_one_ok in Hn. destruct Hn as [sub [_ E]]. subst. reflexivity. }
  rewrite Zm, tabs_or_0_r.
  rewrite <- (flat_map_flatten_tabs k conds). fold flat.
  rewrite (tabs_union_same_set flat (others ++ named)) by (intro; apply partition_same_set).
  rewrite tabs_union_app.
  assert (Zn : tabs_union named = tabs0).
  { apply tabs_union_zero. intros y Hy. unfold named in Hy. apply filter_In in Hy.
    apply (mergeable_tabs0 vr). tauto. }
  rewrite Zn, tabs_or_0_r. reflexivity.
Qed.

(* ---------- grouping by name ---------- *)
Lemma grouping vr k (H : qobj -> bool) named :
  jsem k H named = jsem k (fun key => jsem k H (grp vr k key named)) (nodup_key (map (mkey vr k) named)).
Proof.
  apply eq_iff_eq_true. destruct k.
  - rewrite !jsem_and_true. split.
    + intros G n _. apply jsem_and_true. intros q Hq. apply G. unfold grp in Hq. apply filter_In in Hq. tauto.
    + intros G q Hq.
      assert (Hn : In (mkey vr JAnd q) (nodup_key (map (mkey vr JAnd) named))).
      { apply nodup_key_in. apply in_map. exact Hq. }
      specialize (G _ Hn). rewrite jsem_and_true in G. apply G.
      unfold grp. apply filter_In. split; [exact Hq | apply key_eqb_eq; reflexivity].
  - rewrite !jsem_or_true. split.
    + intros [q [Hq Hh]]. exists (mkey vr JOr q). split.
      * apply nodup_key_in. apply in_map. exact Hq.
      * apply jsem_or_true. exists q. split; [|exact Hh].
        unfold grp. apply filter_In. split; [exact Hq | apply key_eqb_eq; reflexivity].
    + intros [n [_ Hg]]. apply jsem_or_true in Hg. destruct Hg as [q [Hq Hh]].
      exists q. split; [|exact Hh]. unfold grp in Hq. apply filter_In in Hq. tauto.
Qed.

Lemma jsem_Forall2 {A B} k (R : A -> B -> Prop) (H : B -> bool) (G : A -> bool) xs ys :
  Forall2 R xs ys -> (forall x y, In x xs -> R x y -> H y = G x) -> jsem k H ys = jsem k G xs.
Proof.
  intros F. induction F as [|x y xs ys Hxy F IH]; intro E; [destruct k; reflexivity|].
  change (y :: ys) with ([y] ++ ys). change (x :: xs) with ([x] ++ xs).
  rewrite !jsem_app, !jsem_single.
  rewrite (E x y (or_introl eq_refl) Hxy), IH; auto.
  intros x' y' Hx'. apply E. right. exact Hx'.
Qed.

Lemma holds_member f n x o :
  x = QNamed n (qinner x) false -> wf_obj o = true ->
  holds f x o = match lookup n (kids o) with
                | Some c => in_tabs (mtabs (qinner x)) c && holds f (qinner x) c
                | None => false
                end.
Proof.
  intros E W. destruct x; simpl in E; try discriminate.
  injection E as En Ei. subst. rewrite holds_named by exact W. rewrite xorb_false_l. reflexivity.
Qed.

(* ---------- the main lemma ---------- *)
Lemma all_same_from_common l t : (forall y, In y l -> mtabs y = t) -> all_same_tabs l = true.
Proof.
  destruct l as [|x r]; intro H; [reflexivity|]. simpl. apply forallb_forall. intros y Hy.
  rewrite (H x (or_introl eq_refl)), (H y (or_intror Hy)). apply tabs_eqb_refl.
Qed.

Lemma mk_junction_sem f vr ci ct :
  (ci = true \/ fix_inverted_merge vr = true) ->
  (ct = true \/ fix_or_tables vr = true) ->
  forall fuel k conds q,
    mk_junction vr fuel k conds = Ok q ->
    merge_ok vr ci ct fuel k conds = true ->
    forall o, wf_obj o = true -> holds f q o = jsem k (fun m => holds f m o) conds.
Proof.
  intros Hci Hct. induction fuel as [|fuel IH]; intros k conds q Hq Hok o Wo; [simpl in Hq; congruence|].
  rewrite mk_junction_S in Hq. rewrite merge_ok_S in Hok. cbv zeta in Hq, Hok.
  set (flat := flat_map (flatten k) conds) in *.
  set (named := filter (mergeable vr) flat) in *.
  set (others := filter (fun q => negb (mergeable vr q)) flat) in *.
  set (names := nodup_key (map (mkey vr k) named)) in *.
  destruct (map_result (merge_one vr fuel k named) names) as [merged|e] eqn:EM; simpl in Hq; [|congruence].
  apply finish_spec in Hq. destruct Hq as [_ Hs]. rewrite Hs. clear Hs.
  apply andb_true_iff in Hok. destruct Hok as [Hinv0 Hgroups].
  rewrite forallb_forall in Hgroups.
  (* every merged query is un-inverted *)
  assert (Hinv : forall x, In x named -> exists n i, x = QNamed n i false).
  { intros x Hx. assert (Hm : mergeable vr x = true) by (unfold named in Hx; apply filter_In in Hx; tauto).
    destruct (mergeable_named vr x Hm) as [n [i [inv E]]]. subst x. exists n, i.
    destruct inv; [|reflexivity]. exfalso. destruct Hci as [Hc | Hc].
    - subst ci. simpl in Hinv0. rewrite forallb_forall in Hinv0.
      specialize (Hinv0 _ Hx). simpl in Hinv0. congruence.
    - simpl in Hm. rewrite Hc in Hm. simpl in Hm. rewrite andb_false_r in Hm. congruence. }
  rewrite <- (flat_map_flatten_sem f k o conds). fold flat.
  set (H := fun m => holds f m o).
  rewrite (jsem_same_set k H _ (others ++ merged)) by (intro; apply dedupe_in).
  rewrite jsem_app.
  rewrite (jsem_partition k H (mergeable vr) flat). fold named. fold others.
  f_equal.
  rewrite (grouping vr k H named). fold names.
  apply (jsem_Forall2 k (fun key y => merge_one vr fuel k named key = Ok y)).
  { apply map_result_ok. exact EM. }
  intros key y Hn Hy.
  apply merge_one_ok in Hy. destruct Hy as [sub [Hsub Ey]]. subst y.
  specialize (Hgroups key Hn). cbv zeta in Hgroups.
  apply andb_true_iff in Hgroups. destruct Hgroups as [Hsame0 Hrec].
  pose proof (mk_junction_tabs vr fuel k _ sub Hsub) as Htabs.
  set (n := fst key).
  (* the group is not empty and its members are QNamed n _ false *)
  assert (Hne : grp vr k key named <> []).
  { unfold names in Hn. apply (proj1 (nodup_key_in _ _)) in Hn. apply (proj1 (in_map_iff _ _ _)) in Hn.
    destruct Hn as [x [Ex Hx]]. intro E.
    assert (In x (grp vr k key named)) by (unfold grp; apply filter_In; split; [exact Hx | apply key_eqb_eq; exact Ex]).
    rewrite E in H0. exact H0. }
  assert (Hmem : forall x, In x (grp vr k key named) -> x = QNamed n (qinner x) false).
  { intros x Hx. unfold grp in Hx. apply filter_In in Hx. destruct Hx as [Hx En].
    destruct (Hinv x Hx) as [n' [i E]]. subst x. apply key_eqb_eq in En. unfold n. rewrite <- En. reflexivity. }
  (* in an Or-merge all members read the same tables: by the guard or by the repaired grouping *)
  assert (Hsame : k = JOr -> all_same_tabs (map qinner (grp vr k key named)) = true).
  { intro Ek. subst k. destruct Hct as [Hc | Hc].
    - subst ct. simpl in Hsame0. exact Hsame0.
    - apply (all_same_from_common _ (snd key)). intros y Hy.
      apply (proj1 (in_map_iff _ _ _)) in Hy. destruct Hy as [x [Ex Hx]]. subst y.
      unfold grp in Hx. apply filter_In in Hx. destruct Hx as [_ En]. apply key_eqb_eq in En.
      rewrite <- En. unfold mkey. rewrite Hc. reflexivity. }
  unfold H at 1. rewrite holds_named by exact Wo. rewrite xorb_false_l.
  destruct (lookup n (kids o)) as [c|] eqn:EL.
  - (* the unique child called n *)
    assert (Wc : wf_obj c = true) by (eapply wf_child; eauto).
    rewrite (IH k _ sub Hsub Hrec c Wc). rewrite Htabs.
    transitivity (jsem k (fun i => in_tabs (mtabs i) c && holds f i c) (map qinner (grp vr k key named))).
    + destruct k.
      * rewrite jsem_and_split. f_equal. apply in_tabs_union.
      * specialize (Hsame eq_refl).
        destruct (map qinner (grp vr JOr key named)) as [|x r] eqn:Eg.
        { exfalso. apply Hne. destruct (grp vr JOr key named); [reflexivity | simpl in Eg; congruence]. }
        destruct (all_same_tabs_union x r Hsame) as [Hu Hall]. rewrite Hu.
        rewrite <- jsem_or_factor. apply jsem_ext_in. intros y Hy. rewrite (Hall y Hy). reflexivity.
    + rewrite jsem_map. apply jsem_ext_in. intros x Hx. unfold H.
      rewrite (holds_member f n x o (Hmem x Hx) Wo), EL. reflexivity.
  - (* no such child: every member of the group is false *)
    rewrite (jsem_ext_in k H (fun _ => false)).
    + symmetry. apply jsem_const_false. exact Hne.
    + intros x Hx. unfold H. rewrite (holds_member f n x o (Hmem x Hx) Wo), EL. reflexivity.
Qed.
