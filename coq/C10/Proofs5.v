(* C10 lemmas, part 5: the end-to-end pipeline (select, top-level filter, order, slices) for the
   code as it is now, and op sequences in canonical order. *)
From Coq Require Import ZArith List Bool String Lia.
From PAFC10 Require Import Model Proofs Proofs2 Proofs3 Proofs4.
Import ListNotations.
Open Scope list_scope.

(* the guard of the exactness theorem for the current code, on a whole database: unique child names,
   LIKE-plain strings in contains / in_ tests, and the computable condition that negated junctions
   could be rebuilt (neg_ok inside safe_with); nothing about Or-merges, info tests, NULL columns *)
Definition guard_db (p : pred) (db : list fit) : Prop :=
  safe_with current false false true false p = true /\
  forallb wf_fit db = true /\
  forallb (fun f => forallb (acond_plain f) (attr_tests p)) db = true.

Theorem exact_current p q f :
  compile current p = Ok q -> safe_with current false false true false p = true -> wf_fit f = true ->
  forallb (acond_plain f) (attr_tests p) = true -> sem q f = eval p f.
Proof.
  intros Hq Hs W Hp.
  exact (compile_exact current false false false (or_intror eq_refl) (or_intror eq_refl) p q f Hq Hs W
                       (or_intror (or_intror eq_refl)) Hp).
Qed.

Theorem pipeline_exact p q db top_only keys slices :
  compile current p = Ok q -> guard_db p db ->
  run_slices current top_only (ordered keys (select q db)) slices =
  spec_slices top_only (ordered keys (filter (eval p) db)) slices.
Proof.
  intros Hq [Hs [W Hpl]].
  rewrite (select_exact current false false false (or_intror eq_refl) (or_intror eq_refl) p q db Hq Hs W
                        (or_intror (or_intror eq_refl)) Hpl).
  apply slices_current.
Qed.

(* ---------- canonical op sequences: query, order_by*, slice* (no step) ---------- *)
Definition order_ops (keys : list (okey * bool)) : list op := map (fun kr => OOrder (fst kr) (snd kr)) keys.
Definition slice_ops (slices : list (option Z * option Z)) : list op := map (fun s => OSlice (fst s) (snd s) None) slices.

Lemma fold_orders vr top_only db aq bad ks keys rest :
  fold_ops vr top_only db (mkA aq bad ks 0%Z None) (order_ops keys ++ rest) =
  fold_ops vr top_only db (mkA aq bad (ks ++ keys) 0%Z None) rest.
Proof.
  revert ks. induction keys as [|[k r] keys IH]; intro ks; simpl.
  - rewrite app_nil_r. reflexivity.
  - rewrite IH. rewrite <- app_assoc. reflexivity.
Qed.

Definition slice_fold (vr : variant) (top_only : bool) (L : list fit) :=
  fold_left (fun (st : Z * option Z) (sl : option Z * option Z) =>
               let n := Z.of_nat (List.length (window vr top_only (fst st) (snd st) L)) in
               slice_step vr n (fst st) (snd st) (fst sl) (snd sl)).

Lemma fold_slices vr top_only db q keys slices : forall off lim,
  fold_ops vr top_only db (mkA (Some q) false keys off lim) (slice_ops slices) =
  let st := slice_fold vr top_only (ordered keys (select q db)) slices (off, lim) in
  Ok (mkA (Some q) false keys (fst st) (snd st)).
Proof.
  induction slices as [|[a b] r IH]; intros off lim; [reflexivity|].
  change (slice_ops ((a, b) :: r)) with (OSlice a b None :: slice_ops r).
  cbn [fold_ops op_step a_bad a_q a_keys a_off a_lim bind fst snd].
  unfold a_fits. cbn [a_bad a_q a_keys a_off a_lim].
  rewrite IH. unfold slice_fold. cbn [fold_left fst snd]. rewrite <- surjective_pairing. reflexivity.
Qed.

Theorem run_ops_canonical vr top_only db p q keys slices :
  has_shadow p = false -> quote_bad vr p = false -> compile vr p = Ok q ->
  run_ops vr top_only db (OQuery p :: order_ops keys ++ slice_ops slices) =
  Ok (run_slices vr top_only (ordered keys (select q db)) slices, keys).
Proof.
  intros Hsh Hqb Hq. unfold run_ops.
  assert (Epreds : op_preds (OQuery p :: order_ops keys ++ slice_ops slices) = [p]).
  { unfold op_preds. simpl. f_equal. rewrite flat_map_app.
    assert (Z1 : forall l, flat_map (fun o => match o with OQuery p0 => [p0] | _ => [] end) (order_ops l) = []).
    { induction l as [|[k r] l IHl]; simpl; auto. }
    assert (Z2 : forall l, flat_map (fun o => match o with OQuery p0 => [p0] | _ => [] end) (slice_ops l) = []).
    { induction l as [|[a b] l IHl]; simpl; auto. }
    rewrite Z1, Z2. reflexivity. }
  rewrite Epreds. simpl existsb. rewrite Hsh. simpl.
  rewrite Hq. simpl. rewrite Hqb.
  change (mkA (Some q) false [] 0%Z None) with (mkA (Some q) false ([] ++ []) 0%Z None).
  rewrite app_nil_l.
  rewrite (fold_orders vr top_only db (Some q) false [] keys (slice_ops slices)). simpl app.
  rewrite fold_slices. simpl. unfold a_fits, run_slices, slice_fold. simpl. reflexivity.
Qed.

Theorem ops_canonical_exact top_only db p q keys slices :
  has_shadow p = false -> compile current p = Ok q -> guard_db p db ->
  run_ops current top_only db (OQuery p :: order_ops keys ++ slice_ops slices) =
  Ok (spec_slices top_only (ordered keys (filter (eval p) db)) slices, keys).
Proof.
  intros Hsh Hq G.
  assert (Hqb : quote_bad current p = false) by reflexivity.
  rewrite (run_ops_canonical current top_only db p q keys slices Hsh Hqb Hq).
  rewrite (pipeline_exact p q db top_only keys slices Hq G). reflexivity.
Qed.


