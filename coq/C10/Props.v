From Coq Require Import ZArith List Bool String.
From PAFC10 Require Import Model Proofs.
Theorem C10_placeholder : forall n b, iter_negb (S n) b = negb (iter_negb n b).
Proof. exact iter_negb_S. Qed.
