(* C10 property theorems: statements only, each closed by `exact`.
   `current` is the code as it is, `repaired` the code after proposed_fixes/C10-*.diff. *)
From Coq Require Import ZArith List Bool String Permutation Sorted.
From PAFC10 Require Import Model Proofs Proofs2 Proofs3 Proofs4 Witness.
Import ListNotations.

(* FULL STATEMENT (all predicates, all well-formed databases): the compiled query holds of a
   fit exactly when the predicate is true on the stored objects -- REFUTED for the current code *)
Theorem C10_exact_refuted :
  exists p q f, compile current p = Ok q /\ wf_pred p = true /\ wf_fit f = true /\ sem q f <> eval p f.
Proof. exact exact_refuted. Qed.

(* ... and proved for every predicate tree and every database with unique child names under the
   explicit guard `safe` (no inverted NamedQuery in a name merge, Or-merges over equal tables,
   no negated info test, no negated attribute test) *)
Theorem C10_exact_partial : forall p q f,
  compile current p = Ok q -> safe current p = true -> wf_fit f = true -> sem q f = eval p f.
Proof. exact (fun p q f Hq Hs W => compile_exact current true true (or_introl eq_refl) p q f Hq Hs W (or_introl eq_refl)). Qed.

(* negated attribute tests are exact too when no attribute column holds NULL *)
Theorem C10_exact_partial_no_null : forall p q f,
  compile current p = Ok q -> safe_with current true true true false p = true -> wf_fit f = true ->
  attrs_defined f = true -> sem q f = eval p f.
Proof. exact (fun p q f Hq Hs W D => compile_exact current true false (or_introl eq_refl) p q f Hq Hs W (or_intror D)). Qed.

(* result lists: exactly the satisfying fits, in database order, each once *)
Theorem C10_select_partial : forall p q db,
  compile current p = Ok q -> safe current p = true -> forallb wf_fit db = true ->
  select q db = filter (eval p) db.
Proof. exact (fun p q db Hq Hs W => select_exact current true true (or_introl eq_refl) p q db Hq Hs W (or_introl eq_refl)). Qed.

Theorem C10_each_once : forall q db, NoDup (map fid db) -> NoDup (map fid (select q db)).
Proof. exact select_nodup. Qed.

(* after the repair of _match_conditions the guard no longer mentions inverted queries *)
Theorem C10_exact_repaired_partial : forall p q f,
  compile repaired p = Ok q -> safe_with repaired false true true true p = true -> wf_fit f = true ->
  sem q f = eval p f.
Proof. exact (fun p q f Hq Hs W => compile_exact repaired false true (or_intror eq_refl) p q f Hq Hs W (or_introl eq_refl)). Qed.

Theorem C10_exact_repaired_refuted :
  exists p q f, compile repaired p = Ok q /\ wf_pred p = true /\ wf_fit f = true /\ sem q f <> eval p f.
Proof. exact exact_repaired_still_refuted. Qed.

(* the junction constructor itself (flatten, group by name, de-duplicate, collapse singletons)
   preserves meaning at every well-formed object, for every list of conditions *)
Theorem C10_junction_partial : forall f vr ci,
  (ci = true \/ fix_inverted_merge vr = true) ->
  forall fuel k conds q,
    mk_junction vr fuel k conds = Ok q -> merge_ok vr ci true fuel k conds = true ->
    forall o, wf_obj o = true -> holds f q o = jsem k (fun m => holds f m o) conds.
Proof. exact mk_junction_sem. Qed.

(* FULL STATEMENT: every well-formed predicate compiles -- REFUTED (~ of a junction, three tables) *)
Theorem C10_total_refuted :
  (exists p, wf_pred p = true /\ compile current p = Err ETypeError) /\
  (exists p, wf_pred p = true /\ compile current p = Err EAssertion).
Proof. exact total_refuted. Qed.

Theorem C10_total_partial : forall vr p,
  wf_pred p = true -> junction_free p = true -> exists q, compile vr p = Ok q /\ invertible q.
Proof. exact compile_junction_free. Qed.

(* the model's errors are the code's exceptions: fuel never runs out *)
Theorem C10_no_fuel : forall vr p, compile vr p <> Err EFuel.
Proof. exact compile_no_fuel. Qed.

(* ordering: a permutation of the selection, adjacent fits in key order (first key first) *)
Theorem C10_order : forall keys l,
  Permutation l (ordered keys l) /\
  (keys <> [] -> Sorted (fun a b => lex_le keys a b = true) (ordered keys l)).
Proof. exact ordered_spec. Qed.

(* FULL STATEMENT: aggregator[s1][s2]... equals Python slicing of the fits -- REFUTED *)
Theorem C10_slice_refuted :
  exists L sl, run_slices current false L [sl] <> spec_slices false L [sl].
Proof. exact slice_refuted. Qed.

Theorem C10_slice_children_refuted :
  exists L sl, open_slice sl /\ run_slices current true L [sl] <> spec_slices true L [sl].
Proof. exact slice_children_refuted'. Qed.

(* ... proved for chains of [start:] slices with start >= 0 when child fits are not filtered *)
Theorem C10_slice_partial : forall (L : list fit) slices,
  Forall open_slice slices -> run_slices current false L slices = spec_slices false L slices.
Proof. exact slices_current_open. Qed.

(* ... and proved in full for the repaired __getitem__ / _fits_for_query *)
Theorem C10_slice_repaired : forall top_only L slices,
  run_slices repaired top_only L slices = spec_slices top_only L slices.
Proof. exact slices_repaired. Qed.

Print Assumptions C10_exact_partial.
Print Assumptions C10_exact_refuted.
Print Assumptions C10_junction_partial.
Print Assumptions C10_slice_repaired.
Print Assumptions C10_order.
