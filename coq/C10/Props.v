(* C10 property theorems: statements only, each closed by `exact`.
   `current` = the code as it is now: repairs f11f464 (junction keeps inversion), 127fbf4 (slicing),
   60fb795 (escaped constants), 766ce6b (Or merges only over equal tables), 21e37aa (De Morgan ~),
   79488b4 (IS NOT TRUE), 596613e (info NOT IN) applied.  `pre4`, `prequote`, `legacy` = the code before
   the last four / five / all of them: statements about those are the record of the repaired defects. *)
From Coq Require Import ZArith List Bool String Permutation Sorted.
From PAFC10 Require Import Model Proofs Proofs2 Proofs3 Proofs4 Proofs5 Proofs6 Proofs7 Proofs8 Proofs9 Witness Witness2.
Import ListNotations.

(* ===== selection ===== *)

(* the compiled query holds of a fit exactly when the predicate is true on the stored objects: for every
   predicate tree (and / or / not at every level, merges by name, negated junctions, info and attribute
   tests, NULL columns) and every fit with unique child names.  Guard: contains / in_ tests on strings
   on which LIKE is plain substring search, and the computable condition that a negated junction
   re-merges (neg_ok inside safe_with; its other clauses are vacuous for `current`) *)
Theorem C10_exact_partial : forall p q f,
  compile current p = Ok q -> safe_with current false false true false p = true -> wf_fit f = true ->
  forallb (acond_plain f) (attr_tests p) = true -> sem q f = eval p f.
Proof. exact exact_current. Qed.

(* FULL STATEMENT without the LIKE guard -- REFUTED (contains("F0") selects the fit named "f0");
   Witness.v also has the shadowed path segment *)
Theorem C10_exact_refuted :
  exists p q f, compile current p = Ok q /\ wf_pred p = true /\ wf_fit f = true /\ sem q f <> eval p f.
Proof. exact exact_refuted. Qed.

(* the junction constructor itself (flatten, group by key, de-duplicate, collapse singletons)
   preserves meaning at every well-formed object, for every list of conditions *)
Theorem C10_junction_partial : forall f vr ci ct,
  (ci = true \/ fix_inverted_merge vr = true) ->
  (ct = true \/ fix_or_tables vr = true) ->
  forall fuel k conds q,
    mk_junction vr fuel k conds = Ok q -> merge_ok vr ci ct fuel k conds = true ->
    forall o, wf_obj o = true -> holds f q o = jsem k (fun m => holds f m o) conds.
Proof. exact mk_junction_sem. Qed.

(* negation is exact for every compiled condition, junctions included (De Morgan), under neg_ok *)
Theorem C10_invert_partial : forall f vr ci ct ca,
  (ci = true \/ fix_inverted_merge vr = true) ->
  (ct = true \/ fix_or_tables vr = true) ->
  (ca = true \/ attrs_defined f = true \/ fix_not_null vr = true) ->
  forall q q', invert vr q = Ok q' -> neg_ok vr ci ct true ca q = true ->
  forall o, wf_obj o = true -> holds f q' o = negb (holds f q o).
Proof. exact invert_sem. Qed.

(* SQLite LIKE is exact substring search when neither string has a wildcard or an upper-case letter *)
Theorem C10_like_plain : forall p s, plain p = true -> plain s = true -> like_contains p s = substrb p s.
Proof. exact like_contains_plain. Qed.

(* ===== end to end: select, top-level filter, order, slices ===== *)

Theorem C10_pipeline_partial : forall p q db top_only keys slices,
  compile current p = Ok q -> guard_db p db ->
  run_slices current top_only (ordered keys (select q db)) slices =
  spec_slices top_only (ordered keys (filter (eval p) db)) slices.
Proof. exact pipeline_exact. Qed.

(* the aggregator state machine on query, order_by*, slice* (no step) is that pipeline *)
Theorem C10_ops_canonical_partial : forall top_only db p q keys slices,
  has_shadow p = false -> compile current p = Ok q -> guard_db p db ->
  run_ops current top_only db (OQuery p :: order_ops keys ++ slice_ops slices) =
  Ok (spec_slices top_only (ordered keys (filter (eval p) db)) slices, keys).
Proof. exact ops_canonical_exact. Qed.

(* FULL STATEMENT for arbitrary op sequences (Python list semantics) -- REFUTED: a slice is
   forgotten by a later order_by / query, and the step of a slice is ignored *)
Theorem C10_ops_refuted :
  exists db ops, forall r, run_ops current false db ops = Ok r -> map fid (fst r) <> map fid (spec_ops false db ops).
Proof. exact ops_refuted'. Qed.

Theorem C10_each_once : forall q db, NoDup (map fid db) -> NoDup (map fid (select q db)).
Proof. exact select_nodup. Qed.

(* ordering: a permutation of the selection, adjacent fits in key order (first key first) *)
Theorem C10_order : forall keys l,
  Permutation l (ordered keys l) /\
  (keys <> [] -> Sorted (fun a b => lex_le keys a b = true) (ordered keys l)).
Proof. exact ordered_spec. Qed.

(* ===== ordering with NULL keys (SQLite: NULL is smaller than every value) ===== *)

(* every earlier fit of the ordered result is <= every later one in the lexicographic key order
   (lex_le: first key first, a reversed key compared the other way round, NULL smallest) *)
Theorem C10_order_strong : forall keys l,
  keys <> [] -> StronglySorted (fun a b => lex_le keys a b = true) (ordered keys l).
Proof. exact ordered_strongly. Qed.

(* first key ascending: no fit with a NULL key after a fit with a value (NULLs first);
   first key reversed: no fit with a NULL key before a fit with a value (NULLs last) *)
Theorem C10_order_nulls : forall k rev r l l1 a l2 b l3,
  ordered ((k, rev) :: r) l = l1 ++ a :: l2 ++ b :: l3 ->
  (rev = false -> key_null k b = true -> key_null k a = true) /\
  (rev = true -> key_null k a = true -> key_null k b = true).
Proof. exact order_nulls. Qed.

(* the code (ORDER BY) guarantees nothing about fits that tie on every key; when the keys separate the
   selected fits, ANY permutation of the selection that is in key order is the model's result *)
Theorem C10_order_unique : forall keys l l',
  keys <> [] -> separates keys l -> NoDup l -> Permutation l l' ->
  Sorted (fun a b => lex_le keys a b = true) l' -> l' = ordered keys l.
Proof. exact ordered_unique. Qed.

(* an order_by on the id (a primary key) among the keys separates the fits *)
Theorem C10_order_id_total : forall keys l,
  keys_total keys = true -> NoDup (map fid l) -> separates keys l.
Proof. exact id_key_separates. Qed.

(* ===== parent / child relation, best fits ===== *)

(* ChildQuery: exactly the fits of the table whose parent is in the selected set *)
Theorem C10_children_exact : forall P db f,
  In f (children_of P db) <-> In f db /\ exists par, In par P /\ fparent f = Some (fid par).
Proof. exact children_exact. Qed.

(* BestFitQuery on the children C: exactly the children with a likelihood that no sibling exceeds *)
Theorem C10_best_exact : forall C c,
  In c (best_of C) <->
  In c C /\ exists m, fmll c = Some m /\
    forall c' m', In c' C -> fparent c' = fparent c -> fmll c' = Some m' -> (m' <= m)%Z.
Proof. exact best_exact. Qed.

(* every grid search with a child whose likelihood is not NULL gets a best fit *)
Theorem C10_best_exists : forall C c m,
  In c C -> fmll c = Some m -> exists b, In b (best_of C) /\ fparent b = fparent c.
Proof. exact best_exists. Qed.

(* one best fit per grid search when no two siblings tie on a defined likelihood *)
Theorem C10_best_unique_partial : forall C a b,
  no_ties C -> In a (best_of C) -> In b (best_of C) -> fparent a = fparent b -> a = b.
Proof. exact best_unique. Qed.

(* FULL STATEMENT (at most one best fit per grid search) -- REFUTED: every child attaining the maximum is returned *)
Theorem C10_best_unique_refuted :
  exists C a b, In a (best_of C) /\ In b (best_of C) /\ fparent a = fparent b /\ a <> b.
Proof. exact best_unique_refuted. Qed.

(* every selection (ordinary, children, best fits, and-ed with queries) returns each fit at most once *)
Theorem C10_grid_each_once : forall g db, NoDup (map fid db) -> NoDup (map fid (gsel g db)).
Proof. exact gsel_nodup. Qed.

(* end to end: any sequence of query / order_by / grid_searches / children / best_fits followed by [a:b] slices
   returns the Python slices of the ordered list meaning (spec_sel: query = filter by the predicate evaluated on
   the stored objects, grid_searches = filter is_grid_search, children = children_of, best_fits = best_of), under
   the computable guard (LIKE-plain strings, negated junctions re-merge, the and-merges pass junction_ok) and
   gsql_ok (no BestFitQuery pasted into a sub-select; vacuous with bfix = the proposed repair) *)
Theorem C10_grid_pipeline_partial : forall bfix top db ops st' slices,
  NoDup (map fid db) -> forallb wf_fit db = true ->
  existsb has_shadow (gop_preds ops) = false ->
  fold_gops current bfix db (g_init top) ops = Ok st' -> gguard bfix db (g_init top) ops = true ->
  gsql_ok bfix (g_pred st') = true ->
  run_gops current bfix top db (ops ++ gslice_ops slices) =
  Ok (spec_slices (spec_top top ops) (ordered (spec_keys [] ops) (spec_sel db db ops)) slices, spec_keys [] ops).
Proof. exact grid_pipeline. Qed.

(* FULL STATEMENT without gsql_ok -- REFUTED for the code as it is (best_fits() then query raises);
   exact with the proposed repair *)
Theorem C10_grid_compose_refuted :
  exists db ops, gguard false db (g_init true) ops = true /\
    run_gops current false true db ops = Err ESql /\
    run_gops current true true db ops =
      Ok (ordered (spec_keys [] ops) (spec_sel db db ops), spec_keys [] ops).
Proof. exact grid_compose_refuted. Qed.

(* the proposed repair of slicing (run_gops_s, proposed_fixes/C10-slice-positional.diff): a sliced aggregator that is
   queried / ordered / navigated further is first replaced by the ids of its fits; re-selected by id and ordered by the
   same keys (the id among them) these are exactly the fits of the slice in the same order, so the later operation
   acts on the slice as on a Python list *)
Theorem C10_slicefix_freeze_exact : forall db st,
  NoDup (map fid db) -> keys_total (g_keys st) = true ->
  g_fits current db (freeze current db st) = g_fits current db st.
Proof. exact freeze_exact. Qed.

(* ... and a slice with a step > 1 or a negative step returns the Python list slice of the current fits (same
   repair: IdsQuery of self.fits[item], every order key flipped for a negative step) *)
Theorem C10_slicefix_step_partial : forall db st start stop stp st',
  NoDup (map fid db) -> keys_total (g_keys st) = true -> (1 < stp)%Z ->
  gop_step_s current false db st (GSlice start stop (Some stp)) = Ok st' ->
  g_fits current db st' = py_slice_step (g_fits current db st) start stop (Some stp).
Proof. exact stepped_pos_exact. Qed.

Theorem C10_slicefix_negative_step_partial : forall db st start stop stp st',
  NoDup (map fid db) -> keys_total (g_keys st) = true -> (stp < 0)%Z ->
  gop_step_s current false db st (GSlice start stop (Some stp)) = Ok st' ->
  g_fits current db st' = py_slice_step (g_fits current db st) start stop (Some stp).
Proof. exact stepped_neg_exact. Qed.

(* every chain of [a:b] slices, with or without child fits, equals Python list slicing *)
Theorem C10_slice_exact : forall top_only L slices,
  run_slices current top_only L slices = spec_slices top_only L slices.
Proof. exact slices_current. Qed.

(* ===== which predicates the API accepts ===== *)

(* a well-formed predicate fails to compile only through an And-merge that needs three tables
   (AssertionError): ~ of a junction, Or of number and string tests on one path are accepted now *)
Theorem C10_errors_characterised : forall p e,
  wf_pred p = true -> compile current p = Err e -> e = EAssertion.
Proof. exact (compile_err_demorgan current eq_refl). Qed.

(* FULL STATEMENT: every well-formed predicate compiles -- REFUTED (a number and a string comparison
   on one path and-ed together) *)
Theorem C10_total_refuted : exists p, wf_pred p = true /\ compile current p = Err EAssertion.
Proof. exact total_refuted. Qed.

Theorem C10_total_partial : forall vr p,
  wf_pred p = true -> junction_free p = true -> exists q, compile vr p = Ok q /\ invertible q.
Proof. exact compile_junction_free. Qed.

(* the model's errors are the code's exceptions: fuel never runs out; execution never fails *)
Theorem C10_no_fuel : forall vr p, compile vr p <> Err EFuel.
Proof. exact compile_no_fuel. Qed.

Theorem C10_no_sql_error : forall db p, model_query current db p <> Err ESql.
Proof. exact no_sql_error. Qed.

(* ===== record of the repaired defects (statements about the code before the repairs) ===== *)

(* before 766ce6b / 596613e / 79488b4 / 21e37aa: Or-merge over different tables, negated info test,
   negated test on a NULL column gave wrong sets; ~ of a junction and Or of number/string tests raised *)
Theorem C10_pre4_legacy_refuted :
  (exists q, compile pre4 p_join = Ok q /\ sem q f0 <> eval p_join f0) /\
  (exists q, compile pre4 p_ninfo = Ok q /\ sem q f2 <> eval p_ninfo f2) /\
  (exists q, compile pre4 p_nattr = Ok q /\ wf_fit f_null = true /\ sem q f_null <> eval p_nattr f_null) /\
  compile pre4 p_notj = Err ETypeError /\ compile pre4 p_tab3 = Err EAssertion.
Proof. exact pre4_exact_refuted. Qed.

(* what could fail to compile before 21e37aa *)
Theorem C10_pre4_errors_characterised : forall vr, fix_not_junction vr = false -> forall p e,
  wf_pred p = true -> compile vr p = Err e ->
  (e = ETypeError /\ has_not_junction vr p = true) \/ e = EAssertion.
Proof. exact compile_err. Qed.

(* before 60fb795 a constant containing a single quote made the query raise *)
Theorem C10_prequote_legacy_refuted :
  exists p f, eval p f = true /\ model_query prequote [f] p = Err ESql /\
              exists l, model_query current [f] p = Ok l /\ map fid l = [fid f].
Proof. exact prequote_refuted. Qed.

(* before f11f464 / 127fbf4 *)
Theorem C10_legacy_exact_refuted :
  exists p q f, compile legacy p = Ok q /\ wf_pred p = true /\ wf_fit f = true /\ sem q f <> eval p f.
Proof. exact legacy_exact_refuted. Qed.

Theorem C10_legacy_slice_refuted :
  exists L sl, run_slices legacy false L [sl] <> spec_slices false L [sl].
Proof. exact legacy_slice_refuted. Qed.

Print Assumptions C10_exact_partial.
Print Assumptions C10_pipeline_partial.
Print Assumptions C10_ops_canonical_partial.
Print Assumptions C10_invert_partial.
Print Assumptions C10_errors_characterised.
Print Assumptions C10_order_unique.
Print Assumptions C10_order_nulls.
Print Assumptions C10_grid_pipeline_partial.
Print Assumptions C10_best_exists.
Print Assumptions C10_slicefix_freeze_exact.
Print Assumptions C10_slicefix_negative_step_partial.
