(* C10 lemmas, part 3: the compiled query selects exactly the fits on which the predicate
   is true (under the guard), and the model never runs out of fuel. *)
From Coq Require Import ZArith List Bool String Ascii Lia.
From PAFC10 Require Import Model Proofs Proofs2.
Import ListNotations.
Open Scope string_scope.
Open Scope list_scope.

(* ---------- path comparisons ---------- *)
Lemma leaf_sem f c k leaf x :
  leaf_of c k = Ok leaf -> in_tabs (mtabs leaf) x && holds f leaf x = const_holds c k x.
Proof.
  destruct k as [v|s| |cls]; simpl.
  - intro H. inversion H. subst. destruct x; reflexivity.
  - intro H. inversion H. subst. destruct x; reflexivity.
  - destruct (cmp_eqb c CEq) eqn:E; intro H; inversion H. subst. destruct x; reflexivity.
  - destruct (cmp_eqb c CEq) eqn:E; intro H; inversion H. subst. destruct x; reflexivity.
Qed.

Lemma named_path_sem f c k leaf :
  leaf_of c k = Ok leaf ->
  forall path, path <> [] -> forall o, wf_obj o = true ->
  holds f (named_path path leaf) o =
  match resolve path o with Some x => const_holds c k x | None => false end.
Proof.
  intro HL. induction path as [|n r IH]; intros Hne o W; [congruence|].
  simpl named_path. rewrite holds_named by exact W. rewrite xorb_false_l. simpl resolve.
  destruct (lookup n (kids o)) as [x|] eqn:EL; [|reflexivity].
  destruct r as [|m r'].
  - simpl. apply leaf_sem. exact HL.
  - assert (Wx : wf_obj x = true) by (eapply wf_child; eauto).
    rewrite IH by (congruence || exact Wx). reflexivity.
Qed.

(* ---------- negation ---------- *)
(* ---------- LIKE coincides with exact substring search on plain strings ---------- *)
Lemma lower_plain c : plain_char c = true -> lower c = c.
Proof.
  unfold plain_char, lower. intro H. apply andb_true_iff in H. destruct H as [_ H].
  apply negb_true_iff in H. rewrite H. reflexivity.
Qed.
Lemma ci_eqb_plain c d : plain_char c = true -> plain_char d = true -> ci_eqb c d = Ascii.eqb c d.
Proof. intros Hc Hd. unfold ci_eqb. rewrite (lower_plain c Hc), (lower_plain d Hd). reflexivity. Qed.
Lemma plain_not_wild c : plain_char c = true -> is_pct c = false /\ is_us c = false.
Proof.
  unfold plain_char. intro H. apply andb_true_iff in H. destruct H as [H _].
  apply andb_true_iff in H. destruct H as [H1 H2]. apply negb_true_iff in H1. apply negb_true_iff in H2. auto.
Qed.

Lemma like_pct p s :
  like (String "%"%char p) s =
  like p s || match s with EmptyString => false | String _ s' => like (String "%"%char p) s' end.
Proof. destruct s; reflexivity. Qed.

Lemma like_only_pct s : like "%" s = true.
Proof.
  induction s as [|c s IH]; [reflexivity|].
  rewrite like_pct. rewrite IH. apply orb_true_r.
Qed.

Lemma like_plain_prefix p : plain p = true -> forall s, plain s = true -> like (p ++ "%") s = prefixb p s.
Proof.
  induction p as [|c p IH]; intros Hp s Hs.
  - simpl append. apply like_only_pct.
  - simpl in Hp. apply andb_true_iff in Hp. destruct Hp as [Hc Hp].
    destruct (plain_not_wild c Hc) as [H1 H2].
    simpl append. simpl like. rewrite H1.
    destruct s as [|d s]; [reflexivity|].
    simpl in Hs. apply andb_true_iff in Hs. destruct Hs as [Hd Hs].
    rewrite H2. simpl orb. rewrite (ci_eqb_plain c d Hc Hd). simpl prefixb.
    rewrite (IH Hp s Hs). reflexivity.
Qed.

Lemma like_contains_plain p s : plain p = true -> plain s = true -> like_contains p s = substrb p s.
Proof.
  intros Hp. unfold like_contains. induction s as [|d s IH]; intro Hs.
  - rewrite like_pct. rewrite (like_plain_prefix p Hp "" eq_refl). simpl. rewrite orb_false_r. reflexivity.
  - rewrite like_pct. rewrite (like_plain_prefix p Hp _ Hs).
    simpl in Hs. apply andb_true_iff in Hs. destruct Hs as [_ Hs].
    rewrite (IH Hs). reflexivity.
Qed.

Lemma acond3_collapse f a :
  acond_plain f a = true -> match acond3 f a with Some b => b | None => false end = acond_holds f a.
Proof.
  destruct a as [attr [v|]|attr v|attr v|attr v|attr|attr v]; simpl; intro P; try reflexivity;
    destruct (lookup attr (fstrs f)) as [[x|]|]; try reflexivity;
    apply andb_true_iff in P; destruct P as [P1 P2]; apply like_contains_plain; assumption.
Qed.

Lemma attrs_defined_acond3 f a : attrs_defined f = true -> acond3 f a <> None.
Proof.
  intro D.
  assert (G : forall attr, lookup attr (fstrs f) <> Some None).
  { intros attr E. apply lookup_in in E. unfold attrs_defined in D. rewrite forallb_forall in D.
    specialize (D _ E). simpl in D. congruence. }
  destruct a as [attr [v|]|attr v|attr v|attr v|attr|attr v]; simpl; try congruence;
    (destruct (lookup attr (fstrs f)) as [[x|]|] eqn:E; [congruence | exfalso; apply (G attr); exact E | congruence]).
Qed.

(* De Morgan over a list of pairwise negated conditions *)
Lemma jsem_dual {A B} k (R : A -> B -> Prop) (H : A -> bool) (H' : B -> bool) xs ys :
  Forall2 R xs ys -> (forall x y, In x xs -> R x y -> H' y = negb (H x)) ->
  jsem (dual k) H' ys = negb (jsem k H xs).
Proof.
  intros F. induction F as [|x y xs ys Hxy F IH]; intro E; [destruct k; reflexivity|].
  change (y :: ys) with ([y] ++ ys). change (x :: xs) with ([x] ++ xs).
  rewrite !jsem_app, !jsem_single.
  rewrite (E x y (or_introl eq_refl) Hxy), IH by (intros x' y' Hx'; apply E; right; exact Hx').
  destruct k; simpl; [apply eq_sym, negb_andb | apply eq_sym, negb_orb].
Qed.

Lemma invert_go vr ms :
  (fix go (l : list qobj) : result (list qobj) :=
     match l with
     | [] => Ok []
     | x :: r => bind (invert vr x) (fun y => bind (go r) (fun ys => Ok (y :: ys)))
     end) ms = map_result (invert vr) ms.
Proof. induction ms as [|x r IH]; simpl; [reflexivity | rewrite IH; reflexivity]. Qed.

Lemma invert_QJ vr k ms :
  invert vr (QJ k ms) =
  if fix_not_junction vr then bind (map_result (invert vr) ms) (fun ms' => junction vr (dual k) ms') else Err ETypeError.
Proof. simpl. destruct (fix_not_junction vr); [|reflexivity]. rewrite invert_go. reflexivity. Qed.
Lemma neg_ok_QJ vr ci ct cn ca k ms :
  neg_ok vr ci ct cn ca (QJ k ms) =
  forallb (neg_ok vr ci ct cn ca) ms &&
  match map_result (invert vr) ms with Ok ms' => junction_ok vr ci ct (dual k) ms' | Err _ => true end.
Proof. simpl. rewrite invert_go. reflexivity. Qed.

(* negation of a compiled condition negates its meaning, under the guard neg_ok *)
Lemma invert_sem f vr ci ct ca :
  (ci = true \/ fix_inverted_merge vr = true) ->
  (ct = true \/ fix_or_tables vr = true) ->
  (ca = true \/ attrs_defined f = true \/ fix_not_null vr = true) ->
  forall q q', invert vr q = Ok q' -> neg_ok vr ci ct true ca q = true ->
  forall o, wf_obj o = true -> holds f q' o = negb (holds f q o).
Proof.
  intros Hci Hct Hca.
  induction q as [| | | |n inner inv IHq|negs a|negs k v|negs a|inv k v|k ms HF] using qobj_ind';
    intros q' H G o W; try (simpl in H; congruence).
  - simpl in H. inversion H. subst q'. simpl. destruct inv; destruct (existsb _ _); reflexivity.
  - simpl in H, G. destruct (fix_not_null vr) eqn:EN.
    + inversion H. subst q'. apply Nat.eqb_eq in G. subst negs. simpl. reflexivity.
    + inversion H. subst q'. simpl.
      assert (NA : acond3 f a <> None).
      { destruct Hca as [Hc | [Hd | Hx]]; [subst ca; simpl in G; congruence | apply attrs_defined_acond3; exact Hd | congruence]. }
      destruct (acond3 f a); [reflexivity | congruence].
  - simpl in G. congruence.
  - simpl in H. inversion H. subst q'. reflexivity.
  - simpl in H. inversion H. subst q'. simpl. destruct inv; destruct (existsb _ _); reflexivity.
  - rewrite invert_QJ in H. rewrite neg_ok_QJ in G.
    destruct (fix_not_junction vr); [|congruence].
    destruct (map_result (invert vr) ms) as [ms'|e] eqn:EM; simpl in H; [|congruence].
    apply andb_true_iff in G. destruct G as [Gm Gj].
    unfold junction in H. unfold junction_ok in Gj.
    rewrite (mk_junction_sem f vr ci ct Hci Hct _ _ _ _ H Gj o W).
    rewrite holds_QJ.
    apply (jsem_dual k (fun x y => invert vr x = Ok y)).
    + apply map_result_ok. exact EM.
    + intros x y Hx Hy. rewrite Forall_forall in HF. rewrite forallb_forall in Gm.
      apply (HF x Hx y Hy (Gm x Hx) o W).
Qed.

(* ---------- the exactness theorem ---------- *)
Lemma wf_fit_obj f : wf_fit f = true -> wf_obj (finst f) = true.
Proof. unfold wf_fit. intro H. apply andb_true_iff in H. tauto. Qed.
Lemma wf_fit_info f : wf_fit f = true -> str_nodup (map fst (finfo f)) = true.
Proof. unfold wf_fit. intro H. apply andb_true_iff in H. tauto. Qed.

Lemma junction2_sem f vr ci ct k x y q :
  (ci = true \/ fix_inverted_merge vr = true) ->
  (ct = true \/ fix_or_tables vr = true) ->
  junction vr k [x; y] = Ok q -> junction_ok vr ci ct k [x; y] = true ->
  forall o, wf_obj o = true -> holds f q o = jop k (holds f x o) (holds f y o).
Proof.
  intros Hci Hct Hq Hok o W. unfold junction in Hq. unfold junction_ok in Hok.
  rewrite (mk_junction_sem f vr ci ct Hci Hct _ _ _ _ Hq Hok o W).
  destruct k; simpl; [rewrite andb_true_r | rewrite orb_false_r]; reflexivity.
Qed.

Theorem compile_exact vr ci ct ca :
  (ci = true \/ fix_inverted_merge vr = true) ->
  (ct = true \/ fix_or_tables vr = true) ->
  forall p q f,
    compile vr p = Ok q -> safe_with vr ci ct true ca p = true -> wf_fit f = true ->
    (ca = true \/ attrs_defined f = true \/ fix_not_null vr = true) ->
    forallb (acond_plain f) (attr_tests p) = true ->
    sem q f = eval p f.
Proof.
  intros Hci Hct p. induction p as [path c k|a|k v|a IHa b IHb|a IHa b IHb|a IHa]; intros q f Hq Hs W Hca Hpl; unfold sem in *.
  - (* path comparison *)
    destruct path as [|n r]; simpl in Hq; [congruence|].
    destruct (leaf_of c k) as [leaf|e] eqn:EL; simpl in Hq; [|congruence].
    inversion Hq. subst q. clear Hq.
    change (QNamed n (named_path r leaf) false) with (named_path (n :: r) leaf).
    rewrite (named_path_sem f c k leaf EL (n :: r)) by (congruence || apply wf_fit_obj; exact W).
    reflexivity.
  - simpl in Hq. inversion Hq. subst q. simpl. apply acond3_collapse.
    simpl in Hpl. apply andb_true_iff in Hpl. tauto.
  - simpl in Hq.
    assert (E : holds f q (finst f) = match lookup k (finfo f) with Some w => String.eqb w v | None => false end).
    { rewrite <- (exists_unique_name (fun w => String.eqb w v) k (finfo f) (wf_fit_info f W)).
      destruct (fix_not_info vr); inversion Hq; subst q; simpl; [destruct (existsb _ _)|]; reflexivity. }
    rewrite E. reflexivity.
  - (* and *)
    simpl in Hq, Hs.
    destruct (compile vr a) as [x|e] eqn:Ea; simpl in Hq; [|congruence].
    destruct (compile vr b) as [y|e] eqn:Eb; simpl in Hq; [|congruence].
    apply andb_true_iff in Hs. destruct Hs as [Hs Hj]. apply andb_true_iff in Hs. destruct Hs as [Hsa Hsb].
    rewrite (junction2_sem f vr ci ct JAnd x y q Hci Hct Hq Hj _ (wf_fit_obj f W)). simpl.
    simpl in Hpl. rewrite forallb_app in Hpl. apply andb_true_iff in Hpl. destruct Hpl as [Hpa Hpb].
    rewrite (IHa x f eq_refl Hsa W Hca Hpa), (IHb y f eq_refl Hsb W Hca Hpb). reflexivity.
  - (* or *)
    simpl in Hq, Hs.
    destruct (compile vr a) as [x|e] eqn:Ea; simpl in Hq; [|congruence].
    destruct (compile vr b) as [y|e] eqn:Eb; simpl in Hq; [|congruence].
    apply andb_true_iff in Hs. destruct Hs as [Hs Hj]. apply andb_true_iff in Hs. destruct Hs as [Hsa Hsb].
    rewrite (junction2_sem f vr ci ct JOr x y q Hci Hct Hq Hj _ (wf_fit_obj f W)). simpl.
    simpl in Hpl. rewrite forallb_app in Hpl. apply andb_true_iff in Hpl. destruct Hpl as [Hpa Hpb].
    rewrite (IHa x f eq_refl Hsa W Hca Hpa), (IHb y f eq_refl Hsb W Hca Hpb). reflexivity.
  - (* not *)
    simpl in Hq, Hs.
    destruct (compile vr a) as [x|e] eqn:Ea; simpl in Hq; [|congruence].
    apply andb_true_iff in Hs. destruct Hs as [Hsa Hn].
    rewrite (invert_sem f vr ci ct ca Hci Hct Hca x q Hq Hn _ (wf_fit_obj f W)).
    rewrite (IHa x f eq_refl Hsa W Hca Hpl). reflexivity.
Qed.

(* as a statement about result lists *)
Theorem select_exact vr ci ct ca :
  (ci = true \/ fix_inverted_merge vr = true) ->
  (ct = true \/ fix_or_tables vr = true) ->
  forall p q db,
    compile vr p = Ok q -> safe_with vr ci ct true ca p = true -> forallb wf_fit db = true ->
    (ca = true \/ forallb attrs_defined db = true \/ fix_not_null vr = true) ->
    forallb (fun f => forallb (acond_plain f) (attr_tests p)) db = true ->
    select q db = filter (eval p) db.
Proof.
  intros Hci Hct p q db Hq Hs W Hca Hpl. unfold select. apply filter_ext_in.
  intros f Hf. apply (compile_exact vr ci ct ca Hci Hct p q f Hq Hs).
  - rewrite forallb_forall in W. apply W. exact Hf.
  - destruct Hca as [Hc | [Hd | Hx]]; [left; exact Hc | right; left | right; right; exact Hx].
    rewrite forallb_forall in Hd. apply Hd. exact Hf.
  - rewrite forallb_forall in Hpl. apply Hpl. exact Hf.
Qed.

(* each fit once, in database order: select is a sub-list *)
Lemma select_nodup q db : NoDup (map fid db) -> NoDup (map fid (select q db)).
Proof.
  unfold select. induction db as [|f r IH]; simpl; intro H; [constructor|].
  inversion H as [|? ? Hn Hr]. subst. destruct (sem q f); simpl; auto.
  constructor; auto. intro Hin. apply Hn.
  apply in_map_iff in Hin. destruct Hin as [g [Eg Hg]]. apply filter_In in Hg.
  apply in_map_iff. exists g. tauto.
Qed.

(* ---------- the model never runs out of fuel ---------- *)
Lemma depth_list_app a b : depth_list (a ++ b) = Nat.max (depth_list a) (depth_list b).
Proof.
  unfold depth_list. induction a as [|x r IH]; simpl; auto. rewrite IH. lia.
Qed.
Lemma depth_list_in x l : In x l -> qdepth x <= depth_list l.
Proof.
  unfold depth_list. induction l as [|y r IH]; simpl; [tauto|].
  intros [E | H]; [subst; lia | apply IH in H; lia].
Qed.
Lemma depth_list_le l n : (forall x, In x l -> qdepth x <= n) -> depth_list l <= n.
Proof.
  unfold depth_list. induction l as [|y r IH]; simpl; intro H; [lia|].
  assert (qdepth y <= n) by (apply H; auto).
  assert (fold_right (fun m acc => Nat.max (qdepth m) acc) 0 r <= n) by (apply IH; intros; apply H; auto).
  lia.
Qed.

Lemma flatten_depth k : forall q x, In x (flatten k q) -> qdepth x <= qdepth q.
Proof.
  induction q as [| | | |n inner inv IHq| | | | |k' ms HF] using qobj_ind'; intros x Hx;
    try (rewrite flatten_other in Hx by (intros; congruence); destruct Hx as [E | []]; subst; lia).
  destruct (jk_eqb k k') eqn:E.
  - apply jk_eqb_eq in E. subst k'. rewrite flatten_QJ_same in Hx.
    apply in_flat_map in Hx. destruct Hx as [m [Hm Hx]].
    rewrite Forall_forall in HF. specialize (HF m Hm x Hx).
    change (qdepth (QJ k ms)) with (depth_list ms).
    pose proof (depth_list_in m ms Hm). lia.
  - rewrite flatten_other in Hx.
    + destruct Hx as [E' | []]. subst. lia.
    + intros ms' Hq. inversion Hq. subst.
      match goal with E' : jk_eqb ?a ?a = false |- _ => destruct a; simpl in E'; congruence end.
Qed.

Lemma map_result_err {A B} (g : A -> result B) l e :
  map_result g l = Err e -> exists x, In x l /\ g x = Err e.
Proof.
  induction l as [|x r IH]; simpl; [congruence|].
  destruct (g x) as [y|e'] eqn:E; simpl.
  - destruct (map_result g r) as [ys|e''] eqn:E'; simpl; [congruence|].
    intro H. inversion H. subst. destruct (IH eq_refl) as [z [Hz Gz]]. exists z. auto.
  - intro H. inversion H. subst. exists x. auto.
Qed.

Lemma mk_junction_no_fuel vr : forall fuel k conds,
  depth_list conds < fuel -> mk_junction vr fuel k conds <> Err EFuel.
Proof.
  induction fuel as [|fuel IH]; intros k conds Hd; [lia|].
  rewrite mk_junction_S. cbv zeta.
  set (flat := flat_map (flatten k) conds).
  set (named := filter (mergeable vr) flat).
  destruct (map_result (merge_one vr fuel k named) (nodup_key (map (mkey vr k) named))) as [merged|e] eqn:EM; simpl.
  - unfold finish. destruct (dedupe _) as [|x [|y r]]; intro Hc; discriminate Hc.
  - intro H. inversion H. subst e. clear H.
    apply map_result_err in EM. destruct EM as [n [Hn Hg]].
    unfold merge_one in Hg.
    destruct (mk_junction vr fuel k (map qinner (grp vr k n named))) as [sub|e] eqn:ES.
    + unfold bind in Hg. cbv zeta in Hg. destruct (tables_ok (QNamed (fst n) sub false)); congruence.
    + simpl in Hg. inversion Hg. subst e. revert ES. apply IH.
      (* members of a group are strictly shallower than the NamedQuery holding them *)
      assert (Hflat : forall x, In x flat -> qdepth x <= depth_list conds).
      { intros x Hx. unfold flat in Hx. apply in_flat_map in Hx. destruct Hx as [c [Hc Hx]].
        pose proof (flatten_depth k c x Hx). pose proof (depth_list_in c conds Hc). lia. }
      apply (proj1 (nodup_key_in _ _)) in Hn. apply (proj1 (in_map_iff _ _ _)) in Hn. destruct Hn as [w [Ew Hw]].
      assert (Hw' : In w flat) by (unfold named in Hw; apply filter_In in Hw; tauto).
      assert (Hwm : mergeable vr w = true) by (unfold named in Hw; apply filter_In in Hw; tauto).
      destruct (mergeable_named vr w Hwm) as [n' [i [inv E]]].
      assert (1 <= depth_list conds).
      { specialize (Hflat w Hw'). subst w. simpl in Hflat. lia. }
      assert (depth_list (map qinner (grp vr k n named)) <= depth_list conds - 1).
      { apply depth_list_le. intros x Hx. apply (proj1 (in_map_iff _ _ _)) in Hx. destruct Hx as [z [Ez Hz]].
        unfold grp in Hz. apply filter_In in Hz. destruct Hz as [Hz _].
        assert (Hzf : In z flat) by (unfold named in Hz; apply filter_In in Hz; tauto).
        assert (Hzm : mergeable vr z = true) by (unfold named in Hz; apply filter_In in Hz; tauto).
        destruct (mergeable_named vr z Hzm) as [n2 [i2 [inv2 E2]]]. subst z x.
        specialize (Hflat _ Hzf). simpl in Hflat. simpl. lia. }
      lia.
Qed.

Lemma invert_no_fuel vr : forall q, invert vr q <> Err EFuel.
Proof.
  induction q as [| | | |n inner inv IHq|negs a|negs k v|negs a|inv k v|k ms HF] using qobj_ind';
    try (simpl; congruence).
  - simpl. destruct (fix_not_null vr); congruence.
  - rewrite invert_QJ. destruct (fix_not_junction vr); [|congruence].
    destruct (map_result (invert vr) ms) as [ms'|e] eqn:EM; simpl.
    + unfold junction. apply mk_junction_no_fuel. lia.
    + intro H. inversion H. subst e. apply map_result_err in EM. destruct EM as [x [Hx Ex]].
      rewrite Forall_forall in HF. exact (HF x Hx Ex).
Qed.

Theorem compile_no_fuel vr : forall p, compile vr p <> Err EFuel.
Proof.
  induction p as [path c k|a|k v|a IHa b IHb|a IHa b IHb|a IHa]; simpl.
  - destruct path; [congruence|]. destruct (leaf_of c k) eqn:E; simpl; try congruence.
    destruct k; simpl in E; try destruct (cmp_eqb c CEq); congruence.
  - congruence.
  - destruct (fix_not_info vr); congruence.
  - destruct (compile vr a) as [x|e]; simpl; [|congruence].
    destruct (compile vr b) as [y|e]; simpl; [|congruence].
    unfold junction. apply mk_junction_no_fuel. lia.
  - destruct (compile vr a) as [x|e]; simpl; [|congruence].
    destruct (compile vr b) as [y|e]; simpl; [|congruence].
    unfold junction. apply mk_junction_no_fuel. lia.
  - destruct (compile vr a) as [x|e]; simpl; [|congruence].
    apply invert_no_fuel.
Qed.

(* ---------- junction-free well-formed predicates always compile ---------- *)
Definition invertible (q : qobj) : Prop :=
  match q with QNamed _ _ _ | QAttr _ _ | QInfo _ _ _ | QAttrT _ _ | QInfoI _ _ _ => True | _ => False end.

Lemma compile_junction_free vr : forall p,
  wf_pred p = true -> junction_free p = true -> exists q, compile vr p = Ok q /\ invertible q.
Proof.
  induction p as [path c k|a|k v|a IHa b IHb|a IHa b IHb|a IHa]; simpl; intros W J; try congruence.
  - destruct path as [|n r]; [simpl in W; congruence|]. simpl in W.
    assert (L : exists leaf, leaf_of c k = Ok leaf).
    { destruct k; simpl; eauto; destruct (cmp_eqb c CEq); simpl in W; try congruence; eauto. }
    destruct L as [leaf L]. rewrite L. simpl. eexists. split; [reflexivity | exact I].
  - eexists. split; [reflexivity | exact I].
  - destruct (fix_not_info vr); eexists; split; try reflexivity; exact I.
  - destruct (IHa W J) as [q [Hq Hi]]. rewrite Hq. simpl.
    destruct q; simpl in Hi; try contradiction; simpl; try destruct (fix_not_null vr);
      eexists; split; try reflexivity; exact I.
Qed.
