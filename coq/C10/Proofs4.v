(* C10 lemmas, part 4: ordering and slicing. *)
From Coq Require Import ZArith List Bool String Lia Permutation Sorted.
From PAFC10 Require Import Model.
Import ListNotations.
Open Scope list_scope.

(* ---------- ordering: insertion sort yields a sorted permutation ---------- *)
Lemma insert_perm le x l : Permutation (x :: l) (insert_sorted le x l).
Proof.
  induction l as [|y r IH]; simpl; [apply Permutation_refl|].
  destruct (le x y); [apply Permutation_refl|].
  eapply perm_trans; [apply perm_swap|]. apply perm_skip. exact IH.
Qed.
Lemma sort_perm le l : Permutation l (sort_by le l).
Proof.
  induction l as [|x r IH]; simpl; [constructor|].
  eapply perm_trans; [apply perm_skip; exact IH | apply insert_perm].
Qed.

Definition total (le : fit -> fit -> bool) := forall a b, le a b = false -> le b a = true.

Lemma insert_sorted_ok le x l :
  total le -> Sorted (fun a b => le a b = true) l -> Sorted (fun a b => le a b = true) (insert_sorted le x l).
Proof.
  intros T S. induction l as [|y r IH]; simpl; [repeat constructor|].
  destruct (le x y) eqn:E.
  - constructor; [exact S | constructor; exact E].
  - inversion S as [|? ? Sr Hy]. subst. constructor; [apply IH; exact Sr|].
    destruct r as [|z r']; simpl.
    + constructor. apply T. exact E.
    + destruct (le x z) eqn:E'.
      * constructor. apply T. exact E.
      * constructor. inversion Hy. assumption.
Qed.
Lemma sort_sorted le l : total le -> Sorted (fun a b => le a b = true) (sort_by le l).
Proof.
  intro T. induction l as [|x r IH]; simpl; [constructor|]. apply insert_sorted_ok; assumption.
Qed.

Lemma opt_cmp_antisym {A} (cmp : A -> A -> comparison) :
  (forall x y, cmp y x = CompOpp (cmp x y)) -> forall x y, opt_cmp cmp y x = CompOpp (opt_cmp cmp x y).
Proof. intros H [x|] [y|]; simpl; auto. Qed.

Lemma key_cmp_antisym k a b : key_cmp k b a = CompOpp (key_cmp k a b).
Proof.
  destruct k as [attr|attr|attr|]; simpl.
  - apply opt_cmp_antisym. intros x y. apply String.compare_antisym.
  - apply opt_cmp_antisym. intros x y. apply Z.compare_antisym.
  - apply opt_cmp_antisym. intros x y. apply Z.compare_antisym.
  - apply String.compare_antisym.
Qed.

Lemma lex_cmp_antisym keys a b : lex_cmp keys b a = CompOpp (lex_cmp keys a b).
Proof.
  induction keys as [|[k rev] r IH]; simpl; [reflexivity|].
  rewrite (key_cmp_antisym k a b).
  destruct rev; destruct (key_cmp k a b); simpl; auto.
Qed.

Lemma lex_le_total keys : total (lex_le keys).
Proof.
  intros a b. unfold lex_le. rewrite (lex_cmp_antisym keys a b).
  destruct (lex_cmp keys a b); simpl; congruence.
Qed.

Theorem ordered_spec keys l :
  Permutation l (ordered keys l) /\
  (keys <> [] -> Sorted (fun a b => lex_le keys a b = true) (ordered keys l)).
Proof.
  unfold ordered. destruct keys as [|k r].
  - split; [apply Permutation_refl | congruence].
  - split; [apply sort_perm | intros _; apply sort_sorted; apply lex_le_total].
Qed.

(* ---------- slicing ---------- *)
Lemma skipn_skipn {A} (a b : nat) (l : list A) : skipn a (skipn b l) = skipn (b + a) l.
Proof.
  revert l. induction b as [|b IH]; intro l; simpl; [reflexivity|].
  destruct l; simpl; [destruct a; reflexivity | apply IH].
Qed.

Lemma firstn_skipn_firstn {A} (m s k : nat) (l : list A) :
  s + m <= k -> firstn m (skipn s (firstn k l)) = firstn m (skipn s l).
Proof.
  revert s k l. induction m as [|m IH]; intros s k l H; [reflexivity|].
  revert k l H. induction s as [|s IHs]; intros k l H.
  - simpl. destruct k; [lia|]. destruct l; simpl; [reflexivity|].
    f_equal. apply (IH 0 k l). lia.
  - destruct k; [lia|]. destruct l; simpl; [reflexivity|]. apply IHs. lia.
Qed.

Lemma clamp_range n i : (0 <= n -> 0 <= clamp n i <= n)%Z.
Proof. unfold clamp. destruct (i <? 0)%Z eqn:E; lia. Qed.

(* the current arithmetic: every chain of slices equals Python list slicing *)
Definition inv_state (l : list fit) (L' : list fit) (st : Z * option Z) : Prop :=
  (0 <= fst st)%Z /\
  (match snd st with Some k => (0 <= k)%Z | None => True end) /\
  take_lim (snd st) (drop_z (fst st) L') = l.

Lemma current_step L' l st sl :
  inv_state l L' st ->
  inv_state (py_slice l (fst sl) (snd sl)) L'
            (slice_step current (Z.of_nat (List.length l)) (fst st) (snd st) (fst sl) (snd sl)).
Proof.
  intros [Hoff [Hlim Hwin]]. destruct st as [off lim]. destruct sl as [start stop]. simpl in *.
  set (n := Z.of_nat (List.length l)).
  set (s := match start with Some i => clamp n i | None => 0%Z end).
  set (e := match stop with Some i => clamp n i | None => n end).
  assert (Hn : (0 <= n)%Z) by (unfold n; lia).
  assert (Hs : (0 <= s <= n)%Z) by (unfold s; destruct start; [apply clamp_range; exact Hn | lia]).
  assert (He : (0 <= e <= n)%Z) by (unfold e; destruct stop; [apply clamp_range; exact Hn | lia]).
  unfold inv_state, slice_step, py_slice; simpl. fold n. fold s. fold e.
  split; [lia|]. split; [lia|].
  unfold take_lim. destruct (Z.max 0 (e - s) <? 0)%Z eqn:E; [lia|].
  unfold drop_z.
  replace (Z.to_nat (Z.max 0 (e - s))) with (Z.to_nat (e - s)) by lia.
  replace (Z.to_nat (off + s)) with (Z.to_nat off + Z.to_nat s)%nat by lia.
  rewrite <- skipn_skipn. rewrite <- Hwin. unfold drop_z, take_lim.
  destruct lim as [k|]; [|reflexivity].
  destruct (k <? 0)%Z eqn:Ek; [reflexivity|].
  symmetry. apply firstn_skipn_firstn.
  (* s + (e - s) <= length of the legacy window <= k *)
  assert (Hlen : (List.length l <= Z.to_nat k)%nat).
  { rewrite <- Hwin. unfold take_lim, drop_z. rewrite Ek. rewrite firstn_length. lia. }
  unfold n in *. lia.
Qed.

Theorem slices_current top_only L slices :
  run_slices current top_only L slices = spec_slices top_only L slices.
Proof.
  unfold run_slices, spec_slices.
  set (L' := if top_only then filter is_top L else L).
  assert (W : forall st, window current top_only (fst st) (snd st) L = take_lim (snd st) (drop_z (fst st) L')).
  { intro st. unfold window. simpl. reflexivity. }
  assert (G : forall slices st l, inv_state l L' st ->
            let st' := fold_left (fun (st : Z * option Z) (sl : option Z * option Z) =>
                         let n := Z.of_nat (List.length (window current top_only (fst st) (snd st) L)) in
                         slice_step current n (fst st) (snd st) (fst sl) (snd sl)) slices st in
            window current top_only (fst st') (snd st') L =
            fold_left (fun l sl => py_slice l (fst sl) (snd sl)) slices l).
  { induction slices0 as [|sl r IH]; intros st l I; simpl.
    - rewrite W. destruct I as [_ [_ I]]. exact I.
    - apply IH. rewrite W. destruct I as [I1 [I2 I3]]. rewrite I3.
      apply current_step. split; [exact I1 | split; [exact I2 | exact I3]]. }
  apply (G slices (0%Z, None) L').
  split; [simpl; lia | split; [exact I | reflexivity]].
Qed.

(* the legacy arithmetic is right for `[start:]` slices with non-negative starts when
   child fits are not filtered (or there are none) *)
Definition open_slice (sl : option Z * option Z) : Prop :=
  snd sl = None /\ match fst sl with Some s => (0 <= s)%Z | None => True end.

Lemma legacy_open_step (L l : list fit) off sl :
  (0 <= off)%Z -> drop_z off L = l -> open_slice sl ->
  let st' := slice_step legacy (Z.of_nat (List.length l)) off None (fst sl) (snd sl) in
  (0 <= fst st')%Z /\ snd st' = None /\ drop_z (fst st') L = py_slice l (fst sl) (snd sl).
Proof.
  intros Hoff Hwin [Hstop Hstart]. destruct sl as [start stop]. simpl in *. subst stop.
  unfold slice_step, py_slice; simpl.
  set (n := Z.of_nat (List.length l)).
  destruct start as [s|].
  - assert (E : (0 <=? s)%Z = true) by (apply Z.leb_le; exact Hstart). rewrite E.
    split; [lia|]. split; [reflexivity|].
    unfold clamp. assert (E' : (s <? 0)%Z = false) by (apply Z.ltb_ge; exact Hstart). rewrite E'.
    unfold drop_z in *. replace (Z.to_nat (off + s)) with (Z.to_nat off + Z.to_nat s)%nat by lia.
    rewrite <- skipn_skipn, Hwin. fold n.
    destruct (Z.le_gt_cases s n) as [Hle | Hgt].
    + rewrite Z.min_l by exact Hle. rewrite firstn_all2; [reflexivity|].
      rewrite skipn_length. unfold n. lia.
    + rewrite Z.min_r by lia. rewrite (skipn_all2 (n := Z.to_nat s)) by (unfold n in *; lia).
      rewrite (skipn_all2 (n := Z.to_nat n)) by (unfold n; lia). destruct (Z.to_nat (n - n)); reflexivity.
  - split; [exact Hoff|]. split; [reflexivity|]. rewrite Hwin. simpl. fold n.
    rewrite Z.sub_0_r. unfold n. rewrite Nat2Z.id. symmetry. apply firstn_all.
Qed.

Theorem slices_legacy_open (L : list fit) slices :
  Forall open_slice slices -> run_slices legacy false L slices = spec_slices false L slices.
Proof.
  unfold run_slices, spec_slices. intro F.
  assert (G : forall slices off l, Forall open_slice slices -> (0 <= off)%Z -> drop_z off L = l ->
            let st' := fold_left (fun (st : Z * option Z) (sl : option Z * option Z) =>
                         let n := Z.of_nat (List.length (window legacy false (fst st) (snd st) L)) in
                         slice_step legacy n (fst st) (snd st) (fst sl) (snd sl)) slices (off, None) in
            window legacy false (fst st') (snd st') L =
            fold_left (fun l sl => py_slice l (fst sl) (snd sl)) slices l).
  { induction slices0 as [|sl r IH]; intros off l Fs Hoff Hwin; simpl.
    - unfold window. simpl. exact Hwin.
    - inversion Fs as [|x xs Hsl Hr]. subst x xs.
      assert (Ew : window legacy false off None L = l) by (unfold window; simpl; exact Hwin).
      rewrite Ew.
      destruct (legacy_open_step L l off sl Hoff Hwin Hsl) as [H1 [H2 H3]].
      destruct (slice_step legacy (Z.of_nat (List.length l)) off None (fst sl) (snd sl)) as [off' lim'] eqn:Est.
      simpl in H1, H2, H3. subst lim'. apply IH; assumption. }
  apply (G slices 0%Z L F); [lia | reflexivity].
Qed.

(* slicing depends on the variant only through fix_slice *)
Lemma fold_left_ext {A B} (g h : A -> B -> A) l : (forall a b, g a b = h a b) -> forall a, fold_left g l a = fold_left h l a.
Proof. intro E. induction l as [|b r IH]; intro a; simpl; [reflexivity | rewrite E; apply IH]. Qed.

Theorem slices_fixed vr top_only L slices :
  fix_slice vr = true -> run_slices vr top_only L slices = spec_slices top_only L slices.
Proof.
  intro Hs. rewrite <- (slices_current top_only L slices). unfold run_slices.
  assert (Ew : forall off lim, window vr top_only off lim L = window current top_only off lim L).
  { intros. unfold window. rewrite Hs. reflexivity. }
  assert (Es : forall n off lim a b, slice_step vr n off lim a b = slice_step current n off lim a b).
  { intros. unfold slice_step. rewrite Hs. reflexivity. }
  rewrite (fold_left_ext _ (fun (st : Z * option Z) (sl : option Z * option Z) =>
             let n := Z.of_nat (List.length (window current top_only (fst st) (snd st) L)) in
             slice_step current n (fst st) (snd st) (fst sl) (snd sl))).
  - apply Ew.
  - intros st sl. cbv zeta. rewrite Ew, Es. reflexivity.
Qed.
