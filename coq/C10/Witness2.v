(* C10 witnesses, part 2: NULL order keys, the parent / child relation, best fits, grid-search
   operation sequences (non-vacuity of the hypotheses of Props.v and refutations by vm_compute). *)
From Coq Require Import ZArith List Bool String Lia Permutation Sorted.
From PAFC10 Require Import Model Proofs Proofs2 Proofs3 Proofs4 Proofs5 Proofs7 Proofs8.
Import ListNotations.
Open Scope string_scope.
Open Scope list_scope.

Definition root (v : Z) := OInst "c10_classes.Root" [("a", OVal v)].
Definition gf (id : string) (name : string) (tag : option string) (mll : option Z) (grid : bool) (parent : option string) : fit :=
  mkFit id (root 8) [("name", Some name); ("unique_tag", tag); ("parent_id", parent); ("id", Some id)]
        (match mll with Some m => [("max_log_likelihood", m)] | None => [] end)
        [("is_complete", true); ("is_grid_search", grid)] [] parent.

(* two grid searches: g0 with children c0 (1), c1 (3), c2 (3: a tie), c3 (NULL likelihood);
   g1 whose children all have a NULL likelihood; an unrelated fit x *)
Definition g0 := gf "g0" "grid" (Some "t") (Some 1%Z) true None.
Definition g1 := gf "g1" "grid" None None true None.
Definition c0 := gf "c0" "cell" (Some "t") (Some 1%Z) false (Some "g0").
Definition c1 := gf "c1" "cell" None (Some 3%Z) false (Some "g0").
Definition c2 := gf "c2" "cell" (Some "b") (Some 3%Z) false (Some "g0").
Definition c3 := gf "c3" "cell" (Some "b") None false (Some "g0").
Definition d0 := gf "d0" "cell" (Some "b") None false (Some "g1").
Definition x0 := gf "x0" "other" (Some "z") (Some 5%Z) false None.
Definition gdb := [c2; g1; x0; c0; g0; d0; c3; c1].

Example gdb_wf : forallb wf_fit gdb = true /\ forallb fit_coherent gdb = true.
Proof. vm_compute. split; reflexivity. Qed.
Example gdb_nodup : NoDup (map fid gdb).
Proof. vm_compute. repeat constructor; simpl; intuition discriminate. Qed.

(* ----- NULL order keys: first under an ascending key, last under a reversed one ----- *)
Definition k_mll := ONumKey "max_log_likelihood".
Example order_null_first :
  map fid (ordered [(k_mll, false); (OIdKey, false)] gdb) = ["c3"; "d0"; "g1"; "c0"; "g0"; "c1"; "c2"; "x0"].
Proof. vm_compute. reflexivity. Qed.
Example order_null_last :
  map fid (ordered [(k_mll, true); (OIdKey, false)] gdb) = ["x0"; "c1"; "c2"; "c0"; "g0"; "c3"; "d0"; "g1"].
Proof. vm_compute. reflexivity. Qed.
Example order_null_string :
  map fid (ordered [(OStrKey "unique_tag", false); (OIdKey, true)] gdb) = ["g1"; "c1"; "d0"; "c3"; "c2"; "g0"; "c0"; "x0"].
Proof. vm_compute. reflexivity. Qed.
(* the decomposition hypothesis of C10_order_nulls is inhabited with a NULL and a non-NULL key *)
Example order_nulls_nonvacuous :
  exists l1 a l2 b l3, ordered [(k_mll, false); (OIdKey, false)] gdb = l1 ++ a :: l2 ++ b :: l3 /\
                       key_null k_mll a = true /\ key_null k_mll b = false.
Proof. exists [], c3, [d0; g1], c0, [g0; c1; c2; x0]. vm_compute. repeat split. Qed.
Example order_unique_nonvacuous :
  separates [(k_mll, true); (OIdKey, false)] gdb /\ keys_total [(k_mll, true); (OIdKey, false)] = true.
Proof. split; [exact (id_key_separates [(k_mll, true); (OIdKey, false)] gdb eq_refl gdb_nodup) | reflexivity]. Qed.
(* without the id the keys do not separate the fits: c1 and c2 tie, the code guarantees nothing about them *)
Example order_tie : lex_cmp [(k_mll, false)] c1 c2 = Eq /\ c1 <> c2.
Proof. split; [vm_compute; reflexivity | intro H; inversion H]. Qed.

(* ----- children and best fits ----- *)
Example children_example : map fid (children_of [g0] gdb) = ["c2"; "c0"; "c3"; "c1"].
Proof. vm_compute. reflexivity. Qed.
Example best_example : map fid (best_of (children_of [g0; g1] gdb)) = ["c2"; "c1"].
Proof. vm_compute. reflexivity. Qed.
(* "one best fit per grid search" fails on a tie *)
Lemma best_unique_refuted :
  exists C a b, In a (best_of C) /\ In b (best_of C) /\ fparent a = fparent b /\ a <> b.
Proof.
  exists (children_of [g0; g1] gdb), c2, c1. vm_compute. repeat split; try (intuition congruence).
Qed.
(* a grid search whose children all have a NULL likelihood has no best fit *)
Example best_none : best_of (children_of [g1] gdb) = [] /\ children_of [g1] gdb = [d0].
Proof. vm_compute. split; reflexivity. Qed.
Example no_ties_nonvacuous : no_ties [c0; c1; c3; d0].
Proof.
  intros a b Ha Hb Ep Em Hn. simpl in Ha, Hb.
  repeat (destruct Ha as [Ha|Ha]; [subst a|]); try (destruct Ha);
  repeat (destruct Hb as [Hb|Hb]; [subst b|]); try (destruct Hb);
  try reflexivity; vm_compute in Ep, Em, Hn; try congruence.
Qed.

(* ----- operation sequences ----- *)
Definition p_cell := PAttr (AEqS "name" (Some "cell")).
Definition gops1 := [GQuery (PAttr (AContains "name" "r")); GGrid; GChildren; GQuery p_cell; GOrder k_mll true; GOrder OIdKey false].
Example gops1_runs :
  exists l, run_gops current false true gdb gops1 = Ok (l, [(OStrKey "parent_id", false); (k_mll, true); (OIdKey, false)]) /\
            map fid l = ["c1"; "c2"; "c0"; "c3"; "d0"].
Proof. eexists. split; vm_compute; reflexivity. Qed.
Example gops1_hyps :
  existsb has_shadow (gop_preds gops1) = false /\ gguard false gdb (g_init true) gops1 = true /\
  exists st, fold_gops current false gdb (g_init true) gops1 = Ok st /\ gsql_ok false (g_pred st) = true.
Proof. split; [vm_compute; reflexivity|]. split; [vm_compute; reflexivity|]. eexists. split; vm_compute; reflexivity. Qed.
Definition gops2 := [GGrid; GBestFits].
Example gops2_runs : exists l k, run_gops current false true gdb gops2 = Ok (l, k) /\ map fid l = ["c2"; "c1"].
Proof. eexists. eexists. split; vm_compute; reflexivity. Qed.

(* FULL STATEMENT (every slice-free sequence that type-checks returns the list meaning) -- REFUTED for the code as
   it is: best_fits() followed by a query is a syntax error; with the proposed repair (bfix) it is exact *)
Definition gops3 := [GGrid; GBestFits; GQuery p_cell].
Lemma grid_compose_refuted :
  exists db ops, gguard false db (g_init true) ops = true /\
    run_gops current false true db ops = Err ESql /\
    run_gops current true true db ops =
      Ok (ordered (spec_keys [] ops) (spec_sel db db ops), spec_keys [] ops).
Proof. exists gdb, gops3. repeat split; vm_compute; reflexivity. Qed.
(* children() on a plain Aggregator is an AttributeError *)
Example children_needs_grid : run_gops current false true gdb [GChildren] = Err EAttr.
Proof. vm_compute. reflexivity. Qed.

(* ----- the proposed repair of slicing (run_gops_s): a slice survives later operations, a step is honoured ----- *)
Definition sops1 := [GOrder OIdKey false; GSlice (Some 1%Z) (Some 5%Z) None; GQuery p_cell].
Example slicefix_query_after_slice :
  (exists l k, run_gops_s current false false gdb sops1 = Ok (l, k) /\ map fid l = ["c1"; "c2"; "c3"; "d0"]) /\
  (exists l k, run_gops current false false gdb sops1 = Ok (l, k) /\ map fid l = ["c0"; "c1"; "c2"; "c3"; "d0"]).
Proof. split; eexists; eexists; split; vm_compute; reflexivity. Qed.
Definition sops2 := [GOrder OIdKey false; GSlice None None (Some (-2)%Z)].
Example slicefix_negative_step :
  (exists l k, run_gops_s current false false gdb sops2 = Ok (l, k) /\ map fid l = ["x0"; "g0"; "c3"; "c1"]) /\
  (exists l k, run_gops current false false gdb sops2 = Ok (l, k) /\ List.length l = 8%nat).
Proof. split; eexists; eexists; split; vm_compute; reflexivity. Qed.
Definition sops3 := [GGrid; GSlice (Some 1%Z) None None; GChildren; GOrder OIdKey false].
Example slicefix_children_of_slice :
  (exists l k, run_gops_s current false false gdb sops3 = Ok (l, k) /\ map fid l = ["d0"]) /\
  (exists l k, run_gops current false false gdb sops3 = Ok (l, k) /\ map fid l = ["c0"; "c1"; "c2"; "c3"; "d0"]).
Proof. split; eexists; eexists; split; vm_compute; reflexivity. Qed.
(* the hypotheses of C10_slicefix_freeze_exact hold of a state that carries a slice *)
Example freeze_nonvacuous :
  exists st, fold_gops_s current false gdb (g_init false) [GOrder OIdKey false; GSlice (Some 1%Z) (Some 5%Z) None] = Ok st /\
             has_slice st = true /\ keys_total (g_keys st) = true /\
             map fid (g_fits current gdb (freeze current gdb st)) = ["c1"; "c2"; "c3"; "d0"].
Proof. eexists. repeat split; vm_compute; reflexivity. Qed.
Example stepped_nonvacuous :
  exists st st', fold_gops_s current false gdb (g_init false) [GOrder OIdKey false] = Ok st /\
     gop_step_s current false gdb st (GSlice (Some 1%Z) None (Some 3%Z)) = Ok st' /\
     map fid (g_fits current gdb st') = ["c1"; "d0"; "x0"].
Proof. eexists. eexists. repeat split; vm_compute; reflexivity. Qed.
Example stepped_neg_nonvacuous :
  exists st st', fold_gops_s current false gdb (g_init false) [GOrder OIdKey false] = Ok st /\
     gop_step_s current false gdb st (GSlice None (Some 2%Z) (Some (-2)%Z)) = Ok st' /\
     map fid (g_fits current gdb st') = ["x0"; "g0"; "c3"].
Proof. eexists. eexists. repeat split; vm_compute; reflexivity. Qed.
