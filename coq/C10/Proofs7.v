(* C10 lemmas, part 7: ordering with NULL keys.  key_cmp / lex_cmp are weak orders (antisymmetric,
   transitive, Eq is a congruence), so the sorted result is strongly sorted, NULL keys sit where SQLite
   puts them, and when the keys separate the fits the sorted permutation is unique. *)
From Coq Require Import ZArith List Bool String Lia Permutation Sorted OrderedTypeEx.
From PAFC10 Require Import Model Proofs4.
Import ListNotations.
Open Scope list_scope.

Section WeakOrder.
  Context {A : Type}.
  Record wo (cmp : A -> A -> comparison) : Prop := mkWo {
    wo_anti : forall x y, cmp y x = CompOpp (cmp x y);
    wo_lt : forall x y z, cmp x y = Lt -> cmp y z = Lt -> cmp x z = Lt;
    wo_eq : forall x y z c, cmp x y = Eq -> cmp y z = c -> cmp x z = c
  }.
  Lemma wo_eq_r cmp : wo cmp -> forall x y z c, cmp y z = Eq -> cmp x y = c -> cmp x z = c.
  Proof.
    intros W x y z c E H.
    assert (E' : cmp z y = Eq) by (rewrite (wo_anti _ W y z), E; reflexivity).
    assert (H' : cmp y x = CompOpp c) by (rewrite (wo_anti _ W x y), H; reflexivity).
    pose proof (wo_eq _ W z y x _ E' H') as G.
    rewrite (wo_anti _ W z x), G. destruct c; reflexivity.
  Qed.
  Lemma wo_refl cmp : wo cmp -> forall x, cmp x x = Eq.
  Proof. intros W x. pose proof (wo_anti _ W x x) as H. destruct (cmp x x); simpl in H; congruence. Qed.
  Lemma wo_opp cmp : wo cmp -> wo (fun x y => CompOpp (cmp x y)).
  Proof.
    intro W. split.
    - intros x y. rewrite (wo_anti _ W x y). reflexivity.
    - intros x y z H1 H2.
      assert (G1 : cmp y x = Lt) by (rewrite (wo_anti _ W x y); destruct (cmp x y); simpl in *; congruence).
      assert (G2 : cmp z y = Lt) by (rewrite (wo_anti _ W y z); destruct (cmp y z); simpl in *; congruence).
      pose proof (wo_lt _ W z y x G2 G1) as G. rewrite (wo_anti _ W z x), G. reflexivity.
    - intros x y z c H1 H2.
      assert (G1 : cmp x y = Eq) by (destruct (cmp x y); simpl in *; congruence).
      rewrite (wo_eq _ W x y z _ G1 eq_refl). exact H2.
  Qed.
  Lemma wo_lex c1 c2 : wo c1 -> wo c2 -> wo (fun x y => match c1 x y with Eq => c2 x y | c => c end).
  Proof.
    intros W1 W2. split.
    - intros x y. rewrite (wo_anti _ W1 x y), (wo_anti _ W2 x y). destruct (c1 x y); reflexivity.
    - intros x y z H1 H2.
      destruct (c1 x y) eqn:E1; try discriminate.
      + rewrite (wo_eq _ W1 x y z _ E1 eq_refl).
        destruct (c1 y z) eqn:E2; try discriminate; [apply (wo_lt _ W2 x y z); assumption | reflexivity].
      + destruct (c1 y z) eqn:E2; try discriminate.
        * rewrite (wo_eq_r _ W1 x y z _ E2 E1). reflexivity.
        * rewrite (wo_lt _ W1 x y z E1 E2). reflexivity.
    - intros x y z c H1 H2.
      destruct (c1 x y) eqn:E1; try discriminate.
      rewrite (wo_eq _ W1 x y z _ E1 eq_refl).
      destruct (c1 y z); [apply (wo_eq _ W2 x y z); assumption | exact H2 | exact H2].
  Qed.
End WeakOrder.

Lemma wo_pull {A B} (f : B -> A) cmp : wo cmp -> wo (fun x y => cmp (f x) (f y)).
Proof.
  intro W. split; intros.
  - apply (wo_anti _ W).
  - eapply (wo_lt _ W); eassumption.
  - eapply (wo_eq _ W); eassumption.
Qed.

Lemma wo_opt {A} (cmp : A -> A -> comparison) : wo cmp -> wo (opt_cmp cmp).
Proof.
  intro W. split.
  - intros [x|] [y|]; simpl; auto. apply (wo_anti _ W).
  - intros [x|] [y|] [z|]; simpl; try congruence. apply (wo_lt _ W).
  - intros [x|] [y|] [z|] c; simpl; try congruence. apply (wo_eq _ W).
Qed.

Lemma wo_string : wo String.compare.
Proof.
  split.
  - intros x y. apply String.compare_antisym.
  - intros x y z H1 H2.
    apply String_as_OT.cmp_lt. apply String_as_OT.cmp_lt in H1. apply String_as_OT.cmp_lt in H2.
    eapply String_as_OT.lt_trans; eassumption.
  - intros x y z c H1 H2. apply String.compare_eq_iff in H1. subst y. exact H2.
Qed.
Lemma wo_Z : wo Z.compare.
Proof.
  split.
  - intros x y. apply Z.compare_antisym.
  - intros x y z H1 H2. rewrite Z.compare_lt_iff in *. lia.
  - intros x y z c H1 H2. apply Z.compare_eq in H1. subst y. exact H2.
Qed.

Lemma wo_key k : wo (key_cmp k).
Proof.
  destruct k as [attr|attr|attr|]; simpl.
  - apply (wo_pull (kstr attr) (opt_cmp String.compare)), wo_opt, wo_string.
  - apply (wo_pull (knum attr) (opt_cmp Z.compare)), wo_opt, wo_Z.
  - apply (wo_pull (kbool attr) (opt_cmp Z.compare)), wo_opt, wo_Z.
  - apply (wo_pull fid String.compare), wo_string.
Qed.

Lemma wo_lexcmp keys : wo (lex_cmp keys).
Proof.
  induction keys as [|[k rev] r IH].
  - split; simpl; intros; congruence.
  - assert (W1 : wo (fun a b => if rev then CompOpp (key_cmp k a b) else key_cmp k a b)).
    { destruct rev; [apply wo_opp, wo_key | apply wo_key]. }
    exact (wo_lex _ _ W1 IH).
Qed.

Lemma lex_le_trans keys a b c : lex_le keys a b = true -> lex_le keys b c = true -> lex_le keys a c = true.
Proof.
  unfold lex_le. pose proof (wo_lexcmp keys) as W. intros H1 H2.
  destruct (lex_cmp keys a b) eqn:E1; try discriminate.
  - rewrite (wo_eq _ W a b c _ E1 eq_refl). exact H2.
  - destruct (lex_cmp keys b c) eqn:E2; try discriminate.
    + rewrite (wo_eq_r _ W a b c _ E2 E1). reflexivity.
    + rewrite (wo_lt _ W a b c E1 E2). reflexivity.
Qed.

(* every earlier fit of the ordered result is <= every later one (not only adjacent ones) *)
Theorem ordered_strongly keys l :
  keys <> [] -> StronglySorted (fun a b => lex_le keys a b = true) (ordered keys l).
Proof.
  intro H. apply Sorted_StronglySorted.
  - intros a b c. apply lex_le_trans.
  - apply ordered_spec. exact H.
Qed.

(* ---------- where NULL keys go ---------- *)
Lemma key_null_lt k a b : key_null k a = true -> key_null k b = false -> key_cmp k a b = Lt.
Proof.
  destruct k as [attr|attr|attr|]; simpl; try discriminate.
  - destruct (kstr attr a), (kstr attr b); simpl; congruence.
  - destruct (knum attr a), (knum attr b); simpl; congruence.
  - destruct (kbool attr a), (kbool attr b); simpl; congruence.
Qed.
Lemma key_null_eq k a b : key_null k a = true -> key_null k b = true -> key_cmp k a b = Eq.
Proof.
  destruct k as [attr|attr|attr|]; simpl; try discriminate.
  - destruct (kstr attr a), (kstr attr b); simpl; congruence.
  - destruct (knum attr a), (knum attr b); simpl; congruence.
  - destruct (kbool attr a), (kbool attr b); simpl; congruence.
Qed.

Lemma strongly_before {A} (R : A -> A -> Prop) l : StronglySorted R l ->
  forall l1 a l2 b l3, l = l1 ++ a :: l2 ++ b :: l3 -> R a b.
Proof.
  induction 1 as [|x l S IH F]; intros l1 a l2 b l3 E.
  - destruct l1; discriminate.
  - destruct l1 as [|y l1]; simpl in E; inversion E; subst.
    + rewrite Forall_forall in F. apply F. apply in_or_app. right. left. reflexivity.
    + eapply IH. reflexivity.
Qed.

(* first key ascending: a fit whose key is NULL never comes after a fit whose key is not NULL;
   first key reversed: never before.  (SQLite: NULLs first under ASC, last under DESC) *)
Theorem order_nulls k rev r l l1 a l2 b l3 :
  ordered ((k, rev) :: r) l = l1 ++ a :: l2 ++ b :: l3 ->
  (rev = false -> key_null k b = true -> key_null k a = true) /\
  (rev = true -> key_null k a = true -> key_null k b = true).
Proof.
  intro E.
  assert (S : StronglySorted (fun a b => lex_le ((k, rev) :: r) a b = true) (ordered ((k, rev) :: r) l))
    by (apply ordered_strongly; discriminate).
  pose proof (strongly_before _ _ S _ _ _ _ _ E) as Hab. unfold lex_le in Hab. simpl in Hab.
  split; intros Hr Hn; subst rev.
  - destruct (key_null k a) eqn:Na; [reflexivity|].
    rewrite (key_cmp_antisym k b a), (key_null_lt k b a Hn Na) in Hab. simpl in Hab. discriminate.
  - destruct (key_null k b) eqn:Nb; [reflexivity|].
    rewrite (key_null_lt k a b Hn Nb) in Hab. simpl in Hab. discriminate.
Qed.

(* ---------- the code guarantees nothing about ties; when the keys separate the fits the order is unique ---------- *)
Definition separates (keys : list (okey * bool)) (l : list fit) : Prop :=
  forall a b, In a l -> In b l -> lex_cmp keys a b = Eq -> a = b.

Lemma sorted_perm_unique keys : forall l l',
  separates keys l -> NoDup l -> Permutation l l' ->
  StronglySorted (fun a b => lex_le keys a b = true) l ->
  StronglySorted (fun a b => lex_le keys a b = true) l' -> l = l'.
Proof.
  induction l as [|x l IH]; intros l' Sep ND P S S'.
  - apply Permutation_nil in P. subst. reflexivity.
  - destruct l' as [|y l']; [apply Permutation_sym, Permutation_nil in P; discriminate|].
    apply StronglySorted_inv in S. destruct S as [S Fx].
    apply StronglySorted_inv in S'. destruct S' as [S' Fy].
    rewrite Forall_forall in Fx, Fy.
    assert (Exy : x = y).
    { assert (Hy : In y (x :: l)) by (eapply Permutation_in; [apply Permutation_sym; exact P | left; reflexivity]).
      assert (Hx : In x (y :: l')) by (eapply Permutation_in; [exact P | left; reflexivity]).
      destruct Hy as [Hy|Hy]; [exact Hy|]. destruct Hx as [Hx|Hx]; [congruence|].
      pose proof (Fx y Hy) as L1. pose proof (Fy x Hx) as L2. unfold lex_le in L1, L2.
      rewrite (lex_cmp_antisym keys x y) in L2.
      apply Sep; [left; reflexivity | right; exact Hy |].
      destruct (lex_cmp keys x y); simpl in *; congruence. }
    subst y. f_equal. apply IH.
    + intros a b Ha Hb. apply Sep; right; assumption.
    + inversion ND; assumption.
    + eapply Permutation_cons_inv. exact P.
    + exact S.
    + exact S'.
Qed.

(* any list that is a permutation of the selection and in key order IS the model's result *)
Theorem ordered_unique keys l l' :
  keys <> [] -> separates keys l -> NoDup l -> Permutation l l' ->
  Sorted (fun a b => lex_le keys a b = true) l' -> l' = ordered keys l.
Proof.
  intros K Sep ND P S. symmetry.
  destruct (ordered_spec keys l) as [P0 _].
  apply (sorted_perm_unique keys).
  - intros a b Ha Hb. apply Sep; eapply Permutation_in; try (apply Permutation_sym; exact P0); assumption.
  - eapply Permutation_NoDup; eassumption.
  - eapply perm_trans; [apply Permutation_sym; exact P0 | exact P].
  - apply ordered_strongly. exact K.
  - apply Sorted_StronglySorted; [intros a b c; apply lex_le_trans | exact S].
Qed.

(* the id key separates fits with distinct ids *)
Lemma id_key_separates keys l :
  keys_total keys = true -> NoDup (map fid l) -> separates keys l.
Proof.
  intros T ND a b Ha Hb E.
  assert (Eid : fid a = fid b).
  { revert T E. induction keys as [|[k rev] r IH]; simpl; [discriminate|].
    intros T E.
    destruct k; simpl in T;
      try (destruct (if rev then CompOpp _ else _) eqn:Ec in E; try discriminate; apply IH; assumption).
    destruct rev; simpl in E.
    - destruct (String.compare (fid a) (fid b)) eqn:Ec; simpl in E; try discriminate.
      apply String.compare_eq_iff. exact Ec.
    - destruct (String.compare (fid a) (fid b)) eqn:Ec; simpl in E; try discriminate.
      apply String.compare_eq_iff. exact Ec. }
  clear E. induction l as [|x l IH]; [destruct Ha|].
  simpl in ND. inversion ND as [|? ? Hn Hr]. subst.
  destruct Ha as [Ha|Ha], Hb as [Hb|Hb]; subst.
  - reflexivity.
  - exfalso. apply Hn. rewrite Eid. apply in_map. exact Hb.
  - exfalso. apply Hn. rewrite <- Eid. apply in_map. exact Ha.
  - apply IH; assumption.
Qed.
