From Coq Require Import ZArith List Bool String Lia.
From PAFC10 Require Import Model.
Import ListNotations.
Lemma iter_negb_S n b : iter_negb (S n) b = negb (iter_negb n b).
Proof. reflexivity. Qed.
