(* C10 lemmas, part 1: induction principle for query objects, soundness of structural
   equality, list/boolean helpers, unique-name lookup, flattening. *)
From Coq Require Import ZArith List Bool String Lia.
From PAFC10 Require Import Model.
Import ListNotations.
Open Scope string_scope.
Open Scope list_scope.

(* ---------- induction principle for the nested inductive qobj ---------- *)
Section QInd.
  Variable P : qobj -> Prop.
  Hypothesis HNoneC : P QNoneC.
  Hypothesis HVal : forall c v, P (QVal c v).
  Hypothesis HStr : forall c s, P (QStr c s).
  Hypothesis HType : forall cls, P (QType cls).
  Hypothesis HNamed : forall n inner inv, P inner -> P (QNamed n inner inv).
  Hypothesis HAttr : forall negs a, P (QAttr negs a).
  Hypothesis HInfo : forall negs k v, P (QInfo negs k v).
  Hypothesis HAttrT : forall negs a, P (QAttrT negs a).
  Hypothesis HInfoI : forall inv k v, P (QInfoI inv k v).
  Hypothesis HJ : forall k ms, Forall P ms -> P (QJ k ms).

  Fixpoint qobj_ind' (q : qobj) : P q :=
    match q with
    | QNoneC => HNoneC
    | QVal c v => HVal c v
    | QStr c s => HStr c s
    | QType cls => HType cls
    | QNamed n inner inv => HNamed n inner inv (qobj_ind' inner)
    | QAttr negs a => HAttr negs a
    | QInfo negs k v => HInfo negs k v
    | QAttrT negs a => HAttrT negs a
    | QInfoI inv k v => HInfoI inv k v
    | QJ k ms =>
        HJ k ms ((fix go (l : list qobj) : Forall P l :=
                    match l with
                    | [] => Forall_nil P
                    | x :: r => Forall_cons x (qobj_ind' x) (go r)
                    end) ms)
    end.
End QInd.

(* ---------- structural equality is sound ---------- *)
Lemma cmp_eqb_eq a b : cmp_eqb a b = true -> a = b.
Proof. destruct a, b; simpl; congruence. Qed.
Lemma jk_eqb_eq a b : jk_eqb a b = true -> a = b.
Proof. destruct a, b; simpl; congruence. Qed.
Lemma opt_str_eqb_eq a b : opt_str_eqb a b = true -> a = b.
Proof.
  destruct a, b; simpl; try congruence. intro H. apply String.eqb_eq in H. congruence.
Qed.
Lemma acond_eqb_eq a b : acond_eqb a b = true -> a = b.
Proof.
  destruct a, b; simpl; try congruence; intro H;
    try (apply andb_true_iff in H; destruct H as [H1 H2]);
    try apply String.eqb_eq in H; try apply String.eqb_eq in H1;
    try apply String.eqb_eq in H2; try apply Z.eqb_eq in H2; try apply opt_str_eqb_eq in H2;
    try apply Bool.eqb_prop in H2;
    congruence.
Qed.

Lemma qobj_eqb_eq : forall a b, qobj_eqb a b = true -> a = b.
Proof.
  induction a as [| | | |n inner inv IHa| | | | |k ms HF] using qobj_ind'; destruct b; simpl; try congruence; intro E.
  - apply andb_true_iff in E. destruct E as [H1 H2].
    apply cmp_eqb_eq in H1. apply Z.eqb_eq in H2. congruence.
  - apply andb_true_iff in E. destruct E as [H1 H2].
    apply cmp_eqb_eq in H1. apply String.eqb_eq in H2. congruence.
  - apply String.eqb_eq in E. congruence.
  - apply andb_true_iff in E. destruct E as [H12 H3].
    apply andb_true_iff in H12. destruct H12 as [H1 H2].
    apply String.eqb_eq in H1. apply IHa in H2. apply Bool.eqb_prop in H3. congruence.
  - apply andb_true_iff in E. destruct E as [H1 H2].
    apply Nat.eqb_eq in H1. apply acond_eqb_eq in H2. congruence.
  - apply andb_true_iff in E. destruct E as [H12 H3].
    apply andb_true_iff in H12. destruct H12 as [H1 H2].
    apply Nat.eqb_eq in H1. apply String.eqb_eq in H2. apply String.eqb_eq in H3. congruence.
  - apply andb_true_iff in E. destruct E as [H1 H2].
    apply Nat.eqb_eq in H1. apply acond_eqb_eq in H2. congruence.
  - apply andb_true_iff in E. destruct E as [H12 H3].
    apply andb_true_iff in H12. destruct H12 as [H1 H2].
    apply Bool.eqb_prop in H1. apply String.eqb_eq in H2. apply String.eqb_eq in H3. congruence.
  - apply andb_true_iff in E. destruct E as [H1 H2].
    apply jk_eqb_eq in H1. subst k0. f_equal.
    revert ms0 H2. induction HF as [|x r Hx Hr IH]; intros ns H2; destruct ns; try congruence.
    apply andb_true_iff in H2. destruct H2 as [Ha Hb].
    apply Hx in Ha. apply IH in Hb. congruence.
Qed.

(* ---------- junction meaning over a list ---------- *)
Definition jop (k : jk) (a b : bool) : bool := match k with JAnd => a && b | JOr => a || b end.
Definition jsem {A} (k : jk) (P : A -> bool) (l : list A) : bool :=
  match k with JAnd => forallb P l | JOr => existsb P l end.

Lemma holds_QJ f k ms o : holds f (QJ k ms) o = jsem k (fun m => holds f m o) ms.
Proof. destruct k; reflexivity. Qed.

Lemma jsem_app {A} k (P : A -> bool) a b : jsem k P (a ++ b) = jop k (jsem k P a) (jsem k P b).
Proof. destruct k; simpl; [apply forallb_app | apply existsb_app]. Qed.

Lemma jsem_and_true {A} (P : A -> bool) l : jsem JAnd P l = true <-> (forall x, In x l -> P x = true).
Proof. simpl. apply forallb_forall. Qed.
Lemma jsem_or_true {A} (P : A -> bool) l : jsem JOr P l = true <-> (exists x, In x l /\ P x = true).
Proof. simpl. apply existsb_exists. Qed.

Lemma jsem_ext_in {A} k (P Q : A -> bool) l : (forall x, In x l -> P x = Q x) -> jsem k P l = jsem k Q l.
Proof.
  intro H. apply eq_iff_eq_true. destruct k.
  - rewrite !jsem_and_true. split; intros G x Hx; [rewrite <- H | rewrite H]; auto.
  - rewrite !jsem_or_true. split; intros [x [Hx G]]; exists x; split; auto; [rewrite <- H | rewrite H]; auto.
Qed.

Lemma jsem_same_set {A} k (P : A -> bool) l l' : (forall x, In x l <-> In x l') -> jsem k P l = jsem k P l'.
Proof.
  intro H. apply eq_iff_eq_true. destruct k.
  - rewrite !jsem_and_true. split; intros G x Hx; apply G, H, Hx.
  - rewrite !jsem_or_true. split; intros [x [Hx G]]; exists x; split; auto; apply H, Hx.
Qed.

Lemma jsem_map {A B} k (g : A -> B) (P : B -> bool) l : jsem k P (map g l) = jsem k (fun x => P (g x)) l.
Proof.
  destruct k; simpl; induction l; simpl; auto; rewrite IHl; reflexivity.
Qed.

Lemma jsem_single {A} k (P : A -> bool) x : jsem k P [x] = P x.
Proof. destruct k; simpl; [apply andb_true_r | apply orb_false_r]. Qed.

Lemma jsem_partition {A} k (P : A -> bool) (p : A -> bool) l :
  jsem k P l = jop k (jsem k P (filter (fun x => negb (p x)) l)) (jsem k P (filter p l)).
Proof.
  destruct k; simpl; induction l as [|x r IH]; simpl; auto; destruct (p x); simpl; rewrite IH.
  - destruct (P x); simpl; auto. rewrite andb_false_r. reflexivity.
  - rewrite andb_assoc. reflexivity.
  - destruct (P x); simpl; auto. rewrite orb_true_r. reflexivity.
  - rewrite orb_assoc. reflexivity.
Qed.

(* a constant-false member kills a non-empty junction *)
Lemma jsem_const_false {A} k (l : list A) : l <> [] -> jsem k (fun _ => false) l = false.
Proof. destruct k, l; simpl; try congruence; intros _. induction l; simpl; auto. Qed.

(* distributing a common conjunct *)
Lemma jsem_and_split {A} (a h : A -> bool) l :
  jsem JAnd (fun x => a x && h x) l = jsem JAnd a l && jsem JAnd h l.
Proof.
  simpl. induction l as [|x r IH]; simpl; auto. rewrite IH.
  destruct (a x), (h x), (forallb a r), (forallb h r); reflexivity.
Qed.
Lemma jsem_or_factor {A} (c : bool) (h : A -> bool) l :
  jsem JOr (fun x => c && h x) l = c && jsem JOr h l.
Proof.
  simpl. induction l as [|x r IH]; simpl.
  - rewrite andb_false_r. reflexivity.
  - rewrite IH. destruct c, (h x); reflexivity.
Qed.

(* ---------- strings: membership, nodup ---------- *)
Lemma mem_str_in s l : mem_str s l = true <-> In s l.
Proof.
  induction l as [|x r IH]; simpl; [split; [congruence | tauto]|].
  rewrite orb_true_iff, IH, String.eqb_eq. tauto.
Qed.
Lemma nodup_str_in s l : In s (nodup_str l) <-> In s l.
Proof.
  induction l as [|x r IH]; simpl; [tauto|].
  destruct (mem_str x r) eqn:E.
  - rewrite IH. apply mem_str_in in E. split; [tauto | intros [H | H]; subst; auto].
  - simpl. rewrite IH. tauto.
Qed.

(* ---------- lookup under unique names ---------- *)
Lemma lookup_none_notin {A} n (l : list (string * A)) : lookup n l = None -> ~ In n (map fst l).
Proof.
  induction l as [|[k v] r IH]; simpl; [tauto|].
  destruct (String.eqb k n) eqn:E; [congruence|].
  intros H [G | G]; [subst; rewrite String.eqb_refl in E; congruence | apply IH; auto].
Qed.

Lemma exists_unique_name {A} (P : A -> bool) n (l : list (string * A)) :
  str_nodup (map fst l) = true ->
  existsb (fun nc => String.eqb (fst nc) n && P (snd nc)) l =
  match lookup n l with Some c => P c | None => false end.
Proof.
  induction l as [|[k v] r IH]; simpl; auto.
  intro H. apply andb_true_iff in H. destruct H as [H1 H2].
  destruct (String.eqb k n) eqn:E; simpl.
  - apply String.eqb_eq in E. subst k.
    destruct (P v); simpl; auto.
    (* no other child carries the name *)
    apply negb_true_iff in H1.
    clear IH H2. induction r as [|[k' v'] r' IH']; simpl in *; auto.
    apply orb_false_iff in H1. destruct H1 as [Ha Hb].
    rewrite Ha. simpl. apply IH'. exact Hb.
  - apply IH. exact H2.
Qed.

Lemma lookup_in {A} n (l : list (string * A)) c : lookup n l = Some c -> In (n, c) l.
Proof.
  induction l as [|[k v] r IH]; simpl; [congruence|].
  destruct (String.eqb k n) eqn:E.
  - apply String.eqb_eq in E. intro H. inversion H. subst. auto.
  - intro H. right. auto.
Qed.

Lemma wf_child o n c : wf_obj o = true -> lookup n (kids o) = Some c -> wf_obj c = true.
Proof.
  destruct o; simpl; try congruence.
  intros H L. apply andb_true_iff in H. destruct H as [_ H].
  rewrite forallb_forall in H. apply lookup_in in L. apply (H (n, c)). exact L.
Qed.

Lemma wf_names o : wf_obj o = true -> str_nodup (map fst (kids o)) = true.
Proof.
  destruct o; simpl; auto. intro H. apply andb_true_iff in H. tauto.
Qed.

(* meaning of an un-inverted / inverted NamedQuery at a well-formed object *)
Lemma holds_named f n inner inv o :
  wf_obj o = true ->
  holds f (QNamed n inner inv) o =
  xorb inv (match lookup n (kids o) with
            | Some c => in_tabs (mtabs inner) c && holds f inner c
            | None => false
            end).
Proof.
  intro W. simpl. f_equal.
  rewrite <- (exists_unique_name (fun c => in_tabs (mtabs inner) c && holds f inner c) n (kids o) (wf_names o W)).
  apply jsem_ext_in with (k := JOr). intros x _. rewrite andb_assoc. reflexivity.
Qed.

(* ---------- tables ---------- *)
Lemma tabs_ext a b : t_none a = t_none b -> t_val a = t_val b -> t_str a = t_str b -> a = b.
Proof. destruct a, b; simpl; congruence. Qed.

Definition tabs_union (l : list qobj) : tabs := fold_right (fun m acc => tabs_or (mtabs m) acc) tabs0 l.

Lemma mtabs_QJ k ms : mtabs (QJ k ms) = tabs_union ms.
Proof. reflexivity. Qed.

Lemma tabs_union_none l : t_none (tabs_union l) = existsb (fun m => t_none (mtabs m)) l.
Proof. induction l; simpl; auto. rewrite IHl. reflexivity. Qed.
Lemma tabs_union_val l : t_val (tabs_union l) = existsb (fun m => t_val (mtabs m)) l.
Proof. induction l; simpl; auto. rewrite IHl. reflexivity. Qed.
Lemma tabs_union_str l : t_str (tabs_union l) = existsb (fun m => t_str (mtabs m)) l.
Proof. induction l; simpl; auto. rewrite IHl. reflexivity. Qed.

Lemma tabs_union_app a b : tabs_union (a ++ b) = tabs_or (tabs_union a) (tabs_union b).
Proof.
  apply tabs_ext; simpl; rewrite ?tabs_union_none, ?tabs_union_val, ?tabs_union_str; apply existsb_app.
Qed.

Lemma tabs_union_same_set l l' : (forall x, In x l <-> In x l') -> tabs_union l = tabs_union l'.
Proof.
  intro H. apply tabs_ext; rewrite ?tabs_union_none, ?tabs_union_val, ?tabs_union_str;
    apply (jsem_same_set JOr); exact H.
Qed.

Lemma tabs_union_zero l : (forall x, In x l -> mtabs x = tabs0) -> tabs_union l = tabs0.
Proof.
  induction l as [|x r IH]; simpl; auto. intro H.
  rewrite (H x (or_introl eq_refl)), IH; auto.
Qed.

Lemma tabs_or_0_r a : tabs_or a tabs0 = a.
Proof. destruct a as [x y z]; destruct x, y, z; reflexivity. Qed.
Lemma tabs_or_0_l a : tabs_or tabs0 a = a.
Proof. destruct a; reflexivity. Qed.

Lemma in_tabs_or a b c : in_tabs (tabs_or a b) c = in_tabs a c && in_tabs b c.
Proof.
  destruct a as [a1 a2 a3], b as [b1 b2 b3]; unfold in_tabs; simpl.
  destruct a1, a2, a3, b1, b2, b3, c; reflexivity.
Qed.
Lemma in_tabs_0 c : in_tabs tabs0 c = true.
Proof. reflexivity. Qed.
Lemma in_tabs_union l c : in_tabs (tabs_union l) c = forallb (fun m => in_tabs (mtabs m) c) l.
Proof.
  induction l as [|x r IH]; simpl; auto. rewrite in_tabs_or, IH. reflexivity.
Qed.

Lemma tabs_eqb_eq a b : tabs_eqb a b = true -> a = b.
Proof.
  unfold tabs_eqb. intro H. apply andb_true_iff in H. destruct H as [H12 H3].
  apply andb_true_iff in H12. destruct H12 as [H1 H2].
  apply tabs_ext; apply Bool.eqb_prop; assumption.
Qed.
Lemma tabs_or_idem a : tabs_or a a = a.
Proof. destruct a as [x y z]; destruct x, y, z; reflexivity. Qed.

Lemma all_same_tabs_union x r : all_same_tabs (x :: r) = true ->
  tabs_union (x :: r) = mtabs x /\ (forall y, In y (x :: r) -> mtabs y = mtabs x).
Proof.
  simpl. intro H. rewrite forallb_forall in H.
  assert (G : forall y, In y r -> mtabs y = mtabs x).
  { intros y Hy. symmetry. apply tabs_eqb_eq. apply H. exact Hy. }
  split.
  - clear H. induction r as [|y r' IH]; simpl.
    + apply tabs_or_0_r.
    + simpl in IH. rewrite (G y (or_introl eq_refl)).
      assert (E : tabs_or (mtabs x) (tabs_union r') = mtabs x).
      { apply IH. intros z Hz. apply G. right. exact Hz. }
      rewrite E. apply tabs_or_idem.
  - intros y [Hy | Hy]; [subst; reflexivity | apply G; exact Hy].
Qed.

(* ---------- flattening ---------- *)
Lemma flatten_QJ_same k ms : flatten k (QJ k ms) = flat_map (flatten k) ms.
Proof.
  simpl. assert (E : jk_eqb k k = true). { destruct k; reflexivity. } rewrite E.
  induction ms as [|x r IH]; simpl; [reflexivity | rewrite IH; reflexivity].
Qed.
Lemma flatten_other k q : (forall ms, q <> QJ k ms) -> flatten k q = [q].
Proof.
  destruct q; simpl; auto. intro H.
  destruct (jk_eqb k k0) eqn:E; auto. apply jk_eqb_eq in E. subst. exfalso. apply (H ms). reflexivity.
Qed.

Lemma jsem_flat_map {A B} k (P : B -> bool) (g : A -> list B) l :
  jsem k P (flat_map g l) = jsem k (fun x => jsem k P (g x)) l.
Proof.
  induction l as [|x r IH]; simpl; [destruct k; reflexivity|].
  rewrite jsem_app, IH. destruct k; reflexivity.
Qed.

Lemma flatten_sem f k o : forall q, jsem k (fun m => holds f m o) (flatten k q) = holds f q o.
Proof.
  induction q as [| | | |n inner inv IHq| | | | |k' ms HF] using qobj_ind';
    try (rewrite flatten_other by (intros; congruence); rewrite jsem_single; reflexivity).
  destruct (jk_eqb k k') eqn:E.
  - apply jk_eqb_eq in E. subst k'. rewrite flatten_QJ_same, jsem_flat_map, holds_QJ.
    apply jsem_ext_in. intros x Hx. rewrite Forall_forall in HF. apply HF. exact Hx.
  - rewrite flatten_other; [rewrite jsem_single; reflexivity|].
    intros ms' Hq. inversion Hq. subst.
    match goal with E' : jk_eqb ?a ?a = false |- _ => destruct a; simpl in E'; congruence end.
Qed.

Lemma flatten_tabs k : forall q, tabs_union (flatten k q) = mtabs q.
Proof.
  induction q as [| | | |n inner inv IHq| | | | |k' ms HF] using qobj_ind';
    try (rewrite flatten_other by (intros; congruence); simpl; apply tabs_or_0_r).
  destruct (jk_eqb k k') eqn:E.
  - apply jk_eqb_eq in E. subst k'. rewrite flatten_QJ_same, mtabs_QJ.
    induction HF as [|x r Hx Hr IH]; simpl; auto.
    rewrite tabs_union_app, Hx, IH. reflexivity.
  - rewrite flatten_other; [simpl; apply tabs_or_0_r|].
    intros ms' Hq. inversion Hq. subst.
    match goal with E' : jk_eqb ?a ?a = false |- _ => destruct a; simpl in E'; congruence end.
Qed.

Lemma flat_map_flatten_sem f k o conds :
  jsem k (fun m => holds f m o) (flat_map (flatten k) conds) = jsem k (fun m => holds f m o) conds.
Proof.
  rewrite jsem_flat_map. apply jsem_ext_in. intros x _. apply flatten_sem.
Qed.
Lemma flat_map_flatten_tabs k conds : tabs_union (flat_map (flatten k) conds) = tabs_union conds.
Proof.
  induction conds as [|x r IH]; simpl; auto.
  rewrite tabs_union_app, flatten_tabs, IH. reflexivity.
Qed.

(* ---------- de-duplication keeps the set ---------- *)
Lemma mem_q_in q l : mem_q q l = true -> In q l.
Proof.
  induction l as [|x r IH]; simpl; [congruence|].
  intro H. apply orb_true_iff in H. destruct H as [H | H].
  - apply qobj_eqb_eq in H. auto.
  - auto.
Qed.
Lemma dedupe_in q l : In q (dedupe l) <-> In q l.
Proof.
  induction l as [|x r IH]; simpl; [tauto|].
  destruct (mem_q x r) eqn:E.
  - rewrite IH. split; [tauto|]. intros [H | H]; [subst; apply mem_q_in; exact E | exact H].
  - simpl. rewrite IH. tauto.
Qed.

(* ---------- map_result ---------- *)
Lemma map_result_ok {A B} (g : A -> result B) l ys :
  map_result g l = Ok ys -> Forall2 (fun x y => g x = Ok y) l ys.
Proof.
  revert ys. induction l as [|x r IH]; simpl; intros ys H.
  - inversion H. constructor.
  - destruct (g x) eqn:E; simpl in H; try congruence.
    destruct (map_result g r) eqn:E'; simpl in H; try congruence.
    inversion H. subst. constructor; auto.
Qed.

Lemma iter_negb_S n b : iter_negb (S n) b = negb (iter_negb n b).
Proof. reflexivity. Qed.
