(* C10 lemmas, part 6: which exceptions a well-formed predicate can raise, and where. *)
From Coq Require Import ZArith List Bool String Lia.
From PAFC10 Require Import Model Proofs Proofs2 Proofs3.
Import ListNotations.
Open Scope list_scope.

(* conditions that can stand at the top of a predicate: never a bare value / type / None condition *)
Fixpoint topqb (q : qobj) : bool :=
  match q with
  | QNoneC | QVal _ _ | QStr _ _ | QType _ => false
  | QJ _ ms => forallb topqb ms
  | _ => true
  end.

Lemma flatten_topq k : forall q, topqb q = true -> forall x, In x (flatten k q) -> topqb x = true.
Proof.
  induction q as [| | | |n inner inv IHq| | | | |k' ms HF] using qobj_ind'; intros T x Hx;
    try (rewrite flatten_other in Hx by (intros; congruence); destruct Hx as [E | []]; subst; exact T).
  destruct (jk_eqb k k') eqn:E.
  - apply jk_eqb_eq in E. subst k'. rewrite flatten_QJ_same in Hx.
    apply in_flat_map in Hx. destruct Hx as [m [Hm Hx]].
    rewrite Forall_forall in HF. simpl in T. rewrite forallb_forall in T.
    apply (HF m Hm (T m Hm) x Hx).
  - rewrite flatten_other in Hx.
    + destruct Hx as [E' | []]. subst. exact T.
    + intros ms' Hq. inversion Hq. subst.
      match goal with E' : jk_eqb ?a ?a = false |- _ => destruct a; simpl in E'; congruence end.
Qed.

Lemma mk_junction_topq vr fuel k conds q :
  (forall x, In x conds -> topqb x = true) -> mk_junction vr fuel k conds = Ok q -> topqb q = true.
Proof.
  intros T H. destruct fuel as [|fuel]; [simpl in H; congruence|].
  rewrite mk_junction_S in H. cbv zeta in H.
  set (flat := flat_map (flatten k) conds) in *.
  set (named := filter (mergeable vr) flat) in *.
  set (others := filter (fun q => negb (mergeable vr q)) flat) in *.
  destruct (map_result (merge_one vr fuel k named) (nodup_key (map (mkey vr k) named))) as [merged|e] eqn:EM;
    simpl in H; [|congruence].
  assert (A : forall x, In x (dedupe (others ++ merged)) -> topqb x = true).
  { intros x Hx. apply (proj1 (dedupe_in _ _)) in Hx. apply (proj1 (in_app_iff _ _ _)) in Hx. destruct Hx as [Hx | Hx].
    - unfold others in Hx. apply filter_In in Hx. destruct Hx as [Hx _].
      unfold flat in Hx. apply (proj1 (in_flat_map _ _ _)) in Hx. destruct Hx as [c [Hc Hx]].
      apply (flatten_topq k c (T c Hc) x Hx).
    - apply map_result_ok in EM. clear -EM Hx.
      induction EM as [|n y ns ys Hn _ IH]; simpl in Hx; [tauto|].
      destruct Hx as [Hx | Hx]; [subst y | auto].
      apply merge_one_ok in Hn. destruct Hn as [sub [_ E]]. subst. reflexivity. }
  unfold finish in H. destruct (dedupe (others ++ merged)) as [|x [|y r]]; inversion H; subst; simpl.
  - reflexivity.
  - apply A. left. reflexivity.
  - rewrite (A x (or_introl eq_refl)), (A y (or_intror (or_introl eq_refl))). simpl.
    apply forallb_forall. intros z Hz. apply A. right. right. exact Hz.
Qed.

Lemma named_path_topq path leaf : path <> [] -> topqb (named_path path leaf) = true.
Proof. destruct path; [congruence | reflexivity]. Qed.

Lemma invert_topq vr : forall x q, invert vr x = Ok q -> topqb q = true.
Proof.
  induction x as [| | | |n inner inv IHq|negs a|negs k v|negs a|inv k v|k ms HF] using qobj_ind';
    intros q H; try (simpl in H; congruence); try (simpl in H; inversion H; reflexivity).
  - simpl in H. destruct (fix_not_null vr); inversion H; reflexivity.
  - rewrite invert_QJ in H. destruct (fix_not_junction vr); [|congruence].
    destruct (map_result (invert vr) ms) as [ms'|e] eqn:EM; simpl in H; [|congruence].
    unfold junction in H. apply (mk_junction_topq _ _ _ _ _) with (2 := H).
    intros y Hy. apply map_result_ok in EM. rewrite Forall_forall in HF.
    clear H. induction EM as [|x0 y0 xs ys Hxy _ IH]; simpl in Hy; [tauto|].
    destruct Hy as [E | Hy].
    + subst y0. apply (HF x0 (or_introl eq_refl) y Hxy).
    + apply IH; [intros z Hz; apply HF; right; exact Hz | exact Hy].
Qed.

Lemma compile_topq vr : forall p q, compile vr p = Ok q -> topqb q = true.
Proof.
  induction p as [path c k|a|k v|a IHa b IHb|a IHa b IHb|a IHa]; intros q H; simpl in H.
  - destruct path as [|n r]; [congruence|].
    destruct (leaf_of c k) as [leaf|e]; simpl in H; [|congruence]. inversion H. reflexivity.
  - inversion H. reflexivity.
  - destruct (fix_not_info vr); inversion H; reflexivity.
  - destruct (compile vr a) as [x|e]; simpl in H; [|congruence].
    destruct (compile vr b) as [y|e]; simpl in H; [|congruence].
    unfold junction in H.
    assert (T : forall z, In z [x; y] -> topqb z = true).
    { intros z [E | [E | []]]; subst z; [apply IHa | apply IHb]; reflexivity. }
    apply (mk_junction_topq _ _ _ _ _ T H).
  - destruct (compile vr a) as [x|e]; simpl in H; [|congruence].
    destruct (compile vr b) as [y|e]; simpl in H; [|congruence].
    unfold junction in H.
    assert (T : forall z, In z [x; y] -> topqb z = true).
    { intros z [E | [E | []]]; subst z; [apply IHa | apply IHb]; reflexivity. }
    apply (mk_junction_topq _ _ _ _ _ T H).
  - destruct (compile vr a) as [x|e]; simpl in H; [|congruence].
    apply (invert_topq vr x q H).
Qed.

Lemma mk_junction_err vr : forall fuel k conds e,
  mk_junction vr fuel k conds = Err e -> e = EAssertion \/ e = EFuel.
Proof.
  induction fuel as [|fuel IH]; intros k conds e H; [simpl in H; inversion H; auto|].
  rewrite mk_junction_S in H. cbv zeta in H.
  set (flat := flat_map (flatten k) conds) in *.
  set (named := filter (mergeable vr) flat) in *.
  destruct (map_result (merge_one vr fuel k named) (nodup_key (map (mkey vr k) named))) as [merged|e'] eqn:EM; simpl in H.
  - unfold finish in H. destruct (dedupe _) as [|x [|y r]]; congruence.
  - inversion H. subst e'. apply map_result_err in EM. destruct EM as [n [_ Hg]].
    unfold merge_one in Hg.
    destruct (mk_junction vr fuel k (map qinner (grp vr k n named))) as [sub|e'] eqn:ES.
    + unfold bind in Hg. cbv zeta in Hg. destruct (tables_ok (QNamed (fst n) sub false)); inversion Hg. auto.
    + simpl in Hg. inversion Hg. subst e'. apply (IH _ _ _ ES).
Qed.

(* a well-formed predicate fails to compile only by negating a junction (TypeError) or by a merge
   that needs three tables (AssertionError) *)
Theorem compile_err vr : fix_not_junction vr = false -> forall p e,
  wf_pred p = true -> compile vr p = Err e ->
  (e = ETypeError /\ has_not_junction vr p = true) \/ e = EAssertion.
Proof.
  intro NJ. induction p as [path c k|a|k v|a IHa b IHb|a IHa b IHb|a IHa]; intros e W H; simpl in H.
  - exfalso. simpl in W. destruct path as [|n r]; [simpl in W; congruence|]. simpl in W.
    destruct k; simpl in H; try congruence; destruct (cmp_eqb c CEq); simpl in W, H; congruence.
  - congruence.
  - destruct (fix_not_info vr); congruence.
  - simpl in W. apply andb_true_iff in W. destruct W as [Wa Wb].
    destruct (compile vr a) as [x|e1] eqn:Ea; simpl in H.
    + destruct (compile vr b) as [y|e2] eqn:Eb; simpl in H.
      * right. unfold junction in H. destruct (mk_junction_err _ _ _ _ _ H) as [E | E]; [exact E|].
        exfalso. subst e. revert H. apply mk_junction_no_fuel. lia.
      * inversion H. subst e2. destruct (IHb e Wb eq_refl) as [[E1 E2] | E]; [left | right; exact E].
        split; [exact E1 | simpl; rewrite E2; apply orb_true_r].
    + inversion H. subst e1. destruct (IHa e Wa eq_refl) as [[E1 E2] | E]; [left | right; exact E].
      split; [exact E1 | simpl; rewrite E2; reflexivity].
  - simpl in W. apply andb_true_iff in W. destruct W as [Wa Wb].
    destruct (compile vr a) as [x|e1] eqn:Ea; simpl in H.
    + destruct (compile vr b) as [y|e2] eqn:Eb; simpl in H.
      * right. unfold junction in H. destruct (mk_junction_err _ _ _ _ _ H) as [E | E]; [exact E|].
        exfalso. subst e. revert H. apply mk_junction_no_fuel. lia.
      * inversion H. subst e2. destruct (IHb e Wb eq_refl) as [[E1 E2] | E]; [left | right; exact E].
        split; [exact E1 | simpl; rewrite E2; apply orb_true_r].
    + inversion H. subst e1. destruct (IHa e Wa eq_refl) as [[E1 E2] | E]; [left | right; exact E].
      split; [exact E1 | simpl; rewrite E2; reflexivity].
  - simpl in W. destruct (compile vr a) as [x|e1] eqn:Ea; simpl in H.
    + left. pose proof (compile_topq vr a x Ea) as T.
      destruct x; simpl in T; try congruence; try (simpl in H; congruence).
      * simpl in H. destruct (fix_not_null vr); congruence.
      * rewrite invert_QJ, NJ in H. inversion H. split; [reflexivity|]. simpl. rewrite Ea. apply orb_true_r.
    + inversion H. subst e1. destruct (IHa e W eq_refl) as [[E1 E2] | E]; [left | right; exact E].
      split; [exact E1 | simpl; rewrite E2; reflexivity].
Qed.

Lemma invert_err_kind vr : forall x e, invert vr x = Err e -> e = EAssertion \/ e = ETypeError \/ e = EFuel.
Proof.
  induction x as [| | | |n inner inv IHq|negs a|negs k v|negs a|inv k v|k ms HF] using qobj_ind';
    intros e H; try (simpl in H; inversion H; auto; fail); try (simpl in H; congruence).
  - simpl in H. destruct (fix_not_null vr); congruence.
  - rewrite invert_QJ in H. destruct (fix_not_junction vr); [|inversion H; auto].
    destruct (map_result (invert vr) ms) as [ms'|e'] eqn:EM; simpl in H.
    + unfold junction in H. destruct (mk_junction_err _ _ _ _ _ H); auto.
    + inversion H. subst e'. apply map_result_err in EM. destruct EM as [x [Hx Ex]].
      rewrite Forall_forall in HF. exact (HF x Hx e Ex).
Qed.

(* compile only ever fails with the exceptions of the construct stage *)
Lemma compile_err_kind vr : forall p e, compile vr p = Err e -> e = EAssertion \/ e = ETypeError \/ e = EFuel.
Proof.
  induction p as [path c k|a|k v|a IHa b IHb|a IHa b IHb|a IHa]; intros e H; simpl in H.
  - destruct path as [|n r]; [inversion H; auto|].
    destruct k; simpl in H; try congruence; destruct (cmp_eqb c CEq); simpl in H; inversion H; auto.
  - congruence.
  - destruct (fix_not_info vr); congruence.
  - destruct (compile vr a) as [x|e1]; simpl in H; [|inversion H; subst; apply IHa; reflexivity].
    destruct (compile vr b) as [y|e2]; simpl in H; [|inversion H; subst; apply IHb; reflexivity].
    unfold junction in H. destruct (mk_junction_err _ _ _ _ _ H); auto.
  - destruct (compile vr a) as [x|e1]; simpl in H; [|inversion H; subst; apply IHa; reflexivity].
    destruct (compile vr b) as [y|e2]; simpl in H; [|inversion H; subst; apply IHb; reflexivity].
    unfold junction in H. destruct (mk_junction_err _ _ _ _ _ H); auto.
  - destruct (compile vr a) as [x|e1]; simpl in H; [|inversion H; subst; apply IHa; reflexivity].
    apply (invert_err_kind vr x e H).
Qed.

(* with escaped constants (60fb795) the execute stage cannot fail *)
Lemma no_sql_error db p : model_query current db p <> Err ESql.
Proof.
  unfold model_query, compile_top. destruct (has_shadow p); simpl; [congruence|].
  destruct (compile current p) as [q|e] eqn:E; simpl; [congruence|].
  intro H. inversion H. subst e.
  destruct (compile_err_kind current p ESql E) as [K | [K | K]]; congruence.
Qed.

(* with De Morgan negation a well-formed predicate can only fail through a merge that needs three tables *)
Lemma invert_err_topq vr : fix_not_junction vr = true ->
  forall x e, topqb x = true -> invert vr x = Err e -> e = EAssertion.
Proof.
  intro NJ.
  induction x as [| | | |n inner inv IHq|negs a|negs k v|negs a|inv k v|k ms HF] using qobj_ind';
    intros e T H; try (simpl in T; congruence); try (simpl in H; congruence).
  - simpl in H. destruct (fix_not_null vr); congruence.
  - rewrite invert_QJ, NJ in H.
    destruct (map_result (invert vr) ms) as [ms'|e'] eqn:EM; simpl in H.
    + unfold junction in H. destruct (mk_junction_err _ _ _ _ _ H) as [E | E]; [exact E|].
      exfalso. subst e. revert H. apply mk_junction_no_fuel. lia.
    + inversion H. subst e'. apply map_result_err in EM. destruct EM as [x [Hx Ex]].
      rewrite Forall_forall in HF. simpl in T. rewrite forallb_forall in T.
      exact (HF x Hx e (T x Hx) Ex).
Qed.

Theorem compile_err_demorgan vr : fix_not_junction vr = true -> forall p e,
  wf_pred p = true -> compile vr p = Err e -> e = EAssertion.
Proof.
  intro NJ. induction p as [path c k|a|k v|a IHa b IHb|a IHa b IHb|a IHa]; intros e W H; simpl in H.
  - exfalso. simpl in W. destruct path as [|n r]; [simpl in W; congruence|]. simpl in W.
    destruct k; simpl in H; try congruence; destruct (cmp_eqb c CEq); simpl in W, H; congruence.
  - congruence.
  - destruct (fix_not_info vr); congruence.
  - simpl in W. apply andb_true_iff in W. destruct W as [Wa Wb].
    destruct (compile vr a) as [x|e1] eqn:Ea; simpl in H; [|inversion H; subst; apply IHa; auto].
    destruct (compile vr b) as [y|e2] eqn:Eb; simpl in H; [|inversion H; subst; apply IHb; auto].
    unfold junction in H. destruct (mk_junction_err _ _ _ _ _ H) as [E | E]; [exact E|].
    exfalso. subst e. revert H. apply mk_junction_no_fuel. lia.
  - simpl in W. apply andb_true_iff in W. destruct W as [Wa Wb].
    destruct (compile vr a) as [x|e1] eqn:Ea; simpl in H; [|inversion H; subst; apply IHa; auto].
    destruct (compile vr b) as [y|e2] eqn:Eb; simpl in H; [|inversion H; subst; apply IHb; auto].
    unfold junction in H. destruct (mk_junction_err _ _ _ _ _ H) as [E | E]; [exact E|].
    exfalso. subst e. revert H. apply mk_junction_no_fuel. lia.
  - simpl in W. destruct (compile vr a) as [x|e1] eqn:Ea; simpl in H; [|inversion H; subst; apply IHa; auto].
    apply (invert_err_topq vr NJ x e (compile_topq vr a x Ea) H).
Qed.
