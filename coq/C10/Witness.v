(* C10 witnesses: refutations of the full statements on the faithful model (each is replayed
   on the real code by findings/C10-*.py) and non-vacuity examples for the guards. *)
From Coq Require Import ZArith List Bool String Lia.
From PAFC10 Require Import Model Proofs Proofs2 Proofs3 Proofs4 Proofs5.
Import ListNotations.
Open Scope string_scope.
Open Scope list_scope.

Definition A := "c10_classes.A".
Definition mk (id : string) (inst : obj) (info : list (string * string)) (child : bool) : fit :=
  mkFit id inst [("name", Some id); ("unique_tag", Some "t")] [("max_log_likelihood", 8%Z)]
        [("is_complete", true)] info (if child then Some "f0" else None).

(* instance.a = A(b=1.0, c=2.0), instance.d = 1.0 *)
Definition f0 := mk "f0" (OInst "c10_classes.Root" [("a", OInst A [("b", OVal 8); ("c", OVal 16)]); ("d", OVal 8)]) [("k", "v")] false.
(* instance.a = A(b=2.0, c=2.0), instance.d = "x" *)
Definition f1 := mk "f1" (OInst "c10_classes.Root" [("a", OInst A [("b", OVal 16); ("c", OVal 16)]); ("d", OStr "x")]) [("k", "w"); ("o", "p")] false.
(* instance.a = 1.0, no info *)
Definition f2 := mk "f2" (OInst "c10_classes.Root" [("a", OVal 8); ("d", ONone)]) [] false.
Definition f3 := mk "f3" (OInst "c10_classes.Root" [("a", OVal 0)]) [] true.
Definition f4 := mk "f4" (OInst "c10_classes.Root" [("a", OVal 4)]) [] false.
Definition db5 := [f0; f1; f2; f3; f4].

Example db5_wf : forallb wf_fit db5 = true.
Proof. vm_compute. reflexivity. Qed.

(* (a.b != 1) & (d == 1): the junction drops the inversion *)
Definition p_inv := PAnd (PNot (PCmp ["a"; "b"] CEq (KNum 8))) (PCmp ["d"] CEq (KNum 8)).
Example inverted_merge_refuted :
  exists q, compile legacy p_inv = Ok q /\ wf_fit f0 = true /\ sem q f0 = true /\ eval p_inv f0 = false.
Proof. eexists. split; [vm_compute; reflexivity|]. vm_compute. repeat split. Qed.
Example inverted_merge_guard : safe legacy p_inv = false /\ safe_with current false true true true p_inv = true.
Proof. vm_compute. split; reflexivity. Qed.
Example inverted_merge_repaired :
  exists q, compile current p_inv = Ok q /\ sem q f0 = false /\ sem q f1 = false.
Proof. eexists. split; [vm_compute; reflexivity|]. vm_compute. repeat split. Qed.

(* (a == A) | (a == 1.0): merged Or inner-joins `value` and loses the type branch *)
Definition p_join := POr (PCmp ["a"] CEq (KType A)) (PCmp ["a"] CEq (KNum 8)).
Example or_join_refuted :
  exists q, compile pre4 p_join = Ok q /\ wf_fit f0 = true /\ sem q f0 = false /\ eval p_join f0 = true.
Proof. eexists. split; [vm_compute; reflexivity|]. vm_compute. repeat split. Qed.
(* (a == 1.0) | (a.b == 2.0): same defect with a deeper path *)
Definition p_join2 := POr (PCmp ["a"] CEq (KNum 8)) (PCmp ["a"; "b"] CEq (KNum 16)).
Example or_join2_refuted :
  exists q, compile pre4 p_join2 = Ok q /\ sem q f1 = false /\ eval p_join2 f1 = true.
Proof. eexists. split; [vm_compute; reflexivity|]. vm_compute. repeat split. Qed.

(* ~(info["k"] == "v") *)
Definition p_ninfo := PNot (PInfo "k" "v").
Example not_info_refuted :
  exists q, compile pre4 p_ninfo = Ok q /\ wf_fit f2 = true /\ sem q f2 = false /\ eval p_ninfo f2 = true.
Proof. eexists. split; [vm_compute; reflexivity|]. vm_compute. repeat split. Qed.

(* ~(unique_tag == "t") on a fit whose unique_tag is NULL: not (NULL = 't') is NULL *)
Definition f_null := mkFit "fn" (OInst "c10_classes.Root" [("a", OVal 8)]) [("name", Some "fn"); ("unique_tag", None)]
                           [("max_log_likelihood", 8%Z)] [("is_complete", true)] [] None.
Definition p_nattr := PNot (PAttr (AEqS "unique_tag" (Some "t"))).
Example not_attr_null_refuted :
  exists q, compile pre4 p_nattr = Ok q /\ wf_fit f_null = true /\ sem q f_null = false /\ eval p_nattr f_null = true.
Proof. eexists. split; [vm_compute; reflexivity|]. vm_compute. repeat split. Qed.
Example not_attr_guards :
  safe pre4 p_nattr = false /\ safe_with pre4 true true true false p_nattr = true /\
  attrs_defined f_null = false /\ forallb attrs_defined db5 = true.
Proof. vm_compute. repeat split. Qed.

(* ~((a.b == 1) | (d == 1)): TypeError;  (d == 1.0) | (d == "x"): AssertionError *)
Definition p_notj := PNot (POr (PCmp ["a"; "b"] CEq (KNum 8)) (PCmp ["d"] CEq (KNum 8))).
Definition p_tab3 := POr (PCmp ["d"] CEq (KNum 8)) (PCmp ["d"] CEq (KStr "x")).
Example not_junction_fails : wf_pred p_notj = true /\ compile pre4 p_notj = Err ETypeError.
Proof. vm_compute. split; reflexivity. Qed.
Example three_tables_fails : wf_pred p_tab3 = true /\ compile pre4 p_tab3 = Err EAssertion.
Proof. vm_compute. split; reflexivity. Qed.

(* slicing: [0:2], [1:3], [3:1] on five fits; chained negative start; child fits *)
Example slice_stop_refuted :
  map fid (run_slices legacy false db5 [(Some 0%Z, Some 2%Z)]) = ["f0"; "f1"; "f2"] /\
  map fid (spec_slices false db5 [(Some 0%Z, Some 2%Z)]) = ["f0"; "f1"] /\
  map fid (run_slices legacy false db5 [(Some 1%Z, Some 3%Z)]) = ["f1"] /\
  map fid (run_slices legacy false db5 [(Some 3%Z, Some 1%Z)]) = ["f3"].
Proof. vm_compute. repeat split. Qed.
Example slice_chained_negative_refuted :
  map fid (run_slices legacy false db5 [(Some 1%Z, None); (Some (-1)%Z, None)]) = ["f3"; "f4"] /\
  map fid (spec_slices false db5 [(Some 1%Z, None); (Some (-1)%Z, None)]) = ["f4"].
Proof. vm_compute. repeat split. Qed.
Definition dbc := [f3; f0; f1; f2; f4].     (* f3 is a child fit *)
Example slice_children_refuted :
  map fid (run_slices legacy true dbc [(Some 1%Z, None)]) = ["f0"; "f1"; "f2"; "f4"] /\
  map fid (spec_slices true dbc [(Some 1%Z, None)]) = ["f1"; "f2"; "f4"].
Proof. vm_compute. repeat split. Qed.

(* ---------- non-vacuity: guarded predicates that exercise every rewriting ---------- *)
(* same-name merge below `a`, nested junctions, de-duplication, negation at the top *)
Definition p_ok :=
  POr (PAnd (PCmp ["a"; "b"] CEq (KNum 8)) (PAnd (PCmp ["a"; "c"] CGe (KNum 16)) (PCmp ["a"; "b"] CEq (KNum 8))))
      (PAnd (POr (PCmp ["a"] CLt (KNum 4)) (PCmp ["a"] CGt (KNum 4))) (PNot (PAttr (AEqS "name" (Some "f4"))))).
Example p_ok_safe : safe_with current true true true false p_ok = true /\ wf_pred p_ok = true.
Proof. vm_compute. split; reflexivity. Qed.
(* fully guarded variant: the negation is on a None test, which junctions leave alone *)
Definition p_ok2 :=
  POr (PAnd (PCmp ["a"; "b"] CEq (KNum 8)) (PCmp ["a"; "c"] CGe (KNum 16)))
      (PAnd (POr (PCmp ["a"] CLt (KNum 4)) (PCmp ["a"] CGt (KNum 4))) (PNot (PCmp ["d"] CEq KNone))).
Example p_ok2_safe : safe current p_ok2 = true /\ wf_pred p_ok2 = true.
Proof. vm_compute. split; reflexivity. Qed.
Example p_ok_selects :
  exists q, compile current p_ok = Ok q /\ map fid (select q db5) = ["f0"; "f2"; "f3"] /\
            map fid (filter (eval p_ok) db5) = ["f0"; "f2"; "f3"].
Proof. eexists. split; [vm_compute; reflexivity|]. vm_compute. repeat split. Qed.
(* the compiled form really is merged: one NamedQuery per name *)
Example p_merge_shape :
  compile current (PAnd (PCmp ["a"; "b"] CEq (KNum 8)) (PCmp ["a"; "c"] CEq (KNum 16))) =
  Ok (QNamed "a" (QJ JAnd [QNamed "b" (QVal CEq 8) false; QNamed "c" (QVal CEq 16) false]) false).
Proof. vm_compute. reflexivity. Qed.
Example p_dedupe_shape :
  compile current (PAnd (PAttr (ABool "is_complete")) (PAttr (ABool "is_complete"))) = Ok (QAttr 0 (ABool "is_complete")).
Proof. vm_compute. reflexivity. Qed.
Example p_top_negation : safe current (PNot (PCmp ["a"; "b"] CEq (KNum 8))) = true.
Proof. vm_compute. reflexivity. Qed.

(* ordering and open slices *)
Example order_example :
  map fid (ordered [(ONumKey "max_log_likelihood", false); (OIdKey, true)] db5) = ["f4"; "f3"; "f2"; "f1"; "f0"].
Proof. vm_compute. reflexivity. Qed.
Example open_slices_hold : Forall open_slice [(Some 1%Z, None); (None, None); (Some 2%Z, None)].
Proof. repeat constructor; simpl; lia. Qed.
Example repaired_slices_example :
  map fid (run_slices current true db5 [(Some 1%Z, Some (-1)%Z); (Some (-1)%Z, None)]) = ["f2"].
Proof. vm_compute. reflexivity. Qed.

(* ---------- the refutations in the form stated in Props.v ---------- *)
Lemma legacy_exact_refuted :
  exists p q f, compile legacy p = Ok q /\ wf_pred p = true /\ wf_fit f = true /\ sem q f <> eval p f.
Proof.
  destruct inverted_merge_refuted as [q [Hq [W [Hs He]]]].
  exists p_inv, q, f0. repeat split; auto. rewrite Hs, He. discriminate.
Qed.
Lemma legacy_slice_refuted :
  exists L sl, run_slices legacy false L [sl] <> spec_slices false L [sl].
Proof.
  exists db5, (Some 0%Z, Some 2%Z). intro H. apply (f_equal (map fid)) in H.
  vm_compute in H. discriminate H.
Qed.
Lemma legacy_slice_children_refuted :
  exists L sl, open_slice sl /\ run_slices legacy true L [sl] <> spec_slices true L [sl].
Proof.
  exists dbc, (Some 1%Z, None). split; [split; simpl; [reflexivity | lia]|].
  intro H. apply (f_equal (map fid)) in H. vm_compute in H. discriminate H.
Qed.

(* ---------- defects of the current code outside the junction algebra ---------- *)
(* g.name == "lens": `name` is an attribute of NamedQuery, the comparison is a Python bool *)
Definition f_sh := mk "fs" (OInst "c10_classes.Root" [("g", OInst A [("name", OStr "lens")])]) [] false.
Definition p_shadow := PCmp ["g"; "name"] CEq (KStr "lens").
Example shadow_refuted :
  wf_pred p_shadow = true /\ eval p_shadow f_sh = true /\ model_query current [f_sh] p_shadow = Err EShadow /\
  (exists q, compile current (PCmp ["name"; "g"] CEq (KStr "lens")) = Ok q /\ has_shadow (PCmp ["name"; "g"] CEq (KStr "lens")) = false).
Proof. vm_compute. repeat split. eexists. split; reflexivity. Qed.

(* d == "it's": the constant is pasted between quotes *)
Definition f_qt := mk "fq" (OInst "c10_classes.Root" [("d", OStr "it's")]) [] false.
Definition p_quote := PCmp ["d"] CEq (KStr "it's").
Example quote_refuted :
  eval p_quote f_qt = true /\ model_query prequote [f_qt] p_quote = Err ESql /\
  (exists l, model_query current [f_qt] p_quote = Ok l /\ map fid l = ["fq"]).
Proof. vm_compute. repeat split. eexists. split; reflexivity. Qed.

(* search.name.contains("F0") / contains("_0") select the fit named "f0" *)
Definition p_like1 := PAttr (AContains "name" "F0").
Definition p_like2 := PAttr (AContains "name" "_0").
Example like_refuted1 : exists q, compile current p_like1 = Ok q /\ sem q f0 = true /\ eval p_like1 f0 = false.
Proof. eexists. split; [vm_compute; reflexivity|]. vm_compute. repeat split. Qed.
Example like_refuted2 : exists q, compile current p_like2 = Ok q /\ sem q f0 = true /\ eval p_like2 f0 = false.
Proof. eexists. split; [vm_compute; reflexivity|]. vm_compute. repeat split. Qed.
Example like_plain_guard : acond_plain f0 (AContains "name" "F0") = false /\ acond_plain f0 (AContains "name" "f") = true.
Proof. vm_compute. split; reflexivity. Qed.

(* a slice is forgotten by a later order_by / query; the step of a slice is ignored *)
Definition ops_lost := [OOrder OIdKey false; OSlice (Some 1%Z) (Some 3%Z) None; OOrder (ONumKey "max_log_likelihood") true].
Definition ops_lostq := [OOrder OIdKey false; OSlice (Some 1%Z) (Some 3%Z) None; OQuery (PAttr (AEqS "name" (Some "f4")))].
Definition ops_step := [OOrder OIdKey false; OSlice None None (Some 2%Z)].
Definition ops_rev := [OOrder OIdKey false; OSlice None None (Some (-1)%Z)].
Definition ids_of (r : result (list fit * list (okey * bool))) : list string :=
  match r with Ok (l, _) => map fid l | Err _ => ["error"] end.
Example ops_refuted :
  ids_of (run_ops current false db5 ops_lost) = ["f0"; "f1"; "f2"; "f3"; "f4"] /\
  map fid (spec_ops false db5 ops_lost) = ["f1"; "f2"] /\
  ids_of (run_ops current false db5 ops_lostq) = ["f4"] /\
  map fid (spec_ops false db5 ops_lostq) = [] /\
  ids_of (run_ops current false db5 ops_step) = ["f0"; "f1"; "f2"; "f3"; "f4"] /\
  map fid (spec_ops false db5 ops_step) = ["f0"; "f2"; "f4"] /\
  ids_of (run_ops current false db5 ops_rev) = ["f0"; "f1"; "f2"; "f3"; "f4"] /\
  map fid (spec_ops false db5 ops_rev) = ["f4"; "f3"; "f2"; "f1"; "f0"].
Proof. vm_compute. repeat split. Qed.
Lemma ops_refuted' :
  exists db ops, (forall r, run_ops current false db ops = Ok r -> map fid (fst r) <> map fid (spec_ops false db ops)).
Proof.
  exists db5, ops_lost. intros r H. vm_compute in H. inversion H. subst r. vm_compute. discriminate.
Qed.

(* non-vacuity of the pipeline guard: a guarded predicate with ordering and slices on db5 *)
Example pipeline_guard_holds : guard_db p_ok2 db5 /\ guard_db p_inv db5 /\ has_shadow p_ok2 = false /\ pred_quote p_ok2 = false.
Proof. unfold guard_db. vm_compute. repeat split. Qed.
Example canonical_ops_example :
  ids_of (run_ops current false db5
            (OQuery p_ok2 :: order_ops [(OIdKey, true)] ++ slice_ops [(Some 1%Z, None)])) = ["f0"].
Proof. vm_compute. reflexivity. Qed.

Lemma prequote_refuted :
  exists p f, eval p f = true /\ model_query prequote [f] p = Err ESql /\
              exists l, model_query current [f] p = Ok l /\ map fid l = [fid f].
Proof.
  exists p_quote, f_qt. destruct quote_refuted as [H1 [H2 H3]]. repeat split; assumption.
Qed.

(* ---------- the four proposed repairs: the former refutations become exact in `current` ---------- *)
Definition p_and3 := PAnd (PCmp ["d"] CEq (KNum 8)) (PCmp ["d"] CEq (KStr "x")).
Example now_or_join : exists q, compile current p_join = Ok q /\ sem q f0 = true /\ eval p_join f0 = true /\ sem q f2 = true /\ eval p_join f2 = true.
Proof. eexists. split; [vm_compute; reflexivity|]. vm_compute. repeat split. Qed.
Example now_or_join2 : exists q, compile current p_join2 = Ok q /\ sem q f1 = true /\ eval p_join2 f1 = true.
Proof. eexists. split; [vm_compute; reflexivity|]. vm_compute. repeat split. Qed.
Example now_three_tables_or : exists q, compile current p_tab3 = Ok q /\ sem q f0 = true /\ sem q f1 = true /\ sem q f2 = false.
Proof. eexists. split; [vm_compute; reflexivity|]. vm_compute. repeat split. Qed.
Example now_not_info : exists q, compile current p_ninfo = Ok q /\ sem q f2 = true /\ sem q f0 = false /\ sem q f1 = true.
Proof. eexists. split; [vm_compute; reflexivity|]. vm_compute. repeat split. Qed.
Example now_not_attr_null : exists q, compile current p_nattr = Ok q /\ sem q f_null = true /\ eval p_nattr f_null = true.
Proof. eexists. split; [vm_compute; reflexivity|]. vm_compute. repeat split. Qed.
Example now_not_junction : exists q, compile current p_notj = Ok q /\ sem q f0 = false /\ sem q f1 = true /\ sem q f2 = true.
Proof. eexists. split; [vm_compute; reflexivity|]. vm_compute. repeat split. Qed.
Example now_three_tables_and : compile current p_and3 = Err EAssertion.
Proof. vm_compute. reflexivity. Qed.
Example now_guard_holds :
  safe_with current false false true false p_join = true /\ safe_with current false false true false p_join2 = true /\
  safe_with current false false true false p_tab3 = true /\ safe_with current false false true false p_ninfo = true /\
  safe_with current false false true false p_nattr = true /\ safe_with current false false true false p_notj = true /\
  safe_with current false false true false (PNot (PAnd p_join (POr p_ninfo (PNot p_notj)))) = true /\
  guard_db (PNot (PAnd p_join (POr p_ninfo p_nattr))) db5.
Proof. unfold guard_db. repeat split; vm_compute; reflexivity. Qed.

(* ---------- refutations about the current code / its history, in the form stated in Props.v ---------- *)
Lemma exact_refuted :
  exists p q f, compile current p = Ok q /\ wf_pred p = true /\ wf_fit f = true /\ sem q f <> eval p f.
Proof.
  destruct like_refuted1 as [q [Hq [Hs He]]].
  exists p_like1, q, f0. repeat split; auto. rewrite Hs, He. discriminate.
Qed.
(* the four repaired defects, as statements about `pre4` *)
Lemma pre4_exact_refuted :
  (exists q, compile pre4 p_join = Ok q /\ sem q f0 <> eval p_join f0) /\
  (exists q, compile pre4 p_ninfo = Ok q /\ sem q f2 <> eval p_ninfo f2) /\
  (exists q, compile pre4 p_nattr = Ok q /\ wf_fit f_null = true /\ sem q f_null <> eval p_nattr f_null) /\
  compile pre4 p_notj = Err ETypeError /\ compile pre4 p_tab3 = Err EAssertion.
Proof.
  destruct or_join_refuted as [q1 [H1 [_ [S1 E1]]]].
  destruct not_info_refuted as [q2 [H2 [_ [S2 E2]]]].
  destruct not_attr_null_refuted as [q3 [H3 [W3 [S3 E3]]]].
  split; [|split; [|split; [|split]]].
  - exists q1. split; [exact H1 | rewrite S1, E1; discriminate].
  - exists q2. split; [exact H2 | rewrite S2, E2; discriminate].
  - exists q3. split; [exact H3 | split; [exact W3 | rewrite S3, E3; discriminate]].
  - exact (proj2 not_junction_fails).
  - exact (proj2 three_tables_fails).
Qed.
Lemma total_refuted : exists p, wf_pred p = true /\ compile current p = Err EAssertion.
Proof. exists p_and3. split; [reflexivity | exact now_three_tables_and]. Qed.
