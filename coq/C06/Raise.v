(* C06: death by a PROPAGATING EXCEPTION (KeyboardInterrupt, MemoryError, OSError, an error in user code) raised where user
   code runs inside the fit life-cycle (Analysis.modify_before_fit, save_attributes, the likelihood, visualize*, save_results,
   save_results_combined, modify_after_fit).  Unlike a hard kill, the library's own try/finally / except blocks run while the
   exception travels up: [unwind_ops] is what they do to the disk.  In the code as it is (fit, pre_fit_output,
   start_resume_fit, perform_update, configure_handler) no handler on that way touches the output folder:
   [lib_handlers].  The other value of [handlers] is the variant in which a `finally` around the result hooks also runs
   paths.completed() (refuted in Witness.v).
   The harness reports an exception death as (k, VBefore): k = number of file-system mutations performed when the
   exception was raised, and every mutation performed while it propagates is part of the observed trace, so a handler
   that writes shows up as a disagreement of the correspondence ([xrun_lib] is why that printing is right). *)
From Coq Require Import List Bool Arith.
From PAFC06 Require Import Model Proofs Proofs2 Proofs3.
Import ListNotations.

Record handlers := mkhandlers { hd_marker : bool }.   (* a finally block on the way out writes .completed *)
Definition lib_handlers : handlers := mkhandlers false.
Definition unwind_ops (hd : handlers) : list op := if hd_marker hd then [OW Marker (Full Plain)] else [].

(* how a run ends before its end: killed at mutation k (file left as v), or an exception raised after k mutations *)
Inductive death := Killed (k : nat) (v : variant) | Raised (k : nat).

Definition xrun hd cd c tag h (d : option death) (s : fs) : fs :=
  match d with
  | None => run_state cd c tag h None s
  | Some (Killed k v) => run_state cd c tag h (Some (k, v)) s
  | Some (Raised k) => exec (unwind_ops hd) (run_state cd c tag h (Some (k, VBefore)) s)
  end.

Fixpoint xhistory hd cd c (tag : nat) (runs : list (list event * option death)) (s : fs) : fs :=
  match runs with
  | [] => s
  | (h, d) :: rest => xhistory hd cd c (S tag) rest (xrun hd cd c tag h d s)
  end.

Definition as_crash (r : list event * option death) : list event * option (nat * variant) :=
  (fst r, match snd r with None => None | Some (Killed k v) => Some (k, v) | Some (Raised k) => Some (k, VBefore) end).

Lemma xrun_lib cd c tag h d s :
  xrun lib_handlers cd c tag h d s = run_state cd c tag h (snd (as_crash (h, d))) s.
Proof. destruct d as [[k v|k]|]; reflexivity. Qed.

(* with the library's handlers a history with exception deaths is a history of the crash model *)
Lemma xhistory_lib cd c runs : forall tag s,
  xhistory lib_handlers cd c tag runs s = history cd c tag (map as_crash runs) s.
Proof.
  induction runs as [|[h d] rest IH]; intros tag s; [reflexivity|].
  simpl map. unfold as_crash at 1. simpl fst. simpl snd. rewrite history_cons. simpl xhistory.
  rewrite IH. rewrite xrun_lib. reflexivity.
Qed.

Lemma inv_xhistory cd c runs : Inv cd c (xhistory lib_handlers cd c 0 runs empty_fs).
Proof. rewrite xhistory_lib. apply inv_reachable. Qed.

(* the completion marker implies every promised result file: after ANY history of runs, kills and exception deaths, if
   `.completed` is there (in the archive if there is one, else in the folder) then a complete result is stored *)
Lemma marker_implies_stored cd c runs : fx_zip cd = true ->
  let s := xhistory lib_handlers cd c 0 runs empty_fs in
  eff_dir s Marker = Full Plain -> exists g, stored c g s.
Proof.
  intros Z s M. pose proof (inv_xhistory cd c runs) as I. fold s in I.
  unfold Inv in I. unfold eff_dir in M. unfold stored. destruct I as [W I].
  destruct (fz s) as [| |snap].
  - destruct I as [I _]. exact (I M).
  - rewrite Z in I. discriminate I.
  - destruct I as [_ [I _]]. exact I.
Qed.

(* ... the next uninterrupted run resumes, terminates normally and leaves the complete result it returns ... *)
Lemma resume_after_raise c runs tag h :
  let s := xhistory lib_handlers repaired c 0 runs empty_fs in
  exists r, plan_out repaired c tag h s = inr r /\ stored c (r_tag r) (run_full repaired c tag h s)
            /\ (r_samples r = Some (r_tag r) \/ r_samples r = expected_samples c (r_tag r)).
Proof. cbv zeta. rewrite xhistory_lib. apply resume_all_repairs. Qed.

(* ... and a run after that does not sample again and returns the same result *)
Lemma once_after_raise c runs tag h g :
  let s := xhistory lib_handlers repaired c 0 runs empty_fs in
  stored c g s ->
  plan_out repaired c tag h s = inr (mkres g (expected_samples c g) false)
  /\ plan_sampled repaired c tag h s = false
  /\ stored c g (run_full repaired c tag h s).
Proof. cbv zeta. rewrite xhistory_lib. apply complete_once_repaired. Qed.
