(* C06 lemmas, part 3: the reachability invariant (every state any sequence of runs, crashes and
   re-runs can produce) and resumption. *)
From Coq Require Import List Bool Arith Lia.
From PAFC06 Require Import Model Proofs Proofs2.
Import ListNotations.

Definition marker_wf (f : fstate) : Prop := f = Absent \/ f = Full Plain.
Definition dir_wf (c : cfg) (d : dir) : Prop :=
  marker_wf (d Marker) /\ (c_csv c = false -> d SamplesCsv = Absent).
Definition dill_inv (cd : code) (d : dir) : Prop := fx_dill cd = true -> not_part (d Dill).

Definition Inv (cd : code) (c : cfg) (s : fs) : Prop :=
  dir_wf c (fd s) /\
  match fz s with
  | ZAbsent => (fd s Marker = Full Plain -> exists g, complete c g (fd s)) /\ dill_inv cd (fd s)
  | ZFull snap => dir_wf c snap /\ (exists g, complete c g snap) /\ dill_inv cd snap
  | ZPartial => fx_zip cd = false
  end.

Lemma inv_empty cd c : Inv cd c empty_fs.
Proof.
  unfold Inv, dir_wf, marker_wf, dill_inv, empty_fs, empty_dir. simpl.
  repeat split; auto; intros; discriminate.
Qed.

(* ---------- classification of operations (boolean, so that concrete lists are checked by computation) ---------- *)
Definition dir_opb (o : op) : bool := match o with OW _ _ | OA _ | OR _ | ODMV _ | OJMV _ _ => true | _ => false end.
Definition dop_okb (c : cfg) (o : op) : bool :=
  match o with
  | OW r f => (if role_eqb r Marker then fstate_eqb f (Full Plain) else true)
              && (if role_eqb r SamplesCsv then c_csv c else true)
  | OA r | OJMV r _ => negb (role_eqb r Marker) && negb (role_eqb r SamplesCsv)
  | _ => true
  end.
Definition dill_okb (cd : code) (o : op) : bool :=
  match o with
  | OW r _ | OA r => if role_eqb r Dill then negb (fx_dill cd) else true
  | ODMV f => match f with Part _ => false | _ => true end
  | OJMV r _ => negb (role_eqb r Dill)
  | _ => true
  end.
Definition no_markerb (o : op) : bool :=
  match o with OW r _ | OA r | OJMV r _ => negb (role_eqb r Marker) | _ => true end.
Definition nr_opb (o : op) : bool :=
  match o with
  | OW r _ | OA r | OR r => negb (res_role r)
  | ODMV _ | OZTW => true
  | _ => false
  end.

Lemma dir_opb_ok o : dir_opb o = true -> dir_op o.
Proof. destruct o; simpl; intro H; try discriminate; exact I. Qed.
Lemma nr_opb_ok o : nr_opb o = true -> nr_op o.
Proof. destruct o; simpl; intro H; try discriminate; try exact I; destruct (res_role r); simpl in H; try discriminate; reflexivity. Qed.

Lemma fstate_eqb_eq a b : fstate_eqb a b = true -> a = b.
Proof.
  destruct a as [|p|x], b as [|q|y]; simpl; intro H; try discriminate; try reflexivity.
  - destruct p, q; simpl in H; try discriminate; reflexivity.
  - destruct x, y; simpl in H; try discriminate; try reflexivity. apply Nat.eqb_eq in H. subst. reflexivity.
Qed.

Ltac role_cases r := destruct r; unfold upd; simpl in *.

(* dir_wf is kept by an admissible operation, also when the process dies in it *)
Lemma dop_ok_wf c o s : dop_okb c o = true -> dir_wf c (fd s) ->
  dir_wf c (fd (apply o s)) /\ dir_wf c (fd (apply_empty o s)) /\ dir_wf c (fd (cut o (apply o s))).
Proof.
  unfold dir_wf, marker_wf. intros H [M C].
  destruct o as [r f|r|r| | | | |r f|f]; simpl in H; try (simpl; repeat split; assumption).
  - apply andb_true_iff in H. destruct H as [H1 H2].
    role_cases r; try (apply fstate_eqb_eq in H1; subst f); repeat split; auto; intros; try congruence.
  - apply andb_true_iff in H. destruct H as [H1 H2].
    role_cases r; try discriminate; destruct (fd s _) eqn:E in |- *; simpl; repeat split; auto; intros; try congruence.
  - role_cases r; repeat split; auto.
  - apply andb_true_iff in H. destruct H as [H1 H2].
    role_cases r; try discriminate; repeat split; auto.
Qed.

Lemma dill_ok_inv cd o s : dill_okb cd o = true -> dill_inv cd (fd s) ->
  dill_inv cd (fd (apply o s)) /\ dill_inv cd (fd (apply_empty o s)) /\ dill_inv cd (fd (cut o (apply o s))).
Proof.
  unfold dill_inv. intros H D.
  destruct o as [r f|r|r| | | | |r f|f]; simpl in H; try (simpl; repeat split; assumption).
  - role_cases r; repeat split; auto; intro F; rewrite F in H; discriminate.
  - role_cases r; try (destruct (fd s _) eqn:E in |- *; simpl); repeat split; auto; intro F; rewrite F in H; discriminate.
  - role_cases r; repeat split; auto.
  - role_cases r; try discriminate; repeat split; auto.
  - destruct f; try discriminate; simpl; unfold upd; simpl; repeat split; auto.
Qed.

Lemma no_marker_keeps o s : no_markerb o = true -> fd s Marker = Absent ->
  fd (apply o s) Marker = Absent /\ fd (apply_empty o s) Marker = Absent
  /\ fd (cut o (apply o s)) Marker = Absent.
Proof.
  intros H M. destruct o as [r f|r|r| | | | |r f|f]; simpl in H; try (simpl; repeat split; assumption).
  - role_cases r; try discriminate; repeat split; assumption.
  - simpl. destruct (fd s r) eqn:E; role_cases r; try discriminate; repeat split; assumption.
  - role_cases r; repeat split; auto.
  - role_cases r; try discriminate; repeat split; assumption.
Qed.

Lemma forallb_Forall {A} (f : A -> bool) l : forallb f l = true -> Forall (fun x => f x = true) l.
Proof. intro H. apply Forall_forall. intros x Hx. eapply forallb_forall in H; eassumption. Qed.

(* ---------- segments ---------- *)
(* folder-only operations beside an archive in state z *)
Lemma seg_dir c z ops s (Q : fs -> Prop) :
  fz s = z -> dir_wf c (fd s) ->
  forallb (fun o => dir_opb o && dop_okb c o) ops = true ->
  (forall s', fz s' = z -> dir_wf c (fd s') -> Q s') ->
  (forall k v, Q (crash_state ops k v s)) /\ (fz (exec ops s) = z /\ dir_wf c (fd (exec ops s))).
Proof.
  intros Hz Hw Hg HQ. apply forallb_Forall in Hg.
  apply (crash_uniform (fun s' => fz s' = z /\ dir_wf c (fd s')) Q _ ops s (conj Hz Hw) Hg).
  - intros o s' Go [A B]. apply andb_true_iff in Go. destruct Go as [G1 G2].
    destruct (dir_op_fz o s' (dir_opb_ok o G1)) as [F _]. destruct (dop_ok_wf c o s' G2 B) as [W _].
    split; [congruence | exact W].
  - intros o s' Go [A B]. apply andb_true_iff in Go. destruct Go as [G1 G2].
    destruct (dir_op_fz o s' (dir_opb_ok o G1)) as [_ [F1 F2]]. destruct (dop_ok_wf c o s' G2 B) as [_ [W1 W2]].
    split; apply HQ; try congruence; assumption.
  - intros s' [A B]. apply HQ; assumption.
Qed.

Definition freshJ cd c (s : fs) : Prop :=
  fz s = ZAbsent /\ fd s Marker = Absent /\ dir_wf c (fd s) /\ dill_inv cd (fd s).

Lemma freshJ_inv cd c s : freshJ cd c s -> Inv cd c s.
Proof.
  intros [A [B [C D]]]. unfold Inv. rewrite A. split; [exact C|]. split; [|exact D].
  intro H. congruence.
Qed.

Definition fresh_good cd c (o : op) : bool := dir_opb o && dop_okb c o && dill_okb cd o && no_markerb o.

(* everything a fresh run does before it writes .completed *)
Lemma seg_fresh cd c ops s :
  freshJ cd c s -> forallb (fresh_good cd c) ops = true ->
  (forall k v, Inv cd c (crash_state ops k v s)) /\ freshJ cd c (exec ops s).
Proof.
  intros HJ Hg. apply forallb_Forall in Hg.
  apply (crash_uniform (freshJ cd c) (Inv cd c) _ ops s HJ Hg).
  - intros o s' Go [A [B [C D]]]. unfold fresh_good in Go. repeat (apply andb_true_iff in Go; destruct Go as [Go ?]).
    destruct (dir_op_fz o s' (dir_opb_ok o Go)) as [F _]. destruct (dop_ok_wf c o s' H1 C) as [W _].
    destruct (dill_ok_inv cd o s' H0 D) as [L _]. destruct (no_marker_keeps o s' H B) as [M _].
    split; [congruence | split; [exact M | split; [exact W | exact L]]].
  - intros o s' Go [A [B [C D]]]. unfold fresh_good in Go. repeat (apply andb_true_iff in Go; destruct Go as [Go ?]).
    destruct (dir_op_fz o s' (dir_opb_ok o Go)) as [_ [F1 F2]]. destruct (dop_ok_wf c o s' H1 C) as [_ [W1 W2]].
    destruct (dill_ok_inv cd o s' H0 D) as [_ [L1 L2]]. destruct (no_marker_keeps o s' H B) as [_ [M1 M2]].
    split; apply freshJ_inv; (split; [congruence | split; [assumption | split; assumption]]).
  - apply freshJ_inv.
Qed.

Definition postJ cd c (d : dir) (s : fs) : Prop :=
  frozen ZAbsent d s /\ dir_wf c (fd s) /\ dill_inv cd (fd s).

Lemma postJ_inv cd c g d s : complete c g d -> postJ cd c d s -> Inv cd c s.
Proof.
  intros Hc [[A B] [C D]]. unfold Inv. rewrite A. split; [exact C|]. split; [|exact D].
  intros _. exists g. eapply complete_ext; [|exact Hc]. exact B.
Qed.

Definition post_good cd c (o : op) : bool := nr_opb o && dop_okb c o && dill_okb cd o.

(* search_internal handling of post_fit_output, over a complete folder *)
Lemma seg_post cd c g d ops s :
  complete c g d -> postJ cd c d s -> forallb (post_good cd c) ops = true ->
  (forall k v, Inv cd c (crash_state ops k v s)) /\ postJ cd c d (exec ops s).
Proof.
  intros Hc HJ Hg. apply forallb_Forall in Hg.
  apply (crash_uniform (postJ cd c d) (Inv cd c) _ ops s HJ Hg).
  - intros o s' Go [[A B] [C D]]. unfold post_good in Go. repeat (apply andb_true_iff in Go; destruct Go as [Go ?]).
    destruct (nr_apply o s' (nr_opb_ok o Go)) as [F R]. destruct (dop_ok_wf c o s' H0 C) as [W _].
    destruct (dill_ok_inv cd o s' H D) as [L _].
    split; [split; [congruence|] | split; assumption]. intros r Hr. rewrite R by exact Hr. apply B. exact Hr.
  - intros o s' Go [[A B] [C D]]. unfold post_good in Go. repeat (apply andb_true_iff in Go; destruct Go as [Go ?]).
    destruct (nr_apply o s' (nr_opb_ok o Go)) as [F R].
    destruct (nr_apply_empty o s' (nr_opb_ok o Go)) as [F1 R1].
    destruct (nr_cut o (apply o s') (nr_opb_ok o Go)) as [F2 R2].
    destruct (dop_ok_wf c o s' H0 C) as [_ [W1 W2]]. destruct (dill_ok_inv cd o s' H D) as [_ [L1 L2]].
    split; apply (postJ_inv cd c g d); try exact Hc; (split; [split; [congruence|] | split; assumption]).
    + intros r Hr. rewrite R1 by exact Hr. apply B. exact Hr.
    + intros r Hr. rewrite R2, R by exact Hr. apply B. exact Hr.
  - intros s' Hs'. eapply postJ_inv; eassumption.
Qed.

(* ---------- post_fit_output ---------- *)
Lemma internal_full res s f : internal_of res s = inr f -> exists x, f = Full x.
Proof.
  unfold internal_of. destruct (r_internal res); [intro H; inversion H; eexists; reflexivity|].
  destruct (fd s Dill) as [|[|]|x]; intro H; inversion H; eexists; reflexivity.
Qed.

Lemma forallb_rm_ops (P : op -> bool) inset h :
  (forall r, inset r = true -> P (OR r) = true) -> forallb P (rm_ops inset h) = true.
Proof.
  intro H. apply forallb_forall. intros o Ho. apply In_rm_ops in Ho. destruct Ho as [r [-> Hr]]. apply H. exact Hr.
Qed.

Lemma dill_write_post_good cd c x : forallb (post_good cd c) (dill_write cd (Full x)) = true.
Proof. unfold dill_write, post_good. destruct (fx_dill cd) eqn:F; simpl; rewrite ?F; reflexivity. Qed.

Lemma zip_step_inv cd c g s k v :
  complete c g (fd s) -> postJ cd c (fd s) s ->
  Inv cd c (crash_state (if fx_zip cd then [OZTW; OZMV] else [OZW]) k v s)
  /\ fz (exec (if fx_zip cd then [OZTW; OZMV] else [OZW]) s) = ZFull (fd s)
  /\ fd (exec (if fx_zip cd then [OZTW; OZMV] else [OZW]) s) = fd s.
Proof.
  intros Hc HJ. pose proof (postJ_inv cd c g (fd s) s Hc HJ) as HI.
  destruct HJ as [[A B] [C D]].
  assert (HF : forall t, Inv cd c (mkfs (fd s) (ZFull (fd s)) t)).
  { intro t. unfold Inv. simpl. split; [exact C|]. split; [exact C|]. split; [exists g; exact Hc | exact D]. }
  assert (HT : forall t, Inv cd c (mkfs (fd s) (fz s) t)).
  { intro t. unfold Inv in *. simpl. exact HI. }
  destruct (fx_zip cd) eqn:F; (split; [|split; reflexivity]).
  - destruct k as [|[|k]].
    + destruct v; unfold crash_state; simpl; [exact HI | apply HT | apply HT].
    + destruct v; unfold crash_state; simpl; [apply HT | apply HT | apply HF].
    + rewrite crash_state_ge by (simpl; lia). apply HF.
  - destruct k as [|k].
    + destruct v; unfold crash_state; simpl; [exact HI | |]; unfold Inv; simpl; (split; [exact C | exact F]).
    + rewrite crash_state_ge by (simpl; lia). apply HF.
Qed.

Lemma post_inv cd c g res h s f q :
  fz s = ZAbsent -> complete c g (fd s) -> dir_wf c (fd s) -> dill_inv cd (fd s) ->
  internal_of res s = inr f -> post_ops cd c res h s = (q, None) ->
  forall k v, Inv cd c (crash_state q k v s).
Proof.
  intros Hz Hc Hw Hd Hi Hq. destruct (internal_full res s f Hi) as [x ->].
  unfold post_ops in Hq. rewrite Hi in Hq. inversion Hq; subst q; clear Hq.
  set (a := if c_keep c then dill_write cd (Full x) else rm_ops (fun r => si_roles r && present (fd s) r) h).
  assert (Ha : forallb (post_good cd c) a = true).
  { unfold a. destruct (c_keep c); [apply dill_write_post_good|].
    apply forallb_rm_ops. intros r Hr. apply andb_true_iff in Hr. destruct Hr as [Hr _].
    unfold post_good. simpl. rewrite (si_not_res r Hr). reflexivity. }
  assert (HJ : postJ cd c (fd s) s) by (split; [split; [exact Hz | reflexivity] | split; assumption]).
  destruct (seg_post cd c g (fd s) a s Hc HJ Ha) as [A1 A2].
  assert (Hc2 : complete c g (fd (exec a s))).
  { destruct A2 as [[_ B] _]. eapply complete_ext; [exact B | exact Hc]. }
  assert (HJ2 : postJ cd c (fd (exec a s)) (exec a s)).
  { destruct A2 as [[A _] [C D]]. split; [split; [exact A | reflexivity] | split; assumption]. }
  apply crash_seq; [exact A1|]. apply crash_seq.
  - intros k v. apply (zip_step_inv cd c g (exec a s) k v Hc2 HJ2).
  - destruct (zip_step_inv cd c g (exec a s) 0 VBefore Hc2 HJ2) as [_ [Z E]].
    destruct HJ2 as [_ [C D]].
    refine (proj1 (seg_dir c (ZFull (fd (exec a s))) _ _ (Inv cd c) Z _ _ _)).
    + rewrite E. exact C.
    + destruct (c_remove c); [|reflexivity]. apply forallb_rm_ops. reflexivity.
    + intros s' Zs Ws. unfold Inv. rewrite Zs. split; [exact Ws|]. split; [exact C|]. split; [exists g; exact Hc2 | exact D].
Qed.

(* ---------- the fresh branch: everything before .completed is admissible ---------- *)
Lemma forallb_repeat_ops (P : op -> bool) n l : forallb P l = true -> forallb P (repeat_ops n l) = true.
Proof. intro H. induction n as [|n IH]; [reflexivity|]. simpl. rewrite forallb_app, H, IH. reflexivity. Qed.

Lemma good_json_write cd c r f :
  role_eqb r Marker = false -> role_eqb r SamplesCsv = false -> role_eqb r Dill = false ->
  (r = SearchJson \/ r = ModelJson \/ r = Summary \/ r = SamplesInfo) ->
  forallb (fresh_good cd c) (json_write cd r f) = true.
Proof.
  intros _ _ _ H. unfold json_write, fresh_good. destruct (fx_json cd); destruct H as [->|[->|[->| ->]]]; reflexivity.
Qed.

Lemma good_save_all cd c : forallb (fresh_good cd c) (save_all_ops cd) = true.
Proof. unfold save_all_ops, json_write. destruct (fx_json cd); reflexivity. Qed.

Lemma good_update cd c g : forallb (fresh_good cd c) (update_ops cd c g) = true.
Proof. unfold update_ops, json_write, fresh_good. destruct (fx_json cd); destruct (c_csv c) eqn:E; simpl; rewrite ?E; reflexivity. Qed.

Lemma good_final cd c g : forallb (fresh_good cd c) (final_ops cd c g) = true.
Proof. unfold final_ops, update_ops, json_write, fresh_good. destruct (fx_json cd); destruct (c_csv c) eqn:E; simpl; rewrite ?E; reflexivity. Qed.

Lemma good_update_failing cd c g : forallb (fresh_good cd c) (update_ops_failing cd c g) = true.
Proof. unfold update_ops_failing, json_write, fresh_good. destruct (fx_json cd); destruct (c_csv c) eqn:E; simpl; rewrite ?E; reflexivity. Qed.

Lemma good_dill_write cd c x : forallb (fresh_good cd c) (dill_write cd (Full x)) = true.
Proof. unfold dill_write, fresh_good. destruct (fx_dill cd) eqn:F; simpl; rewrite ?F; reflexivity. Qed.

Lemma good_timer cd c s : forallb (fresh_good cd c) (fst (timer_ops cd s)) = true.
Proof. unfold timer_ops. destruct (fd s StartTime) as [|[|]|x]; try reflexivity. destruct (fx_timer cd); reflexivity. Qed.

Lemma good_loop cd c tag n :
  forallb (fresh_good cd c) (repeat_ops n (dill_write cd (Full (Gen tag)) ++ update_ops cd c tag)) = true.
Proof. apply forallb_repeat_ops. rewrite forallb_app, good_dill_write, good_update. reflexivity. Qed.

Lemma good_search cd c tag s : forallb (fresh_good cd c) (fst (fst (fst (search_ops cd c tag s)))) = true.
Proof.
  unfold search_ops. destruct (c_search c); [apply good_dill_write|].
  destruct (fd s Dill) as [|[|]|[|g|]]; try (destruct (c_updates c) eqn:U; [destruct (fx_zero cd); reflexivity | rewrite <- U; apply good_loop]); try reflexivity.
  destruct (fx_resume cd); [|reflexivity]. destruct (c_updates c) as [|[|n]]; try reflexivity. apply good_loop.
Qed.

Lemma good_fit cd c tag s : forallb (fresh_good cd c) (fst (fst (fst (fit_ops cd c tag s)))) = true.
Proof.
  unfold fit_ops. destruct (chk_ops cd c s) as [[e|] ev]; [reflexivity|].
  pose proof (good_search cd c tag s) as G. destruct (search_ops cd c tag s) as [[[f fo] sm] internal]. exact G.
Qed.

(* a Drawer fit leaves the search state it has just written *)
Lemma search_no_internal cd c tag s f g sm :
  search_ops cd c tag s = (f, inr g, sm, false) -> f = dill_write cd (Full (Gen g)).
Proof.
  unfold search_ops. destruct (c_search c); [intro H; inversion H; reflexivity|].
  destruct (fd s Dill) as [|[|]|[|g'|]]; try (destruct (c_updates c); [destruct (fx_zero cd)|]; intro H; inversion H; fail).
  destruct (fx_resume cd); [|intro H; inversion H]. destruct (c_updates c) as [|[|n]]; intro H; inversion H.
Qed.

Lemma fit_no_internal cd c tag s f g sm :
  fit_ops cd c tag s = (f, inr g, sm, false) -> f = dill_write cd (Full (Gen g)).
Proof.
  unfold fit_ops. destruct (chk_ops cd c s) as [[e|] ev]; [intro H; inversion H|].
  destruct (search_ops cd c tag s) as [[[f' fo] sm'] internal] eqn:E. intro H. inversion H; subst.
  eapply search_no_internal. exact E.
Qed.

Lemma update_marker_complete cd c g s :
  (c_csv c = false -> fd s SamplesCsv = Absent) ->
  complete c g (fd (exec (final_ops cd c g ++ [OW Marker (Full Plain)]) s)).
Proof.
  intro H. unfold final_ops, update_ops, json_write, complete. destruct (fx_json cd); destruct (c_csv c); simpl; unfold upd; simpl; repeat split; auto.
Qed.

Lemma dill_after_write cd c g x s :
  fd (exec (dill_write cd (Full x) ++ final_ops cd c g ++ [OW Marker (Full Plain)]) s) Dill = Full x.
Proof. unfold dill_write, final_ops, update_ops, json_write. destruct (fx_dill cd), (fx_json cd), (c_csv c); reflexivity. Qed.

(* ---------- the fresh branch as a whole ---------- *)
Lemma freshJ_not_complete cd c s : freshJ cd c s -> is_complete s = false.
Proof. intros [_ [M _]]. unfold is_complete, present. rewrite M. reflexivity. Qed.

Lemma marker_step_inv cd c g s k v :
  freshJ cd c s -> complete c g (fd (apply (OW Marker (Full Plain)) s)) ->
  Inv cd c (crash_state [OW Marker (Full Plain)] k v s)
  /\ (let s3 := apply (OW Marker (Full Plain)) s in
      fz s3 = ZAbsent /\ dir_wf c (fd s3) /\ dill_inv cd (fd s3)).
Proof.
  intros HJ Hc. pose proof HJ as [A [B [C D]]].
  assert (H3 : let s3 := apply (OW Marker (Full Plain)) s in fz s3 = ZAbsent /\ dir_wf c (fd s3) /\ dill_inv cd (fd s3)).
  { simpl. split; [exact A|]. split.
    - destruct (dop_ok_wf c (OW Marker (Full Plain)) s eq_refl C) as [W _]. exact W.
    - destruct (dill_ok_inv cd (OW Marker (Full Plain)) s eq_refl D) as [L _]. exact L. }
  split; [|exact H3].
  assert (I3 : Inv cd c (apply (OW Marker (Full Plain)) s)).
  { destruct H3 as [Z [W L]]. unfold Inv. rewrite Z. split; [exact W|]. split; [|exact L]. intros _. exists g. exact Hc. }
  destruct k as [|k].
  - destruct v; unfold crash_state; simpl; [apply freshJ_inv; exact HJ | exact I3 | exact I3].
  - rewrite crash_state_ge by (simpl; lia). exact I3.
Qed.

Lemma app_marker_assoc (t f u : list op) (x y : op) :
  x :: t ++ f ++ u ++ [y] = (x :: t ++ f ++ u) ++ [y].
Proof. simpl. rewrite <- !app_assoc. reflexivity. Qed.

Lemma fresh_list_assoc1 (P t f u : list op) (x y : op) :
  (P ++ (x :: t ++ f ++ u)) ++ [y] = (P ++ (x :: t ++ f)) ++ (u ++ [y]).
Proof. rewrite <- !app_assoc. simpl. rewrite <- !app_assoc. reflexivity. Qed.

Lemma fresh_list_assoc2 (P t f u : list op) (x y : op) :
  (P ++ (x :: t ++ f ++ u)) ++ [y] = (P ++ (x :: t)) ++ (f ++ u ++ [y]).
Proof. rewrite <- !app_assoc. simpl. rewrite <- !app_assoc. reflexivity. Qed.

(* what a fresh run consists of when nothing on disk is unreadable *)
Lemma fresh_success cd c tag h s t f g sm internal :
  freshJ cd c s ->
  let s2 := exec (save_all_ops cd) s in
  timer_ops cd s2 = (t, None) -> fit_ops cd c tag s2 = (f, inr g, sm, internal) -> drawer_time_bad cd c s2 = false ->
  let A := (save_all_ops cd) ++ (OA Log :: t ++ f ++ final_ops cd c g) in
  let s3 := apply (OW Marker (Full Plain)) (exec A s) in
  let res := mkres g (Some g) internal in
  forallb (fresh_good cd c) A = true
  /\ complete c g (fd s3)
  /\ (internal = false -> fd s3 Dill = Full (Gen g))
  /\ plan cd c tag h s =
       (let '(q, qe) := post_ops cd c res (skipn (length A + 1) h) s3 in
        (A ++ [OW Marker (Full Plain)] ++ q, match qe with Some e => inl e | None => inr res end, sm)).
Proof.
  intros HJ s2 Ht Hf Hb A s3 res.
  assert (HgA : forallb (fresh_good cd c) A = true).
  { unfold A. rewrite forallb_app, good_save_all. simpl.
    rewrite !forallb_app, good_final.
    pose proof (good_timer cd c s2) as G1. rewrite Ht in G1. simpl in G1. rewrite G1.
    pose proof (good_fit cd c tag s2) as G2. rewrite Hf in G2. simpl in G2. rewrite G2. reflexivity. }
  split; [exact HgA|].
  assert (Hs3 : s3 = exec (A ++ [OW Marker (Full Plain)]) s) by (unfold s3; rewrite exec_app; reflexivity).
  split; [|split].
  - rewrite Hs3. unfold A. rewrite fresh_list_assoc1, exec_app. apply update_marker_complete.
    assert (G : forallb (fresh_good cd c) ((save_all_ops cd) ++ (OA Log :: t ++ f)) = true).
    { rewrite forallb_app, good_save_all. cbn [forallb andb fresh_good dir_opb dop_okb dill_okb no_markerb role_eqb negb].
      rewrite forallb_app.
      pose proof (good_timer cd c s2) as G1. rewrite Ht in G1. simpl in G1. rewrite G1.
      pose proof (good_fit cd c tag s2) as G2. rewrite Hf in G2. simpl in G2. rewrite G2. reflexivity. }
    destruct (seg_fresh cd c _ s HJ G) as [_ [_ [_ [[_ W] _]]]]. exact W.
  - intros ->. rewrite Hs3. unfold A. rewrite (fit_no_internal cd c tag s2 f g sm Hf).
    rewrite fresh_list_assoc2, exec_app. apply dill_after_write.
  - destruct HJ as [Hz HJ']. rewrite (plan_no_zip cd c tag h s Hz).
    unfold pre_ops. rewrite (freshJ_not_complete cd c s (conj Hz HJ')). cbv zeta. fold s2.
    unfold main_ops.
    assert (HJ2 : freshJ cd c s2).
    { apply (seg_fresh cd c (save_all_ops cd) s (conj Hz HJ') (good_save_all cd c)). }
    rewrite (freshJ_not_complete cd c s2 HJ2).
    unfold fresh_ops. rewrite Ht, Hf, Hb.
    rewrite app_marker_assoc.
    assert (E3 : exec ((OA Log :: t ++ f ++ final_ops cd c g) ++ [OW Marker (Full Plain)]) s2 = s3).
    { unfold s3, A, s2. rewrite !exec_app. reflexivity. }
    rewrite E3.
    assert (EL : length (save_all_ops cd) + length ((OA Log :: t ++ f ++ final_ops cd c g) ++ [OW Marker (Full Plain)]) = length A + 1).
    { unfold A. rewrite !app_length. simpl. lia. }
    rewrite EL. fold res.
    destruct (post_ops cd c res (skipn (length A + 1) h) s3) as [q [e|]]; unfold A; rewrite <- !app_assoc; reflexivity.
Qed.

Lemma good_oalog cd c l : forallb (fresh_good cd c) l = true -> forallb (fresh_good cd c) (OA Log :: l) = true.
Proof. intro H. simpl. rewrite H. reflexivity. Qed.

(* every crash state of a run that starts without archive and without .completed *)
Lemma fresh_inv cd c tag h s : freshJ cd c s -> forall k v, Inv cd c (crash_state (plan_ops cd c tag h s) k v s).
Proof.
  intro HJ. set (s2 := exec (save_all_ops cd) s).
  assert (HJ2 : freshJ cd c s2) by (apply (seg_fresh cd c (save_all_ops cd) s HJ (good_save_all cd c))).
  destruct (timer_ops cd s2) as [t te] eqn:Ht.
  destruct (fit_ops cd c tag s2) as [[[f fo] sm] internal] eqn:Hf.
  pose proof (good_timer cd c s2) as G1. rewrite Ht in G1. simpl in G1.
  pose proof (good_fit cd c tag s2) as G2. rewrite Hf in G2. simpl in G2.
  assert (Hfail : forall m e sm', forallb (fresh_good cd c) m = true ->
            plan cd c tag h s = ((save_all_ops cd) ++ m, inl e, sm') ->
            forall k v, Inv cd c (crash_state (plan_ops cd c tag h s) k v s)).
  { intros m e sm' Gm E. unfold plan_ops. rewrite E. cbn [fst].
    refine (proj1 (seg_fresh cd c _ s HJ _)). rewrite forallb_app, good_save_all, Gm. reflexivity. }
  assert (Hplan : plan cd c tag h s =
     let '(m, mo, sampled) := fresh_ops cd c tag s2 in
     match mo with
     | inl e => ((save_all_ops cd) ++ m, inl e, sampled)
     | inr res =>
        let '(q, qe) := post_ops cd c res (skipn (length (save_all_ops cd) + length m) h) (exec m s2) in
        match qe with Some e => ((save_all_ops cd) ++ m ++ q, inl e, sampled) | None => ((save_all_ops cd) ++ m ++ q, inr res, sampled) end
     end).
  { destruct HJ as [Hz HJ']. rewrite (plan_no_zip cd c tag h s Hz). unfold pre_ops.
    rewrite (freshJ_not_complete cd c s (conj Hz HJ')). cbv zeta. fold s2. unfold main_ops.
    rewrite (freshJ_not_complete cd c s2 HJ2). reflexivity. }
  destruct te as [e|].
  { apply (Hfail (OA Log :: t) e false); [apply good_oalog; exact G1|].
    rewrite Hplan. unfold fresh_ops. rewrite Ht. reflexivity. }
  destruct fo as [e|g].
  { apply (Hfail (OA Log :: t ++ f) e sm); [apply good_oalog; rewrite forallb_app, G1, G2; reflexivity|].
    rewrite Hplan. unfold fresh_ops. rewrite Ht, Hf. reflexivity. }
  destruct (drawer_time_bad cd c s2) eqn:Hb.
  { apply (Hfail (OA Log :: t ++ f ++ update_ops_failing cd c g) ValueErr sm).
    - apply good_oalog. rewrite !forallb_app, G1, G2, good_update_failing. reflexivity.
    - rewrite Hplan. unfold fresh_ops. rewrite Ht, Hf, Hb. reflexivity. }
  (* success *)
  destruct (fresh_success cd c tag h s t f g sm internal HJ Ht Hf Hb) as [GA [Hc [Hd E]]].
  fold s2 in Ht, Hf, Hb.
  set (A := (save_all_ops cd) ++ (OA Log :: t ++ f ++ final_ops cd c g)) in *.
  set (s3 := apply (OW Marker (Full Plain)) (exec A s)) in *.
  set (res := mkres g (Some g) internal) in *.
  destruct (seg_fresh cd c A s HJ GA) as [IA JA].
  destruct (marker_step_inv cd c g (exec A s) 0 VBefore JA Hc) as [_ [Z3 [W3 L3]]].
  fold s3 in Z3, W3, L3.
  unfold plan_ops. rewrite E.
  destruct (post_ops cd c res (skipn (length A + 1) h) s3) as [q qe] eqn:Hq. cbn [fst].
  apply crash_seq; [exact IA|]. apply crash_seq.
  - intros k v. apply (marker_step_inv cd c g (exec A s) k v JA Hc).
  - change (exec [OW Marker (Full Plain)] (exec A s)) with s3.
    destruct (internal_of res s3) as [e|x] eqn:Hi.
    + unfold post_ops in Hq. rewrite Hi in Hq. inversion Hq; subst. intros k v. rewrite crash_state_nil.
      unfold Inv. rewrite Z3. split; [exact W3|]. split; [intros _; exists g; exact Hc | exact L3].
    + assert (qe = None) by (unfold post_ops in Hq; rewrite Hi in Hq; inversion Hq; reflexivity). subst qe.
      apply (post_inv cd c g res _ s3 x q Z3 Hc W3 L3 Hi Hq).
Qed.

(* every crash state of a run over a complete folder without archive *)
Lemma completed_inv cd c tag h s g :
  fz s = ZAbsent -> complete c g (fd s) -> dir_wf c (fd s) -> dill_inv cd (fd s) ->
  forall k v, Inv cd c (crash_state (plan_ops cd c tag h s) k v s).
Proof.
  intros Hz Hc Hw Hd. unfold plan_ops. rewrite (plan_no_zip cd c tag h s Hz).
  destruct (main_completed cd c tag g s Hc) as [Hp Hm]. rewrite Hp. cbn [exec fold_left]. rewrite Hm.
  cbn [exec fold_left app length Nat.add skipn].
  assert (HI : Inv cd c s).
  { unfold Inv. rewrite Hz. split; [exact Hw|]. split; [intros _; exists g; exact Hc | exact Hd]. }
  destruct (post_ops cd c _ h s) as [q qe] eqn:Hq.
  destruct (internal_of (mkres g (expected_samples c g) false) s) as [e|x] eqn:Hi.
  - unfold post_ops in Hq. rewrite Hi in Hq. inversion Hq; subst. simpl. intros k v. rewrite crash_state_nil. exact HI.
  - assert (qe = None) by (unfold post_ops in Hq; rewrite Hi in Hq; inversion Hq; reflexivity). subst qe. simpl.
    apply (post_inv cd c g _ h s x q Hz Hc Hw Hd Hi Hq).
Qed.

Lemma inv_nozip cd c tag h s :
  fz s = ZAbsent -> Inv cd c s -> forall k v, Inv cd c (crash_state (plan_ops cd c tag h s) k v s).
Proof.
  intros Hz HI. unfold Inv in HI. rewrite Hz in HI. destruct HI as [Hw [Hm Hd]].
  destruct Hw as [[M|M] Hcsv].
  - apply fresh_inv. split; [exact Hz|]. split; [exact M|]. split; [split; [left; exact M | exact Hcsv] | exact Hd].
  - destruct (Hm M) as [g Hc]. apply (completed_inv cd c tag h s g Hz Hc); [split; [right; exact M | exact Hcsv] | exact Hd].
Qed.

(* ---------- restore, and the invariant for whole runs and histories ---------- *)
Lemma extract_good c snap h : dir_wf c snap ->
  forallb (fun o => dir_opb o && dop_okb c o) (extract_ops snap h) = true.
Proof.
  intros [M C]. apply forallb_forall. intros o Ho. apply In_extract_ops in Ho. destruct Ho as [r [-> Hp]].
  unfold present in Hp. simpl.
  destruct r; simpl; try reflexivity.
  - destruct (c_csv c) eqn:E; [reflexivity|]. rewrite (C eq_refl) in Hp. discriminate.
  - destruct M as [M|M]; rewrite M in *; [discriminate | reflexivity].
Qed.

Lemma rm_good c inset h : forallb (fun o => dir_opb o && dop_okb c o) (rm_ops inset h) = true.
Proof. apply forallb_rm_ops. reflexivity. Qed.

Lemma inv_after_restore cd c snap s :
  dir_wf c snap -> (exists g, complete c g snap) -> dill_inv cd snap ->
  fz s = ZAbsent -> (forall r, fd s r = snap r) -> Inv cd c s.
Proof.
  intros [M C] [g Hc] D Hz E. unfold Inv. rewrite Hz. split; [|split].
  - split; [rewrite E; exact M | intro H; rewrite E; apply C; exact H].
  - intros _. exists g. eapply complete_ext; [|exact Hc]. intros r _. apply E.
  - unfold dill_inv. rewrite E. exact D.
Qed.

(* C06_inv_crash *)
Lemma inv_crash cd c tag h s k v : Inv cd c s -> Inv cd c (run_crash cd c tag h k v s).
Proof.
  intro HI. unfold run_crash. destruct (fz s) as [| |snap] eqn:Hz.
  - apply inv_nozip; assumption.
  - unfold plan_ops. rewrite (plan_bad_zip cd c tag h s Hz). cbn [fst].
    unfold Inv in HI. rewrite Hz in HI. destruct HI as [Hw F].
    refine (proj1 (seg_dir c ZPartial _ s (Inv cd c) Hz Hw (rm_good c _ h) _) k v).
    intros s' Z W. unfold Inv. rewrite Z. split; assumption.
  - pose proof HI as HI'. unfold Inv in HI'. rewrite Hz in HI'. destruct HI' as [Hw [Hws [Hcs Hds]]].
    set (a := rm_ops (present (fd s)) h). set (b := extract_ops snap (skipn (length a) h)).
    assert (HR : restore_ops h s = ((a ++ b) ++ [ORZ], None)).
    { unfold restore_ops. rewrite Hz. fold a. fold b. rewrite <- app_assoc. reflexivity. }
    assert (Gab : forallb (fun o => dir_opb o && dop_okb c o) (a ++ b) = true).
    { rewrite forallb_app. unfold a, b. rewrite rm_good, (extract_good c snap _ Hws). reflexivity. }
    assert (QI : forall s', fz s' = ZFull snap -> dir_wf c (fd s') -> Inv cd c s').
    { intros s' Z W. unfold Inv. rewrite Z. split; [exact W|]. split; [exact Hws|]. split; assumption. }
    destruct (seg_dir c (ZFull snap) (a ++ b) s (Inv cd c) Hz Hw Gab QI) as [S1 [Z1 W1]].
    assert (Hd : forall x, fd (exec (a ++ b) s) x = snap x).
    { intro x. rewrite exec_app. unfold b. apply exec_extract_ops_fd. intro r. unfold a. apply exec_rm_all_fd. }
    assert (I1 : Inv cd c (apply ORZ (exec (a ++ b) s))).
    { apply (inv_after_restore cd c snap _ Hws Hcs Hds); [reflexivity | exact Hd]. }
    assert (E1 : exec ((a ++ b) ++ [ORZ]) s = apply ORZ (exec (a ++ b) s)) by (rewrite exec_app; reflexivity).
    unfold plan_ops. rewrite (plan_after_restore cd c tag h s _ HR) by (rewrite E1; reflexivity).
    destruct (plan cd c tag (skipn (length ((a ++ b) ++ [ORZ])) h) (exec ((a ++ b) ++ [ORZ]) s)) as [[ops1 out] sm] eqn:E.
    cbn [fst]. revert k v. apply crash_seq.
    + apply crash_seq; [exact S1|]. intros k v. apply (restore_step snap); [exact Z1 | apply QI; assumption | exact I1].
    + intros k v. pose proof (inv_nozip cd c tag (skipn (length ((a ++ b) ++ [ORZ])) h) (exec ((a ++ b) ++ [ORZ]) s)) as N.
      unfold plan_ops in N. rewrite E in N. cbn [fst] in N. apply N; rewrite E1; [reflexivity | exact I1].
Qed.

Lemma inv_full cd c tag h s : Inv cd c s -> Inv cd c (run_full cd c tag h s).
Proof.
  intro H. pose proof (inv_crash cd c tag h s (length (plan_ops cd c tag h s)) VBefore H) as D.
  unfold run_crash in D. rewrite crash_state_ge in D by lia. exact D.
Qed.

(* every state any sequence of runs, crashes and re-runs can produce *)
Lemma inv_history cd c runs : forall tag s, Inv cd c s -> Inv cd c (history cd c tag runs s).
Proof.
  induction runs as [|[h cr] rest IH]; intros tag s H; [exact H|].
  rewrite history_cons. apply IH.
  destruct (run_state_cases cd c tag h cr s) as [E|[k [v E]]]; rewrite E; [apply inv_full | apply inv_crash]; exact H.
Qed.

Lemma inv_reachable cd c runs : Inv cd c (history cd c 0 runs empty_fs).
Proof. apply inv_history. apply inv_empty. Qed.

(* ---------- resumption ---------- *)
(* what the code as it is can not recover from is excluded explicitly *)
Definition recoverable (cd : code) (c : cfg) (s : fs) : Prop :=
  fz s <> ZPartial /\
  (eff_dir s Marker = Full Plain -> not_part (eff_dir s Dill)) /\
  (eff_dir s Marker = Absent ->
     (fx_timer cd = false -> eff_dir s StartTime <> Part PEmpty) /\
     (fx_timer cd = false -> c_search c = Drawer -> eff_dir s Time <> Part PEmpty) /\
     (c_search c = LBFGS ->
        match eff_dir s Dill with
        | Absent | Full NoneObj | Full Plain => True
        | Full (Gen _) => fx_resume cd = true
        | Part _ => False
        end) /\
     (c_chk c = true -> fx_chk cd = false ->
        match eff_dir s Summary with
        | Part _ => False
        | Full (Gen _) => c_search c = Drawer
        | _ => True
        end)).

(* BFGS/LBFGS with maxiter = 0 raises UnboundLocalError (modelled) unless the proposed repair fx_zero is in *)
Definition sane (cd : code) (c : cfg) : Prop := c_search c = LBFGS -> c_updates c = 0 -> fx_zero cd = true.

Lemma save_all_keeps cd s r : (r = StartTime \/ r = Time \/ r = Dill \/ r = Summary) -> fd (exec (save_all_ops cd) s) r = fd s r.
Proof. unfold save_all_ops, json_write. intros [->|[->|[->| ->]]]; destruct (fx_json cd); reflexivity. Qed.

Lemma fresh_resume cd c tag h s :
  freshJ cd c s ->
  (fx_timer cd = false -> fd s StartTime <> Part PEmpty) ->
  (fx_timer cd = false -> c_search c = Drawer -> fd s Time <> Part PEmpty) ->
  (c_search c = LBFGS ->
     match fd s Dill with
     | Absent | Full NoneObj | Full Plain => True
     | Full (Gen _) => fx_resume cd = true
     | Part _ => False
     end) ->
  (c_chk c = true -> fx_chk cd = false ->
     match fd s Summary with
     | Part _ => False
     | Full (Gen _) => c_search c = Drawer
     | _ => True
     end) ->
  sane cd c ->
  exists r, plan_out cd c tag h s = inr r /\ stored c (r_tag r) (run_full cd c tag h s)
            /\ r_samples r = Some (r_tag r).
Proof.
  intros HJ H1 H2 H3 H4 H5. set (s2 := exec (save_all_ops cd) s).
  assert (E4 : fd s2 Summary = fd s Summary) by (apply save_all_keeps; auto).
  assert (E1 : fd s2 StartTime = fd s StartTime) by (apply save_all_keeps; auto).
  assert (E2 : fd s2 Time = fd s Time) by (apply save_all_keeps; auto).
  assert (E3 : fd s2 Dill = fd s Dill) by (apply save_all_keeps; auto).
  assert (Ht : exists t, timer_ops cd s2 = (t, None)).
  { unfold timer_ops. rewrite E1. destruct (fd s StartTime) as [|[|]|x] eqn:E; try (eexists; reflexivity).
    destruct (fx_timer cd) eqn:F; [eexists; reflexivity|]. exfalso. apply (H1 eq_refl). reflexivity. }
  destruct Ht as [t Ht].
  assert (Hf : exists f g sm internal, fit_ops cd c tag s2 = (f, inr g, sm, internal)).
  { assert (Hs : exists f g sm internal, search_ops cd c tag s2 = (f, inr g, sm, internal)).
    { unfold search_ops. rewrite E3. destruct (c_search c) eqn:S; [do 4 eexists; reflexivity|].
      specialize (H3 eq_refl). specialize (H5 S).
      destruct (fd s Dill) as [|p|[|g|]]; try contradiction;
        try (destruct (c_updates c) as [|n0]; [rewrite (H5 eq_refl)|]; do 4 eexists; reflexivity).
      rewrite H3. destruct (c_updates c) as [|[|n]]; do 4 eexists; reflexivity. }
    destruct Hs as [f [g [sm [internal Hs]]]].
    assert (Hk : exists ev, chk_ops cd c s2 = (None, ev)).
    { unfold chk_ops. rewrite E4. destruct (c_chk c) eqn:K; [|eexists; reflexivity].
      destruct (fx_chk cd) eqn:F.
      - destruct (fd s Summary) as [|p|[|g'|]]; try (eexists; reflexivity). destruct (c_search c); eexists; reflexivity.
      - specialize (H4 eq_refl eq_refl). destruct (fd s Summary) as [|p|[|g'|]]; try contradiction; try (eexists; reflexivity).
        rewrite H4. eexists; reflexivity. }
    destruct Hk as [ev Hk]. unfold fit_ops. rewrite Hk, Hs. do 4 eexists; reflexivity. }
  destruct Hf as [f [g [sm [internal Hf]]]].
  assert (Hb : drawer_time_bad cd c s2 = false).
  { unfold drawer_time_bad. rewrite E2. destruct (c_search c) eqn:S; [|reflexivity].
    destruct (fd s Time) as [|[|]|x] eqn:E; try reflexivity.
    destruct (fx_timer cd) eqn:F; [reflexivity|]. exfalso. apply (H2 eq_refl eq_refl). reflexivity. }
  destruct (fresh_success cd c tag h s t f g sm internal HJ Ht Hf Hb) as [GA [Hc [Hd E]]].
  set (A := (save_all_ops cd) ++ (OA Log :: t ++ f ++ final_ops cd c g)) in *.
  set (s3 := apply (OW Marker (Full Plain)) (exec A s)) in *.
  set (res := mkres g (Some g) internal) in *.
  destruct (seg_fresh cd c A s HJ GA) as [_ JA].
  assert (Z3 : fz s3 = ZAbsent) by (destruct JA as [Z _]; exact Z).
  assert (Hi : exists x, internal_of res s3 = inr x).
  { unfold internal_of. change (r_internal res) with internal. destruct internal; [eexists; reflexivity|].
    rewrite (Hd eq_refl). eexists; reflexivity. }
  destruct Hi as [x Hi].
  destruct (post_shape cd c res (skipn (length A + 1) h) s3 x Hi) as [a [rm [Eq _]]].
  exists res. unfold plan_out, run_full, plan_ops. rewrite E, Eq. cbn [fst snd]. split; [reflexivity|]. split; [|reflexivity].
  rewrite exec_app. rewrite exec_app. change (exec [OW Marker (Full Plain)] (exec A s)) with s3.
  apply (post_safe cd c g res (skipn (length A + 1) h) s3 x _ Z3 Hc Hi Eq).
Qed.

(* C06_resume: from every reachable, recoverable state an uninterrupted run ends with a complete stored result *)
Lemma resume cd c tag h s :
  Inv cd c s -> recoverable cd c s -> sane cd c ->
  exists r, plan_out cd c tag h s = inr r /\ stored c (r_tag r) (run_full cd c tag h s)
            /\ (r_samples r = Some (r_tag r) \/ r_samples r = expected_samples c (r_tag r)).
Proof.
  intros HI [Hz [R1 R2]] Hsane. unfold Inv in HI. unfold eff_dir in R1, R2.
  destruct (fz s) as [| |snap] eqn:Z.
  - destruct HI as [[[M|M] Hcsv] [Hm Hd]].
    + destruct (R2 M) as [A [B [C D]]].
      destruct (fresh_resume cd c tag h s) as [r [P [Q T]]]; try assumption.
      { split; [exact Z|]. split; [exact M|]. split; [split; [left; exact M | exact Hcsv] | exact Hd]. }
      exists r. split; [exact P|]. split; [exact Q | left; exact T].
    + destruct (Hm M) as [g Hc].
      destruct (complete_once cd c tag h s g) as [A [_ B]].
      * unfold stored. rewrite Z. exact Hc.
      * unfold eff_dir. rewrite Z. apply R1. exact M.
      * eexists. split; [exact A|]. split; [exact B | right; reflexivity].
  - contradiction.
  - destruct HI as [_ [_ [[g Hc] _]]].
    destruct (complete_once cd c tag h s g) as [A [_ B]].
    + unfold stored. rewrite Z. exact Hc.
    + unfold eff_dir. rewrite Z. apply R1. destruct Hc as [M _]. exact M.
    + eexists. split; [exact A|]. split; [exact B | right; reflexivity].
Qed.

(* the six file-system repairs that are in /repo *)
Definition core_fixed (cd : code) : Prop :=
  fx_zip cd = true /\ fx_resume cd = true /\ fx_timer cd = true /\ fx_dill cd = true /\ fx_chk cd = true /\ fx_json cd = true.

Lemma repaired_core : core_fixed repaired /\ core_fixed repaired_all.
Proof. repeat split; reflexivity. Qed.

(* with them every reachable state is recoverable *)
Lemma fixed_recoverable cd c s : core_fixed cd -> Inv cd c s -> recoverable cd c s.
Proof.
  intros [Fz [Fr [Ft [Fd [Fk Fj]]]]] HI. unfold Inv in HI. unfold recoverable, eff_dir.
  destruct (fz s) as [| |snap] eqn:Z.
  - destruct HI as [_ [_ Hd]]. split; [discriminate|]. split; [intros _; apply Hd; exact Fd|].
    intros _. split; [intro X; congruence|]. split; [intro X; congruence|]. split; [|intros _ X; congruence].
    intros _. specialize (Hd Fd). destruct (fd s Dill) as [|p|[|g|]]; simpl in Hd; try contradiction; auto.
  - destruct HI as [_ F]. congruence.
  - destruct HI as [_ [_ [_ Hd]]]. split; [discriminate|]. split; [intros _; apply Hd; exact Fd|].
    intros _. split; [intro X; congruence|]. split; [intro X; congruence|]. split; [|intros _ X; congruence].
    intros _. specialize (Hd Fd). destruct (snap Dill) as [|p|[|g|]]; simpl in Hd; try contradiction; auto.
Qed.

Lemma repaired_recoverable c s : Inv repaired c s -> recoverable repaired c s.
Proof. apply fixed_recoverable. apply repaired_core. Qed.

Lemma resume_fixed cd c runs tag h : core_fixed cd -> sane cd c ->
  let s := history cd c 0 runs empty_fs in
  exists r, plan_out cd c tag h s = inr r /\ stored c (r_tag r) (run_full cd c tag h s)
            /\ (r_samples r = Some (r_tag r) \/ r_samples r = expected_samples c (r_tag r)).
Proof.
  intros Hc Hs s. apply resume; [apply inv_reachable | apply fixed_recoverable; [exact Hc | apply inv_reachable] | exact Hs].
Qed.

(* the headline for the code as it is: whatever happened before, the next uninterrupted run succeeds *)
Lemma resume_repaired c runs tag h : sane repaired c ->
  let s := history repaired c 0 runs empty_fs in
  exists r, plan_out repaired c tag h s = inr r /\ stored c (r_tag r) (run_full repaired c tag h s)
            /\ (r_samples r = Some (r_tag r) \/ r_samples r = expected_samples c (r_tag r)).
Proof. intro Hs. apply resume_fixed; [apply repaired_core | exact Hs]. Qed.

(* with the two proposed repairs as well: no side condition on the configuration is left *)
Lemma resume_all_repairs c runs tag h :
  let s := history repaired_all c 0 runs empty_fs in
  exists r, plan_out repaired_all c tag h s = inr r /\ stored c (r_tag r) (run_full repaired_all c tag h s)
            /\ (r_samples r = Some (r_tag r) \/ r_samples r = expected_samples c (r_tag r)).
Proof. apply resume_fixed; [apply repaired_core | intros _ _; reflexivity]. Qed.

(* maxiter = 0 is the one configuration the repaired code can not run: BFGS/LBFGS raises UnboundLocalError *)
Lemma lbfgs_zero_updates_fails rm csv keep chk :
  plan_out six_repairs (mkcfg LBFGS 0 rm csv keep chk) 0 [] empty_fs = inl UnboundLocal.
Proof. destruct rm, csv, keep, chk; reflexivity. Qed.

(* complete once, for every state the repaired code can reach *)
Lemma complete_once_fixed cd c runs tag h g : fx_dill cd = true ->
  let s := history cd c 0 runs empty_fs in
  stored c g s ->
  plan_out cd c tag h s = inr (mkres g (expected_samples c g) false)
  /\ plan_sampled cd c tag h s = false
  /\ stored c g (run_full cd c tag h s).
Proof.
  intros Fd s H. apply complete_once; [exact H|].
  pose proof (inv_reachable cd c runs) as HI. fold s in HI. unfold Inv in HI. unfold eff_dir.
  unfold stored in H. destruct (fz s) as [| |snap].
  - destruct HI as [_ [_ D]]. apply D. exact Fd.
  - contradiction.
  - destruct HI as [_ [_ [_ D]]]. apply D. exact Fd.
Qed.

Lemma complete_once_repaired c runs tag h g :
  let s := history repaired c 0 runs empty_fs in
  stored c g s ->
  plan_out repaired c tag h s = inr (mkres g (expected_samples c g) false)
  /\ plan_sampled repaired c tag h s = false
  /\ stored c g (run_full repaired c tag h s).
Proof. apply complete_once_fixed. reflexivity. Qed.



(* the archive is never left truncated once zip_directory is atomic *)
Lemma zipfix_no_partial cd c runs : fx_zip cd = true -> fz (history cd c 0 runs empty_fs) <> ZPartial.
Proof.
  intros F E. pose proof (inv_reachable cd c runs) as HI. unfold Inv in HI. rewrite E in HI.
  destruct HI as [_ HI]. congruence.
Qed.

(* ---------- the persisted search state of a completed fit is not replaced by a re-run ---------- *)
Lemma plan_completed_eq cd c tag h s g :
  fz s = ZAbsent -> complete c g (fd s) ->
  plan_ops cd c tag h s = fst (post_ops cd c (mkres g (expected_samples c g) false) h s).
Proof.
  intros Hz Hc. unfold plan_ops. rewrite (plan_no_zip cd c tag h s Hz).
  destruct (main_completed cd c tag g s Hc) as [Hp Hm]. rewrite Hp. cbn [exec fold_left]. rewrite Hm.
  cbn [exec fold_left app length Nat.add skipn].
  destruct (post_ops cd c _ h s) as [q [e|]]; reflexivity.
Qed.

Lemma post_keeps_dill cd c res h s x :
  fz s = ZAbsent -> c_keep c = true -> r_internal res = false -> fd s Dill = Full x ->
  eff_dir (exec (fst (post_ops cd c res h s)) s) Dill = Full x.
Proof.
  intros Hz Hk Hr Hd. unfold post_ops, internal_of. rewrite Hr, Hd, Hk. cbn [fst].
  set (a := dill_write cd (Full x)). set (z := if fx_zip cd then [OZTW; OZMV] else [OZW]).
  rewrite !exec_app.
  assert (Ha : fd (exec a s) Dill = Full x) by (unfold a, dill_write; destruct (fx_dill cd); reflexivity).
  assert (Hz2 : fz (exec z (exec a s)) = ZFull (fd (exec a s))) by (unfold z; destruct (fx_zip cd); reflexivity).
  assert (Hz3 : fz (exec (if c_remove c then rm_ops (present (fd (exec a s))) (skipn (length a + length z) h) else [])
                       (exec z (exec a s))) = ZFull (fd (exec a s))).
  { destruct (c_remove c); [|exact Hz2]. destruct (exec_rm_ops_fz (present (fd (exec a s))) (skipn (length a + length z) h) (exec z (exec a s))) as [E _].
    rewrite E. exact Hz2. }
  unfold eff_dir. rewrite Hz3. exact Ha.
Qed.

(* C06_internal_kept *)
Lemma completed_keeps_internal cd c tag h s g x :
  stored c g s -> c_keep c = true -> eff_dir s Dill = Full x ->
  eff_dir (run_full cd c tag h s) Dill = Full x.
Proof.
  unfold stored, run_full. destruct (fz s) as [| |snap] eqn:Hz; intros Hc Hk Hd.
  - unfold eff_dir in Hd. rewrite Hz in Hd.
    rewrite (plan_completed_eq cd c tag h s g Hz Hc). apply post_keeps_dill; auto.
  - contradiction.
  - unfold eff_dir in Hd. rewrite Hz in Hd.
    destruct (once_zip cd c tag h s g snap Hz Hc) as [R [s1 [HR [Hs1 [Hz1 [Hc1 [Hd1 [_ E]]]]]]]].
    unfold plan_ops. rewrite E.
    pose proof (plan_completed_eq cd c tag (skipn (length R) h) s1 g Hz1 Hc1) as P. unfold plan_ops in P.
    destruct (plan cd c tag (skipn (length R) h) s1) as [[ops1 out] sm]. cbn [fst] in *.
    rewrite exec_app, <- Hs1, P. apply post_keeps_dill; auto. rewrite Hd1. exact Hd.
Qed.
