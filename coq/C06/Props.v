(* C06 property theorems: statements only, each closed by `exact`.
   cd : which code (current = pinned tree; repaired = with proposed_fixes/C06-*.diff), c : output settings,
   tag : run number, h : walk-order hints (any list), s : state of folder + archive on disk.
   stored c g s  = the complete result of generation g (.completed, summary, results files, samples table if
                   enabled) is in the folder (no archive) or inside a complete archive.
   run_crash .. k v s = the disk after the run is killed at its k-th file-system mutation (v: before it /
                   file created empty / file cut), run_full = after an uninterrupted run. *)
From Coq Require Import List Bool Arith.
From PAFC06 Require Import Model Proofs Proofs2 Proofs3 Witness.
Import ListNotations.

(* ---- complete once ---- *)
(* a stored result is found again: no likelihood evaluation, same best-fit generation, the persisted samples
   (None when no table is written), and it stays stored.  Guard: search_internal.dill is not truncated. *)
Theorem C06_complete_once_partial : forall cd c tag h s g,
  stored c g s -> not_part (eff_dir s Dill) ->
  plan_out cd c tag h s = inr (mkres g (expected_samples c g) false)
  /\ plan_sampled cd c tag h s = false
  /\ stored c g (run_full cd c tag h s).
Proof. exact complete_once. Qed.

(* without the guard it fails on the code as it is: killed while rewriting search_internal.dill after completion *)
Theorem C06_complete_once_refuted : exists k : nat,
  let s1 := run_crash current cD 1 [] k VEmpty (s_done cD) in
  stored cD 0 s1 /\ plan_out current cD 2 [] s1 = inl EOFErr
  /\ plan_out current cD 3 [] (run_full current cD 2 [] s1) = inl EOFErr.
Proof. exact complete_once_refuted. Qed.

(* full statement for the repaired code, over every state any history of runs and crashes can produce *)
Theorem C06_complete_once_repaired : forall c runs tag h g,
  let s := history repaired c 0 runs empty_fs in
  stored c g s ->
  plan_out repaired c tag h s = inr (mkres g (expected_samples c g) false)
  /\ plan_sampled repaired c tag h s = false
  /\ stored c g (run_full repaired c tag h s).
Proof. exact complete_once_repaired. Qed.

(* ---- durable ---- *)
(* every crash point of every run over a stored result: still stored, or (code as it is only) the run was
   killed inside the archive write, leaving a truncated archive beside the intact folder *)
Theorem C06_durable_crash_partial : forall cd c tag h s g k v,
  stored c g s ->
  stored c g (run_crash cd c tag h k v s)
  \/ (fx_zip cd = false /\ fz (run_crash cd c tag h k v s) = ZPartial /\ complete c g (fd (run_crash cd c tag h k v s))).
Proof. exact durable. Qed.

Theorem C06_durable_run : forall cd c tag h s g, stored c g s -> stored c g (run_full cd c tag h s).
Proof. exact durable_full. Qed.

(* any history (any number of runs, each killed anywhere or not) that never leaves a truncated archive *)
Theorem C06_durable_history_partial : forall cd c g runs tag s,
  stored c g s -> no_partial_zip cd c tag runs s -> stored c g (history cd c tag runs s).
Proof. exact durable_history_guarded. Qed.

(* the truncated archive is fatal on the code as it is: the next run deletes the folder and raises BadZipFile *)
Theorem C06_durable_refuted : exists (c : cfg) (g : nat) (s : fs) (k : nat) (v : variant),
  stored c g s /\
  let s1 := run_crash current c 1 [] k v s in
  let s2 := run_full current c 2 [] s1 in
  plan_out current c 2 [] s1 = inl BadZip /\ ~ stored c g s2 /\
  fd s2 Marker = Absent /\ fd s2 Summary = Absent /\ fz s2 = ZPartial.
Proof. exact durable_refuted. Qed.

(* full statement once zip_directory is atomic: every history preserves a stored result *)
Theorem C06_durable_history_repaired : forall cd c g runs, fx_zip cd = true ->
  forall tag s, stored c g s -> stored c g (history cd c tag runs s).
Proof. exact durable_history_zipfix. Qed.

(* ---- resume ---- *)
(* the reachability invariant holds after every crash point of every run, hence along every history *)
Theorem C06_invariant_crash : forall cd c tag h s k v, Inv cd c s -> Inv cd c (run_crash cd c tag h k v s).
Proof. exact inv_crash. Qed.

Theorem C06_invariant_history : forall cd c runs, Inv cd c (history cd c 0 runs empty_fs).
Proof. exact inv_reachable. Qed.

(* from every reachable state that is not one of the explicitly excluded unreadable situations, an
   uninterrupted run terminates normally and leaves the complete result it returns *)
Theorem C06_resume_partial : forall cd c tag h s,
  Inv cd c s -> recoverable cd c s ->
  exists r, plan_out cd c tag h s = inr r /\ stored c (r_tag r) (run_full cd c tag h s).
Proof. exact resume. Qed.

(* the excluded situations are reachable by a single kill on the code as it is *)
Theorem C06_resume_refuted_lbfgs : exists k : nat,
  let s1 := run_crash current cL 0 [] k VBefore empty_fs in
  Inv current cL s1 /\ fz s1 = ZAbsent /\
  plan_out current cL 1 [] s1 = inl KeyErr /\
  plan_out current cL 2 [] (run_full current cL 1 [] s1) = inl KeyErr.
Proof. exact resume_refuted_lbfgs. Qed.

Theorem C06_resume_refuted_start_time : exists k : nat,
  let s1 := run_crash current cD 0 [] k VEmpty empty_fs in
  plan_out current cD 1 [] s1 = inl ValueErr /\ plan_out current cD 2 [] (run_full current cD 1 [] s1) = inl ValueErr.
Proof. exact resume_refuted_start_time. Qed.

Theorem C06_resume_refuted_drawer_time : exists k : nat,
  let s1 := run_crash current cD 0 [] k VEmpty empty_fs in plan_out current cD 1 [] s1 = inl ValueErr.
Proof. exact resume_refuted_drawer_time. Qed.

Theorem C06_resume_refuted_summary : exists k : nat,
  let s1 := run_crash current cDk 0 [] k VHalf empty_fs in
  plan_out current cDk 1 [] s1 = inl JSONDecode /\ plan_out current cDk 2 [] (run_full current cDk 1 [] s1) = inl JSONDecode.
Proof. exact resume_refuted_summary. Qed.

Theorem C06_resume_refuted_lbfgs_check : exists k : nat,
  let s1 := run_crash current cLk 0 [] k VBefore empty_fs in
  plan_out current cLk 1 [] s1 = inl SearchExc /\ plan_out current cLk 2 [] (run_full current cLk 1 [] s1) = inl SearchExc.
Proof. exact resume_refuted_lbfgs_check. Qed.

(* full statement for the repaired code: after ANY history the next uninterrupted run succeeds *)
Theorem C06_resume_repaired : forall c runs tag h,
  let s := history repaired c 0 runs empty_fs in
  exists r, plan_out repaired c tag h s = inr r /\ stored c (r_tag r) (run_full repaired c tag h s).
Proof. exact resume_repaired. Qed.

(* ---- directory walks: the outcome does not depend on the order the file system lists files in ---- *)
Theorem C06_rmtree_any_order : forall h s r, fd (exec (rm_ops (present (fd s)) h) s) r = Absent.
Proof. exact exec_rm_all_fd. Qed.

Theorem C06_extract_any_order : forall snap h s r,
  (forall r, fd s r = Absent) -> fd (exec (extract_ops snap h) s) r = snap r.
Proof. exact exec_extract_ops_fd. Qed.

Print Assumptions C06_complete_once_partial.
Print Assumptions C06_durable_crash_partial.
Print Assumptions C06_durable_history_repaired.
Print Assumptions C06_invariant_crash.
Print Assumptions C06_resume_partial.
Print Assumptions C06_resume_repaired.
Print Assumptions C06_durable_refuted.
