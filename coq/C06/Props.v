(* C06 property theorems: statements only, each closed by `exact`. *)
From Coq Require Import List Bool Arith.
From PAFC06 Require Import Model Proofs.
Import ListNotations.

Theorem C06_exec_app : forall (a b : list op) (s : fs), exec (a ++ b) s = exec b (exec a s).
Proof. exact exec_app. Qed.

Print Assumptions C06_exec_app.
