(* C06 property theorems: statements only, each closed by `exact`.
   cd : which code variant; `repaired` (all flags on) is the code as it is in /repo now -- the correspondence is pinned to
   it (obligation model-variant); `current` is the tree as originally pinned, whose failures are the lemmas *_refuted of
   Witness.v (historical).  c : output settings,
   tag : run number, h : walk-order hints (any list), s : state of folder + archive on disk.
   stored c g s  = the complete result of generation g (.completed, summary, results files, samples table if
                   enabled) is in the folder (no archive) or inside a complete archive.
   run_crash .. k v s = the disk after the run is killed at its k-th file-system mutation (v: before it /
                   file created empty / file cut), run_full = after an uninterrupted run. *)
From Coq Require Import List Bool Arith.
From PAFC06 Require Import Model Proofs Proofs2 Proofs3 Gen Naming Naming2 Witness.
Import ListNotations.

(* ---- complete once ---- *)
(* a stored result is found again: no likelihood evaluation, same best-fit generation, the persisted samples
   (None when no table is written), and it stays stored.  Guard: search_internal.dill is not truncated. *)
Theorem C06_complete_once_partial : forall cd c tag h s g,
  stored c g s -> not_part (eff_dir s Dill) ->
  plan_out cd c tag h s = inr (mkres g (expected_samples c g) false)
  /\ plan_sampled cd c tag h s = false
  /\ stored c g (run_full cd c tag h s).
Proof. exact complete_once. Qed.

(* full statement for the repaired code, over every state any history of runs and crashes can produce *)
Theorem C06_complete_once_repaired : forall c runs tag h g,
  let s := history repaired c 0 runs empty_fs in
  stored c g s ->
  plan_out repaired c tag h s = inr (mkres g (expected_samples c g) false)
  /\ plan_sampled repaired c tag h s = false
  /\ stored c g (run_full repaired c tag h s).
Proof. exact complete_once_repaired. Qed.

(* ---- durable ---- *)
(* every crash point of every run over a stored result: still stored, or (code as it is only) the run was
   killed inside the archive write, leaving a truncated archive beside the intact folder *)
Theorem C06_durable_crash_partial : forall cd c tag h s g k v,
  stored c g s ->
  stored c g (run_crash cd c tag h k v s)
  \/ (fx_zip cd = false /\ fz (run_crash cd c tag h k v s) = ZPartial /\ complete c g (fd (run_crash cd c tag h k v s))).
Proof. exact durable. Qed.

Theorem C06_durable_run : forall cd c tag h s g, stored c g s -> stored c g (run_full cd c tag h s).
Proof. exact durable_full. Qed.

(* any history (any number of runs, each killed anywhere or not) that never leaves a truncated archive *)
Theorem C06_durable_history_partial : forall cd c g runs tag s,
  stored c g s -> no_partial_zip cd c tag runs s -> stored c g (history cd c tag runs s).
Proof. exact durable_history_guarded. Qed.

(* full statement once zip_directory is atomic: every history preserves a stored result *)
Theorem C06_durable_history_repaired : forall cd c g runs, fx_zip cd = true ->
  forall tag s, stored c g s -> stored c g (history cd c tag runs s).
Proof. exact durable_history_zipfix. Qed.

(* ---- resume ---- *)
(* the reachability invariant holds after every crash point of every run, hence along every history *)
Theorem C06_invariant_crash : forall cd c tag h s k v, Inv cd c s -> Inv cd c (run_crash cd c tag h k v s).
Proof. exact inv_crash. Qed.

Theorem C06_invariant_history : forall cd c runs, Inv cd c (history cd c 0 runs empty_fs).
Proof. exact inv_reachable. Qed.

(* from every reachable state that is not one of the explicitly excluded unreadable situations, an
   uninterrupted run terminates normally and leaves the complete result it returns *)
Theorem C06_resume_partial : forall cd c tag h s,
  Inv cd c s -> recoverable cd c s -> sane cd c ->
  exists r, plan_out cd c tag h s = inr r /\ stored c (r_tag r) (run_full cd c tag h s)
            /\ (r_samples r = Some (r_tag r) \/ r_samples r = expected_samples c (r_tag r)).
Proof. exact resume. Qed.

(* full statement for the repaired code: after ANY history the next uninterrupted run succeeds *)
Theorem C06_resume_repaired : forall c runs tag h,
  let s := history repaired c 0 runs empty_fs in
  exists r, plan_out repaired c tag h s = inr r /\ stored c (r_tag r) (run_full repaired c tag h s)
            /\ (r_samples r = Some (r_tag r) \/ r_samples r = expected_samples c (r_tag r)).
Proof. exact resume_all_repairs. Qed.

(* history: before f9e97f7 (variant six_repairs) BFGS/LBFGS with maxiter = 0 raised UnboundLocalError on its first run,
   which is why the code-parametric C06_resume_partial carries the hypothesis `sane` *)
Theorem C06_legacy_lbfgs_zero_updates_refuted : forall rm csv keep chk,
  plan_out six_repairs (mkcfg LBFGS 0 rm csv keep chk) 0 [] empty_fs = inl UnboundLocal.
Proof. exact lbfgs_zero_updates_fails. Qed.

(* the same statement spelled with the explicit variant (all eight repairs) *)
Theorem C06_resume_all_repairs : forall c runs tag h,
  let s := history repaired_all c 0 runs empty_fs in
  exists r, plan_out repaired_all c tag h s = inr r /\ stored c (r_tag r) (run_full repaired_all c tag h s)
            /\ (r_samples r = Some (r_tag r) \/ r_samples r = expected_samples c (r_tag r)).
Proof. exact resume_all_repairs. Qed.

(* the persisted search state of a completed fit (search_internal kept) is the same after a re-run *)
Theorem C06_internal_kept : forall cd c tag h s g x,
  stored c g s -> c_keep c = true -> eff_dir s Dill = Full x ->
  eff_dir (run_full cd c tag h s) Dill = Full x.
Proof. exact completed_keeps_internal. Qed.

(* ---- directory walks: the outcome does not depend on the order the file system lists files in ---- *)
Theorem C06_rmtree_any_order : forall h s r, fd (exec (rm_ops (present (fd s)) h) s) r = Absent.
Proof. exact exec_rm_all_fd. Qed.

Theorem C06_extract_any_order : forall snap h s r,
  (forall r, fd s r = Absent) -> fd (exec (extract_ops snap h) s) r = snap r.
Proof. exact exec_extract_ops_fd. Qed.

(* ---- several fits in one output directory (names: Naming.v, suffixes translated from /repo into Gen.v) ----
   path = components below the output directory; folder f = <path_prefix>/<unique_tag>/<name>[/<identifier>];
   names p = [p; p.zip; p.zip.tmp];  legal p = p is not the output directory itself and its last component does not end
   in ".zip" / ".tmp" (the guard is needed: C06_names_collide_unguarded_refuted in Witness.v).
   Not expressed in the flat disk model (assumption): no fit's folder lies inside another fit's folder. *)
(* the archive (and temporary archive) name determines the folder: nothing of the folder name is dropped *)
Theorem C06_archive_name_injective : forall suf p q, p <> [] -> q <> [] -> add_suffix suf p = add_suffix suf q -> p = q.
Proof. exact add_suffix_inj. Qed.

(* folder, archive and temporary archive of one fit are three different names *)
Theorem C06_names_own : forall p, legal p -> NoDup (names p).
Proof. exact names_own. Qed.

(* two different fits share none of their names: whatever the names look like (dots, one a prefix of the other, ...) *)
Theorem C06_names_separate : forall p q, legal p -> legal q -> p <> q ->
  forall x y, In x (names p) -> In y (names q) -> x <> y.
Proof. exact names_separate. Qed.

(* any interleaving of runs and crashes of any fits in one directory: each fit sees exactly its own history *)
Theorem C06_neighbours_independent : forall cd c q, legal q -> forall runs dk,
  (forall r, In r runs -> legal (g_fit r)) ->
  read q (ghistory cd c runs dk) = thistory cd c (project q runs) (read q dk).
Proof. exact neighbours_independent. Qed.

(* a fit that has not run yet is never handed a neighbour's output *)
Theorem C06_neighbours_fresh : forall cd c q runs, legal q ->
  (forall r, In r runs -> legal (g_fit r)) -> (forall r, In r runs -> g_fit r <> q) ->
  read q (ghistory cd c runs empty_disk) = empty_fs.
Proof. exact neighbours_fresh. Qed.

(* a stored result survives everything its own fit and the neighbours do afterwards (atomic archive write) *)
Theorem C06_neighbours_durable : forall cd c g q runs dk, fx_zip cd = true -> legal q ->
  (forall r, In r runs -> legal (g_fit r)) ->
  stored c g (read q dk) -> stored c g (read q (ghistory cd c runs dk)).
Proof. exact neighbours_durable. Qed.

(* ... and is found again by its fit: no sampling, same generation (guard as in C06_complete_once_partial) *)
Theorem C06_neighbours_complete_once_partial : forall cd c g q runs dk tag h, fx_zip cd = true -> legal q ->
  (forall r, In r runs -> legal (g_fit r)) ->
  stored c g (read q dk) ->
  let s := read q (ghistory cd c runs dk) in
  not_part (eff_dir s Dill) ->
  plan_out cd c tag h s = inr (mkres g (expected_samples c g) false)
  /\ plan_sampled cd c tag h s = false
  /\ stored c g (run_full cd c tag h s).
Proof. exact neighbours_complete_once. Qed.

Print Assumptions C06_complete_once_partial.
Print Assumptions C06_durable_crash_partial.
Print Assumptions C06_durable_history_repaired.
Print Assumptions C06_invariant_crash.
Print Assumptions C06_resume_partial.
Print Assumptions C06_resume_repaired.
Print Assumptions C06_archive_name_injective.
Print Assumptions C06_names_own.
Print Assumptions C06_names_separate.
Print Assumptions C06_neighbours_independent.
Print Assumptions C06_neighbours_fresh.
Print Assumptions C06_neighbours_durable.
Print Assumptions C06_neighbours_complete_once_partial.
