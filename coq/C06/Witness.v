(* C06 witnesses: the full statements fail on the model of the code as it is (vm_compute), and the
   hypotheses of the theorems are inhabited. *)
From Coq Require Import List Bool Arith.
From PAFC06 Require Import Model Proofs Proofs2 Proofs3 Gen Naming Naming2.
Import ListNotations.

Definition cD : cfg := mkcfg Drawer 0 false false true false.    (* Drawer, folder kept, no samples table *)
Definition cDz : cfg := mkcfg Drawer 0 true true true false.     (* Drawer, folder removed after zipping, samples table *)
Definition cL : cfg := mkcfg LBFGS 2 true true true false.       (* LBFGS, two update blocks *)

Fixpoint index_of (p : op -> bool) (l : list op) : nat :=
  match l with [] => 0 | o :: l' => if p o then 0 else S (index_of p l') end.
Definition is_zw (o : op) := match o with OZW => true | _ => false end.
Definition is_w (r : role) (o : op) := match o with OW r' _ => role_eqb r r' | _ => false end.

(* a completed fit *)
Definition s_done (c : cfg) : fs := run_full current c 0 [] empty_fs.

(* ---------- non-vacuity ---------- *)
Example done_is_stored : stored cD 0 (s_done cD) /\ stored cDz 0 (s_done cDz) /\ stored cL 0 (s_done cL).
Proof. vm_compute. repeat split; reflexivity. Qed.

Example done_dill_readable : not_part (eff_dir (s_done cD) Dill).
Proof. vm_compute. exact I. Qed.

Example empty_recoverable : recoverable current cL empty_fs /\ Inv current cL empty_fs.
Proof. split; [|apply inv_empty]. unfold recoverable. vm_compute. repeat split; intros; try discriminate; auto. Qed.

Example first_run_succeeds :
  plan_out current cL 0 [] empty_fs = inr (mkres 0 (Some 0) true) /\ plan_sampled current cL 0 [] empty_fs = true.
Proof. vm_compute. split; reflexivity. Qed.

(* a history that satisfies the guard of the guarded durability theorem and really contains crashes *)
Example guarded_history_exists :
  no_partial_zip current cDz 1 [([], Some (3, VEmpty)); ([], Some (20, VHalf)); ([], None)] (s_done cDz).
Proof. vm_compute. repeat split; discriminate. Qed.

(* ---------- refutations on the code as it is ---------- *)
(* (durable) a kill inside the archive write, then one more run: the result is gone for good *)
Definition zw_at (c : cfg) (s : fs) : nat := index_of is_zw (plan_ops current c 1 [] s).

Lemma durable_refuted :
  exists (c : cfg) (g : nat) (s : fs) (k : nat) (v : variant),
    stored c g s /\
    let s1 := run_crash current c 1 [] k v s in
    let s2 := run_full current c 2 [] s1 in
    plan_out current c 2 [] s1 = inl BadZip /\ ~ stored c g s2 /\
    fd s2 Marker = Absent /\ fd s2 Summary = Absent /\ fz s2 = ZPartial.
Proof.
  exists cD, 0, (s_done cD), (zw_at cD (s_done cD)), VHalf.
  vm_compute. repeat split; try reflexivity. intro H; exact H.
Qed.

(* the same with the folder removed after zipping: the re-run re-creates the archive *)
Lemma durable_refuted_removed :
  exists (k : nat) (v : variant),
    let s1 := run_crash current cDz 1 [] k v (s_done cDz) in
    let s2 := run_full current cDz 2 [] s1 in
    stored cDz 0 (s_done cDz) /\ plan_out current cDz 2 [] s1 = inl BadZip /\ ~ stored cDz 0 s2.
Proof.
  exists (zw_at cDz (s_done cDz)), VEmpty. vm_compute. repeat split; try reflexivity. intro H; exact H.
Qed.

(* (resume) LBFGS killed between its first saved state and .completed can never be resumed *)
Lemma resume_refuted_lbfgs :
  exists (k : nat),
    let s1 := run_crash current cL 0 [] k VBefore empty_fs in
    Inv current cL s1 /\ fz s1 = ZAbsent /\
    plan_out current cL 1 [] s1 = inl KeyErr /\
    plan_out current cL 2 [] (run_full current cL 1 [] s1) = inl KeyErr.
Proof.
  exists (index_of (is_w Marker) (plan_ops current cL 0 [] empty_fs)).
  split; [apply inv_crash; apply inv_empty|]. vm_compute. repeat split; reflexivity.
Qed.

(* (resume) an empty .start_time stops every later run *)
Lemma resume_refuted_start_time :
  exists (k : nat),
    let s1 := run_crash current cD 0 [] k VEmpty empty_fs in
    plan_out current cD 1 [] s1 = inl ValueErr /\ plan_out current cD 2 [] (run_full current cD 1 [] s1) = inl ValueErr.
Proof.
  exists (index_of (is_w StartTime) (plan_ops current cD 0 [] empty_fs)). vm_compute. split; reflexivity.
Qed.

(* (complete once) a kill while search_internal.dill is rewritten after completion: the result is on disk,
   yet no later run returns it *)
Lemma complete_once_refuted :
  exists (k : nat),
    let s1 := run_crash current cD 1 [] k VEmpty (s_done cD) in
    stored cD 0 s1 /\ plan_out current cD 2 [] s1 = inl EOFErr
    /\ plan_out current cD 3 [] (run_full current cD 2 [] s1) = inl EOFErr.
Proof.
  exists (index_of (is_w Dill) (plan_ops current cD 1 [] (s_done cD)) + 1 + index_of (is_w Dill)
            (skipn (index_of (is_w Dill) (plan_ops current cD 1 [] (s_done cD)) + 1) (plan_ops current cD 1 [] (s_done cD)))).
  vm_compute. repeat split; reflexivity.
Qed.

(* (resume) Drawer: an empty .time makes the next run fail once *)
Lemma resume_refuted_drawer_time :
  exists (k : nat),
    let s1 := run_crash current cD 0 [] k VEmpty empty_fs in
    plan_out current cD 1 [] s1 = inl ValueErr.
Proof.
  exists (index_of (is_w Time) (plan_ops current cD 0 [] empty_fs)). vm_compute. reflexivity.
Qed.

(* (resume, library default check_likelihood_function = true) a truncated samples_summary.json stops every later run;
   an interrupted LBFGS fit with an intact summary fails the figure-of-merit sanity check for ever *)
Definition cDk : cfg := mkcfg Drawer 0 true false true true.
Definition cLk : cfg := mkcfg LBFGS 2 true false true true.

Lemma resume_refuted_summary :
  exists (k : nat),
    let s1 := run_crash current cDk 0 [] k VHalf empty_fs in
    plan_out current cDk 1 [] s1 = inl JSONDecode /\ plan_out current cDk 2 [] (run_full current cDk 1 [] s1) = inl JSONDecode.
Proof.
  exists (index_of (is_w Summary) (plan_ops current cDk 0 [] empty_fs)). vm_compute. split; reflexivity.
Qed.

Lemma resume_refuted_lbfgs_check :
  exists (k : nat),
    let s1 := run_crash current cLk 0 [] k VBefore empty_fs in
    plan_out current cLk 1 [] s1 = inl SearchExc /\ plan_out current cLk 2 [] (run_full current cLk 1 [] s1) = inl SearchExc.
Proof.
  exists (index_of (is_w Marker) (plan_ops current cLk 0 [] empty_fs)). vm_compute. split; reflexivity.
Qed.

Example repaired_summary_witness :
  let k := index_of (is_w SummaryTmp) (plan_ops repaired cDk 0 [] empty_fs) in
  let s1 := run_crash repaired cDk 0 [] k VHalf empty_fs in
  exists r, plan_out repaired cDk 1 [] s1 = inr r /\ r_tag r = 1 /\ r_samples r = Some 1.
Proof. vm_compute. eexists. repeat split. Qed.

(* the same histories on the repaired model end well *)
Example repaired_zip_witness :
  let s0 := run_full repaired cD 0 [] empty_fs in
  let k := index_of (fun o => match o with OZTW => true | _ => false end) (plan_ops repaired cD 1 [] s0) in
  let s1 := run_crash repaired cD 1 [] k VHalf s0 in
  stored cD 0 s1 /\ plan_out repaired cD 2 [] s1 = inr (mkres 0 None false).
Proof. vm_compute. repeat split; reflexivity. Qed.

Example repaired_lbfgs_witness :
  let k := index_of (is_w Marker) (plan_ops repaired cL 0 [] empty_fs) in
  let s1 := run_crash repaired cL 0 [] k VBefore empty_fs in
  plan_out repaired cL 1 [] s1 = inr (mkres 1 (Some 1) true).
Proof. vm_compute. reflexivity. Qed.

(* non-vacuity of the history theorems: a stored result and a history with real crashes, repaired archive write *)
Example repaired_history_witness :
  let s0 := run_full repaired cDz 0 [] empty_fs in
  stored cDz 0 s0 /\
  stored cDz 0 (history repaired cDz 1 [([], Some (2, VEmpty)); ([], Some (17, VHalf)); ([], Some (30, VBefore)); ([], None)] s0).
Proof. vm_compute. repeat split; reflexivity. Qed.

Example reachable_state_is_invariant_and_recoverable :
  let s := history current cL 0 [([], Some (12, VHalf)); ([], None)] empty_fs in
  Inv current cL s /\ fz s <> ZPartial.
Proof. split; [apply inv_reachable | vm_compute; discriminate]. Qed.

(* the hypothesis of C06_complete_once_repaired in its own form, and sane *)
Example repaired_reachable_stored :
  stored cDz 0 (history repaired cDz 0 [([], None); ([], Some (3, VHalf)); ([], Some (25, VEmpty))] empty_fs)
  /\ sane repaired cL /\ sane repaired cD.
Proof. split; [vm_compute; repeat split; reflexivity|]. split; intros H U; [discriminate U | discriminate H]. Qed.

Example internal_kept_witness :
  let s0 := run_full repaired cL 0 [] empty_fs in
  eff_dir s0 Dill = Full (Gen 0) /\ eff_dir (run_full repaired cL 1 [] s0) Dill = Full (Gen 0).
Proof. vm_compute. split; reflexivity. Qed.

(* the two prepared variants: maxiter = 0 completes, a fresh Drawer run keeps its search internal in memory *)
Example zero_updates_repaired :
  plan_out repaired_all (mkcfg LBFGS 0 true false true false) 0 [] empty_fs = inr (mkres 0 (Some 0) true).
Proof. vm_compute. reflexivity. Qed.

Example drawer_repaired_same_disk :
  plan_out repaired_all cDz 0 [] empty_fs = inr (mkres 0 (Some 0) true)
  /\ fs_eqb (run_full repaired_all cDz 0 [] empty_fs) (run_full repaired cDz 0 [] empty_fs) = true.
Proof. vm_compute. split; reflexivity. Qed.

(* ---------- several fits in one output directory (Naming.v) ---------- *)
From Coq Require Import String.
Open Scope string_scope.
Open Scope list_scope.
Definition pA : path := [S_ "demo"; S_ "gauss_v1.0"].
Definition pB : path := [S_ "demo"; S_ "gauss_v1.5"].
Definition pC : path := [S_ "demo"; S_ "gauss_v1"].          (* a prefix of both, up to the last dot *)

Example legal_pA : legal pA. Proof. apply legalb_sound. vm_compute. reflexivity. Qed.
Example legal_pB : legal pB. Proof. apply legalb_sound. vm_compute. reflexivity. Qed.
Example legal_pC : legal pC. Proof. apply legalb_sound. vm_compute. reflexivity. Qed.
Example pA_pB_differ : pA <> pB. Proof. vm_compute. discriminate. Qed.

(* the naming scheme on the dotted names: nothing after the last dot is dropped *)
Example zip_of_pA : zip_of pA = [S_ "demo"; S_ "gauss_v1.0.zip"]. Proof. vm_compute. reflexivity. Qed.
Example ziptmp_of_pA : ziptmp_of pA = [S_ "demo"; S_ "gauss_v1.0.zip.tmp"]. Proof. vm_compute. reflexivity. Qed.
Example folder_example :
  folder (mkfit [S_ "p"; S_ "q"] [] (S_ "g.1") (Some (S_ "abc"))) = [S_ "p"; S_ "q"; S_ "g.1"; S_ "abc"].
Proof. vm_compute. reflexivity. Qed.

(* hypotheses of C06_names_separate / C06_neighbours_* are inhabited, and the conclusion says something *)
Example names_separate_witness : forall x y, In x (names pA) -> In y (names pB) -> x <> y.
Proof. apply names_separate; [exact legal_pA | exact legal_pB | exact pA_pB_differ]. Qed.

Definition two_fit_runs : list grun :=
  [mkgrun pA 0 [] None; mkgrun pB 1 [] None; mkgrun pA 2 [] (Some (3, VBefore)); mkgrun pB 3 [] None].
Example two_fit_runs_legal : forall r, In r two_fit_runs -> legal (g_fit r).
Proof. intros r [E|[E|[E|[E|[]]]]]; subst r; simpl; auto using legal_pA, legal_pB. Qed.
(* non-vacuity: after fit A completed, fit B's first run still samples; A's result is stored and stays *)
Example neighbour_first_run_samples :
  plan_sampled repaired cDz 1 [] (read pB (ghistory repaired cDz [mkgrun pA 0 [] None] empty_disk)) = true.
Proof. vm_compute. reflexivity. Qed.
Example neighbour_stored_witness :
  storedb cDz 0 (read pA (ghistory repaired cDz two_fit_runs empty_disk)) = true
  /\ storedb cDz 1 (read pB (ghistory repaired cDz two_fit_runs empty_disk)) = true.
Proof. vm_compute. split; reflexivity. Qed.

(* the guard `legal` is needed: a name ending in ".zip" is the archive name of another fit *)
Example C06_names_collide_unguarded_refuted :
  exists p q, p <> q /\ p <> [] /\ q <> [] /\ In p (names q).
Proof. exists [S_ "x.zip"], [S_ "x"]. split; [vm_compute; discriminate|]. split; [discriminate|]. split; [discriminate|].
  right; left. vm_compute. reflexivity. Qed.
Example illegal_name : legalb [S_ "x.zip"] = false /\ legalb [S_ "x.zip.tmp"] = false /\ legalb [] = false.
Proof. vm_compute. repeat split. Qed.
