(* C06 lemmas, part 1: basic facts about exec / upd / walks. *)
From Coq Require Import List Bool Arith Lia.
From PAFC06 Require Import Model.
Import ListNotations.

Lemma exec_app (a b : list op) (s : fs) : exec (a ++ b) s = exec b (exec a s).
Proof. unfold exec. apply fold_left_app. Qed.
