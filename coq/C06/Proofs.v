(* C06 lemmas, part 1: files, walks, and generic facts about crash states. *)
From Coq Require Import List Bool Arith Lia.
From PAFC06 Require Import Model.
Import ListNotations.

(* ---------- roles and directories ---------- *)
Lemma role_eqb_eq (a b : role) : role_eqb a b = true <-> a = b.
Proof. split; [destruct a, b; simpl; intro H; try reflexivity; discriminate | intros ->; destruct b; reflexivity]. Qed.

Lemma role_eqb_refl (a : role) : role_eqb a a = true.
Proof. destruct a; reflexivity. Qed.

Lemma role_eqb_neq (a b : role) : a <> b -> role_eqb a b = false.
Proof. intro H. destruct (role_eqb a b) eqn:E; [apply role_eqb_eq in E; contradiction | reflexivity]. Qed.

Lemma upd_same (d : dir) r f : upd d r f r = f.
Proof. unfold upd. rewrite role_eqb_refl. reflexivity. Qed.

Lemma upd_other (d : dir) r f r' : r <> r' -> upd d r f r' = d r'.
Proof. intro H. unfold upd. rewrite role_eqb_neq by exact H. reflexivity. Qed.

Lemma all_roles_complete (r : role) : In r all_roles.
Proof. destruct r; simpl; tauto. Qed.

Lemma mem_In (r : role) (l : list role) : mem r l = true <-> In r l.
Proof.
  induction l as [|x l IH]; simpl; [split; [discriminate | tauto]|].
  rewrite orb_true_iff, IH, role_eqb_eq. split; intros [H|H]; auto.
Qed.

(* ---------- exec ---------- *)
Lemma exec_app (a b : list op) (s : fs) : exec (a ++ b) s = exec b (exec a s).
Proof. unfold exec. apply fold_left_app. Qed.

Lemma exec_cons (o : op) (l : list op) (s : fs) : exec (o :: l) s = exec l (apply o s).
Proof. reflexivity. Qed.

Lemma exec_nil (s : fs) : exec [] s = s.
Proof. reflexivity. Qed.

(* removing a list of files *)
Lemma exec_rm_fd (l : list role) (s : fs) (r : role) :
  fd (exec (map OR l) s) r = if mem r l then Absent else fd s r.
Proof.
  revert s. induction l as [|x l IH]; intro s; [reflexivity|].
  cbn [map mem]. rewrite exec_cons, IH. cbn [apply fd].
  destruct (role_eqb r x) eqn:E.
  - apply role_eqb_eq in E. subst. simpl. destruct (mem x l); [reflexivity | apply upd_same].
  - simpl. destruct (mem r l); [reflexivity|].
    apply upd_other. intro H. subst. rewrite role_eqb_refl in E. discriminate.
Qed.

Lemma exec_rm_fz (l : list role) (s : fs) : fz (exec (map OR l) s) = fz s /\ ftmp (exec (map OR l) s) = ftmp s.
Proof. revert s. induction l as [|x l IH]; intro s; [simpl; auto|]. cbn [map]. rewrite exec_cons. destruct (IH (apply (OR x) s)) as [A B]. rewrite A, B. auto. Qed.

(* extracting a list of members *)
Lemma exec_extract_fd (snap : dir) (l : list role) (s : fs) (r : role) :
  fd (exec (map (fun r => OW r (snap r)) l) s) r = if mem r l then snap r else fd s r.
Proof.
  revert s. induction l as [|x l IH]; intro s; [reflexivity|].
  cbn [map mem]. rewrite exec_cons, IH. cbn [apply fd].
  destruct (role_eqb r x) eqn:E.
  - apply role_eqb_eq in E. subst. simpl. destruct (mem x l); [reflexivity | apply upd_same].
  - simpl. destruct (mem r l); [reflexivity|].
    apply upd_other. intro H. subst. rewrite role_eqb_refl in E. discriminate.
Qed.

Lemma exec_extract_fz (snap : dir) (l : list role) (s : fs) :
  fz (exec (map (fun r => OW r (snap r)) l) s) = fz s /\ ftmp (exec (map (fun r => OW r (snap r)) l) s) = ftmp s.
Proof. revert s. induction l as [|x l IH]; intro s; [simpl; auto|]. cbn [map]. rewrite exec_cons. destruct (IH (apply (OW x (snap x)) s)) as [A B]. rewrite A, B. auto. Qed.

(* ---------- walk orders: every order lists exactly the files of the set ---------- *)
Lemma hinted_sound kind inset h seen r : In r (hinted kind inset h seen) -> inset r = true.
Proof.
  revert seen. induction h as [|e h IH]; intro seen; simpl; [tauto|].
  destruct (kind e) as [x|]; [|simpl; tauto].
  destruct (inset x && negb (mem x seen)) eqn:E; [|simpl; tauto].
  apply andb_true_iff in E. destruct E as [E _]. simpl. intros [H|H]; [subst; exact E | eapply IH; exact H].
Qed.

Lemma order_sound kind inset h r : In r (order kind inset h) -> inset r = true.
Proof.
  unfold order. rewrite in_app_iff, filter_In. intros [H|[_ H]].
  - eapply hinted_sound; exact H.
  - apply andb_true_iff in H. tauto.
Qed.

Lemma order_complete kind inset h r : inset r = true -> In r (order kind inset h).
Proof.
  intro H. unfold order. rewrite in_app_iff, filter_In.
  destruct (mem r (hinted kind inset h [])) eqn:E.
  - left. apply mem_In. exact E.
  - right. split; [apply all_roles_complete | rewrite H; reflexivity].
Qed.

Lemma mem_order kind inset h r : mem r (order kind inset h) = inset r.
Proof.
  destruct (inset r) eqn:E.
  - apply mem_In. apply order_complete. exact E.
  - destruct (mem r (order kind inset h)) eqn:M; [|reflexivity].
    apply mem_In in M. apply order_sound in M. congruence.
Qed.

(* a complete rmtree empties the set, whatever the order *)
Lemma exec_rm_ops_fd inset h s r :
  fd (exec (rm_ops inset h) s) r = if inset r then Absent else fd s r.
Proof. unfold rm_ops. rewrite exec_rm_fd, mem_order. reflexivity. Qed.

Lemma exec_rm_ops_fz inset h s : fz (exec (rm_ops inset h) s) = fz s /\ ftmp (exec (rm_ops inset h) s) = ftmp s.
Proof. unfold rm_ops. apply exec_rm_fz. Qed.

Lemma exec_rm_all_fd h s r : fd (exec (rm_ops (present (fd s)) h) s) r = Absent.
Proof. rewrite exec_rm_ops_fd. unfold present. destruct (fd s r); reflexivity. Qed.

(* a complete extraction over an empty folder reproduces the archive, whatever the order *)
Lemma exec_extract_ops_fd snap h s r :
  (forall r, fd s r = Absent) -> fd (exec (extract_ops snap h) s) r = snap r.
Proof.
  intro H. unfold extract_ops. rewrite exec_extract_fd, mem_order. unfold present.
  destruct (snap r) eqn:E; [apply H | reflexivity | reflexivity].
Qed.

Lemma exec_extract_ops_fz snap h s :
  fz (exec (extract_ops snap h) s) = fz s /\ ftmp (exec (extract_ops snap h) s) = ftmp s.
Proof. unfold extract_ops. apply exec_extract_fz. Qed.

Lemma In_rm_ops inset h o : In o (rm_ops inset h) -> exists r, o = OR r /\ inset r = true.
Proof.
  unfold rm_ops. rewrite in_map_iff. intros [r [<- H]]. exists r. split; [reflexivity|].
  eapply order_sound; exact H.
Qed.

Lemma In_extract_ops snap h o : In o (extract_ops snap h) -> exists r, o = OW r (snap r) /\ present snap r = true.
Proof.
  unfold extract_ops. rewrite in_map_iff. intros [r [<- H]]. exists r. split; [reflexivity|].
  eapply order_sound; exact H.
Qed.

(* ---------- crash states ---------- *)
Lemma crash_state_app_l a b k v s : k < length a -> crash_state (a ++ b) k v s = crash_state a k v s.
Proof.
  intro H. unfold crash_state.
  rewrite nth_error_app1 by exact H.
  rewrite firstn_app. replace (k - length a) with 0 by lia. simpl. rewrite app_nil_r. reflexivity.
Qed.

Lemma crash_state_app_r a b k v s : length a <= k -> crash_state (a ++ b) k v s = crash_state b (k - length a) v (exec a s).
Proof.
  intro H. unfold crash_state.
  rewrite nth_error_app2 by exact H.
  rewrite firstn_app, exec_app. rewrite (firstn_all2 a H). reflexivity.
Qed.

Lemma crash_state_nil k v s : crash_state [] k v s = s.
Proof. unfold crash_state. destruct k; reflexivity. Qed.

Lemma crash_state_ge ops k v s : length ops <= k -> crash_state ops k v s = exec ops s.
Proof.
  intro H. unfold crash_state. rewrite firstn_all2 by exact H.
  destruct (nth_error ops k) eqn:E; [|reflexivity].
  assert (k < length ops) by (apply nth_error_Some; congruence). lia.
Qed.

(* sequential composition: a property of all crash states of a ++ b *)
Lemma crash_seq (Q : fs -> Prop) a b s :
  (forall k v, Q (crash_state a k v s)) ->
  (forall k v, Q (crash_state b k v (exec a s))) ->
  forall k v, Q (crash_state (a ++ b) k v s).
Proof.
  intros Ha Hb k v. destruct (lt_dec k (length a)) as [L|L].
  - rewrite crash_state_app_l by exact L. apply Ha.
  - rewrite crash_state_app_r by lia. apply Hb.
Qed.

(* a segment all of whose operations preserve J, and whose interrupted operations land in Q *)
Lemma crash_uniform (J Q : fs -> Prop) (Good : op -> Prop) ops s :
  J s -> Forall Good ops ->
  (forall o s', Good o -> J s' -> J (apply o s')) ->
  (forall o s', Good o -> J s' -> Q (apply_empty o s') /\ Q (cut o (apply o s'))) ->
  (forall s', J s' -> Q s') ->
  (forall k v, Q (crash_state ops k v s)) /\ J (exec ops s).
Proof.
  intros HJ HG Hstep Hcr HQ. revert s HJ. induction HG as [|o ops Go _ IH]; intros s HJ.
  - split; [intros k v; rewrite crash_state_nil; apply HQ; exact HJ | exact HJ].
  - destruct (IH (apply o s) (Hstep o s Go HJ)) as [A B]. split; [|rewrite exec_cons; exact B].
    intros k v. destruct k as [|k].
    + unfold crash_state. simpl. destruct v; [apply HQ; exact HJ | apply Hcr; assumption | apply Hcr; assumption].
    + change (o :: ops) with ([o] ++ ops). rewrite crash_state_app_r by (simpl; lia).
      simpl. rewrite Nat.sub_0_r. apply A.
Qed.

Lemma exec_uniform (J : fs -> Prop) (Good : op -> Prop) ops s :
  J s -> Forall Good ops -> (forall o s', Good o -> J s' -> J (apply o s')) -> J (exec ops s).
Proof.
  intros HJ HG Hstep. revert s HJ. induction HG as [|o ops Go _ IH]; intros s HJ; [exact HJ|].
  rewrite exec_cons. apply IH. apply Hstep; assumption.
Qed.

Lemma Forall_app_intro {A} (P : A -> Prop) a b : Forall P a -> Forall P b -> Forall P (a ++ b).
Proof. intros. apply Forall_app. split; assumption. Qed.
