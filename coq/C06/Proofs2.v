(* C06 lemmas, part 2: a stored result is found again (complete once) and survives crashes (durable). *)
From Coq Require Import List Bool Arith Lia.
From PAFC06 Require Import Model Proofs.
Import ListNotations.

Definition res_role (r : role) : bool :=
  match r with Marker | Summary | Results | SearchSummary | SamplesCsv | SamplesInfo | ResultExtra => true | _ => false end.

Definition not_part (f : fstate) : Prop := match f with Part _ => False | _ => True end.

(* the folder as the next run will see it after restore() *)
Definition eff_dir (s : fs) : dir := match fz s with ZFull snap => snap | _ => fd s end.

Lemma complete_ext c g (d d' : dir) :
  (forall r, res_role r = true -> d' r = d r) -> complete c g d -> complete c g d'.
Proof.
  intros H [A [B [C [D [X E]]]]]. unfold complete.
  rewrite !H by reflexivity. repeat split; try assumption.
Qed.

(* operations that touch neither a result file nor the archive *)
Definition nr_op (o : op) : Prop :=
  match o with
  | OW r _ | OA r | OR r => res_role r = false
  | ODMV _ | OZTW => True
  | OZW | ORZ | OZMV | OJMV _ _ => False
  end.

Lemma res_role_neq r r' : res_role r = false -> res_role r' = true -> r <> r'.
Proof. intros A B E. subst. congruence. Qed.

Lemma nr_apply o s : nr_op o ->
  fz (apply o s) = fz s /\ forall r, res_role r = true -> fd (apply o s) r = fd s r.
Proof.
  destruct o; simpl; intro H; try contradiction; split; try reflexivity; intros r' Hr;
    try (apply upd_other; eapply res_role_neq; eassumption); try reflexivity.
  rewrite upd_other by (intro E; subst; discriminate).
  apply upd_other. intro E; subst; discriminate.
Qed.

Lemma nr_apply_empty o s : nr_op o ->
  fz (apply_empty o s) = fz s /\ forall r, res_role r = true -> fd (apply_empty o s) r = fd s r.
Proof.
  destruct o; simpl; intro H; try contradiction; try (split; reflexivity).
  - split; [reflexivity|]. intros r' Hr. apply upd_other. eapply res_role_neq; eassumption.
  - destruct (fd s r); simpl; split; try reflexivity; intros r' Hr; try reflexivity.
    apply upd_other. eapply res_role_neq; eassumption.
Qed.

Lemma nr_cut o s : nr_op o ->
  fz (cut o s) = fz s /\ forall r, res_role r = true -> fd (cut o s) r = fd s r.
Proof.
  destruct o; simpl; intro H; try contradiction; try (split; reflexivity);
    destruct (empty_content r); simpl; split; try reflexivity; intros r' Hr; try reflexivity;
    apply upd_other; eapply res_role_neq; eassumption.
Qed.

(* J for a segment of such operations: archive state and result files are frozen *)
Definition frozen (z : zstate) (d : dir) (s : fs) : Prop :=
  fz s = z /\ forall r, res_role r = true -> fd s r = d r.

Lemma frozen_segment z d ops s (Q : fs -> Prop) :
  frozen z d s -> Forall nr_op ops -> (forall s', frozen z d s' -> Q s') ->
  (forall k v, Q (crash_state ops k v s)) /\ frozen z d (exec ops s).
Proof.
  intros HJ HG HQ.
  apply (crash_uniform (frozen z d) Q nr_op); try assumption.
  - intros o s' Go [A B]. destruct (nr_apply o s' Go) as [A' B']. split; [congruence|].
    intros r Hr. rewrite B' by exact Hr. apply B; exact Hr.
  - intros o s' Go [A B]. split; apply HQ.
    + destruct (nr_apply_empty o s' Go) as [A' B']. split; [congruence|].
      intros r Hr. rewrite B' by exact Hr. apply B; exact Hr.
    + destruct (nr_cut o (apply o s') Go) as [A' B']. destruct (nr_apply o s' Go) as [A'' B''].
      split; [congruence|]. intros r Hr. rewrite B', B'' by exact Hr. apply B; exact Hr.
Qed.

(* ---------- restore ---------- *)
Lemma restore_full h s snap :
  fz s = ZFull snap ->
  exists r, restore_ops h s = (r ++ [ORZ], None)
    /\ Forall (fun o => match o with OR _ | OW _ _ => True | _ => False end) r
    /\ (forall x, fd (exec r s) x = snap x) /\ fz (exec r s) = ZFull snap /\ ftmp (exec r s) = ftmp s.
Proof.
  intro Hz. unfold restore_ops. rewrite Hz.
  set (a := rm_ops (present (fd s)) h). set (b := extract_ops snap (skipn (length a) h)).
  exists (a ++ b). split; [rewrite app_assoc; reflexivity|]. split.
  - apply Forall_app_intro; apply Forall_forall; intros o Ho.
    + apply In_rm_ops in Ho. destruct Ho as [r [-> _]]. exact I.
    + apply In_extract_ops in Ho. destruct Ho as [r [-> _]]. exact I.
  - rewrite exec_app. destruct (exec_rm_ops_fz (present (fd s)) h s) as [A B].
    destruct (exec_extract_ops_fz snap (skipn (length a) h) (exec a s)) as [C D]. fold a in A, B. fold b in C, D.
    repeat split.
    + intro x. apply exec_extract_ops_fd. intro r. apply exec_rm_all_fd.
    + rewrite C, A. exact Hz.
    + rewrite D, B. reflexivity.
Qed.

(* ---------- the shape of a run ---------- *)
Lemma skipn_add {A} (a b : nat) (l : list A) : skipn a (skipn b l) = skipn (b + a) l.
Proof. revert l. induction b as [|b IH]; intro l; [reflexivity|]. destruct l; [destruct a; reflexivity|]. simpl. apply IH. Qed.

Lemma plan_no_zip cd c tag h s :
  fz s = ZAbsent ->
  plan cd c tag h s =
    let p := pre_ops cd s in
    let s2 := exec p s in
    let '(m, mo, sampled) := main_ops cd c tag s2 in
    match mo with
    | inl e => (p ++ m, inl e, sampled)
    | inr res =>
        let '(q, qe) := post_ops cd c res (skipn (length p + length m) h) (exec m s2) in
        match qe with
        | Some e => (p ++ m ++ q, inl e, sampled)
        | None => (p ++ m ++ q, inr res, sampled)
        end
    end.
Proof.
  intro Hz. unfold plan, restore_ops. rewrite Hz. cbn [exec fold_left app length Nat.add]. reflexivity.
Qed.

Lemma plan_after_restore cd c tag h s R :
  restore_ops h s = (R, None) -> fz (exec R s) = ZAbsent ->
  plan cd c tag h s =
    let '(ops1, out, sm) := plan cd c tag (skipn (length R) h) (exec R s) in (R ++ ops1, out, sm).
Proof.
  intros HR Hz. rewrite (plan_no_zip cd c tag _ (exec R s) Hz).
  unfold plan. rewrite HR. cbv zeta.
  destruct (main_ops cd c tag (exec (pre_ops cd (exec R s)) (exec R s))) as [[m mo] sm].
  destruct mo as [e|res]; [reflexivity|].
  rewrite skipn_add. rewrite Nat.add_assoc.
  destruct (post_ops cd c res (skipn (length R + length (pre_ops cd (exec R s)) + length m) h)
              (exec m (exec (pre_ops cd (exec R s)) (exec R s)))) as [q [e|]]; reflexivity.
Qed.

Lemma plan_bad_zip cd c tag h s :
  fz s = ZPartial -> plan cd c tag h s = (rm_ops (present (fd s)) h, inl BadZip, false).
Proof. intro Hz. unfold plan, restore_ops. rewrite Hz. reflexivity. Qed.

(* ---------- a completed fit is found again ---------- *)
Lemma complete_is_complete c g s : complete c g (fd s) -> is_complete s = true.
Proof. intros [A _]. unfold is_complete, present. rewrite A. reflexivity. Qed.

Lemma completed_result_ok c g s :
  complete c g (fd s) -> completed_result s = inr (mkres g (expected_samples c g) false).
Proof.
  intros [A [B [C [D [X E]]]]]. unfold completed_result, expected_samples. rewrite B.
  destruct (c_csv c); [destruct E as [E F]; rewrite E, F | rewrite E]; reflexivity.
Qed.

Lemma main_completed cd c tag g s :
  complete c g (fd s) ->
  pre_ops cd s = [] /\ main_ops cd c tag s = ([], inr (mkres g (expected_samples c g) false), false).
Proof.
  intro H. unfold pre_ops, main_ops. rewrite (complete_is_complete c g s H).
  rewrite (completed_result_ok c g s H). split; reflexivity.
Qed.

Definition dir_op (o : op) : Prop :=
  match o with OW _ _ | OA _ | OR _ | ODMV _ | OJMV _ _ => True | _ => False end.

Lemma dir_op_fz o s : dir_op o ->
  fz (apply o s) = fz s /\ fz (apply_empty o s) = fz s /\ fz (cut o (apply o s)) = fz s.
Proof.
  destruct o; simpl; intro H; try contradiction; repeat split; try reflexivity.
  - destruct (empty_content r); reflexivity.
  - destruct (fd s r); reflexivity.
  - destruct (empty_content r); reflexivity.
Qed.

Lemma zfull_segment snap ops s (Q : fs -> Prop) :
  fz s = ZFull snap -> Forall dir_op ops -> (forall s', fz s' = ZFull snap -> Q s') ->
  (forall k v, Q (crash_state ops k v s)) /\ fz (exec ops s) = ZFull snap.
Proof.
  intros HJ HG HQ.
  apply (crash_uniform (fun s' => fz s' = ZFull snap) Q dir_op); try assumption.
  - intros o s' Go A. destruct (dir_op_fz o s' Go) as [B _]. congruence.
  - intros o s' Go A. destruct (dir_op_fz o s' Go) as [_ [B C]]. split; apply HQ; congruence.
Qed.

Lemma dill_write_nr cd f : Forall nr_op (dill_write cd f).
Proof. unfold dill_write. destruct (fx_dill cd); repeat constructor. Qed.

Lemma rm_ops_nr inset h : (forall r, inset r = true -> res_role r = false) -> Forall nr_op (rm_ops inset h).
Proof.
  intro H. apply Forall_forall. intros o Ho. apply In_rm_ops in Ho. destruct Ho as [r [-> Hr]].
  simpl. apply H. exact Hr.
Qed.

Lemma rm_ops_dir inset h : Forall dir_op (rm_ops inset h).
Proof. apply Forall_forall. intros o Ho. apply In_rm_ops in Ho. destruct Ho as [r [-> _]]. exact I. Qed.

Lemma si_not_res r : si_roles r = true -> res_role r = false.
Proof. destruct r; simpl; intro H; try discriminate; reflexivity. Qed.

(* the three parts of post_fit_output *)
Lemma post_shape cd c res h s f :
  internal_of res s = inr f ->
  exists a rm,
    post_ops cd c res h s = (a ++ (if fx_zip cd then [OZTW; OZMV] else [OZW]) ++ rm, None)
    /\ Forall nr_op a /\ Forall dir_op rm.
Proof.
  intro Hi. unfold post_ops. rewrite Hi.
  eexists. eexists. split; [reflexivity|]. split.
  - destruct (c_keep c); [apply dill_write_nr|].
    apply rm_ops_nr. intros r Hr. apply andb_true_iff in Hr. apply si_not_res. tauto.
  - destruct (c_remove c); [apply rm_ops_dir | constructor].
Qed.

Definition safe (cd : code) (c : cfg) (g : nat) (s : fs) : Prop :=
  stored c g s \/ (fx_zip cd = false /\ fz s = ZPartial /\ complete c g (fd s)).

Lemma stored_frozen c g d s : complete c g d -> frozen ZAbsent d s -> stored c g s.
Proof.
  intros Hc [A B]. unfold stored. rewrite A. eapply complete_ext; [|exact Hc]. exact B.
Qed.

(* crash states of the archive step *)
Lemma zip_step cd c g s k v :
  fz s = ZAbsent -> complete c g (fd s) ->
  safe cd c g (crash_state (if fx_zip cd then [OZTW; OZMV] else [OZW]) k v s)
  /\ exists snap, fz (exec (if fx_zip cd then [OZTW; OZMV] else [OZW]) s) = ZFull snap /\ complete c g snap.
Proof.
  intros Hz Hc. destruct (fx_zip cd) eqn:F; (split; [|eexists; split; [reflexivity | exact Hc]]).
  - destruct k as [|[|k]].
    + destruct v; unfold crash_state; simpl; left; unfold stored; simpl; rewrite Hz; exact Hc.
    + destruct v; unfold crash_state; simpl; left; unfold stored; simpl; try rewrite Hz; exact Hc.
    + rewrite crash_state_ge by (simpl; lia). left. exact Hc.
  - destruct k as [|k].
    + destruct v; unfold crash_state; simpl.
      * left. unfold stored. rewrite Hz. exact Hc.
      * right. auto.
      * right. auto.
    + rewrite crash_state_ge by (simpl; lia). left. exact Hc.
Qed.

(* all crash states of post_fit_output over a complete folder without archive *)
Lemma post_safe cd c g res h s f q :
  fz s = ZAbsent -> complete c g (fd s) -> internal_of res s = inr f ->
  post_ops cd c res h s = (q, None) ->
  (forall k v, safe cd c g (crash_state q k v s)) /\ stored c g (exec q s).
Proof.
  intros Hz Hc Hi Hq.
  destruct (post_shape cd c res h s f Hi) as [a [rm [E [Ha Hrm]]]]. rewrite E in Hq. inversion Hq; subst q; clear Hq.
  assert (Hf : frozen ZAbsent (fd s) s) by (split; [exact Hz | reflexivity]).
  destruct (frozen_segment ZAbsent (fd s) a s (safe cd c g) Hf Ha) as [A1 A2].
  { intros s' Hs'. left. eapply stored_frozen; eassumption. }
  destruct A2 as [Z2 D2].
  assert (Hc2 : complete c g (fd (exec a s))) by (eapply complete_ext; [exact D2 | exact Hc]).
  split.
  - apply crash_seq; [exact A1|]. apply crash_seq.
    + intros k v. apply (zip_step cd c g (exec a s) k v Z2 Hc2).
    + destruct (zip_step cd c g (exec a s) 0 VBefore Z2 Hc2) as [_ [snap [Zs Cs]]].
      apply (zfull_segment snap rm _ (safe cd c g) Zs Hrm).
      intros s' Hs'. left. unfold stored. rewrite Hs'. exact Cs.
  - rewrite !exec_app.
    destruct (zip_step cd c g (exec a s) 0 VBefore Z2 Hc2) as [_ [snap [Zs Cs]]].
    destruct (zfull_segment snap rm _ (fun _ => True) Zs Hrm) as [_ Z3]; [auto|].
    unfold stored. rewrite Z3. exact Cs.
Qed.

(* ---------- complete once / durable, folder without archive ---------- *)
Lemma internal_of_not_part res s :
  r_internal res = false -> not_part (fd s Dill) -> exists f, internal_of res s = inr f.
Proof.
  intros Hr Hn. unfold internal_of. rewrite Hr.
  destruct (fd s Dill) as [|p|x]; [eexists; reflexivity | contradiction | eexists; reflexivity].
Qed.

Lemma internal_of_part res s :
  r_internal res = false -> ~ not_part (fd s Dill) -> exists e, internal_of res s = inl e.
Proof.
  intros Hr Hn. unfold internal_of. rewrite Hr.
  destruct (fd s Dill) as [|[|]|x]; try (exfalso; apply Hn; exact I); eexists; reflexivity.
Qed.

Lemma not_part_dec f : not_part f \/ ~ not_part f.
Proof. destruct f; simpl; auto. Qed.

Lemma once_nozip cd c tag h s g :
  fz s = ZAbsent -> complete c g (fd s) ->
  (not_part (fd s Dill) ->
     exists q, plan cd c tag h s = (q, inr (mkres g (expected_samples c g) false), false)
       /\ (forall k v, safe cd c g (crash_state q k v s)) /\ stored c g (exec q s))
  /\ (~ not_part (fd s Dill) -> exists e, plan cd c tag h s = ([], inl e, false)).
Proof.
  intros Hz Hc. rewrite (plan_no_zip cd c tag h s Hz).
  destruct (main_completed cd c tag g s Hc) as [Hp Hm]. rewrite Hp. cbn [exec fold_left]. rewrite Hm.
  cbn [exec fold_left app length Nat.add skipn]. split; intro Hd.
  - destruct (internal_of_not_part (mkres g (expected_samples c g) false) s eq_refl Hd) as [f Hf].
    destruct (post_shape cd c _ h s f Hf) as [a [rm [E _]]].
    rewrite E. eexists. split; [reflexivity|].
    eapply post_safe; eassumption.
  - destruct (internal_of_part (mkres g (expected_samples c g) false) s eq_refl Hd) as [e He].
    unfold post_ops. rewrite He. eexists. reflexivity.
Qed.

(* ---------- the same through restore() ---------- *)
Lemma restore_step snap s k v (Q : fs -> Prop) :
  fz s = ZFull snap -> Q s -> Q (apply ORZ s) -> Q (crash_state [ORZ] k v s).
Proof.
  intros Hz A B. destruct k as [|k].
  - destruct v; unfold crash_state; simpl; assumption.
  - rewrite crash_state_ge by (simpl; lia). exact B.
Qed.

Lemma or_ow_dir r : Forall (fun o => match o with OR _ | OW _ _ => True | _ => False end) r -> Forall dir_op r.
Proof. apply Forall_impl. intros o; destruct o; simpl; tauto. Qed.

Lemma once_zip cd c tag h s g snap :
  fz s = ZFull snap -> complete c g snap ->
  exists R s1, restore_ops h s = (R, None) /\ s1 = exec R s /\ fz s1 = ZAbsent /\ complete c g (fd s1)
    /\ fd s1 Dill = snap Dill
    /\ (forall k v, stored c g (crash_state R k v s))
    /\ plan cd c tag h s = (let '(ops1, out, sm) := plan cd c tag (skipn (length R) h) s1 in (R ++ ops1, out, sm)).
Proof.
  intros Hz Hc. destruct (restore_full h s snap Hz) as [r [HR [Hr [Hd [Hz' Ht]]]]].
  exists (r ++ [ORZ]), (exec (r ++ [ORZ]) s).
  assert (Hs1 : exec (r ++ [ORZ]) s = apply ORZ (exec r s)) by (rewrite exec_app; reflexivity).
  assert (Hc1 : complete c g (fd (exec (r ++ [ORZ]) s))).
  { rewrite Hs1. simpl. eapply complete_ext; [|exact Hc]. intros x _. apply Hd. }
  split; [exact HR|]. split; [reflexivity|]. split; [rewrite Hs1; reflexivity|]. split; [exact Hc1|].
  split; [rewrite Hs1; simpl; apply Hd|]. split.
  - apply crash_seq.
    + apply (zfull_segment snap r s (stored c g) Hz (or_ow_dir r Hr)).
      intros s' Hs'. unfold stored. rewrite Hs'. exact Hc.
    + intros k v. apply (restore_step snap); [exact Hz' | unfold stored; rewrite Hz'; exact Hc|].
      unfold stored. simpl. eapply complete_ext; [|exact Hc]. intros x _. apply Hd.
  - apply plan_after_restore; [exact HR | rewrite Hs1; reflexivity].
Qed.

(* C06_complete_once *)
Lemma complete_once cd c tag h s g :
  stored c g s -> not_part (eff_dir s Dill) ->
  plan_out cd c tag h s = inr (mkres g (expected_samples c g) false)
  /\ plan_sampled cd c tag h s = false
  /\ stored c g (run_full cd c tag h s).
Proof.
  unfold stored, eff_dir, plan_out, plan_sampled, run_full, plan_ops. destruct (fz s) as [| |snap] eqn:Hz; intros Hc Hd.
  - destruct (once_nozip cd c tag h s g Hz Hc) as [A _]. destruct (A Hd) as [q [E [_ S]]].
    rewrite E. simpl. repeat split. exact S.
  - contradiction.
  - destruct (once_zip cd c tag h s g snap Hz Hc) as [R [s1 [HR [Hs1 [Hz1 [Hc1 [Hd1 [_ E]]]]]]]].
    destruct (once_nozip cd c tag (skipn (length R) h) s1 g Hz1 Hc1) as [A _].
    rewrite <- Hd1 in Hd. destruct (A Hd) as [q [E' [_ S]]].
    rewrite E, E'. simpl. repeat split. rewrite exec_app, <- Hs1. exact S.
Qed.

(* C06_durable: every crash state of a run over a stored result *)
Lemma durable cd c tag h s g k v :
  stored c g s -> safe cd c g (run_crash cd c tag h k v s).
Proof.
  unfold run_crash, plan_ops. unfold stored at 1. destruct (fz s) as [| |snap] eqn:Hz; intro Hc.
  - destruct (once_nozip cd c tag h s g Hz Hc) as [A B].
    destruct (not_part_dec (fd s Dill)) as [Hd|Hd].
    + destruct (A Hd) as [q [E [S _]]]. rewrite E. simpl. apply S.
    + destruct (B Hd) as [e E]. rewrite E. simpl. rewrite crash_state_nil. left. unfold stored. rewrite Hz. exact Hc.
  - contradiction.
  - destruct (once_zip cd c tag h s g snap Hz Hc) as [R [s1 [HR [Hs1 [Hz1 [Hc1 [Hd1 [SR E]]]]]]]].
    destruct (once_nozip cd c tag (skipn (length R) h) s1 g Hz1 Hc1) as [A B].
    rewrite E.
    destruct (not_part_dec (fd s1 Dill)) as [Hd|Hd].
    + destruct (A Hd) as [q [E' [S _]]]. rewrite E'. simpl. revert k v. apply crash_seq.
      * intros k v. left. apply SR.
      * rewrite <- Hs1. exact S.
    + destruct (B Hd) as [e E']. rewrite E'. simpl. rewrite app_nil_r. left. apply SR.
Qed.

Lemma durable_full cd c tag h s g : stored c g s -> stored c g (run_full cd c tag h s).
Proof.
  intro H. pose proof (durable cd c tag h s g (length (plan_ops cd c tag h s)) VBefore H) as D.
  unfold run_crash in D. rewrite crash_state_ge in D by lia. fold (run_full cd c tag h s) in D.
  destruct D as [D|[_ [D _]]]; [exact D|].
  (* an uninterrupted run never leaves a truncated archive *)
  exfalso. revert D. unfold run_full, plan_ops. unfold stored in H.
  destruct (fz s) as [| |snap] eqn:Hz; [| contradiction |].
  - destruct (once_nozip cd c tag h s g Hz H) as [A B].
    destruct (not_part_dec (fd s Dill)) as [Hd|Hd].
    + destruct (A Hd) as [q [E [_ S]]]. rewrite E. simpl. unfold stored in S. intro D. rewrite D in S. exact S.
    + destruct (B Hd) as [e E]. rewrite E. simpl. congruence.
  - destruct (once_zip cd c tag h s g snap Hz H) as [R [s1 [HR [Hs1 [Hz1 [Hc1 [Hd1 [SR E]]]]]]]].
    destruct (once_nozip cd c tag (skipn (length R) h) s1 g Hz1 Hc1) as [A B]. rewrite E.
    destruct (not_part_dec (fd s1 Dill)) as [Hd|Hd].
    + destruct (A Hd) as [q [E' [_ S]]]. rewrite E'. simpl. rewrite exec_app, <- Hs1. unfold stored in S. intro D. rewrite D in S. exact S.
    + destruct (B Hd) as [e E']. rewrite E'. simpl. rewrite app_nil_r, <- Hs1. congruence.
Qed.

(* ---------- histories ---------- *)
Definition run_state cd c tag h cr s : fs := fst (fst (run_spec cd c tag h cr s)).

Lemma run_state_cases cd c tag h cr s :
  run_state cd c tag h cr s = run_full cd c tag h s
  \/ exists k v, run_state cd c tag h cr s = run_crash cd c tag h k v s.
Proof.
  unfold run_state, run_spec. destruct cr as [[k v]|]; [|left; reflexivity].
  destruct (Nat.ltb k (length (plan_ops cd c tag h s))); [right; exists k, v; reflexivity | left; reflexivity].
Qed.

Lemma history_cons cd c tag h cr rest s :
  history cd c tag ((h, cr) :: rest) s = history cd c (S tag) rest (run_state cd c tag h cr s).
Proof. reflexivity. Qed.

(* with the repaired archive write a stored result survives every history *)
Lemma durable_history_zipfix cd c g runs : fx_zip cd = true ->
  forall tag s, stored c g s -> stored c g (history cd c tag runs s).
Proof.
  intro F. induction runs as [|[h cr] rest IH]; intros tag s H; [exact H|].
  rewrite history_cons. apply IH.
  destruct (run_state_cases cd c tag h cr s) as [E|[k [v E]]]; rewrite E.
  - apply durable_full. exact H.
  - destruct (durable cd c tag h s g k v H) as [D|[D _]]; [exact D | congruence].
Qed.

(* with the code as it is: as long as no run is killed inside the archive write *)
Fixpoint no_partial_zip cd c (tag : nat) (runs : list (list event * option (nat * variant))) (s : fs) : Prop :=
  match runs with
  | [] => True
  | (h, cr) :: rest =>
      fz (run_state cd c tag h cr s) <> ZPartial /\ no_partial_zip cd c (S tag) rest (run_state cd c tag h cr s)
  end.

Lemma durable_history_guarded cd c g runs :
  forall tag s, stored c g s -> no_partial_zip cd c tag runs s -> stored c g (history cd c tag runs s).
Proof.
  induction runs as [|[h cr] rest IH]; intros tag s H N; [exact H|].
  rewrite history_cons. destruct N as [N1 N2]. apply IH; [|exact N2].
  destruct (run_state_cases cd c tag h cr s) as [E|[k [v E]]]; rewrite E in *.
  - apply durable_full. exact H.
  - destruct (durable cd c tag h s g k v H) as [D|[_ [D _]]]; [exact D | contradiction].
Qed.
