(* C06 -- several fits in one output directory: durability and "complete once" carry over from the single-fit theorems,
   because the naming scheme keeps the fits apart (Naming.neighbours_independent). *)
From Coq Require Import List Bool Arith Ascii String.
From PAFC06 Require Import Model Gen Naming Proofs Proofs2.
Import ListNotations.
Open Scope list_scope.

Lemma step_durable cd c g tag h cr s : fx_zip cd = true -> stored c g s -> stored c g (step cd c tag h cr s).
Proof.
  intros F H. change (step cd c tag h cr s) with (run_state cd c tag h cr s).
  destruct (run_state_cases cd c tag h cr s) as [E|[k [v E]]]; rewrite E.
  - apply durable_full. exact H.
  - destruct (durable cd c tag h s g k v H) as [D|[D _]]; [exact D | congruence].
Qed.

Lemma thistory_durable cd c g runs : fx_zip cd = true -> forall s, stored c g s -> stored c g (thistory cd c runs s).
Proof.
  intro F. induction runs as [|[[tag h] cr] rest IH]; intros s H; simpl; [exact H|].
  apply IH. apply step_durable; assumption.
Qed.

(* a result stored by fit q stays stored whatever q and its neighbours do afterwards (runs, crashes, any order) *)
Lemma neighbours_durable cd c g q runs dk : fx_zip cd = true -> legal q ->
  (forall r, In r runs -> legal (g_fit r)) ->
  stored c g (read q dk) -> stored c g (read q (ghistory cd c runs dk)).
Proof.
  intros F Lq L H. rewrite neighbours_independent by assumption. apply thistory_durable; assumption.
Qed.

(* ... and q's next run finds it: no sampling, the same generation (guard as in C06_complete_once_partial) *)
Lemma neighbours_complete_once cd c g q runs dk tag h : fx_zip cd = true -> legal q ->
  (forall r, In r runs -> legal (g_fit r)) ->
  stored c g (read q dk) ->
  let s := read q (ghistory cd c runs dk) in
  not_part (eff_dir s Dill) ->
  plan_out cd c tag h s = inr (mkres g (expected_samples c g) false)
  /\ plan_sampled cd c tag h s = false
  /\ stored c g (run_full cd c tag h s).
Proof.
  intros F Lq L H s N. apply complete_once; [|exact N]. apply neighbours_durable; assumption.
Qed.

(* a fit that has not run yet sees an empty folder and no archive: it is never handed a neighbour's output *)
Lemma neighbours_fresh cd c q runs : legal q ->
  (forall r, In r runs -> legal (g_fit r)) -> (forall r, In r runs -> g_fit r <> q) ->
  read q (ghistory cd c runs empty_disk) = empty_fs.
Proof.
  intros Lq L N. rewrite neighbours_independent by assumption.
  assert (P : project q runs = []).
  { induction runs as [|r rest IH]; [reflexivity|]. simpl.
    destruct (path_eq_dec (g_fit r) q) as [E|E]; [exfalso; apply (N r); [left; reflexivity | exact E]|].
    apply IH; intros; [apply L | apply N]; right; assumption. }
  rewrite P. reflexivity.
Qed.

(* ---------- boolean legality is sound ---------- *)
Lemma ends_withb_app r x : ends_withb r (r ++ x) = true.
Proof. induction r as [|a r IH]; [reflexivity|]. simpl. destruct (ascii_dec a a); [exact IH | congruence]. Qed.

Lemma ends_with_b suf c : ends_with suf c -> ends_withb (rev suf) (rev c) = true.
Proof. intros [a E]. subst c. rewrite rev_app_distr. apply ends_withb_app. Qed.

Lemma legalb_sound p : legalb p = true -> legal p.
Proof.
  unfold legalb, legal. destruct p as [|a p']; [discriminate|]. intro H.
  apply andb_true_iff in H. destruct H as [H1 H2]. apply negb_true_iff in H1, H2.
  split; [discriminate|]. split; intro E; apply ends_with_b in E; congruence.
Qed.
