(* C06 -- the names a fit uses on disk, and why different fits in one output directory do not touch each other.
   A path is a list of components (relative to the output directory), a component a list of characters.
     folder  f = <path_prefix>/<unique_tag>/<name>[/<identifier>]     (empty parts dropped)   AbstractPaths.output_path
     archive   = folder with ".zip" appended to its last component                             AbstractPaths._zip_path
     temporary = archive with ".tmp" appended                                                  tools.util.zip_directory
     marker    = folder/.completed
   The suffixes come from Gen.v (translated from /repo). *)
From Coq Require Import List Bool Arith Ascii String.
From PAFC06 Require Import Model Gen.
Import ListNotations.
Open Scope list_scope.

Definition comp := list ascii.
Definition path := list comp.

Record fitname := mkfit { f_prefix : list comp; f_tag : comp; f_name : comp; f_ident : option comp }.

Definition nonempty (c : comp) : bool := match c with [] => false | _ => true end.

Definition folder (f : fitname) : path :=
  filter nonempty (f_prefix f ++ [f_tag f; f_name f]) ++ match f_ident f with Some i => [i] | None => [] end.

Definition add_suffix (suf : comp) (p : path) : path :=
  match p with [] => [] | _ => removelast p ++ [last p [] ++ suf] end.

Definition zip_of (p : path) : path := add_suffix zip_suffix p.
Definition ziptmp_of (p : path) : path := add_suffix (zip_suffix ++ tmp_suffix) p.
Definition marker_of (p : path) : path := p ++ [marker_name].
Definition names (p : path) : list path := [p; zip_of p; ziptmp_of p].

Definition ends_with (suf c : comp) : Prop := exists a, c = a ++ suf.

(* a legal fit folder: not the output directory itself, last component not ending in an archive / temporary suffix *)
Definition legal (p : path) : Prop :=
  p <> [] /\ ~ ends_with zip_suffix (last p []) /\ ~ ends_with tmp_suffix (last p []).

Fixpoint ends_withb (rsuf rc : comp) : bool :=     (* on reversed lists *)
  match rsuf, rc with
  | [], _ => true
  | a :: r, b :: q => if ascii_dec a b then ends_withb r q else false
  | _ :: _, [] => false
  end.
Definition legalb (p : path) : bool :=
  match p with [] => false | _ =>
    negb (ends_withb (rev zip_suffix) (rev (last p []))) && negb (ends_withb (rev tmp_suffix) (rev (last p []))) end.

(* ---------- injectivity ---------- *)
Lemma add_suffix_last suf p : p <> [] -> last (add_suffix suf p) [] = last p [] ++ suf.
Proof. destruct p; [congruence|]. intros _. unfold add_suffix. apply last_last. Qed.

Lemma add_suffix_nonempty suf p : p <> [] -> add_suffix suf p <> [].
Proof. destruct p; [congruence|]. intros _ H. unfold add_suffix in H. apply app_eq_nil in H. destruct H; discriminate. Qed.

Lemma add_suffix_inj suf p q : p <> [] -> q <> [] -> add_suffix suf p = add_suffix suf q -> p = q.
Proof.
  intros Hp Hq H.
  destruct p as [|a p']; [congruence|]. destruct q as [|b q']; [congruence|].
  change (removelast (a :: p') ++ [last (a :: p') [] ++ suf] = removelast (b :: q') ++ [last (b :: q') [] ++ suf]) in H.
  apply app_inj_tail in H. destruct H as [H1 H2].
  apply app_inv_tail in H2.
  etransitivity; [apply (app_removelast_last [] Hp)|]. etransitivity; [|symmetry; apply (app_removelast_last [] Hq)].
  f_equal; [exact H1 | f_equal; exact H2].
Qed.

Lemma zip_vs_ziptmp (a b : comp) : a ++ zip_suffix <> b ++ zip_suffix ++ tmp_suffix.
Proof.
  intro H. apply (f_equal (@rev ascii)) in H. rewrite !rev_app_distr in H.
  cbv [zip_suffix tmp_suffix list_ascii_of_string rev app] in H. simpl in H.
  repeat (injection H as _ H || discriminate H).
Qed.

Lemma folder_not_zip p q : legal p -> q <> [] -> p <> zip_of q.
Proof.
  intros [Hp [Hz _]] Hq E. apply Hz. exists (last q []). rewrite E. apply add_suffix_last. exact Hq.
Qed.

Lemma folder_not_ziptmp p q : legal p -> q <> [] -> p <> ziptmp_of q.
Proof.
  intros [Hp [_ Ht]] Hq E. apply Ht. exists (last q [] ++ zip_suffix). rewrite E.
  unfold ziptmp_of. rewrite add_suffix_last by exact Hq. apply app_assoc.
Qed.

Lemma zip_not_ziptmp p q : p <> [] -> q <> [] -> zip_of p <> ziptmp_of q.
Proof.
  intros Hp Hq E. apply (f_equal (fun x => last x [])) in E.
  unfold zip_of, ziptmp_of in E. rewrite !add_suffix_last in E by assumption.
  exact (zip_vs_ziptmp _ _ E).
Qed.

(* the three names of one legal fit are pairwise different *)
Lemma names_own p : legal p -> NoDup (names p).
Proof.
  intros L. assert (N : p <> []) by apply L.
  unfold names. repeat constructor; simpl; intuition.
  - eapply folder_not_zip; eauto.
  - eapply folder_not_ziptmp; eauto.
  - eapply zip_not_ziptmp; eauto.
Qed.

(* two different legal fits share no name *)
Lemma names_separate p q : legal p -> legal q -> p <> q ->
  forall x y, In x (names p) -> In y (names q) -> x <> y.
Proof.
  intros Lp Lq D x y Hx Hy E. subst y.
  assert (Np : p <> []) by apply Lp. assert (Nq : q <> []) by apply Lq.
  unfold names in *. simpl in Hx, Hy.
  destruct Hx as [Hx|[Hx|[Hx|[]]]]; destruct Hy as [Hy|[Hy|[Hy|[]]]]; subst x.
  - congruence.
  - symmetry in Hy. exact (folder_not_zip p q Lp Nq Hy).
  - symmetry in Hy. exact (folder_not_ziptmp p q Lp Nq Hy).
  - exact (folder_not_zip q p Lq Np Hy).
  - apply D. symmetry. eapply add_suffix_inj; eauto.
  - symmetry in Hy. exact (zip_not_ziptmp p q Np Nq Hy).
  - exact (folder_not_ziptmp q p Lq Np Hy).
  - exact (zip_not_ziptmp q p Nq Np Hy).
  - apply D. symmetry. eapply add_suffix_inj; eauto.
Qed.

(* ---------- one output directory shared by several fits ---------- *)
Inductive obj := ODir (d : dir) | OZip (z : zstate) | OTmp (b : bool).
Definition disk := path -> option obj.
Definition empty_disk : disk := fun _ => None.

Definition path_eq_dec : forall a b : path, {a = b} + {a <> b} := list_eq_dec (list_eq_dec ascii_dec).

Definition dupd (dk : disk) (p : path) (o : obj) : disk := fun q => if path_eq_dec q p then Some o else dk q.

(* what the fit whose folder is p sees / leaves on the shared disk *)
Definition read (p : path) (dk : disk) : fs :=
  mkfs (match dk p with Some (ODir d) => d | _ => empty_dir end)
       (match dk (zip_of p) with Some (OZip z) => z | _ => ZAbsent end)
       (match dk (ziptmp_of p) with Some (OTmp b) => b | _ => false end).

Definition write (p : path) (s : fs) (dk : disk) : disk :=
  dupd (dupd (dupd dk p (ODir (fd s))) (zip_of p) (OZip (fz s))) (ziptmp_of p) (OTmp (ftmp s)).

Lemma dupd_same dk p o : dupd dk p o p = Some o.
Proof. unfold dupd. destruct (path_eq_dec p p); congruence. Qed.
Lemma dupd_other dk p o q : q <> p -> dupd dk p o q = dk q.
Proof. unfold dupd. destruct (path_eq_dec q p); congruence. Qed.

Lemma read_write_same p s dk : legal p -> read p (write p s dk) = s.
Proof.
  intros L. pose proof (names_own p L) as N. unfold names in N.
  inversion N as [|? ? N1 N2]; subst. inversion N2 as [|? ? N3 _]; subst. simpl in N1, N3.
  unfold read, write. destruct s as [d z t]; simpl.
  rewrite (dupd_other _ _ _ p) by intuition. rewrite (dupd_other _ _ _ p) by intuition. rewrite dupd_same.
  rewrite (dupd_other _ _ _ (zip_of p)) by intuition. rewrite dupd_same. rewrite dupd_same. reflexivity.
Qed.

Lemma read_write_other p q s dk : legal p -> legal q -> p <> q -> read q (write p s dk) = read q dk.
Proof.
  intros Lp Lq D. pose proof (names_separate p q Lp Lq D) as S.
  unfold read, write.
  assert (W : forall y, In y (names q) ->
     dupd (dupd (dupd dk p (ODir (fd s))) (zip_of p) (OZip (fz s))) (ziptmp_of p) (OTmp (ftmp s)) y = dk y).
  { intros y Hy. rewrite dupd_other by (intro E; apply (S (ziptmp_of p) y); [right; right; left; reflexivity | exact Hy | symmetry; exact E]).
    rewrite dupd_other by (intro E; apply (S (zip_of p) y); [right; left; reflexivity | exact Hy | symmetry; exact E]).
    rewrite dupd_other by (intro E; apply (S p y); [left; reflexivity | exact Hy | symmetry; exact E]). reflexivity. }
  assert (I1 : In q (names q)) by (left; reflexivity).
  assert (I2 : In (zip_of q) (names q)) by (right; left; reflexivity).
  assert (I3 : In (ziptmp_of q) (names q)) by (right; right; left; reflexivity).
  rewrite (W _ I1), (W _ I2), (W _ I3). reflexivity.
Qed.

(* a run of some fit in the shared directory; tags are the global run numbers *)
Record grun := mkgrun { g_fit : path; g_tag : nat; g_h : list event; g_cr : option (nat * variant) }.

Definition step cd c (tag : nat) (h : list event) (cr : option (nat * variant)) (s : fs) : fs :=
  fst (fst (run_spec cd c tag h cr s)).

Definition gstep cd c (r : grun) (dk : disk) : disk :=
  write (g_fit r) (step cd c (g_tag r) (g_h r) (g_cr r) (read (g_fit r) dk)) dk.

Definition ghistory cd c (runs : list grun) (dk : disk) : disk := fold_left (fun dk r => gstep cd c r dk) runs dk.

(* the history of one fit alone, with explicit tags *)
Fixpoint thistory cd c (runs : list (nat * list event * option (nat * variant))) (s : fs) : fs :=
  match runs with
  | [] => s
  | (tag, h, cr) :: rest => thistory cd c rest (step cd c tag h cr s)
  end.

Fixpoint project (q : path) (runs : list grun) : list (nat * list event * option (nat * variant)) :=
  match runs with
  | [] => []
  | r :: rest => if path_eq_dec (g_fit r) q then (g_tag r, g_h r, g_cr r) :: project q rest else project q rest
  end.

(* whatever the other fits do, in any order and with any crashes: fit q sees exactly its own history *)
Lemma neighbours_independent cd c q : legal q -> forall runs dk,
  (forall r, In r runs -> legal (g_fit r)) ->
  read q (ghistory cd c runs dk) = thistory cd c (project q runs) (read q dk).
Proof.
  intros Lq. induction runs as [|r rest IH]; intros dk L; [reflexivity|].
  simpl. rewrite IH by (intros; apply L; right; assumption).
  assert (Lr : legal (g_fit r)) by (apply L; left; reflexivity).
  destruct (path_eq_dec (g_fit r) q) as [E|E].
  - simpl. unfold gstep. rewrite E. rewrite read_write_same by exact Lq. reflexivity.
  - unfold gstep. rewrite read_write_other by assumption. reflexivity.
Qed.

(* ---------- correspondence ---------- *)
Fixpoint check_runs_t cd c (runs : list (nat * runobs)) (s : fs) : bool :=
  match runs with
  | [] => true
  | (tag, o) :: rest =>
      let '(s', out, tr) := run_spec cd c tag (o_trace o) (o_crash o) s in
      list_eqb event_eqb tr (o_trace o)
      && outcome_eqb out (o_outcome o)
      && (match out with RCrashed => true | _ => optbool_agrees (o_sampled o) (plan_sampled cd c tag (o_trace o) s) end)
      && fs_eqb s' (mkfs (dir_of (o_files o)) (zstate_of (o_zip o)) (o_tmp o))
      && check_runs_t cd c rest s'
  end.

Definition comp_eqb (a b : comp) : bool := if list_eq_dec ascii_dec a b then true else false.
Definition path_eqb (a b : path) : bool := if path_eq_dec a b then true else false.
Definition name_agrees (observed : option path) (model : path) : bool :=
  match observed with None => true | Some p => path_eqb p model end.

(* NHistory: the runs of ONE fit of a shared-directory history (global run numbers as tags), as the fit's own folder /
   archive showed them; NNames: the names the implementation really used for a fit (folder observed, marker, archive,
   temporary archive; None = not seen in this history) against the modelled naming scheme, and the legality of the folder *)
Inductive ncase :=
| NHistory (cd : code) (c : cfg) (runs : list (nat * runobs))
| NNames (f : fitname) (fold marker zip ziptmp : option path).

Definition S_ (s : string) : comp := list_ascii_of_string s.

Definition check_ncase (x : ncase) : bool :=
  match x with
  | NHistory cd c runs => check_runs_t cd c runs empty_fs
  | NNames f fo m z zt =>
      legalb (folder f) && name_agrees fo (folder f) && name_agrees m (marker_of (folder f))
      && name_agrees z (zip_of (folder f)) && name_agrees zt (ziptmp_of (folder f))
  end.
