(* C06 model: the file-system life-cycle of one fit (NonLinearSearch.fit with DirectoryPaths)
   as a list of micro-operations computed from the state found on disk, plus crash
   semantics (every prefix of the list, with the interrupted write left empty or cut).
   Executable definitions only; proofs are in Proofs*.v.

   Faithful to autofit/non_linear/search/abstract_search.py (fit, pre_fit_output,
   start_resume_fit, result_via_completed_fit, post_fit_output, perform_update),
   paths/abstract.py (restore, _zip), paths/directory.py, tools/util.py (zip_directory),
   timer.py, mle/drawer, mle/bfgs -- defects included.  The record [code] switches the four
   repairs proposed in proposed_fixes/C06-*.diff on; [current] is the code as pinned. *)
From Coq Require Import List Bool Arith.
Import ListNotations.

(* ---------- files ---------- *)
Inductive role :=
| Ident | ModelInfo | Graph | SearchJson | ModelJson | Metadata | Log
| StartTime | Time | Dill | DillTmp | Summary | SamplesInfo | SamplesCsv | Results | SearchSummary | Marker
| SearchJsonTmp | ModelJsonTmp | SummaryTmp | SamplesInfoTmp
| Attr | AttrTmp | ResultExtra | ResultExtraTmp.   (* what Analysis.save_attributes / save_results write (user files) *)

Definition all_roles : list role :=
  [Ident; ModelInfo; Graph; SearchJson; ModelJson; Metadata; Log; StartTime; Time; Dill; DillTmp;
   Summary; SamplesInfo; SamplesCsv; Results; SearchSummary; Marker;
   SearchJsonTmp; ModelJsonTmp; SummaryTmp; SamplesInfoTmp; Attr; AttrTmp; ResultExtra; ResultExtraTmp].

Definition role_eqb (a b : role) : bool :=
  match a, b with
  | Ident, Ident | ModelInfo, ModelInfo | Graph, Graph | SearchJson, SearchJson
  | ModelJson, ModelJson | Metadata, Metadata | Log, Log | StartTime, StartTime
  | Time, Time | Dill, Dill | DillTmp, DillTmp | Summary, Summary | SamplesInfo, SamplesInfo
  | SamplesCsv, SamplesCsv | Results, Results | SearchSummary, SearchSummary
  | Marker, Marker | SearchJsonTmp, SearchJsonTmp | ModelJsonTmp, ModelJsonTmp
  | SummaryTmp, SummaryTmp | SamplesInfoTmp, SamplesInfoTmp
  | Attr, Attr | AttrTmp, AttrTmp | ResultExtra, ResultExtra | ResultExtraTmp, ResultExtraTmp => true
  | _, _ => false
  end.

(* a file whose complete content is the empty string can not be observed half-written *)
Definition empty_content (r : role) : bool :=
  match r with Marker | Log => true | _ => false end.

Inductive pkind := PEmpty | PHalf.
(* what a complete file holds, as far as the property can see it:
   [Gen g] = values computed by the likelihood of run number g; [NoneObj] = a pickled None *)
Inductive content := Plain | Gen (g : nat) | NoneObj.
Inductive fstate := Absent | Part (p : pkind) | Full (c : content).

Definition dir := role -> fstate.
Inductive zstate := ZAbsent | ZPartial | ZFull (snap : dir).
Record fs := mkfs { fd : dir; fz : zstate; ftmp : bool }.

Definition empty_dir : dir := fun _ => Absent.
Definition empty_fs : fs := mkfs empty_dir ZAbsent false.

Definition upd (d : dir) (r : role) (f : fstate) : dir :=
  fun r' => if role_eqb r r' then f else d r'.

Definition present (d : dir) (r : role) : bool :=
  match d r with Absent => false | _ => true end.

(* ---------- micro operations ---------- *)
Inductive op :=
| OW (r : role) (f : fstate)   (* open(w) + write + close; the file ends as f *)
| OA (r : role)                (* open(a) + write + close *)
| OR (r : role)                (* unlink *)
| OZW                          (* ZipFile(zip, "w") ... close: archive of the current folder *)
| ORZ                          (* os.remove(zip) *)
| OZTW                         (* repaired code: archive written to <zip>.tmp *)
| OZMV                         (* repaired code: os.replace(<zip>.tmp, zip) *)
| OJMV (r : role) (f : fstate) (* repaired code: os.replace(<name>.json.tmp, <name>.json) in save_json *)
| ODMV (f : fstate).           (* repaired code: os.replace(search_internal.dill.tmp, search_internal.dill);
                                  f = what the temporary file holds (it was just written completely) *)

Inductive event := EW (r : role) | EA (r : role) | ER (r : role) | EZW | ERZ | EZTW | EZMV | EDMV | EJMV (r : role).

Definition event_of (o : op) : event :=
  match o with
  | OW r _ => EW r | OA r => EA r | OR r => ER r
  | OZW => EZW | ORZ => ERZ | OZTW => EZTW | OZMV => EZMV | ODMV _ => EDMV | OJMV r _ => EJMV r
  end.

(* the temporary name save_json writes before renaming *)
Definition jtmp (r : role) : role :=
  match r with
  | SearchJson => SearchJsonTmp | ModelJson => ModelJsonTmp
  | Summary => SummaryTmp | SamplesInfo => SamplesInfoTmp
  | Attr => AttrTmp | ResultExtra => ResultExtraTmp
  | _ => DillTmp
  end.

Definition apply (o : op) (s : fs) : fs :=
  match o with
  | OW r f => mkfs (upd (fd s) r f) (fz s) (ftmp s)
  | OA r => mkfs (upd (fd s) r (Full Plain)) (fz s) (ftmp s)
  | OR r => mkfs (upd (fd s) r Absent) (fz s) (ftmp s)
  | OZW => mkfs (fd s) (ZFull (fd s)) (ftmp s)
  | ORZ => mkfs (fd s) ZAbsent (ftmp s)
  | OZTW => mkfs (fd s) (fz s) true
  | OZMV => mkfs (fd s) (ZFull (fd s)) false
  | ODMV f => mkfs (upd (upd (fd s) Dill f) DillTmp Absent) (fz s) (ftmp s)
  | OJMV r f => mkfs (upd (upd (fd s) r f) (jtmp r) Absent) (fz s) (ftmp s)
  end.

Definition exec (l : list op) (s : fs) : fs := fold_left (fun s o => apply o s) l s.

(* the process dies inside operation o: the file exists but holds nothing yet *)
Definition apply_empty (o : op) (s : fs) : fs :=
  match o with
  | OW r _ => mkfs (upd (fd s) r (if empty_content r then Full Plain else Part PEmpty)) (fz s) (ftmp s)
  | OA r => match fd s r with
            | Absent => mkfs (upd (fd s) r (if empty_content r then Full Plain else Part PEmpty)) (fz s) (ftmp s)
            | _ => s
            end
  | OZW => mkfs (fd s) ZPartial (ftmp s)
  | OZTW => mkfs (fd s) (fz s) true
  | OR _ | ORZ | OZMV | ODMV _ | OJMV _ _ => s
  end.

(* operation o was the last one and the process died before its content was completely on disk *)
Definition cut (o : op) (s : fs) : fs :=
  match o with
  | OW r _ | OA r => if empty_content r then s else mkfs (upd (fd s) r (Part PHalf)) (fz s) (ftmp s)
  | OZW => mkfs (fd s) ZPartial (ftmp s)
  | OZTW | OR _ | ORZ | OZMV | ODMV _ | OJMV _ _ => s
  end.

Definition writes (o : op) : bool :=
  match o with OW _ _ | OA _ | OZW | OZTW => true | _ => false end.

(* ---------- directory walks (rmtree, extractall): order supplied by a hint ---------- *)
Fixpoint mem (r : role) (l : list role) : bool :=
  match l with [] => false | x :: l' => role_eqb r x || mem r l' end.

(* roles of the next events of the hint while they are of the wanted kind, in the set, and new *)
Fixpoint hinted (kind : event -> option role) (inset : role -> bool) (h : list event) (seen : list role)
  : list role :=
  match h with
  | [] => []
  | e :: h' =>
      match kind e with
      | Some r => if inset r && negb (mem r seen) then r :: hinted kind inset h' (r :: seen) else []
      | None => []
      end
  end.

Definition order (kind : event -> option role) (inset : role -> bool) (h : list event) : list role :=
  let a := hinted kind inset h [] in
  a ++ filter (fun r => inset r && negb (mem r a)) all_roles.

Definition kindR (e : event) := match e with ER r => Some r | _ => None end.
Definition kindW (e : event) := match e with EW r => Some r | _ => None end.

Definition rm_ops (inset : role -> bool) (h : list event) : list op :=
  map OR (order kindR inset h).
Definition extract_ops (snap : dir) (h : list event) : list op :=
  map (fun r => OW r (snap r)) (order kindW (present snap) h).

(* ---------- configuration ---------- *)
Inductive search := Drawer | LBFGS.
Record cfg := mkcfg {
  c_search : search;
  c_updates : nat;      (* LBFGS: number of iterations_per_update blocks (maxiter / iterations_per_update) *)
  c_remove : bool;      (* general.yaml output.remove_files *)
  c_csv : bool;         (* general.yaml output.samples_to_csv *)
  c_keep : bool;        (* output.yaml search_internal *)
  c_chk : bool          (* general.yaml test.check_likelihood_function (true in the library's default configuration) *)
}.
Record code := mkcode {
  fx_zip : bool;        (* zip_directory writes <zip>.tmp then os.replace *)
  fx_resume : bool;     (* BFGS resume reads .x/.nit and starts afresh on an unreadable state *)
  fx_timer : bool;      (* Timer.start rewrites an unreadable .start_time; Timer.time ignores an unreadable .time *)
  fx_dill : bool;       (* save_search_internal writes search_internal.dill.tmp then os.replace *)
  fx_chk : bool;        (* Fitness.check_log_likelihood ignores an unreadable summary and compares likelihood with likelihood *)
  fx_json : bool;       (* DirectoryPaths.save_json writes <name>.json.tmp then os.replace *)
  fx_drawer : bool;     (* c93247b: Drawer._fit returns its search internal (needed with paths that do not persist it) *)
  fx_zero : bool        (* f9e97f7: BFGS/LBFGS with maxiter = 0 returns its starting point instead of raising *)
}.
Definition current : code := mkcode false false false false false false false false.
(* /repo as it is now: the six file-system repairs are in, the two proposed ones are not *)
Definition six_repairs : code := mkcode true true true true true true false false.
Definition repaired_all : code := mkcode true true true true true true true true.
(* /repo as it is now: all eight repairs are in; six_repairs is the state before c93247b / f9e97f7 (legacy) *)
Definition repaired : code := repaired_all.   (* flipped after a3ae7b9 / c93247b / f9e97f7 *)

Inductive exc := BadZip | KeyErr | EOFErr | Unpickling | ValueErr | JSONDecode | FileNotFound | SearchExc | UnboundLocal | OtherExc.
Record result := mkres { r_tag : nat; r_samples : option nat; r_internal : bool }.

(* ---------- the phases of NonLinearSearch.fit ---------- *)

(* AbstractPaths.restore *)
Definition restore_ops (h : list event) (s : fs) : list op * option exc :=
  match fz s with
  | ZAbsent => ([], None)
  | ZPartial => (rm_ops (present (fd s)) h, Some BadZip)
  | ZFull snap =>
      let a := rm_ops (present (fd s)) h in
      (a ++ extract_ops snap (skipn (length a) h) ++ [ORZ], None)
  end.

(* DirectoryPaths.save_json *)
Definition json_write (cd : code) (r : role) (f : fstate) : list op :=
  if fx_json cd then [OW (jtmp r) f; OJMV r f] else [OW r f].

(* DirectoryPaths.save_all, then Analysis.save_attributes (the harness analysis saves one json) *)
Definition save_all_ops (cd : code) : list op :=
  [OW Ident (Full Plain); OW ModelInfo (Full Plain); OW Graph (Full Plain)]
  ++ json_write cd SearchJson (Full Plain) ++ json_write cd ModelJson (Full Plain) ++ [OA Metadata]
  ++ json_write cd Attr (Full Plain).

Definition is_complete (s : fs) : bool := present (fd s) Marker.

Definition pre_ops (cd : code) (s : fs) : list op := if is_complete s then [] else save_all_ops cd.

(* NonLinearSearch.perform_update: timer.update, samples summary, samples table, model.results, search.summary *)
Definition update_ops (cd : code) (c : cfg) (g : nat) : list op :=
  [OW Time (Full Plain)] ++ json_write cd Summary (Full (Gen g))
  ++ (if c_csv c then json_write cd SamplesInfo (Full Plain) ++ [OW SamplesCsv (Full (Gen g))] else [])
  ++ [OW Results (Full Plain); OW SearchSummary (Full Plain)].

(* the same, when writing search.summary fails (float("") on the run time) *)
Definition update_ops_failing (cd : code) (c : cfg) (g : nat) : list op :=
  [OW Time (Full Plain)] ++ json_write cd Summary (Full (Gen g))
  ++ (if c_csv c then json_write cd SamplesInfo (Full Plain) ++ [OW SamplesCsv (Full (Gen g))] else [])
  ++ [OW Results (Full Plain)].

(* the final update followed by Analysis.save_results (the harness analysis saves one json holding the best likelihood) *)
Definition final_ops (cd : code) (c : cfg) (g : nat) : list op :=
  update_ops cd c g ++ json_write cd ResultExtra (Full (Gen g)).

Fixpoint repeat_ops (n : nat) (l : list op) : list op :=
  match n with O => [] | S n' => l ++ repeat_ops n' l end.

(* Timer.start: float(open(".start_time").read()) *)
Definition timer_ops (cd : code) (s : fs) : list op * option exc :=
  match fd s StartTime with
  | Absent => ([OW StartTime (Full Plain)], None)
  | Part PEmpty => if fx_timer cd then ([OW StartTime (Full Plain)], None) else ([], Some ValueErr)
  | _ => ([], None)
  end.

(* DirectoryPaths.save_search_internal *)
Definition dill_write (cd : code) (f : fstate) : list op :=
  if fx_dill cd then [OW DillTmp f; ODMV f] else [OW Dill f].

(* Fitness.__init__ -> check_log_likelihood (only with test.check_likelihood_function): the samples summary of an
   earlier, interrupted run is read back and its best likelihood recomputed.  A truncated file raises
   JSONDecodeError; for BFGS/LBFGS the recomputed figure of merit is a chi-squared and never equals the stored
   log likelihood (SearchException).  Result: exception, and whether the likelihood was evaluated. *)
Definition chk_ops (cd : code) (c : cfg) (s : fs) : option exc * bool :=
  if c_chk c then
    match fd s Summary with
    | Part _ => (if fx_chk cd then None else Some JSONDecode, false)
    | Full (Gen _) =>
        match c_search c with
        | LBFGS => (if fx_chk cd then None else Some SearchExc, true)
        | Drawer => (None, true)
        end
    | _ => (None, false)
    end
  else (None, false).

(* the search's _fit: (ops, exception | generation of the final internal state, likelihood evaluated?, returns an internal state?) *)
Definition search_ops (cd : code) (c : cfg) (tag : nat) (s : fs)
  : list op * (exc + nat) * bool * bool :=
  let loop := dill_write cd (Full (Gen tag)) ++ update_ops cd c tag in
  match c_search c with
  | Drawer => (dill_write cd (Full (Gen tag)), inr tag, true, fx_drawer cd)
  | LBFGS =>
      (* maxiter = 0: the while loop is never entered and `return search_internal` raises UnboundLocalError *)
      let fresh := match c_updates c with
                   | O => if fx_zero cd then ([], inr tag, true, true)
                          else ([], inl UnboundLocal, false, true)   (* the initial point is evaluated in a worker process *)
                   | S _ => (repeat_ops (c_updates c) loop, inr tag, true, true)
                   end in
      match fd s Dill with
      | Absent => fresh
      | Full NoneObj => fresh                                  (* None["x0"]: TypeError, caught *)
      | Full (Gen g) =>
          if fx_resume cd then
            match c_updates c with
            | S (S n) => (repeat_ops (S n) loop, inr tag, true, true)
            | _ => ([], inr g, true, true)
            end
          else ([], inl KeyErr, false, true)                  (* OptimizeResult["x0"] *)
      | Full Plain => fresh                                    (* not a state a pickle can be in *)
      | Part PEmpty => ([], inl EOFErr, false, true)
      | Part PHalf => ([], inl Unpickling, false, true)
      end
  end.

Definition fit_ops (cd : code) (c : cfg) (tag : nat) (s : fs)
  : list op * (exc + nat) * bool * bool :=
  match chk_ops cd c s with
  | (Some e, ev) => ([], inl e, ev, true)
  | (None, ev) =>
      let '(f, fo, sm, internal) := search_ops cd c tag s in (f, fo, ev || sm, internal)
  end.

(* Drawer._fit stores Timer.time (the content of .time as left by earlier runs) in its samples info;
   search_summary_to_file converts it with float() *)
Definition drawer_time_bad (cd : code) (c : cfg) (s : fs) : bool :=
  match c_search c, fd s Time with
  | Drawer, Part PEmpty => negb (fx_timer cd)
  | _, _ => false
  end.

(* start_resume_fit *)
Definition fresh_ops (cd : code) (c : cfg) (tag : nat) (s : fs)
  : list op * (exc + result) * bool :=
  let '(t, te) := timer_ops cd s in
  match te with
  | Some e => (OA Log :: t, inl e, false)
  | None =>
      let '(f, fo, sampled, internal) := fit_ops cd c tag s in
      match fo with
      | inl e => (OA Log :: t ++ f, inl e, sampled)
      | inr g =>
          if drawer_time_bad cd c s
          then (OA Log :: t ++ f ++ update_ops_failing cd c g, inl ValueErr, sampled)
          else (OA Log :: t ++ f ++ final_ops cd c g ++ [OW Marker (Full Plain)],
                inr (mkres g (Some g) internal), sampled)
      end
  end.

(* result_via_completed_fit *)
Definition completed_result (s : fs) : exc + result :=
  match fd s Summary with
  | Absent => inl FileNotFound
  | Part _ => inl JSONDecode
  | Full (Gen g) =>
      match fd s SamplesCsv with
      | Absent => inr (mkres g None false)
      | Full (Gen g') =>
          match fd s SamplesInfo with
          | Absent => inr (mkres g None false)
          | Part _ => inl JSONDecode
          | Full _ => inr (mkres g (Some g') false)
          end
      | _ => inl OtherExc
      end
  | Full _ => inl JSONDecode
  end.

Definition main_ops (cd : code) (c : cfg) (tag : nat) (s : fs) : list op * (exc + result) * bool :=
  if is_complete s then ([], completed_result s, false) else fresh_ops cd c tag s.

Definition si_roles (r : role) : bool :=
  match r with StartTime | Time | Dill | DillTmp => true | _ => false end.

(* post_fit_output: `result.search_internal` (in memory, or read back from search_internal.dill) is
   rewritten, or the search_internal folder removed; zip; optional rmtree *)
Definition internal_of (res : result) (s : fs) : exc + fstate :=
  if r_internal res then inr (Full (Gen (r_tag res)))
  else match fd s Dill with
       | Absent => inr (Full NoneObj)       (* FileNotFoundError is caught: None *)
       | Full c => inr (Full c)
       | Part PEmpty => inl EOFErr
       | Part PHalf => inl Unpickling
       end.

Definition post_ops (cd : code) (c : cfg) (res : result) (h : list event) (s : fs) : list op * option exc :=
  match internal_of res s with
  | inl e => ([], Some e)
  | inr f =>
      let a := if c_keep c then dill_write cd f
               else rm_ops (fun r => si_roles r && present (fd s) r) h in
      let z := if fx_zip cd then [OZTW; OZMV] else [OZW] in
      let s' := exec a s in
      (a ++ z ++ (if c_remove c then rm_ops (present (fd s')) (skipn (length a + length z) h) else []), None)
  end.

(* the whole run: micro-operations of an uninterrupted run, its outcome, whether the likelihood was evaluated *)
Definition plan (cd : code) (c : cfg) (tag : nat) (h : list event) (s : fs)
  : list op * (exc + result) * bool :=
  let '(r, re) := restore_ops h s in
  match re with
  | Some e => (r, inl e, false)
  | None =>
      let s1 := exec r s in
      let p := pre_ops cd s1 in
      let s2 := exec p s1 in
      let '(m, mo, sampled) := main_ops cd c tag s2 in
      match mo with
      | inl e => (r ++ p ++ m, inl e, sampled)
      | inr res =>
          let s3 := exec m s2 in
          let n := length r + length p + length m in
          let '(q, qe) := post_ops cd c res (skipn n h) s3 in
          match qe with
          | Some e => (r ++ p ++ m ++ q, inl e, sampled)
          | None => (r ++ p ++ m ++ q, inr res, sampled)
          end
      end
  end.

Definition plan_ops cd c tag h s := fst (fst (plan cd c tag h s)).
Definition plan_out cd c tag h s := snd (fst (plan cd c tag h s)).
Definition plan_sampled cd c tag h s := snd (plan cd c tag h s).

(* ---------- runs and crashes ---------- *)
Inductive variant := VBefore | VEmpty | VHalf.

Definition run_full cd c tag h s : fs := exec (plan_ops cd c tag h s) s.

(* the process dies at micro-operation number k of the run *)
Definition crash_state (ops : list op) (k : nat) (v : variant) (s : fs) : fs :=
  let s' := exec (firstn k ops) s in
  match nth_error ops k with
  | None => s'
  | Some o =>
      match v with
      | VBefore => s'
      | VEmpty => apply_empty o s'
      | VHalf => cut o (apply o s')
      end
  end.

Definition run_crash cd c tag h k v s : fs := crash_state (plan_ops cd c tag h s) k v s.

(* events a crashed run was seen performing *)
Definition crash_trace (ops : list op) (k : nat) (v : variant) : list event :=
  match nth_error ops k with
  | None => map event_of ops
  | Some o =>
      match v with
      | VBefore => map event_of (firstn k ops)
      | VEmpty => map event_of (firstn k ops) ++ (if writes o then [event_of o] else [])
      | VHalf => map event_of (firstn (S k) ops)
      end
  end.

Inductive outcome := ROk (r : result) | RExc (e : exc) | RCrashed.

Definition out_of (o : exc + result) : outcome :=
  match o with inl e => RExc e | inr r => ROk r end.

(* one run of a history: None = runs to its end, Some (k, v) = dies at k *)
Definition run_spec cd c tag h (cr : option (nat * variant)) (s : fs) : fs * outcome * list event :=
  let ops := plan_ops cd c tag h s in
  match cr with
  | Some (k, v) =>
      if Nat.ltb k (length ops) then (crash_state ops k v s, RCrashed, crash_trace ops k v)
      else (exec ops s, out_of (plan_out cd c tag h s), map event_of ops)
  | None => (exec ops s, out_of (plan_out cd c tag h s), map event_of ops)
  end.

(* a history: run number i has tag i *)
Fixpoint history cd c (tag : nat) (runs : list (list event * option (nat * variant))) (s : fs) : fs :=
  match runs with
  | [] => s
  | (h, cr) :: rest => history cd c (S tag) rest (fst (fst (run_spec cd c tag h cr s)))
  end.

(* ---------- the property's vocabulary ---------- *)
(* the folder holds the complete result of generation g *)
Definition complete (c : cfg) (g : nat) (d : dir) : Prop :=
  d Marker = Full Plain /\ d Summary = Full (Gen g) /\
  d Results = Full Plain /\ d SearchSummary = Full Plain /\ d ResultExtra = Full (Gen g) /\
  (if c_csv c then d SamplesCsv = Full (Gen g) /\ d SamplesInfo = Full Plain
   else d SamplesCsv = Absent).

(* the completed result g is on disk: in the folder (no archive) or in a complete archive *)
Definition stored (c : cfg) (g : nat) (s : fs) : Prop :=
  match fz s with
  | ZAbsent => complete c g (fd s)
  | ZFull snap => complete c g snap
  | ZPartial => False
  end.

Definition expected_samples (c : cfg) (g : nat) : option nat := if c_csv c then Some g else None.

(* ---------- boolean versions for the correspondence and for witnesses ---------- *)
Definition pkind_eqb a b := match a, b with PEmpty, PEmpty | PHalf, PHalf => true | _, _ => false end.
Definition content_eqb a b :=
  match a, b with
  | Plain, Plain | NoneObj, NoneObj => true
  | Gen x, Gen y => Nat.eqb x y
  | _, _ => false
  end.
Definition fstate_eqb a b :=
  match a, b with
  | Absent, Absent => true
  | Part p, Part q => pkind_eqb p q
  | Full x, Full y => content_eqb x y
  | _, _ => false
  end.
Definition dir_eqb (a b : dir) : bool := forallb (fun r => fstate_eqb (a r) (b r)) all_roles.
Definition zstate_eqb a b :=
  match a, b with
  | ZAbsent, ZAbsent | ZPartial, ZPartial => true
  | ZFull x, ZFull y => dir_eqb x y
  | _, _ => false
  end.
Definition fs_eqb (a b : fs) : bool :=
  dir_eqb (fd a) (fd b) && zstate_eqb (fz a) (fz b) && Bool.eqb (ftmp a) (ftmp b).

Definition completeb (c : cfg) (g : nat) (d : dir) : bool :=
  fstate_eqb (d Marker) (Full Plain) && fstate_eqb (d Summary) (Full (Gen g)) &&
  fstate_eqb (d Results) (Full Plain) && fstate_eqb (d SearchSummary) (Full Plain) &&
  fstate_eqb (d ResultExtra) (Full (Gen g)) &&
  (if c_csv c then fstate_eqb (d SamplesCsv) (Full (Gen g)) && fstate_eqb (d SamplesInfo) (Full Plain)
   else fstate_eqb (d SamplesCsv) Absent).
Definition storedb (c : cfg) (g : nat) (s : fs) : bool :=
  match fz s with ZAbsent => completeb c g (fd s) | ZFull snap => completeb c g snap | ZPartial => false end.

Definition event_eqb (a b : event) : bool :=
  match a, b with
  | EW x, EW y | EA x, EA y | ER x, ER y => role_eqb x y
  | EZW, EZW | ERZ, ERZ | EZTW, EZTW | EZMV, EZMV | EDMV, EDMV => true
  | EJMV x, EJMV y => role_eqb x y
  | _, _ => false
  end.
Fixpoint list_eqb {A} (eqb : A -> A -> bool) (a b : list A) : bool :=
  match a, b with
  | [], [] => true
  | x :: a', y :: b' => eqb x y && list_eqb eqb a' b'
  | _, _ => false
  end.
Definition exc_eqb (a b : exc) : bool :=
  match a, b with
  | BadZip, BadZip | KeyErr, KeyErr | EOFErr, EOFErr | Unpickling, Unpickling | ValueErr, ValueErr
  | JSONDecode, JSONDecode | FileNotFound, FileNotFound | SearchExc, SearchExc | UnboundLocal, UnboundLocal | OtherExc, OtherExc => true
  | _, _ => false
  end.
Definition optnat_eqb (a b : option nat) : bool :=
  match a, b with Some x, Some y => Nat.eqb x y | None, None => true | _, _ => false end.
Definition result_eqb (a b : result) : bool :=
  Nat.eqb (r_tag a) (r_tag b) && optnat_eqb (r_samples a) (r_samples b) && Bool.eqb (r_internal a) (r_internal b).
Definition outcome_eqb (a b : outcome) : bool :=
  match a, b with
  | ROk x, ROk y => result_eqb x y
  | RExc x, RExc y => exc_eqb x y
  | RCrashed, RCrashed => true
  | _, _ => false
  end.

(* ---------- correspondence cases ---------- *)
(* what the harness saw on disk after a run *)
Definition dir_of (l : list (role * fstate)) : dir :=
  fun r => match find (fun p => role_eqb (fst p) r) l with Some p => snd p | None => Absent end.

Inductive zobs := ZOAbsent | ZOPartial | ZOFull (members : list (role * fstate)).
Definition zstate_of (z : zobs) : zstate :=
  match z with ZOAbsent => ZAbsent | ZOPartial => ZPartial | ZOFull m => ZFull (dir_of m) end.

Record runobs := mkobs {
  o_crash : option (nat * variant);          (* what the harness asked for *)
  o_trace : list event;                      (* mutation events the run performed *)
  o_outcome : outcome;
  o_sampled : option bool;                   (* likelihood evaluated at all (unknown for a killed process) *)
  o_files : list (role * fstate);
  o_zip : zobs;
  o_tmp : bool
}.

(* tagged = the harness's likelihood encodes the run number (impossible with c_chk, where every run uses tag 0) *)
Inductive case := CHistory (cd : code) (c : cfg) (tagged : bool) (runs : list runobs).

Definition optbool_agrees (o : option bool) (b : bool) : bool :=
  match o with None => true | Some x => Bool.eqb x b end.

Fixpoint check_runs cd c (tagged : bool) (tag : nat) (runs : list runobs) (s : fs) : bool :=
  match runs with
  | [] => true
  | o :: rest =>
      let '(s', out, tr) := run_spec cd c tag (o_trace o) (o_crash o) s in
      list_eqb event_eqb tr (o_trace o)
      && outcome_eqb out (o_outcome o)
      && (match out with RCrashed => true | _ => optbool_agrees (o_sampled o) (plan_sampled cd c tag (o_trace o) s) end)
      && fs_eqb s' (mkfs (dir_of (o_files o)) (zstate_of (o_zip o)) (o_tmp o))
      && check_runs cd c tagged (if tagged then S tag else tag) rest s'
  end.

Definition check_case (x : case) : bool :=
  match x with CHistory cd c tagged runs => check_runs cd c tagged 0 runs empty_fs end.
