(* Proofs about Machine.v: a prior object used several times answers as a function of its current inputs. *)
From Coq Require Import List Bool.
From PAFC02 Require Import Model Machine.
Import ListNotations.

Section ProofsM.
  Context {N : Type} (A : Arith N) (S : Special N) (var : variant).

  Lemma run_sound_policy :
    forall (P : policy) (pm : prior N), sound A S var P pm ->
    forall ops pg (c : cache P), coherent A S var P pm c ->
    run A S var P pm pg c ops = spec A S var pm pg ops.
  Proof.
    intros P pm HS ops. induction ops as [|o ops IH]; intros pg c Hc; [reflexivity|].
    destruct o as [q|lo hi]; simpl.
    - destruct (c_lookup P c pg q) as [a|] eqn:Hl.
      + rewrite (Hc pg q a Hl). f_equal. apply IH. exact Hc.
      + f_equal. apply IH. apply (snd_store A S var P pm HS). exact Hc.
    - f_equal. apply IH. apply (snd_set A S var P pm HS). exact Hc.
  Qed.

  Lemma no_cache_sound : forall pm, sound A S var (no_cache) pm.
  Proof.
    intro pm. split.
    - intros pg q a H; discriminate H.
    - intros c pg q Hc pg' q' a H; discriminate H.
    - intros c Hc pg' q' a H; discriminate H.
  Qed.

  (* every sound memo is unobservable: same answers as the memo-less object, for every history *)
  Lemma history_independent :
    forall (P : policy) (pm : prior N), sound A S var P pm ->
    forall ops pg, run A S var P pm pg (c_empty P) ops = run A S var no_cache pm pg tt ops.
  Proof.
    intros P pm HS ops pg.
    rewrite (run_sound_policy P pm HS ops pg (c_empty P) (snd_empty A S var P pm HS)).
    symmetry. apply (run_sound_policy no_cache pm (no_cache_sound pm)).
    intros pg' q a H; discriminate H.
  Qed.

  Lemma spec_app : forall pm ops1 ops2 pg,
    spec A S var pm pg (ops1 ++ ops2) = spec A S var pm pg ops1 ++ spec A S var pm (gate_after pg ops1) ops2.
  Proof.
    intros pm ops1. induction ops1 as [|o ops IH]; intros ops2 pg; [reflexivity|].
    destruct o as [q|lo hi]; simpl; rewrite IH; reflexivity.
  Qed.

  (* the answer of a use after ANY history is the fresh answer for the limits then in force *)
  Lemma last_use_depends_on_current_inputs_only :
    forall (P : policy) (pm : prior N), sound A S var P pm ->
    forall ops pg q,
      last (run A S var P pm pg (c_empty P) (ops ++ [Use q])) None = Some (fresh A S var pm (gate_after pg ops) q).
  Proof.
    intros P pm HS ops pg q.
    rewrite (run_sound_policy P pm HS _ pg (c_empty P) (snd_empty A S var P pm HS)).
    rewrite spec_app. simpl. apply last_last.
  Qed.

  (* two histories that end with the same limits answer the same query identically *)
  Lemma same_current_inputs_same_answer :
    forall (P : policy) (pm : prior N), sound A S var P pm ->
    forall ops1 ops2 pg q, gate_after pg ops1 = gate_after pg ops2 ->
      last (run A S var P pm pg (c_empty P) (ops1 ++ [Use q])) None =
      last (run A S var P pm pg (c_empty P) (ops2 ++ [Use q])) None.
  Proof.
    intros P pm HS ops1 ops2 pg q H.
    rewrite !(last_use_depends_on_current_inputs_only P pm HS). rewrite H. reflexivity.
  Qed.

  (* a memo keyed by the query alone is observable as soon as two limit settings answer one query differently *)
  Lemma by_query_refuted :
    forall (qeqb : query -> query -> bool) (pm pg : prior N) lo hi q,
      qeqb q q = true ->
      fresh A S var pm pg q <> fresh A S var pm (set_limits pg lo hi) q ->
      run A S var (by_query qeqb) pm pg [] [Use q; SetLimits lo hi; Use q] <>
      run A S var no_cache pm pg tt [Use q; SetLimits lo hi; Use q].
  Proof.
    intros qeqb pm pg lo hi q Hq Hne. simpl. rewrite Hq. intro H. inversion H as [H1]. apply Hne. exact H1.
  Qed.
End ProofsM.

  (* the gate follows the limits in force: whatever the history, a value returned without ignore_prior_limits by the
     repaired code lies within the current limits *)
  Lemma post_within : forall {N : Type} (A : Arith N) (pg : prior N) x v, post A Repaired pg false x = Ok v -> within A pg v = true.
  Proof.
    intros N A pg x v. unfold post, checked. simpl.
    destruct (within A pg x) eqn:Hw; [|discriminate].
    destruct (p_family pg); simpl; intro H; inversion H; subst; try exact Hw.
    destruct (within A pg (a_round14 A x)) eqn:Hr; [exact Hr|exact Hw].
  Qed.

  Lemma gate_follows_current_limits :
    forall {N : Type} (A : Arith N) (S : Special N) (P : policy) (pm : prior N), sound A S Repaired P pm ->
    forall ops pg u v,
      last (run A S Repaired P pm pg (c_empty P) (ops ++ [Use (QValue false u)])) None = Some (AResult (Ok v)) ->
      within A (gate_after pg ops) v = true.
  Proof.
    intros N A S P pm HS ops pg u v H.
    rewrite (last_use_depends_on_current_inputs_only A S Repaired P pm HS) in H.
    simpl in H. inversion H as [H1]. unfold dprior_value_for in H1.
    apply (post_within A _ _ _ H1).
  Qed.

