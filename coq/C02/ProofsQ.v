(* C02 lemmas that need no special function:
   - vector_from_unit_vector applies value_for position by position (any number type);
   - the limit gate followed by the 14-decimal rounding, over exact rationals with the
     computable decimal rounding: the full statement is refuted for the current code,
     proved under the guard "limits are fixed points of the rounding", and proved without
     guard for the repaired code;
   - the hypotheses made about round14 in Proofs.v are satisfied by the exact decimal
     rounding (monotone, idempotent, within 5e-15). *)
From Coq Require Import ZArith List Bool Lia.
From PAFC02 Require Import Model.
Import ListNotations.

(* ---------- vector_from_unit_vector, generic ---------- *)

Section Vector.
  Context {N : Type} (A : Arith N) (S : Special N) (var : variant) (ig : bool).

  Lemma vector_for_ok : forall (ps : list (prior N)) (us vs : list N),
    vector_for A S var ig ps us = VOk vs ->
    length vs = Nat.min (length ps) (length us) /\
    forall i p u, nth_error ps i = Some p -> nth_error us i = Some u ->
      exists v, nth_error vs i = Some v /\ prior_value_for A S var p ig u = Ok v.
  Proof.
    induction ps as [|p ps IH]; intros us vs H.
    - simpl in H. injection H as <-. split; [reflexivity|]. intros i q u Hq. destruct i; discriminate.
    - destruct us as [|u us]; simpl in H.
      + injection H as <-. split; [reflexivity|]. intros i q w _ Hw. destruct i; discriminate.
      + destruct (prior_value_for A S var p ig u) as [v|] eqn:E; [|discriminate].
        destruct (vector_for A S var ig ps us) as [ws|] eqn:R; [|discriminate].
        injection H as <-. destruct (IH us ws R) as [L P]. split; [simpl; rewrite L; reflexivity|].
        intros i q w Hq Hw. destruct i as [|i]; simpl in *.
        * injection Hq as <-. injection Hw as <-. exists v. split; [reflexivity | exact E].
        * apply P; assumption.
  Qed.

  Lemma vector_for_raises : forall (ps : list (prior N)) (us : list N),
    vector_for A S var ig ps us = VLimitExc ->
    exists i p u, nth_error ps i = Some p /\ nth_error us i = Some u /\ prior_value_for A S var p ig u = LimitExc.
  Proof.
    induction ps as [|p ps IH]; intros us H; [discriminate|].
    destruct us as [|u us]; [discriminate|]. simpl in H.
    destruct (prior_value_for A S var p ig u) as [v|] eqn:E.
    - destruct (vector_for A S var ig ps us) as [ws|] eqn:R; [discriminate|].
      destruct (IH us R) as [i [q [w [Hq [Hw Hr]]]]]. exists (Datatypes.S i), q, w. simpl. auto.
    - exists 0%nat, p, u. simpl. auto.
  Qed.

  (* the gate only filters: with the current code a value returned with limits enforced is exactly the
     value returned with limits ignored (any number type, any family) *)
  Lemma gate_transparent (p : prior N) (u v : N) :
    prior_value_for A S Current p false u = Ok v -> prior_value_for A S Current p true u = Ok v.
  Proof.
    unfold prior_value_for, post, checked. destruct (within A p _); [|discriminate].
    intro H. exact H.
  Qed.

  (* repaired code: transparency holds exactly when the rounding does not take the value out of the limits *)
  Lemma gate_transparent_repaired_partial (p : prior N) (u v : N) :
    (p_family p <> Uniform \/ within A p (a_round14 A (msg_value_for A S (message_of A S p) u)) = true) ->
    prior_value_for A S Repaired p false u = Ok v -> prior_value_for A S Repaired p true u = Ok v.
  Proof.
    unfold prior_value_for, post, checked. intros G. destruct (within A p (msg_value_for A S (message_of A S p) u)); [|discriminate].
    destruct (p_family p) eqn:Hf; try (intro H; exact H).
    destruct G as [G|G]; [congruence|]. unfold uniform_round. simpl. rewrite G. intro H; exact H.
  Qed.
End Vector.

(* ---------- exact decimal rounding over Q ---------- *)
From Coq Require Import QArith Qround Qabs Lqa.
From PAFCommon Require Import PyNum.

Definition ten14Q : Q := inject_Z (10 ^ 14).
Definition round14_Q (x : Q) : Q := inject_Z (Qround_half_even (x * ten14Q)) / ten14Q.

Definition QA : Arith Q :=
  mkArith Q Qplus Qminus Qmult Qdiv Qle_bool Qlt_bool 0 1 2
          (14142135623730951 # 10000000000000000) (1 # 100000000000000) round14_Q (fun _ => true).

Lemma ten14Q_pos : 0 < ten14Q.
Proof. reflexivity. Qed.

Lemma rhe_bounds (x : Q) :
  inject_Z (Qround_half_even x) - (1 # 2) <= x /\ x <= inject_Z (Qround_half_even x) + (1 # 2).
Proof.
  unfold Qround_half_even.
  pose proof (Qfloor_le x) as F1. pose proof (Qlt_floor x) as F2.
  rewrite inject_Z_plus in F2. change (inject_Z 1) with 1 in F2.
  set (f := Qfloor x) in *.
  destruct (Qlt_bool (x - inject_Z f) (1 # 2)) eqn:E1.
  - apply Qlt_bool_iff in E1. split; lra.
  - apply Qlt_bool_false_iff in E1.
    destruct (Qlt_bool (1 # 2) (x - inject_Z f)) eqn:E2.
    + rewrite inject_Z_plus. change (inject_Z 1) with 1. split; lra.
    + apply Qlt_bool_false_iff in E2. destruct (Z.even f).
      * split; lra.
      * rewrite inject_Z_plus. change (inject_Z 1) with 1. split; lra.
Qed.

Lemma rhe_mono (x y : Q) : x <= y -> (Qround_half_even x <= Qround_half_even y)%Z.
Proof.
  intro H. destruct (Z_le_gt_dec (Qround_half_even x) (Qround_half_even y)) as [L|G]; [exact L|].
  exfalso.
  destruct (rhe_bounds x) as [X1 _]. destruct (rhe_bounds y) as [_ Y2].
  assert (G' : (Qround_half_even y + 1 <= Qround_half_even x)%Z) by lia.
  rewrite Zle_Qle, inject_Z_plus in G'. change (inject_Z 1) with 1 in G'.
  assert (E : x == y) by lra.
  rewrite (Qround_half_even_comp x y E) in G. lia.
Qed.

Lemma round14_Q_mono (x y : Q) : x <= y -> round14_Q x <= round14_Q y.
Proof.
  intro H. unfold round14_Q.
  assert (M : x * ten14Q <= y * ten14Q) by (apply Qmult_le_compat_r; [exact H | discriminate]).
  apply rhe_mono in M. rewrite Zle_Qle in M.
  unfold Qdiv. apply Qmult_le_compat_r; [exact M | discriminate].
Qed.

Lemma round14_Q_comp (x y : Q) : x == y -> round14_Q x == round14_Q y.
Proof.
  intro H. unfold round14_Q.
  assert (E : x * ten14Q == y * ten14Q) by (rewrite H; reflexivity).
  rewrite (Qround_half_even_comp _ _ E). reflexivity.
Qed.

Lemma round14_Q_idem (x : Q) : round14_Q (round14_Q x) == round14_Q x.
Proof.
  unfold round14_Q at 1.
  assert (E : round14_Q x * ten14Q == inject_Z (Qround_half_even (x * ten14Q))).
  { unfold round14_Q. field. discriminate. }
  rewrite (Qround_half_even_comp _ _ E), Qround_half_even_inject_Z. reflexivity.
Qed.

Lemma round14_Q_err (x : Q) : Qabs (round14_Q x - x) <= 5 # 1000000000000000.
Proof.
  destruct (rhe_bounds (x * ten14Q)) as [B1 B2]. unfold round14_Q.
  set (n := inject_Z (Qround_half_even (x * ten14Q))) in *.
  assert (E : n / ten14Q - x == (n - x * ten14Q) / ten14Q) by (field; discriminate).
  rewrite E. apply Qabs_Qle_condition.
  split; [apply Qle_shift_div_l | apply Qle_shift_div_r]; try reflexivity;
    unfold ten14Q in *; change (inject_Z (10 ^ 14)) with (100000000000000 # 1) in *; lra.
Qed.

(* ---------- the gate followed by the rounding, over Q ---------- *)

Lemma within_Q (p : prior Q) (v : Q) : within QA p v = true <-> p_lo p <= v /\ v <= p_hi p.
Proof. unfold within; simpl. rewrite andb_true_iff, !Qle_bool_iff. tauto. Qed.

(* FULL statement: whatever UniformPrior.value_for returns through the gate lies within the limits.
   Refuted on the faithful model of the current code: UniformPrior(0, 8e-15), mapped value 6e-15. *)
Definition uniform_within_limits (var : variant) : Prop :=
  forall (p : prior Q) (x r : Q), p_family p = Uniform -> p_lo p < p_hi p ->
    post QA var p false x = Ok r -> p_lo p <= r /\ r <= p_hi p.

Lemma uniform_within_limits_current_refuted : ~ uniform_within_limits Current.
Proof.
  intro H.
  specialize (H (mkPrior Uniform 0 1 0 (8 # 1000000000000000)) (6 # 1000000000000000)
                (round14_Q (6 # 1000000000000000)) eq_refl eq_refl).
  assert (P : post QA Current (mkPrior Uniform 0 1 0 (8 # 1000000000000000)) false (6 # 1000000000000000)
              = Ok (round14_Q (6 # 1000000000000000))) by (vm_compute; reflexivity).
  destruct (H P) as [_ U]. simpl in U. apply Qle_bool_iff in U. vm_compute in U. discriminate.
Qed.

Lemma uniform_within_limits_current_partial (p : prior Q) (x r : Q) :
  round14_Q (p_lo p) == p_lo p -> round14_Q (p_hi p) == p_hi p ->
  post QA Current p false x = Ok r -> p_lo p <= r /\ r <= p_hi p.
Proof.
  intros Hl Hh. unfold post, checked. destruct (within QA p x) eqn:W; [|discriminate].
  apply within_Q in W. destruct W as [W1 W2].
  destruct (p_family p); intro H; injection H as <-; try (split; assumption).
  simpl. split.
  - rewrite <- Hl. apply round14_Q_mono. exact W1.
  - rewrite <- Hh. apply round14_Q_mono. exact W2.
Qed.

Lemma uniform_within_limits_repaired : uniform_within_limits Repaired.
Proof.
  intros p x r _ _. unfold post, checked. destruct (within QA p x) eqn:W; [|discriminate].
  apply within_Q in W.
  destruct (p_family p); intro H; injection H as <-; try exact W.
  unfold uniform_round. simpl. destruct (within QA p (round14_Q x)) eqn:W2; [apply within_Q; exact W2 | exact W].
Qed.

(* the repaired code still returns the 14-decimal rounding whenever that lies within the limits,
   and otherwise the unrounded (checked) value: never more than 5e-15 away from the mapped value *)
Lemma repaired_close (p : prior Q) (ig : bool) (x : Q) :
  Qabs (uniform_round QA Repaired p ig x - x) <= 5 # 1000000000000000.
Proof.
  unfold uniform_round. cbn [a_round14 QA].
  destruct (ig || within QA p (round14_Q x)); [apply round14_Q_err|].
  assert (E : x - x == 0) by ring. rewrite E. discriminate.
Qed.

(* for the repaired code the gate is no longer transparent in general: with the limits enforced the unrounded
   value is kept where the rounding would leave the limits, with the limits ignored the rounded value is returned *)
Definition gate_transparent_at_post (var : variant) : Prop :=
  forall (p : prior Q) (x r r' : Q), post QA var p false x = Ok r -> post QA var p true x = Ok r' -> r == r'.

Lemma gate_transparent_repaired_refuted : ~ gate_transparent_at_post Repaired.
Proof.
  intro H.
  pose (p := mkPrior Uniform 0 1 0 (8 # 1000000000000000)).
  assert (P1 : post QA Repaired p false (6 # 1000000000000000) = Ok (6 # 1000000000000000)) by (vm_compute; reflexivity).
  assert (P2 : post QA Repaired p true (6 # 1000000000000000) = Ok (round14_Q (6 # 1000000000000000))) by (vm_compute; reflexivity).
  specialize (H p _ _ _ P1 P2). vm_compute in H. discriminate.
Qed.
