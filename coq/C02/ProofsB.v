(* C02: the lemmas of Proofs.v restated with the hypotheses about the external functions
   bundled into two predicates, in the exact form in which Props.v states them. *)
From Coq Require Import Reals Lra List Bool.
From PAFC02 Require Import Model Proofs.
Import ListNotations.
Open Scope R_scope.

(* the external functions of the real-number model *)
Record funs := mkFuns {
  f_Phi : R -> R;        (* scipy.special.ndtr: standard normal CDF *)
  f_PhiInv : R -> R;     (* scipy.special.ndtri *)
  f_erfinv : R -> R;     (* scipy.special.erfinv *)
  f_round14 : R -> R     (* float(round(x, 14)) *)
}.

Definition RAf (F : funs) : Arith R := RA (f_round14 F).
Definition RSf (F : funs) : Special R := RS (f_Phi F) (f_PhiInv F) (f_erfinv F).

(* assumed behaviour of the special functions (trusted base of C02) *)
Definition special_ok (F : funs) : Prop :=
  (forall x y, x < y -> f_Phi F x < f_Phi F y) /\
  (forall x, 0 < f_Phi F x < 1) /\
  (forall x, f_PhiInv F (f_Phi F x) = x) /\
  (forall u, 0 < u < 1 -> f_Phi F (f_PhiInv F u) = u) /\
  (forall t, -1 < t < 1 -> sqrt 2 * f_erfinv F t = f_PhiInv F ((1 + t) / 2)).

(* assumed behaviour of the 14-decimal rounding *)
Definition round_ok (F : funs) : Prop :=
  (forall x y, x <= y -> f_round14 F x <= f_round14 F y) /\
  (forall x, f_round14 F (f_round14 F x) = f_round14 F x) /\
  (forall x, Rabs (f_round14 F x - x) <= 5 / 10 ^ 15).

(* abbreviations used by the statements *)
Definition value_for_R (F : funs) := prior_value_for (RAf F) (RSf F).
Definition raw_value_R (F : funs) (p : prior R) (u : R) : R := msg_value_for (RAf F) (RSf F) (message_of (RAf F) (RSf F) p) u.
Definition unit_value_R (F : funs) := unit_value_for (RAf F) (RSf F).
Definition random_R (F : funs) := prior_random (RAf F) (RSf F).
Definition random_unit_R (F : funs) := random_unit (RAf F) (RSf F).
Definition lower_unit_R (F : funs) := lower_unit_limit (RAf F) (RSf F).
Definition upper_unit_R (F : funs) := upper_unit_limit (RAf F) (RSf F).

Ltac unfold_b :=
  unfold value_for_R, raw_value_R, unit_value_for, unit_value_R, random_R, random_unit_R, lower_unit_R, upper_unit_R, RAf, RSf in *;
  simpl f_Phi in *; simpl f_PhiInv in *; simpl f_erfinv in *; simpl f_round14 in *.
Ltac unbundle F HS :=
  destruct F as [Phi PhiInv erfinv round14]; destruct HS as [S1 [S2 [S3 [S4 S5]]]]; unfold_b.
Ltac unbundle0 F := destruct F as [Phi PhiInv erfinv round14]; unfold_b.

Lemma stack_monotone_b (F : funs) : special_ok F -> forall ts : list (transform R), Forall pos_scale ts ->
  forall x y, x <= y -> msg_inverse_transform (RAf F) (RSf F) ts x <= msg_inverse_transform (RAf F) (RSf F) ts y.
Proof. intro HS. unbundle F HS. apply stack_mono. exact S1. Qed.

Lemma stack_strict_b (F : funs) : special_ok F -> forall ts : list (transform R), Forall pos_scale ts ->
  forall x y, x < y -> msg_inverse_transform (RAf F) (RSf F) ts x < msg_inverse_transform (RAf F) (RSf F) ts y.
Proof. intro HS. unbundle F HS. apply stack_incr. exact S1. Qed.

Lemma stack_inverse_b (F : funs) : special_ok F -> forall ts : list (transform R), Forall pos_scale ts ->
  forall x, msg_transform (RAf F) (RSf F) ts (msg_inverse_transform (RAf F) (RSf F) ts x) = x.
Proof. intro HS. unbundle F HS. apply stack_inverse; assumption. Qed.

Lemma monotone_b (F : funs) : special_ok F -> round_ok F ->
  forall (var : variant) (p : prior R) (ig : bool) (u u' v v' : R),
  valid p -> 0 < u -> u <= u' -> u' < 1 ->
  value_for_R F var p ig u = Ok v -> value_for_R F var p ig u' = Ok v' -> v <= v'.
Proof. intros HS [R1 [R2 R3]]. unbundle F HS. apply returned_mono; assumption. Qed.

Lemma strict_message_b (F : funs) : special_ok F -> forall (p : prior R) (u v : R),
  valid p -> 0 < u -> u < v -> v < 1 -> raw_value_R F p u < raw_value_R F p v.
Proof. intro HS. unbundle F HS. apply raw_incr; assumption. Qed.

Lemma inverse_message_b (F : funs) : special_ok F -> forall (p : prior R) (u : R),
  valid p -> 0 < u < 1 -> unit_value_R F p (raw_value_R F p u) = u.
Proof. intro HS. unbundle F HS. apply raw_inverse; assumption. Qed.

Lemma inverse_returned_b (F : funs) : special_ok F -> forall (var : variant) (p : prior R) (ig : bool) (u v : R),
  valid p -> p_family p <> Uniform -> 0 < u < 1 -> value_for_R F var p ig u = Ok v -> unit_value_R F p v = u.
Proof. intro HS. unbundle F HS. eapply returned_inverse; eassumption. Qed.

Lemma inverse_uniform_b (F : funs) : special_ok F -> round_ok F ->
  forall (var : variant) (p : prior R) (ig : bool) (u v : R),
  p_family p = Uniform -> p_lo p < p_hi p -> 0 < u < 1 -> value_for_R F var p ig u = Ok v -> p_lo p < v < p_hi p ->
  unit_value_R F p v = (v - p_lo p) / (p_hi p - p_lo p) /\
  Rabs (unit_value_R F p v - u) <= 5 / 10 ^ 15 / (p_hi p - p_lo p).
Proof. intros HS [R1 [R2 R3]]. unbundle F HS. eapply uniform_returned_inverse; eassumption. Qed.

Lemma quantile_uniform_b (F : funs) : special_ok F -> forall (p : prior R) (u : R),
  p_family p = Uniform -> 0 < u < 1 -> raw_value_R F p u = p_lo p + u * (p_hi p - p_lo p).
Proof. intro HS. unbundle F HS. apply quantile_uniform; assumption. Qed.

Lemma quantile_loguniform_b (F : funs) : special_ok F -> forall (p : prior R) (u : R),
  p_family p = LogUniform -> 0 < p_lo p -> p_lo p < p_hi p -> 0 < u < 1 ->
  raw_value_R F p u = p_lo p * Rpower (p_hi p / p_lo p) u.
Proof. intro HS. unbundle F HS. apply quantile_loguniform; assumption. Qed.

Lemma quantile_gaussian_b (F : funs) : special_ok F -> forall (p : prior R) (u : R),
  p_family p = Gaussian -> 0 < u < 1 -> raw_value_R F p u = p_mean p + p_sigma p * f_PhiInv F u.
Proof. intro HS. unbundle F HS. apply quantile_gaussian; assumption. Qed.

Lemma quantile_loggaussian_b (F : funs) : special_ok F -> forall (p : prior R) (u : R),
  p_family p = LogGaussian -> 0 < u < 1 -> raw_value_R F p u = exp (p_mean p + p_sigma p * f_PhiInv F u).
Proof. intro HS. unbundle F HS. apply quantile_loggaussian; assumption. Qed.

Lemma gate_b (F : funs) (var : variant) (p : prior R) (u v : R) :
  p_family p <> Uniform -> value_for_R F var p false u = Ok v -> p_lo p <= v <= p_hi p.
Proof. unbundle0 F. apply gate_unrounded. Qed.

Lemma gate_raises_iff_b (F : funs) (var : variant) (p : prior R) (u : R) :
  value_for_R F var p false u = LimitExc <-> ~ (p_lo p <= raw_value_R F p u <= p_hi p).
Proof. unbundle0 F. apply gate_raises_iff. Qed.

Lemma gate_ignored_b (F : funs) (var : variant) (p : prior R) (u : R) :
  exists v, value_for_R F var p true u = Ok v.
Proof. unbundle0 F. apply gate_ignore_ok. Qed.

Lemma gate_uniform_partial_b (F : funs) : round_ok F -> forall (p : prior R) (u v : R),
  f_round14 F (p_lo p) = p_lo p -> f_round14 F (p_hi p) = p_hi p ->
  value_for_R F Current p false u = Ok v -> p_lo p <= v <= p_hi p.
Proof. intros [R1 [R2 R3]]. unbundle0 F. apply gate_uniform_current_partial. exact R1. Qed.

Lemma gate_repaired_b (F : funs) (p : prior R) (u v : R) :
  value_for_R F Repaired p false u = Ok v -> p_lo p <= v <= p_hi p.
Proof. unbundle0 F. apply gate_repaired. Qed.

Lemma endpoints_uniform_b (F : funs) (lo hi q : R) : lo < hi -> 0 <= q <= 1 ->
  lo <= msg_inverse_transform (RAf F) (RSf F) [TLinear lo (hi - lo)] q <= hi /\
  msg_inverse_transform (RAf F) (RSf F) [TLinear lo (hi - lo)] 0 = lo /\
  msg_inverse_transform (RAf F) (RSf F) [TLinear lo (hi - lo)] 1 = hi.
Proof. unbundle0 F. apply uniform_onto. Qed.

Lemma endpoints_loguniform_b (F : funs) (lo hi q : R) : 0 < lo -> lo < hi -> 0 <= q <= 1 ->
  let ts := [TLinear (log10R lo) (log10R (hi / lo)); TLog10] in
  lo <= msg_inverse_transform (RAf F) (RSf F) ts q <= hi /\
  msg_inverse_transform (RAf F) (RSf F) ts 0 = lo /\ msg_inverse_transform (RAf F) (RSf F) ts 1 = hi.
Proof. unbundle0 F. apply loguniform_onto. Qed.

Lemma bounded_families_tail_b (F : funs) (p : prior R) :
  (p_family p = Uniform -> m_transforms (message_of (RAf F) (RSf F) p) = TPhi :: [TLinear (p_lo p) (p_hi p - p_lo p)]) /\
  (p_family p = LogUniform -> m_transforms (message_of (RAf F) (RSf F) p) =
                              TPhi :: [TLinear (log10R (p_lo p)) (log10R (p_hi p / p_lo p)); TLog10]).
Proof. unbundle0 F. split; [apply uniform_tail | apply loguniform_tail]. Qed.

Lemma uniform_unit_limits_b (F : funs) : special_ok F -> forall p : prior R,
  p_family p = Uniform -> p_lo p < p_hi p -> lower_unit_R F p = Reps /\ upper_unit_R F p = 1 - Reps.
Proof. intro HS. unbundle F HS. apply uniform_unit_limits; assumption. Qed.

Lemma random_unit_between_b (F : funs) (p : prior R) (l u r : R) :
  Rmax l (lower_unit_R F p) <= Rmin u (upper_unit_R F p) -> 0 <= r <= 1 ->
  Rmax l (lower_unit_R F p) <= random_unit_R F p l u r <= Rmin u (upper_unit_R F p).
Proof. unbundle0 F. apply random_unit_between. Qed.

Lemma random_within_b (F : funs) : round_ok F -> forall (var : variant) (p : prior R) (l u r v : R),
  (p_family p <> Uniform \/ var = Repaired \/ (f_round14 F (p_lo p) = p_lo p /\ f_round14 F (p_hi p) = p_hi p)) ->
  random_R F var p l u r = Ok v -> p_lo p <= v <= p_hi p.
Proof. intros [R1 [R2 R3]]. unbundle0 F. apply random_within. exact R1. Qed.

Lemma random_gaussian_b (F : funs) : special_ok F -> forall (var : variant) (p : prior R) (l u r : R),
  p_family p = Gaussian -> 0 < p_sigma p -> p_lo p < p_hi p ->
  Rmax l (lower_unit_R F p) <= Rmin u (upper_unit_R F p) -> 0 <= r <= 1 ->
  exists v, random_R F var p l u r = Ok v /\ p_lo p <= v <= p_hi p.
Proof. intro HS. unbundle F HS. apply random_gaussian_ok; assumption. Qed.

Lemma random_bounded_b (F : funs) : special_ok F -> round_ok F -> forall (p : prior R) (l u r : R),
  (p_family p = Uniform \/ (p_family p = LogUniform /\ 0 < p_lo p)) -> p_lo p < p_hi p ->
  Rmax l (lower_unit_R F p) <= Rmin u (upper_unit_R F p) -> 0 <= r <= 1 ->
  exists v, random_R F Repaired p l u r = Ok v /\ p_lo p <= v <= p_hi p.
Proof. intros HS [R1 [R2 R3]]. unbundle F HS. apply random_bounded_ok; assumption. Qed.

Lemma loguniform_unit_limits_b (F : funs) : special_ok F -> forall p : prior R,
  p_family p = LogUniform -> 0 < p_lo p -> p_lo p < p_hi p -> lower_unit_R F p = Reps /\ upper_unit_R F p = 1 - Reps.
Proof. intro HS. unbundle F HS. apply loguniform_unit_limits; assumption. Qed.

Lemma random_loggaussian_b (F : funs) : special_ok F -> forall (var : variant) (p : prior R) (l u r : R),
  p_family p = LogGaussian -> 0 < p_sigma p -> 0 < p_lo p -> p_lo p < p_hi p ->
  Rmax l (lower_unit_R F p) <= Rmin u (upper_unit_R F p) -> 0 <= r <= 1 ->
  exists v, random_R F var p l u r = Ok v /\ p_lo p <= v <= p_hi p.
Proof. intro HS. unbundle F HS. apply random_loggaussian_ok; assumption. Qed.

(* closed ends: only the rounding is constrained; the special functions are arbitrary except for the stated value *)
Definition base_unit_R (F : funs) (u : R) : R := f_Phi F (normal_value_for (RAf F) (RSf F) 0 1 u).

Lemma value_at_zero_uniform_b (F : funs) : round_ok F -> forall p : prior R,
  p_family p = Uniform -> p_lo p < p_hi p -> base_unit_R F 0 = 0 ->
  exists v, value_for_R F Repaired p false 0 = Ok v /\ p_lo p <= v <= p_hi p /\ Rabs (v - p_lo p) <= 5 / 10 ^ 15.
Proof. intros [R1 [R2 R3]]. unfold base_unit_R. unbundle0 F. apply value_at_zero_uniform; assumption. Qed.

Lemma value_at_one_uniform_b (F : funs) : round_ok F -> forall p : prior R,
  p_family p = Uniform -> p_lo p < p_hi p -> base_unit_R F 1 = 1 ->
  exists v, value_for_R F Repaired p false 1 = Ok v /\ p_lo p <= v <= p_hi p /\ Rabs (v - p_hi p) <= 5 / 10 ^ 15.
Proof. intros [R1 [R2 R3]]. unfold base_unit_R. unbundle0 F. apply value_at_one_uniform; assumption. Qed.

Lemma value_at_ends_loguniform_b (F : funs) : round_ok F -> forall p : prior R,
  p_family p = LogUniform -> 0 < p_lo p -> p_lo p < p_hi p ->
  (base_unit_R F 0 = 0 -> value_for_R F Repaired p false 0 = Ok (p_lo p)) /\
  (base_unit_R F 1 = 1 -> value_for_R F Repaired p false 1 = Ok (p_hi p)).
Proof. intros [R1 [R2 R3]]. unfold base_unit_R. unbundle0 F. apply value_at_ends_loguniform; assumption. Qed.
