(* C02 property theorems: statements only, each closed by `exact`. (placeholder while building) *)
From Coq Require Import List.
From PAFC02 Require Import Model.
