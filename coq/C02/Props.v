(* C02 property theorems: statements only, each closed by `exact`.

   Reading guide.  [value_for_R F var p ig u] is Model.prior_value_for -- Prior.value_for(u,
   ignore_prior_limits = ig) of prior [p] -- instantiated with the reals; [F] packs the external
   functions (ndtr = Phi, ndtri = PhiInv, erfinv, 14-decimal rounding), [special_ok F] / [round_ok F]
   are the assumptions made about them (ProofsB.v).  [raw_value_R] is message.value_for,
   [unit_value_R] is Prior.unit_value_for.  [var] is the variant of UniformPrior.value_for:
   [Current] = /repo as it is (round after the limit check), [Repaired] = proposed fix.
   [valid p]: lower < upper, sigma > 0 (gaussian families), 0 < lower (log-uniform).
   Theorems over R quantify over unit values strictly inside (0,1). *)
From Coq Require Import Reals List QArith.
From PAFC02 Require Import Model Proofs ProofsQ ProofsB Machine ProofsM.
Import ListNotations.
Open Scope R_scope.

(* ---- arbitrary transform stacks (induction over the list of transforms) ---- *)

Theorem C02_stack_monotone : forall F : funs, special_ok F ->
  forall ts : list (transform R), Forall pos_scale ts ->
  forall x y : R, x <= y ->
  msg_inverse_transform (RAf F) (RSf F) ts x <= msg_inverse_transform (RAf F) (RSf F) ts y.
Proof. exact stack_monotone_b. Qed.

Theorem C02_stack_inverse : forall F : funs, special_ok F ->
  forall ts : list (transform R), Forall pos_scale ts ->
  forall x : R, msg_transform (RAf F) (RSf F) ts (msg_inverse_transform (RAf F) (RSf F) ts x) = x.
Proof. exact stack_inverse_b. Qed.

(* ---- monotone ---- *)

(* what Prior.value_for returns is non-decreasing in the unit value: all four families, limits enforced
   or ignored, current and repaired rounding *)
Theorem C02_monotone : forall F : funs, special_ok F -> round_ok F ->
  forall (var : variant) (p : prior R) (ig : bool) (u u' v v' : R),
  valid p -> 0 < u -> u <= u' -> u' < 1 ->
  value_for_R F var p ig u = Ok v -> value_for_R F var p ig u' = Ok v' -> v <= v'.
Proof. exact monotone_b. Qed.

(* the message value is even strictly increasing (distinct unit values give distinct physical values) *)
Theorem C02_message_strictly_increasing : forall F : funs, special_ok F ->
  forall (p : prior R) (u v : R), valid p -> 0 < u -> u < v -> v < 1 -> raw_value_R F p u < raw_value_R F p v.
Proof. exact strict_message_b. Qed.

(* ---- inverted by unit_value_for ---- *)

Theorem C02_inverse_message : forall F : funs, special_ok F ->
  forall (p : prior R) (u : R), valid p -> 0 < u < 1 -> unit_value_R F p (raw_value_R F p u) = u.
Proof. exact inverse_message_b. Qed.

Theorem C02_inverse : forall F : funs, special_ok F ->
  forall (var : variant) (p : prior R) (ig : bool) (u v : R),
  valid p -> p_family p <> Uniform -> 0 < u < 1 -> value_for_R F var p ig u = Ok v -> unit_value_R F p v = u.
Proof. exact inverse_returned_b. Qed.

(* uniform prior: up to the rounding to 14 decimals *)
Theorem C02_inverse_uniform_partial : forall F : funs, special_ok F -> round_ok F ->
  forall (var : variant) (p : prior R) (ig : bool) (u v : R),
  p_family p = Uniform -> p_lo p < p_hi p -> 0 < u < 1 -> value_for_R F var p ig u = Ok v -> p_lo p < v < p_hi p ->
  unit_value_R F p v = (v - p_lo p) / (p_hi p - p_lo p) /\
  Rabs (unit_value_R F p v - u) <= 5 / 10 ^ 15 / (p_hi p - p_lo p).
Proof. exact inverse_uniform_b. Qed.

(* ---- quantile function of the declared distribution ---- *)

Theorem C02_quantile_uniform : forall F : funs, special_ok F -> forall (p : prior R) (u : R),
  p_family p = Uniform -> 0 < u < 1 -> raw_value_R F p u = p_lo p + u * (p_hi p - p_lo p).
Proof. exact quantile_uniform_b. Qed.

Theorem C02_quantile_loguniform : forall F : funs, special_ok F -> forall (p : prior R) (u : R),
  p_family p = LogUniform -> 0 < p_lo p -> p_lo p < p_hi p -> 0 < u < 1 ->
  raw_value_R F p u = p_lo p * Rpower (p_hi p / p_lo p) u.
Proof. exact quantile_loguniform_b. Qed.

Theorem C02_quantile_gaussian : forall F : funs, special_ok F -> forall (p : prior R) (u : R),
  p_family p = Gaussian -> 0 < u < 1 -> raw_value_R F p u = p_mean p + p_sigma p * f_PhiInv F u.
Proof. exact quantile_gaussian_b. Qed.

Theorem C02_quantile_loggaussian : forall F : funs, special_ok F -> forall (p : prior R) (u : R),
  p_family p = LogGaussian -> 0 < u < 1 -> raw_value_R F p u = exp (p_mean p + p_sigma p * f_PhiInv F u).
Proof. exact quantile_loggaussian_b. Qed.

(* the two bounded families map the CLOSED probability interval onto [lower, upper]; end points included *)
Theorem C02_endpoints_uniform : forall (F : funs) (lo hi q : R), lo < hi -> 0 <= q <= 1 ->
  lo <= msg_inverse_transform (RAf F) (RSf F) [TLinear lo (hi - lo)] q <= hi /\
  msg_inverse_transform (RAf F) (RSf F) [TLinear lo (hi - lo)] 0 = lo /\
  msg_inverse_transform (RAf F) (RSf F) [TLinear lo (hi - lo)] 1 = hi.
Proof. exact endpoints_uniform_b. Qed.

Theorem C02_endpoints_loguniform : forall (F : funs) (lo hi q : R), 0 < lo -> lo < hi -> 0 <= q <= 1 ->
  let ts := [TLinear (log10R lo) (log10R (hi / lo)); TLog10] in
  lo <= msg_inverse_transform (RAf F) (RSf F) ts q <= hi /\
  msg_inverse_transform (RAf F) (RSf F) ts 0 = lo /\ msg_inverse_transform (RAf F) (RSf F) ts 1 = hi.
Proof. exact endpoints_loguniform_b. Qed.

(* ---- the limit gate ---- *)

Theorem C02_gate : forall (F : funs) (var : variant) (p : prior R) (u v : R),
  p_family p <> Uniform -> value_for_R F var p false u = Ok v -> p_lo p <= v <= p_hi p.
Proof. exact gate_b. Qed.

Theorem C02_gate_raises_iff : forall (F : funs) (var : variant) (p : prior R) (u : R),
  value_for_R F var p false u = LimitExc <-> ~ (p_lo p <= raw_value_R F p u <= p_hi p).
Proof. exact gate_raises_iff_b. Qed.

Theorem C02_gate_ignored : forall (F : funs) (var : variant) (p : prior R) (u : R),
  exists v, value_for_R F var p true u = Ok v.
Proof. exact gate_ignored_b. Qed.

(* code before 9c8aefe: the gate only filtered (any number type incl. binary64) *)
Theorem C02_before_fix_gate_transparent : forall (N : Type) (A : Arith N) (S : Special N) (p : prior N) (u v : N),
  prior_value_for A S Current p false u = Ok v -> prior_value_for A S Current p true u = Ok v.
Proof. exact @gate_transparent. Qed.

(* UniformPrior: FULL statement "a returned value lies within the limits" over exact rationals with the exact
   decimal rounding: proved for the code as it is (C02_uniform_within_limits); for the code before 9c8aefe it was
   refuted and held only under the guard *)
Theorem C02_before_fix_uniform_within_limits_refuted : ~ uniform_within_limits Current.
Proof. exact uniform_within_limits_current_refuted. Qed.

Theorem C02_before_fix_uniform_within_limits_partial : forall (p : prior Q) (x r : Q),
  (round14_Q (p_lo p) == p_lo p)%Q -> (round14_Q (p_hi p) == p_hi p)%Q ->
  post QA Current p false x = Ok r -> (p_lo p <= r /\ r <= p_hi p)%Q.
Proof. exact uniform_within_limits_current_partial. Qed.

Theorem C02_uniform_within_limits : uniform_within_limits Repaired.
Proof. exact uniform_within_limits_repaired. Qed.

(* the same over the reals for any monotone rounding *)
Theorem C02_before_fix_gate_uniform_partial : forall F : funs, round_ok F -> forall (p : prior R) (u v : R),
  f_round14 F (p_lo p) = p_lo p -> f_round14 F (p_hi p) = p_hi p ->
  value_for_R F Current p false u = Ok v -> p_lo p <= v <= p_hi p.
Proof. exact gate_uniform_partial_b. Qed.

Theorem C02_gate_uniform : forall (F : funs) (p : prior R) (u v : R),
  value_for_R F Repaired p false u = Ok v -> p_lo p <= v <= p_hi p.
Proof. exact gate_repaired_b. Qed.

(* the assumptions made about the rounding are met by the exact decimal rounding *)
Theorem C02_round14_mono : forall x y : Q, (x <= y)%Q -> (round14_Q x <= round14_Q y)%Q.
Proof. exact round14_Q_mono. Qed.

Theorem C02_round14_idem : forall x : Q, (round14_Q (round14_Q x) == round14_Q x)%Q.
Proof. exact round14_Q_idem. Qed.

Theorem C02_round14_err : forall x : Q, (Qabs.Qabs (round14_Q x - x) <= 5 # 1000000000000000)%Q.
Proof. exact round14_Q_err. Qed.

(* ---- random draws ---- *)

Theorem C02_uniform_unit_limits : forall F : funs, special_ok F -> forall p : prior R,
  p_family p = Uniform -> p_lo p < p_hi p -> lower_unit_R F p = Reps /\ upper_unit_R F p = 1 - Reps.
Proof. exact uniform_unit_limits_b. Qed.

Theorem C02_random_unit_between : forall (F : funs) (p : prior R) (l u r : R),
  Rmax l (lower_unit_R F p) <= Rmin u (upper_unit_R F p) -> 0 <= r <= 1 ->
  Rmax l (lower_unit_R F p) <= random_unit_R F p l u r <= Rmin u (upper_unit_R F p).
Proof. exact random_unit_between_b. Qed.

Theorem C02_random_within : forall F : funs, round_ok F -> forall (var : variant) (p : prior R) (l u r v : R),
  (p_family p <> Uniform \/ var = Repaired \/ (f_round14 F (p_lo p) = p_lo p /\ f_round14 F (p_hi p) = p_hi p)) ->
  random_R F var p l u r = Ok v -> p_lo p <= v <= p_hi p.
Proof. exact random_within_b. Qed.

Theorem C02_random_gaussian_never_raises : forall F : funs, special_ok F ->
  forall (var : variant) (p : prior R) (l u r : R),
  p_family p = Gaussian -> 0 < p_sigma p -> p_lo p < p_hi p ->
  Rmax l (lower_unit_R F p) <= Rmin u (upper_unit_R F p) -> 0 <= r <= 1 ->
  exists v, random_R F var p l u r = Ok v /\ p_lo p <= v <= p_hi p.
Proof. exact random_gaussian_b. Qed.

(* the code as it is: enforcing the limits changes a value exactly where the rounding would leave the limits *)
Theorem C02_gate_transparent_refuted : ~ gate_transparent_at_post Repaired.
Proof. exact gate_transparent_repaired_refuted. Qed.

Theorem C02_gate_transparent_partial : forall (N : Type) (A : Arith N) (S : Special N) (p : prior N) (u v : N),
  (p_family p <> Uniform \/ within A p (a_round14 A (msg_value_for A S (message_of A S p) u)) = true) ->
  prior_value_for A S Repaired p false u = Ok v -> prior_value_for A S Repaired p true u = Ok v.
Proof. exact @gate_transparent_repaired_partial. Qed.

(* LogUniformPrior since e638353: the scale is log10 upper - log10 lower whichever branch the overflow guard takes *)
Theorem C02_loguniform_scale : forall (fin : R -> bool) (Phi PhiInv erfinv round14 : R -> R) (lo hi : R), 0 < lo -> 0 < hi ->
  loguniform_scale (mkArith R Rplus Rminus Rmult Rdiv Rleb Rltb 0 1 2 (sqrt 2) Reps round14 fin) (RS Phi PhiInv erfinv)
                   LURatioGuard lo hi = log10R hi - log10R lo.
Proof. exact loguniform_scale_guarded. Qed.

(* ---- the closed ends u = 0 and u = 1 (no assumption on the special functions but the stated value) ---- *)

Theorem C02_value_for_at_zero_uniform : forall F : funs, round_ok F -> forall p : prior R,
  p_family p = Uniform -> p_lo p < p_hi p -> base_unit_R F 0 = 0 ->
  exists v, value_for_R F Repaired p false 0 = Ok v /\ p_lo p <= v <= p_hi p /\ Rabs (v - p_lo p) <= 5 / 10 ^ 15.
Proof. exact value_at_zero_uniform_b. Qed.

Theorem C02_value_for_at_one_uniform : forall F : funs, round_ok F -> forall p : prior R,
  p_family p = Uniform -> p_lo p < p_hi p -> base_unit_R F 1 = 1 ->
  exists v, value_for_R F Repaired p false 1 = Ok v /\ p_lo p <= v <= p_hi p /\ Rabs (v - p_hi p) <= 5 / 10 ^ 15.
Proof. exact value_at_one_uniform_b. Qed.

Theorem C02_value_for_at_ends_loguniform : forall F : funs, round_ok F -> forall p : prior R,
  p_family p = LogUniform -> 0 < p_lo p -> p_lo p < p_hi p ->
  (base_unit_R F 0 = 0 -> value_for_R F Repaired p false 0 = Ok (p_lo p)) /\
  (base_unit_R F 1 = 1 -> value_for_R F Repaired p false 1 = Ok (p_hi p)).
Proof. exact value_at_ends_loguniform_b. Qed.

(* ---- random draws never raise (exact arithmetic) ---- *)

Theorem C02_loguniform_unit_limits : forall F : funs, special_ok F -> forall p : prior R,
  p_family p = LogUniform -> 0 < p_lo p -> p_lo p < p_hi p -> lower_unit_R F p = Reps /\ upper_unit_R F p = 1 - Reps.
Proof. exact loguniform_unit_limits_b. Qed.

Theorem C02_random_bounded_never_raises : forall F : funs, special_ok F -> round_ok F -> forall (p : prior R) (l u r : R),
  (p_family p = Uniform \/ (p_family p = LogUniform /\ 0 < p_lo p)) -> p_lo p < p_hi p ->
  Rmax l (lower_unit_R F p) <= Rmin u (upper_unit_R F p) -> 0 <= r <= 1 ->
  exists v, random_R F Repaired p l u r = Ok v /\ p_lo p <= v <= p_hi p.
Proof. exact random_bounded_b. Qed.

(* lower limit > 0 only: for the default lower limit 0 the code evaluates np.log(0) = -inf, outside the real model *)
Theorem C02_random_loggaussian_never_raises : forall F : funs, special_ok F ->
  forall (var : variant) (p : prior R) (l u r : R),
  p_family p = LogGaussian -> 0 < p_sigma p -> 0 < p_lo p -> p_lo p < p_hi p ->
  Rmax l (lower_unit_R F p) <= Rmin u (upper_unit_R F p) -> 0 <= r <= 1 ->
  exists v, random_R F var p l u r = Ok v /\ p_lo p <= v <= p_hi p.
Proof. exact random_loggaussian_b. Qed.

(* ---- vector_from_unit_vector: value_for position by position (any number type) ---- *)

Theorem C02_vector : forall (N : Type) (A : Arith N) (S : Special N) (var : variant) (ig : bool)
  (ps : list (prior N)) (us vs : list N),
  vector_for A S var ig ps us = VOk vs ->
  length vs = Nat.min (length ps) (length us) /\
  forall i p u, nth_error ps i = Some p -> nth_error us i = Some u ->
    exists v, nth_error vs i = Some v /\ prior_value_for A S var p ig u = Ok v.
Proof. exact @vector_for_ok. Qed.

Theorem C02_vector_raises : forall (N : Type) (A : Arith N) (S : Special N) (var : variant) (ig : bool)
  (ps : list (prior N)) (us : list N),
  vector_for A S var ig ps us = VLimitExc ->
  exists i p u, nth_error ps i = Some p /\ nth_error us i = Some u /\ prior_value_for A S var p ig u = LimitExc.
Proof. exact @vector_for_raises. Qed.

(* ---- one prior object used several times (Machine.v): the answer depends on the current inputs only ---- *)

(* any memo that is sound (hands back only what a fresh computation with the current limits gives) is unobservable:
   every history of uses and limit re-assignments answers exactly as the memo-less object *)
Theorem C02_history_independent : forall (N : Type) (A : Arith N) (S : Special N) (var : variant)
  (P : policy (N := N)) (pm : prior N), sound A S var P pm ->
  forall (ops : list (op (N := N))) (pg : prior N),
    run A S var P pm pg (c_empty P) ops = run A S var no_cache pm pg tt ops.
Proof. exact @history_independent. Qed.

(* the answer of a use after ANY history is the fresh answer for the limits then in force *)
Theorem C02_use_depends_on_current_inputs_only : forall (N : Type) (A : Arith N) (S : Special N) (var : variant)
  (P : policy (N := N)) (pm : prior N), sound A S var P pm ->
  forall (ops : list (op (N := N))) (pg : prior N) (q : query (N := N)),
    last (run A S var P pm pg (c_empty P) (ops ++ [Use q])) None
    = Some (fresh A S var pm (gate_after pg ops) q).
Proof. exact @last_use_depends_on_current_inputs_only. Qed.

Theorem C02_same_current_inputs_same_answer : forall (N : Type) (A : Arith N) (S : Special N) (var : variant)
  (P : policy (N := N)) (pm : prior N), sound A S var P pm ->
  forall (ops1 ops2 : list (op (N := N))) (pg : prior N) (q : query (N := N)),
    gate_after pg ops1 = gate_after pg ops2 ->
    last (run A S var P pm pg (c_empty P) (ops1 ++ [Use q])) None =
    last (run A S var P pm pg (c_empty P) (ops2 ++ [Use q])) None.
Proof. exact @same_current_inputs_same_answer. Qed.

(* the limit gate follows the limits in force at the time of the call, whatever happened to the object before *)
Theorem C02_gate_follows_current_limits : forall (N : Type) (A : Arith N) (S : Special N)
  (P : policy (N := N)) (pm : prior N), sound A S Repaired P pm ->
  forall (ops : list (op (N := N))) (pg : prior N) (u v : N),
    last (run A S Repaired P pm pg (c_empty P) (ops ++ [Use (QValue false u)])) None = Some (AResult (Ok v)) ->
    within A (gate_after pg ops) v = true.
Proof. exact @gate_follows_current_limits. Qed.

(* a memo keyed by the query alone (limits not in the key, never invalidated) IS observable *)
Theorem C02_memo_by_query_refuted : forall (N : Type) (A : Arith N) (S : Special N) (var : variant)
  (qeqb : query (N := N) -> query (N := N) -> bool) (pm pg : prior N) (lo hi : N) (q : query (N := N)),
  qeqb q q = true ->
  fresh A S var pm pg q <> fresh A S var pm (set_limits pg lo hi) q ->
  run A S var (by_query qeqb) pm pg [] [Use q; SetLimits lo hi; Use q] <>
  run A S var no_cache pm pg tt [Use q; SetLimits lo hi; Use q].
Proof. exact @by_query_refuted. Qed.

Print Assumptions C02_monotone.
Print Assumptions C02_inverse_message.
Print Assumptions C02_quantile_loguniform.
Print Assumptions C02_before_fix_uniform_within_limits_refuted.
Print Assumptions C02_vector.
Print Assumptions C02_history_independent.
Print Assumptions C02_gate_follows_current_limits.
Print Assumptions C02_memo_by_query_refuted.
