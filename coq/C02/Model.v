(* C02 model: the four prior families as the transform stacks the code builds
   (autofit/mapper/prior/{abstract,uniform,log_uniform,gaussian,log_gaussian}.py,
   autofit/messages/{normal,composed_transform,transform}.py).

   Every definition is written ONCE, generically over a number type [N] with an
   arithmetic interface [Arith N] and the external special functions [Special N]
   (erfinv, ndtr, ndtri, log10, 10**x, exp, log -- scipy/numpy in the code).
   - Instantiated with binary64 ([FArith], [FSpecial tbl]: special functions are a finite
     oracle table supplied per case by the harness from scipy/numpy directly) it is
     executed by vm_compute and compared bit-for-bit with the implementation.
   - Instantiated with the reals (Proofs.v) the theorems of Props.v are proved about the
     very same Gallina terms.
   Executable definitions only; proofs are in Proofs*.v. *)
From Coq Require Import ZArith List Bool.
From Coq Require Import Floats.PrimFloat Floats.FloatOps Floats.SpecFloat.
From PAFCommon Require Import PyFloat.
Import ListNotations.

Record Arith (N : Type) := mkArith {
  a_add : N -> N -> N;
  a_sub : N -> N -> N;
  a_mul : N -> N -> N;
  a_div : N -> N -> N;
  a_leb : N -> N -> bool;          (* Python a <= b (False on nan) *)
  a_ltb : N -> N -> bool;          (* Python a <  b *)
  a_zero : N;
  a_one : N;
  a_two : N;
  a_sqrt2 : N;                     (* np.sqrt(2) *)
  a_eps : N;                       (* transform.epsilon = 1e-14 *)
  a_round14 : N -> N;              (* float(round(np.float64, 14)) *)
  a_finite : N -> bool             (* np.isfinite *)
}.

Record Special (N : Type) := mkSpecial {
  s_erfinv : N -> N;               (* scipy.special.cython_special.erfinv *)
  s_ndtr : N -> N;                 (* scipy.special.ndtr (standard normal CDF) *)
  s_ndtri : N -> N;                (* scipy.special.ndtri (its inverse) *)
  s_log10 : N -> N;                (* np.log10 *)
  s_pow10 : N -> N;                (* 10 ** x *)
  s_exp : N -> N;                  (* np.exp *)
  s_ln : N -> N                    (* np.log *)
}.

Arguments a_add {N}. Arguments a_sub {N}. Arguments a_mul {N}. Arguments a_div {N}.
Arguments a_leb {N}. Arguments a_ltb {N}. Arguments a_zero {N}. Arguments a_one {N}.
Arguments a_two {N}. Arguments a_sqrt2 {N}. Arguments a_eps {N}. Arguments a_round14 {N}.
Arguments a_finite {N}.
Arguments s_erfinv {N}. Arguments s_ndtr {N}. Arguments s_ndtri {N}. Arguments s_log10 {N}.
Arguments s_pow10 {N}. Arguments s_exp {N}. Arguments s_ln {N}.

Inductive family := Uniform | LogUniform | Gaussian | LogGaussian.

(* which UniformPrior.value_for is modelled: [Repaired] = the code as it is since 9c8aefe (the rounding is kept
   only when it stays within the limits); [Current] = the code before that commit (round after the limit check),
   kept as the record of the finding *)
Inductive variant := Current | Repaired.

(* which LogUniformPrior.__init__ is modelled: [LURatioGuard] = the code as it is since e638353
   (log10(upper) - log10(lower) when upper / lower overflows); [LUCurrent] = the code before (scale = log10(upper / lower)),
   kept as the record of the finding *)
Inductive lu_variant := LUCurrent | LURatioGuard.
Definition loguniform_variant : lu_variant := LURatioGuard.

Inductive transform (N : Type) :=
| TPhi                              (* phi_transform  = FunctionTransform(ndtri, ndtr, ...) *)
| TLinear (shift scale : N)         (* LinearShiftTransform(shift, scale) *)
| TLog10                            (* log_10_transform = FunctionTransform(np.log10, 10**x, ...) *)
| TLog.                             (* log_transform  = FunctionTransform(np.log, np.exp, ...) *)
Arguments TPhi {N}. Arguments TLinear {N}. Arguments TLog10 {N}. Arguments TLog {N}.

Record message (N : Type) := mkMessage {
  m_mean : N; m_sigma : N;          (* the base NormalMessage *)
  m_transforms : list (transform N) (* TransformedMessage.transforms, applied left to right *)
}.
Arguments mkMessage {N}. Arguments m_mean {N}. Arguments m_sigma {N}. Arguments m_transforms {N}.

Record prior (N : Type) := mkPrior {
  p_family : family;
  p_mean : N; p_sigma : N;          (* Gaussian / LogGaussian only *)
  p_lo : N; p_hi : N                (* lower_limit, upper_limit *)
}.
Arguments mkPrior {N}. Arguments p_family {N}. Arguments p_mean {N}. Arguments p_sigma {N}.
Arguments p_lo {N}. Arguments p_hi {N}.

Inductive result (N : Type) := Ok (v : N) | LimitExc.   (* value | exc.PriorLimitException *)
Arguments Ok {N}. Arguments LimitExc {N}.

Inductive vresult (N : Type) := VOk (vs : list N) | VLimitExc.
Arguments VOk {N}. Arguments VLimitExc {N}.

Section Generic.
  Context {N : Type} (A : Arith N) (S : Special N).

  Local Notation "x + y" := (a_add A x y).
  Local Notation "x - y" := (a_sub A x y).
  Local Notation "x * y" := (a_mul A x y).
  Local Notation "x / y" := (a_div A x y).
  Local Notation zero := (a_zero A).
  Local Notation one := (a_one A).
  Local Notation two := (a_two A).
  Local Notation eps := (a_eps A).

  (* transform.ndtri: x[(x <= 0) & (x >= -epsilon)] = epsilon; x[(x >= 1) & (x <= 1 + epsilon)] = 1 - epsilon *)
  Definition clamp_unit (x : N) : N :=
    let x1 := if a_leb A x zero && a_leb A (zero - eps) x then eps else x in
    if a_leb A one x1 && a_leb A x1 (one + eps) then one - eps else x1.

  (* AbstractDensityTransform.inv_transform (base space -> transformed space) *)
  Definition inv_transform (t : transform N) (x : N) : N :=
    match t with
    | TPhi => s_ndtr S x
    | TLinear shift scale => x * scale + shift
    | TLog10 => s_pow10 S x
    | TLog => s_exp S x
    end.

  (* AbstractDensityTransform.transform (transformed space -> base space) *)
  Definition fwd_transform (t : transform N) (x : N) : N :=
    match t with
    | TPhi => s_ndtri S (clamp_unit x)
    | TLinear shift scale => (x - shift) / scale
    | TLog10 => s_log10 S x
    | TLog => s_ln S x
    end.

  (* TransformedMessage._inverse_transform: for t in transforms: x = t.inv_transform(x) *)
  Definition msg_inverse_transform (ts : list (transform N)) (x : N) : N :=
    fold_left (fun acc t => inv_transform t acc) ts x.

  (* TransformedMessage._transform: for t in reversed(transforms): x = t.transform(x) *)
  Definition msg_transform (ts : list (transform N)) (x : N) : N :=
    fold_left (fun acc t => fwd_transform t acc) (rev ts) x.

  (* NormalMessage.value_for: mean + (sigma * sqrt(2) * erfinv(1 - 2.0 * (1.0 - unit))) *)
  Definition normal_value_for (mu sigma u : N) : N :=
    mu + (sigma * a_sqrt2 A) * s_erfinv S (one - two * (one - u)).

  (* NormalMessage.cdf = scipy.stats.norm.cdf(x, loc, scale) = ndtr((x - loc) / scale) *)
  Definition normal_cdf (mu sigma x : N) : N := s_ndtr S ((x - mu) / sigma).

  (* TransformedMessage.value_for (@inverse_transform) / NormalMessage.value_for *)
  Definition msg_value_for (m : message N) (u : N) : N :=
    msg_inverse_transform (m_transforms m) (normal_value_for (m_mean m) (m_sigma m) u).

  (* TransformedMessage.cdf (@transform) / NormalMessage.cdf *)
  Definition msg_cdf (m : message N) (x : N) : N :=
    normal_cdf (m_mean m) (m_sigma m) (msg_transform (m_transforms m) x).

  (* LogUniformPrior.__init__: scale of the linear shift *)
  Definition loguniform_scale (lv : lu_variant) (lo hi : N) : N :=
    match lv with
    | LUCurrent => s_log10 S (hi / lo)
    | LURatioGuard => if a_finite A (hi / lo) then s_log10 S (hi / lo) else s_log10 S hi - s_log10 S lo
    end.

  (* the message each prior constructor builds *)
  Definition message_of (p : prior N) : message N :=
    match p_family p with
    | Uniform =>
        mkMessage zero one [TPhi; TLinear (p_lo p) (p_hi p - p_lo p)]
    | LogUniform =>
        mkMessage zero one [TPhi; TLinear (s_log10 S (p_lo p)) (loguniform_scale loguniform_variant (p_lo p) (p_hi p)); TLog10]
    | Gaussian => mkMessage (p_mean p) (p_sigma p) []
    | LogGaussian => mkMessage (p_mean p) (p_sigma p) [TLog]
    end.

  (* Prior.assert_within_limits: lower_limit <= value <= upper_limit *)
  Definition within (p : prior N) (v : N) : bool := a_leb A (p_lo p) v && a_leb A v (p_hi p).

  Definition checked (p : prior N) (ignore : bool) (v : N) : result N :=
    if ignore then Ok v else if within p v then Ok v else LimitExc.

  (* UniformPrior.value_for: float(round(super().value_for(...), 14)) -- after the check *)
  Definition uniform_round (var : variant) (p : prior N) (ignore : bool) (v : N) : N :=
    match var with
    | Current => a_round14 A v
    | Repaired => let r := a_round14 A v in if ignore || within p r then r else v
    end.

  (* everything Prior.value_for does after message.value_for *)
  Definition post (var : variant) (p : prior N) (ignore : bool) (x : N) : result N :=
    match checked p ignore x with
    | Ok v => Ok (match p_family p with Uniform => uniform_round var p ignore v | _ => v end)
    | LimitExc => LimitExc
    end.

  (* Prior.value_for(unit, ignore_prior_limits) *)
  Definition prior_value_for (var : variant) (p : prior N) (ignore : bool) (u : N) : result N :=
    post var p ignore (msg_value_for (message_of p) u).

  (* Prior.unit_value_for = message.cdf *)
  Definition unit_value_for (p : prior N) (x : N) : N := msg_cdf (message_of p) x.
  Definition lower_unit_limit (p : prior N) : N := unit_value_for p (p_lo p).
  Definition upper_unit_limit (p : prior N) : N := unit_value_for p (p_hi p).

  Definition pymax (a b : N) : N := if a_ltb A a b then b else a.   (* max(a, b) *)
  Definition pymin (a b : N) : N := if a_ltb A b a then b else a.   (* min(a, b) *)

  (* random.uniform(a, b) = a + (b - a) * random() with r = random() *)
  Definition random_unit (p : prior N) (l u r : N) : N :=
    let a := pymax l (lower_unit_limit p) in
    let b := pymin u (upper_unit_limit p) in
    a + (b - a) * r.

  (* Prior.random(lower_limit, upper_limit) *)
  Definition prior_random (var : variant) (p : prior N) (l u r : N) : result N :=
    prior_value_for var p false (random_unit p l u r).

  (* priors whose message is not the one their own constructor would build: [pm] supplies the message, [pg] the
     class (rounding) and the limits of the gate.  For pm = pg these are the functions above.  Before d755794
     Prior.with_limits produced such priors (it kept the message of the prior it was derived from); since that commit
     every prior the code can build has pm = pg and these definitions only serve the legacy witness. *)
  Definition dprior_value_for (var : variant) (pm pg : prior N) (ignore : bool) (u : N) : result N :=
    post var pg ignore (msg_value_for (message_of pm) u).
  Definition drandom_unit (pm pg : prior N) (l u r : N) : N :=
    let a := pymax l (unit_value_for pm (p_lo pg)) in
    let b := pymin u (unit_value_for pm (p_hi pg)) in
    a + (b - a) * r.
  Definition dprior_random (var : variant) (pm pg : prior N) (l u r : N) : result N :=
    dprior_value_for var pm pg false (drandom_unit pm pg l u r).

  (* AbstractPriorModel.vector_from_unit_vector: priors in id order, zipped with the unit vector *)
  Fixpoint vector_for (var : variant) (ignore : bool) (ps : list (prior N)) (us : list N) : vresult N :=
    match ps, us with
    | p :: ps', u :: us' =>
        match prior_value_for var p ignore u with
        | LimitExc => VLimitExc
        | Ok v => match vector_for var ignore ps' us' with
                  | VLimitExc => VLimitExc
                  | VOk vs => VOk (v :: vs)
                  end
        end
    | _, _ => VOk []
    end.
End Generic.

(* ------------------------------------------------------------------------------------ *)
(* binary64 instance                                                                     *)
(* ------------------------------------------------------------------------------------ *)

Definition fsign (x : float) : bool :=
  match Prim2SF x with
  | S754_zero s | S754_infinity s | S754_finite s _ _ => s
  | S754_nan => false
  end.

Definition two52 : float := 0x1p+52%float.
Definition ten14 : float := 0x1.6bcc41e9p+46%float.       (* 10.0 ** 14, exact *)
Definition feps : float := 0x1.6849b86a12b9bp-47%float.   (* 1e-14 *)

(* np.rint on binary64: nearest integer, ties to even, sign of the argument kept *)
Definition frint (x : float) : float :=
  let a := PrimFloat.abs x in
  if PrimFloat.ltb a two52
  then let r := PrimFloat.sub (PrimFloat.add a two52) two52 in
       if fsign x then PrimFloat.opp r else r
  else x.                                                 (* already integral, or inf / nan *)

(* numpy scalar __round__(14): multiply by 1e14, rint, divide by 1e14 *)
Definition fround14 (x : float) : float :=
  PrimFloat.div (frint (PrimFloat.mul x ten14)) ten14.

Definition FArith : Arith float :=
  mkArith float PrimFloat.add PrimFloat.sub PrimFloat.mul PrimFloat.div PrimFloat.leb PrimFloat.ltb
          0%float 1%float 2%float (PrimFloat.sqrt 2%float) feps fround14 ffinite.

(* oracle table: (function id, argument, value); ids: 1 erfinv 2 ndtr 3 ndtri 4 log10 5 pow10 6 exp 7 log *)
Definition table := list (positive * float * float).

Fixpoint tlookup (t : table) (fn : positive) (x : float) : float :=
  match t with
  | [] => nan                                             (* missing entry: fail closed *)
  | (f, a, v) :: t' => if Pos.eqb f fn && fbits_eqb a x then v else tlookup t' fn x
  end.

Definition FSpecial (t : table) : Special float :=
  mkSpecial float (tlookup t 1) (tlookup t 2) (tlookup t 3) (tlookup t 4) (tlookup t 5)
            (tlookup t 6) (tlookup t 7).

(* ------------------------------------------------------------------------------------ *)
(* correspondence cases: abstract input + what the implementation returned               *)
(* ------------------------------------------------------------------------------------ *)

(* the variant of UniformPrior.value_for that /repo currently contains *)
Definition code_variant : variant := Repaired.

Definition fresult_eqb (a b : result float) : bool :=
  match a, b with
  | Ok x, Ok y => fbits_eqb x y
  | LimitExc, LimitExc => true
  | _, _ => false
  end.

Definition fvresult_eqb (a b : vresult float) : bool :=
  match a, b with
  | VOk x, VOk y => flist_eqb x y
  | VLimitExc, VLimitExc => true
  | _, _ => false
  end.

(* one observation of one prior *)
Inductive obs :=
| OValue (u : float) (ignore : bool) (expected : result float)     (* prior.value_for(u, ignore) *)
| ORaw (u : float) (expected : float)                              (* prior.message.value_for(u) *)
| OUnit (x : float) (expected : float)                             (* prior.unit_value_for(x) *)
| OLimits (lower upper : float)                                    (* lower_unit_limit, upper_unit_limit *)
| ORandom (l u r : float) (expected : result float).               (* random.seed(s); prior.random(l, u) *)

Inductive case :=
| CPrior (p : prior float) (t : table) (observations : list obs)
| CDerived (pm pg : prior float) (t : table) (observations : list obs)   (* message of pm, class and limits of pg *)
| CVector (ps : list (prior float)) (t : table) (us : list float) (ignore : bool) (expected : vresult float).

Definition check_obs (p : prior float) (t : table) (o : obs) : bool :=
  let A := FArith in let S := FSpecial t in
  match o with
  | OValue u ignore e => fresult_eqb (prior_value_for A S code_variant p ignore u) e
  | ORaw u e => fbits_eqb (msg_value_for A S (message_of A S p) u) e
  | OUnit x e => fbits_eqb (unit_value_for A S p x) e
  | OLimits lo hi => fbits_eqb (lower_unit_limit A S p) lo && fbits_eqb (upper_unit_limit A S p) hi
  | ORandom l u r e => fresult_eqb (prior_random A S code_variant p l u r) e
  end.

Definition check_dobs (pm pg : prior float) (t : table) (o : obs) : bool :=
  let A := FArith in let S := FSpecial t in
  match o with
  | OValue u ignore e => fresult_eqb (dprior_value_for A S code_variant pm pg ignore u) e
  | ORaw u e => fbits_eqb (msg_value_for A S (message_of A S pm) u) e
  | OUnit x e => fbits_eqb (unit_value_for A S pm x) e
  | OLimits lo hi => fbits_eqb (unit_value_for A S pm (p_lo pg)) lo && fbits_eqb (unit_value_for A S pm (p_hi pg)) hi
  | ORandom l u r e => fresult_eqb (dprior_random A S code_variant pm pg l u r) e
  end.

Definition check_case (c : case) : bool :=
  match c with
  | CPrior p t os => forallb (check_obs p t) os
  | CDerived pm pg t os => forallb (check_dobs pm pg t) os
  | CVector ps t us ignore e => fvresult_eqb (vector_for FArith (FSpecial t) code_variant ignore ps us) e
  end.

(* index of the first failing observation (replay aid) *)
Fixpoint first_bad (p : prior float) (t : table) (os : list obs) (i : N) : option N :=
  match os with
  | [] => None
  | o :: os' => if check_obs p t o then first_bad p t os' (N.succ i) else Some i
  end.
