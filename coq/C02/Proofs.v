(* C02 lemmas over the reals: the generic model of Model.v instantiated with R.
   The special functions are Section variables with the assumed behaviour as Section
   hypotheses (DESIGN.md 3.4); exp / ln / 10**x / log10 are Coq's own. *)
From Coq Require Import Reals Lra Lia List Bool.
From PAFC02 Require Import Model.
Import ListNotations.
Open Scope R_scope.

Definition Rleb (a b : R) : bool := if Rle_dec a b then true else false.
Definition Rltb (a b : R) : bool := if Rlt_dec a b then true else false.

Lemma Rleb_true (a b : R) : Rleb a b = true <-> a <= b.
Proof. unfold Rleb. destruct (Rle_dec a b); split; intro H; auto; discriminate. Qed.
Lemma Rleb_false (a b : R) : Rleb a b = false <-> b < a.
Proof. unfold Rleb. destruct (Rle_dec a b); split; intro H; auto; try discriminate; lra. Qed.
Lemma Rltb_true (a b : R) : Rltb a b = true <-> a < b.
Proof. unfold Rltb. destruct (Rlt_dec a b); split; intro H; auto; discriminate. Qed.
Lemma Rltb_false (a b : R) : Rltb a b = false <-> b <= a.
Proof. unfold Rltb. destruct (Rlt_dec a b); split; intro H; auto; try discriminate; lra. Qed.

Definition Reps : R := / 10 ^ 14.                    (* 1e-14 *)
Definition log10R (x : R) : R := ln x / ln 10.
Definition pow10R (x : R) : R := exp (x * ln 10).

Lemma Reps_pos : 0 < Reps.
Proof. unfold Reps. apply Rinv_0_lt_compat. apply pow_lt. lra. Qed.

Lemma Reps_small : Reps < 1 / 2.
Proof.
  unfold Reps. assert (H : 2 < 10 ^ 14) by (simpl; lra).
  assert (P : 0 < 10 ^ 14) by lra.
  apply (Rmult_lt_reg_r (10 ^ 14)); [exact P|]. rewrite Rinv_l by lra. lra.
Qed.

Lemma ln10_pos : 0 < ln 10.
Proof. rewrite <- ln_1. apply ln_increasing; lra. Qed.

Lemma pow10R_incr (x y : R) : x < y -> pow10R x < pow10R y.
Proof. intro H. unfold pow10R. apply exp_increasing. pose proof ln10_pos. nra. Qed.

Lemma pow10R_mono (x y : R) : x <= y -> pow10R x <= pow10R y.
Proof. intros [H|H]; [left; apply pow10R_incr; exact H | subst; right; reflexivity]. Qed.

Lemma log10R_pow10R (x : R) : log10R (pow10R x) = x.
Proof. unfold log10R, pow10R. rewrite ln_exp. field. pose proof ln10_pos. lra. Qed.

Lemma pow10R_log10R (x : R) : 0 < x -> pow10R (log10R x) = x.
Proof.
  intro H. unfold log10R, pow10R.
  replace (ln x / ln 10 * ln 10) with (ln x) by (field; pose proof ln10_pos; lra).
  apply exp_ln. exact H.
Qed.

Lemma log10R_pos (x : R) : 1 < x -> 0 < log10R x.
Proof.
  intro H. unfold log10R. apply Rdiv_lt_0_compat; [|apply ln10_pos].
  rewrite <- ln_1. apply ln_increasing; lra.
Qed.

Lemma exp_mono (x y : R) : x <= y -> exp x <= exp y.
Proof. intros [H|H]; [left; apply exp_increasing; exact H | subst; right; reflexivity]. Qed.

(* LogUniformPrior since e638353: both branches of the scale are the same real number *)
Lemma log10R_ratio (lo hi : R) : 0 < lo -> 0 < hi -> log10R (hi / lo) = log10R hi - log10R lo.
Proof.
  intros Hl Hh. unfold log10R.
  assert (E : ln (hi / lo) = ln hi - ln lo).
  { unfold Rdiv. rewrite ln_mult by (try apply Rinv_0_lt_compat; lra). rewrite ln_Rinv by exact Hl. ring. }
  rewrite E. field. pose proof ln10_pos; lra.
Qed.

Section Analytic.
  (* standard normal CDF, its inverse, erfinv, and the 14-decimal rounding *)
  Variables (Phi PhiInv erfinv round14 : R -> R).
  Hypothesis Phi_incr : forall x y, x < y -> Phi x < Phi y.
  Hypothesis Phi_range : forall x, 0 < Phi x < 1.
  Hypothesis PhiInv_Phi : forall x, PhiInv (Phi x) = x.
  Hypothesis Phi_PhiInv : forall u, 0 < u < 1 -> Phi (PhiInv u) = u.
  (* Phi(x) = (1 + erf(x / sqrt 2)) / 2 read through the inverses *)
  Hypothesis erfinv_def : forall t, -1 < t < 1 -> sqrt 2 * erfinv t = PhiInv ((1 + t) / 2).
  Hypothesis round14_mono : forall x y, x <= y -> round14 x <= round14 y.
  Hypothesis round14_idem : forall x, round14 (round14 x) = round14 x.
  Hypothesis round14_err : forall x, Rabs (round14 x - x) <= 5 / 10 ^ 15.

  Definition RA : Arith R := mkArith R Rplus Rminus Rmult Rdiv Rleb Rltb 0 1 2 (sqrt 2) Reps round14 (fun _ => true).
  Definition RS : Special R := mkSpecial R erfinv Phi PhiInv log10R pow10R exp ln.

  Lemma Phi_mono (x y : R) : x <= y -> Phi x <= Phi y.
  Proof. intros [H|H]; [left; apply Phi_incr; exact H | subst; right; reflexivity]. Qed.

  Lemma PhiInv_incr (u v : R) : 0 < u -> u < v -> v < 1 -> PhiInv u < PhiInv v.
  Proof.
    intros Hu Huv Hv. destruct (Rlt_le_dec (PhiInv u) (PhiInv v)) as [L|L]; [exact L|].
    apply Phi_mono in L. rewrite !Phi_PhiInv in L by lra. lra.
  Qed.

  Lemma PhiInv_mono (u v : R) : 0 < u -> u <= v -> v < 1 -> PhiInv u <= PhiInv v.
  Proof.
    intros Hu [Huv|Huv] Hv; [left; apply PhiInv_incr; assumption | subst; right; reflexivity].
  Qed.

  (* ---------- the base normal message ---------- *)

  Lemma normal_value_eq (mu sigma u : R) : 0 < u < 1 ->
    normal_value_for RA RS mu sigma u = mu + sigma * PhiInv u.
  Proof.
    intro Hu. unfold normal_value_for; simpl.
    rewrite Rmult_assoc. rewrite erfinv_def by lra.
    replace ((1 + (1 - 2 * (1 - u))) / 2) with u by field. reflexivity.
  Qed.

  Lemma normal_cdf_value (mu sigma u : R) : 0 < sigma -> 0 < u < 1 ->
    normal_cdf RA RS mu sigma (normal_value_for RA RS mu sigma u) = u.
  Proof.
    intros Hs Hu. rewrite normal_value_eq by exact Hu. unfold normal_cdf; simpl.
    replace ((mu + sigma * PhiInv u - mu) / sigma) with (PhiInv u) by (field; lra).
    apply Phi_PhiInv. exact Hu.
  Qed.

  Lemma normal_value_mono (mu sigma u v : R) : 0 < sigma -> 0 < u -> u <= v -> v < 1 ->
    normal_value_for RA RS mu sigma u <= normal_value_for RA RS mu sigma v.
  Proof.
    intros Hs Hu Huv Hv. rewrite !normal_value_eq by lra.
    pose proof (PhiInv_mono u v Hu Huv Hv). nra.
  Qed.

  Lemma normal_value_incr (mu sigma u v : R) : 0 < sigma -> 0 < u -> u < v -> v < 1 ->
    normal_value_for RA RS mu sigma u < normal_value_for RA RS mu sigma v.
  Proof.
    intros Hs Hu Huv Hv. rewrite !normal_value_eq by lra.
    pose proof (PhiInv_incr u v Hu Huv Hv). nra.
  Qed.

  (* ---------- single transforms ---------- *)

  Definition pos_scale (t : transform R) : Prop :=
    match t with TLinear _ sc => 0 < sc | _ => True end.

  Lemma inv_transform_mono (t : transform R) (x y : R) : pos_scale t -> x <= y ->
    inv_transform RA RS t x <= inv_transform RA RS t y.
  Proof.
    intros Hp Hxy. destruct t as [|sh sc| |]; simpl in *.
    - apply Phi_mono; exact Hxy.
    - nra.
    - apply pow10R_mono; exact Hxy.
    - apply exp_mono; exact Hxy.
  Qed.

  Lemma inv_transform_incr (t : transform R) (x y : R) : pos_scale t -> x < y ->
    inv_transform RA RS t x < inv_transform RA RS t y.
  Proof.
    intros Hp Hxy. destruct t as [|sh sc| |]; simpl in *.
    - apply Phi_incr; exact Hxy.
    - nra.
    - apply pow10R_incr; exact Hxy.
    - apply exp_increasing; exact Hxy.
  Qed.

  Lemma clamp_unit_inside (x : R) : 0 < x < 1 -> clamp_unit RA x = x.
  Proof.
    intro H. unfold clamp_unit; simpl.
    assert (A : Rleb x 0 = false) by (apply Rleb_false; lra). rewrite A. simpl.
    assert (B : Rleb 1 x = false) by (apply Rleb_false; lra). rewrite B. reflexivity.
  Qed.

  Lemma clamp_unit_zero : clamp_unit RA 0 = Reps.
  Proof.
    pose proof Reps_pos as P. pose proof Reps_small as Q. unfold clamp_unit; simpl.
    assert (A : Rleb 0 0 = true) by (apply Rleb_true; lra). rewrite A.
    assert (B : Rleb (0 - Reps) 0 = true) by (apply Rleb_true; lra). rewrite B. simpl.
    assert (C : Rleb 1 Reps = false) by (apply Rleb_false; lra). rewrite C. reflexivity.
  Qed.

  Lemma clamp_unit_one : clamp_unit RA 1 = 1 - Reps.
  Proof.
    pose proof Reps_pos as P. unfold clamp_unit; simpl.
    assert (A : Rleb 1 0 = false) by (apply Rleb_false; lra). rewrite A. simpl.
    assert (B : Rleb 1 1 = true) by (apply Rleb_true; lra). rewrite B.
    assert (C : Rleb 1 (1 + Reps) = true) by (apply Rleb_true; lra). rewrite C. reflexivity.
  Qed.

  Lemma fwd_inv_transform (t : transform R) (x : R) : pos_scale t ->
    fwd_transform RA RS t (inv_transform RA RS t x) = x.
  Proof.
    intro Hp. destruct t as [|sh sc| |]; simpl in *.
    - rewrite clamp_unit_inside by apply Phi_range. apply PhiInv_Phi.
    - field. lra.
    - apply log10R_pow10R.
    - apply ln_exp.
  Qed.

  (* ---------- arbitrary transform stacks (induction over the list of transforms) ---------- *)

  Lemma stack_mono (ts : list (transform R)) : Forall pos_scale ts -> forall x y, x <= y ->
    msg_inverse_transform RA RS ts x <= msg_inverse_transform RA RS ts y.
  Proof.
    induction 1 as [|t ts Ht _ IH]; intros x y Hxy; simpl; [exact Hxy|].
    apply IH. apply inv_transform_mono; assumption.
  Qed.

  Lemma stack_incr (ts : list (transform R)) : Forall pos_scale ts -> forall x y, x < y ->
    msg_inverse_transform RA RS ts x < msg_inverse_transform RA RS ts y.
  Proof.
    induction 1 as [|t ts Ht _ IH]; intros x y Hxy; simpl; [exact Hxy|].
    apply IH. apply inv_transform_incr; assumption.
  Qed.

  Lemma msg_transform_cons (t : transform R) (ts : list (transform R)) (y : R) :
    msg_transform RA RS (t :: ts) y = fwd_transform RA RS t (msg_transform RA RS ts y).
  Proof. unfold msg_transform. simpl. rewrite fold_left_app. reflexivity. Qed.

  Lemma stack_inverse (ts : list (transform R)) : Forall pos_scale ts -> forall x,
    msg_transform RA RS ts (msg_inverse_transform RA RS ts x) = x.
  Proof.
    induction 1 as [|t ts Ht _ IH]; intro x; [reflexivity|].
    rewrite msg_transform_cons. simpl. change (fold_left _ ts ?a) with (msg_inverse_transform RA RS ts a).
    rewrite IH. apply fwd_inv_transform. exact Ht.
  Qed.

  (* ---------- messages ---------- *)

  Definition valid_message (m : message R) : Prop := 0 < m_sigma m /\ Forall pos_scale (m_transforms m).

  Lemma msg_value_mono (m : message R) (u v : R) : valid_message m -> 0 < u -> u <= v -> v < 1 ->
    msg_value_for RA RS m u <= msg_value_for RA RS m v.
  Proof.
    intros [Hs Ht] Hu Huv Hv. unfold msg_value_for. apply stack_mono; [exact Ht|].
    apply normal_value_mono; assumption.
  Qed.

  Lemma msg_value_incr (m : message R) (u v : R) : valid_message m -> 0 < u -> u < v -> v < 1 ->
    msg_value_for RA RS m u < msg_value_for RA RS m v.
  Proof.
    intros [Hs Ht] Hu Huv Hv. unfold msg_value_for. apply stack_incr; [exact Ht|].
    apply normal_value_incr; assumption.
  Qed.

  Lemma msg_cdf_value (m : message R) (u : R) : valid_message m -> 0 < u < 1 ->
    msg_cdf RA RS m (msg_value_for RA RS m u) = u.
  Proof.
    intros [Hs Ht] Hu. unfold msg_cdf, msg_value_for. rewrite stack_inverse by exact Ht.
    apply normal_cdf_value; assumption.
  Qed.

  (* ---------- priors ---------- *)

  Definition valid (p : prior R) : Prop :=
    p_lo p < p_hi p /\
    match p_family p with
    | Uniform => True
    | LogUniform => 0 < p_lo p
    | Gaussian | LogGaussian => 0 < p_sigma p
    end.

  Lemma message_valid (p : prior R) : valid p -> valid_message (message_of RA RS p).
  Proof.
    intros [Hl Hf]. unfold valid_message, message_of. destruct (p_family p); simpl.
    - split; [lra|]. repeat constructor. simpl. lra.
    - split; [lra|]. repeat constructor. simpl. apply log10R_pos.
      apply (Rmult_lt_reg_r (p_lo p)); [exact Hf|]. unfold Rdiv. rewrite Rmult_assoc, Rinv_l by lra. lra.
    - split; [exact Hf|]. constructor.
    - split; [exact Hf|]. repeat constructor.
  Qed.

  (* monotone: message values *)
  Lemma raw_mono (p : prior R) (u v : R) : valid p -> 0 < u -> u <= v -> v < 1 ->
    msg_value_for RA RS (message_of RA RS p) u <= msg_value_for RA RS (message_of RA RS p) v.
  Proof. intro H. apply msg_value_mono. apply message_valid. exact H. Qed.

  Lemma raw_incr (p : prior R) (u v : R) : valid p -> 0 < u -> u < v -> v < 1 ->
    msg_value_for RA RS (message_of RA RS p) u < msg_value_for RA RS (message_of RA RS p) v.
  Proof. intro H. apply msg_value_incr. apply message_valid. exact H. Qed.

  (* inverse: message level, all four families *)
  Lemma raw_inverse (p : prior R) (u : R) : valid p -> 0 < u < 1 ->
    unit_value_for RA RS p (msg_value_for RA RS (message_of RA RS p) u) = u.
  Proof. intros H Hu. unfold unit_value_for. apply msg_cdf_value; [apply message_valid; exact H | exact Hu]. Qed.

  (* ---------- quantiles of the declared distributions ---------- *)

  Lemma quantile_uniform (p : prior R) (u : R) : p_family p = Uniform -> 0 < u < 1 ->
    msg_value_for RA RS (message_of RA RS p) u = p_lo p + u * (p_hi p - p_lo p).
  Proof.
    intros Hf Hu. unfold msg_value_for, message_of. rewrite Hf. cbn [m_mean m_sigma m_transforms].
    rewrite normal_value_eq by exact Hu. simpl.
    replace (0 + 1 * PhiInv u) with (PhiInv u) by ring. rewrite Phi_PhiInv by exact Hu. ring.
  Qed.

  Lemma quantile_loguniform (p : prior R) (u : R) : p_family p = LogUniform -> 0 < p_lo p -> p_lo p < p_hi p ->
    0 < u < 1 ->
    msg_value_for RA RS (message_of RA RS p) u = p_lo p * Rpower (p_hi p / p_lo p) u.
  Proof.
    intros Hf Hl Hlh Hu. unfold msg_value_for, message_of. rewrite Hf. cbn [m_mean m_sigma m_transforms].
    rewrite normal_value_eq by exact Hu. simpl.
    replace (0 + 1 * PhiInv u) with (PhiInv u) by ring. rewrite Phi_PhiInv by exact Hu.
    unfold pow10R, log10R, Rpower.
    replace ((u * (ln (p_hi p / p_lo p) / ln 10) + ln (p_lo p) / ln 10) * ln 10)
      with (ln (p_lo p) + u * ln (p_hi p / p_lo p)) by (field; pose proof ln10_pos; lra).
    rewrite exp_plus, exp_ln by exact Hl. reflexivity.
  Qed.

  Lemma quantile_gaussian (p : prior R) (u : R) : p_family p = Gaussian -> 0 < u < 1 ->
    msg_value_for RA RS (message_of RA RS p) u = p_mean p + p_sigma p * PhiInv u.
  Proof.
    intros Hf Hu. unfold msg_value_for, message_of. rewrite Hf. cbn [m_mean m_sigma m_transforms].
    rewrite normal_value_eq by exact Hu. reflexivity.
  Qed.

  Lemma quantile_loggaussian (p : prior R) (u : R) : p_family p = LogGaussian -> 0 < u < 1 ->
    msg_value_for RA RS (message_of RA RS p) u = exp (p_mean p + p_sigma p * PhiInv u).
  Proof.
    intros Hf Hu. unfold msg_value_for, message_of. rewrite Hf. cbn [m_mean m_sigma m_transforms].
    rewrite normal_value_eq by exact Hu. reflexivity.
  Qed.

  (* ---------- the limit gate ---------- *)

  Lemma within_true (p : prior R) (v : R) : within RA p v = true <-> p_lo p <= v <= p_hi p.
  Proof.
    unfold within; simpl. rewrite andb_true_iff, !Rleb_true. tauto.
  Qed.

  Lemma within_false (p : prior R) (v : R) : within RA p v = false <-> ~ (p_lo p <= v <= p_hi p).
  Proof.
    rewrite <- within_true. destruct (within RA p v); split; intro H; auto; try discriminate.
    exfalso; apply H; reflexivity.
  Qed.

  Lemma checked_ok (p : prior R) (x v : R) : checked RA p false x = Ok v -> v = x /\ p_lo p <= x <= p_hi p.
  Proof.
    unfold checked. destruct (within RA p x) eqn:W; [|discriminate].
    intro H. injection H as <-. split; [reflexivity | apply within_true; exact W].
  Qed.

  Lemma checked_ignore (p : prior R) (x : R) : checked RA p true x = Ok x.
  Proof. reflexivity. Qed.

  Lemma gate_raises_iff (var : variant) (p : prior R) (u : R) :
    prior_value_for RA RS var p false u = LimitExc <->
    ~ (p_lo p <= msg_value_for RA RS (message_of RA RS p) u <= p_hi p).
  Proof.
    unfold prior_value_for, post, checked. rewrite <- within_false.
    destruct (within RA p _); split; intro H; try discriminate; reflexivity.
  Qed.

  Lemma gate_ignore_ok (var : variant) (p : prior R) (u : R) :
    exists v, prior_value_for RA RS var p true u = Ok v.
  Proof. unfold prior_value_for, post. simpl. eexists. reflexivity. Qed.

  (* the value returned through the gate is the message value, for the three unrounded families *)
  Lemma returned_is_raw (var : variant) (p : prior R) (ig : bool) (u v : R) : p_family p <> Uniform ->
    prior_value_for RA RS var p ig u = Ok v -> v = msg_value_for RA RS (message_of RA RS p) u.
  Proof.
    intros Hf. unfold prior_value_for, post, checked.
    destruct ig; [|destruct (within RA p _)]; try discriminate;
      destruct (p_family p); try congruence; intro H; injection H as <-; reflexivity.
  Qed.

  Lemma gate_unrounded (var : variant) (p : prior R) (u v : R) : p_family p <> Uniform ->
    prior_value_for RA RS var p false u = Ok v -> p_lo p <= v <= p_hi p.
  Proof.
    intros Hf. unfold prior_value_for, post. destruct (checked RA p false _) as [x|] eqn:C; [|discriminate].
    apply checked_ok in C. destruct C as [-> W].
    destruct (p_family p); try congruence; intro H; injection H as <-; exact W.
  Qed.

  (* Uniform, current code: only when the limits are fixed points of the rounding *)
  Lemma gate_uniform_current_partial (p : prior R) (u v : R) :
    round14 (p_lo p) = p_lo p -> round14 (p_hi p) = p_hi p ->
    prior_value_for RA RS Current p false u = Ok v -> p_lo p <= v <= p_hi p.
  Proof.
    intros Hl Hh. unfold prior_value_for, post. destruct (checked RA p false _) as [x|] eqn:C; [|discriminate].
    apply checked_ok in C. destruct C as [-> [W1 W2]].
    destruct (p_family p); intro H; injection H as <-; try (split; assumption).
    simpl. split; [rewrite <- Hl | rewrite <- Hh]; apply round14_mono; assumption.
  Qed.

  (* Uniform, repaired code: unconditionally *)
  Lemma gate_repaired (p : prior R) (u v : R) :
    prior_value_for RA RS Repaired p false u = Ok v -> p_lo p <= v <= p_hi p.
  Proof.
    unfold prior_value_for, post. destruct (checked RA p false _) as [x|] eqn:C; [|discriminate].
    apply checked_ok in C. destruct C as [-> W].
    destruct (p_family p); intro H; injection H as <-; try exact W.
    unfold uniform_round. simpl. destruct (within RA p (round14 _)) eqn:W2; [apply within_true; exact W2 | exact W].
  Qed.

  (* ---------- monotone: returned values, both variants ---------- *)

  Lemma uniform_round_mono (var : variant) (p : prior R) (ig : bool) (x y : R) :
    (ig = false -> p_lo p <= x <= p_hi p /\ p_lo p <= y <= p_hi p) -> x <= y ->
    uniform_round RA var p ig x <= uniform_round RA var p ig y.
  Proof.
    intros Hw Hxy. destruct var; simpl; [apply round14_mono; exact Hxy|].
    destruct ig; simpl; [apply round14_mono; exact Hxy|].
    destruct (Hw eq_refl) as [[Hx1 Hx2] [Hy1 Hy2]].
    pose proof (round14_mono x y Hxy) as M.
    destruct (within RA p (round14 x)) eqn:Wx; destruct (within RA p (round14 y)) eqn:Wy; try assumption.
    - (* x rounded inside, y kept: round14 y lies above the upper limit *)
      apply within_true in Wx. apply within_false in Wy.
      destruct (Rle_lt_dec (round14 x) y) as [L|L]; [exact L|].
      exfalso. apply Wy. split; [lra|].
      assert (E : round14 y <= round14 (round14 x)) by (apply round14_mono; lra).
      rewrite round14_idem in E. lra.
    - (* x kept, y rounded inside: round14 x lies below the lower limit *)
      apply within_false in Wx. apply within_true in Wy.
      destruct (Rle_lt_dec x (round14 y)) as [L|L]; [exact L|].
      exfalso. apply Wx. split; [|lra].
      assert (E : round14 (round14 y) <= round14 x) by (apply round14_mono; lra).
      rewrite round14_idem in E. lra.
  Qed.

  Lemma returned_mono (var : variant) (p : prior R) (ig : bool) (u u' v v' : R) :
    valid p -> 0 < u -> u <= u' -> u' < 1 ->
    prior_value_for RA RS var p ig u = Ok v -> prior_value_for RA RS var p ig u' = Ok v' -> v <= v'.
  Proof.
    intros Hv Hu Huu Hu'. pose proof (raw_mono p u u' Hv Hu Huu Hu') as M.
    unfold prior_value_for, post.
    set (x := msg_value_for RA RS (message_of RA RS p) u) in *.
    set (y := msg_value_for RA RS (message_of RA RS p) u') in *.
    intros H1 H2.
    assert (W : ig = false -> p_lo p <= x <= p_hi p /\ p_lo p <= y <= p_hi p).
    { intro E; subst ig. unfold checked in H1, H2.
      destruct (within RA p x) eqn:Wx; [|discriminate]. destruct (within RA p y) eqn:Wy; [|discriminate].
      split; apply within_true; assumption. }
    assert (C1 : checked RA p ig x = Ok x).
    { unfold checked in *. destruct ig; [reflexivity|]. destruct (within RA p x); [reflexivity | discriminate]. }
    assert (C2 : checked RA p ig y = Ok y).
    { unfold checked in *. destruct ig; [reflexivity|]. destruct (within RA p y); [reflexivity | discriminate]. }
    rewrite C1 in H1. rewrite C2 in H2. injection H1 as <-. injection H2 as <-.
    destruct (p_family p); try exact M. apply uniform_round_mono; assumption.
  Qed.

  (* ---------- inverse: returned values ---------- *)

  Lemma returned_inverse (var : variant) (p : prior R) (ig : bool) (u v : R) :
    valid p -> p_family p <> Uniform -> 0 < u < 1 ->
    prior_value_for RA RS var p ig u = Ok v -> unit_value_for RA RS p v = u.
  Proof.
    intros Hv Hf Hu H. rewrite (returned_is_raw var p ig u v Hf H). apply raw_inverse; assumption.
  Qed.

  Lemma uniform_unit_value (p : prior R) (v : R) : p_family p = Uniform -> p_lo p < v < p_hi p ->
    unit_value_for RA RS p v = (v - p_lo p) / (p_hi p - p_lo p).
  Proof.
    intros Hf Hv. unfold unit_value_for, msg_cdf, message_of. rewrite Hf. simpl.
    unfold msg_transform, normal_cdf. simpl.
    assert (T : 0 < (v - p_lo p) / (p_hi p - p_lo p) < 1).
    { split.
      - apply Rdiv_lt_0_compat; lra.
      - apply (Rmult_lt_reg_r (p_hi p - p_lo p)); [lra|]. unfold Rdiv. rewrite Rmult_assoc, Rinv_l by lra. lra. }
    rewrite clamp_unit_inside by exact T.
    replace ((PhiInv ((v - p_lo p) / (p_hi p - p_lo p)) - 0) / 1) with (PhiInv ((v - p_lo p) / (p_hi p - p_lo p))) by field.
    apply Phi_PhiInv. exact T.
  Qed.

  Lemma five_e15_nonneg : 0 <= 5 / 10 ^ 15.
  Proof. apply Rlt_le. apply Rdiv_lt_0_compat; [lra | apply pow_lt; lra]. Qed.

  Lemma uniform_round_close (var : variant) (p : prior R) (ig : bool) (x : R) :
    Rabs (uniform_round RA var p ig x - x) <= 5 / 10 ^ 15.
  Proof.
    destruct var; unfold uniform_round; cbn [a_round14 RA]; [apply round14_err|].
    destruct (ig || within RA p (round14 x)); [apply round14_err|].
    replace (x - x) with 0 by ring. rewrite Rabs_R0. apply five_e15_nonneg.
  Qed.

  Lemma uniform_returned_inverse (var : variant) (p : prior R) (ig : bool) (u v : R) :
    p_family p = Uniform -> p_lo p < p_hi p -> 0 < u < 1 ->
    prior_value_for RA RS var p ig u = Ok v -> p_lo p < v < p_hi p ->
    unit_value_for RA RS p v = (v - p_lo p) / (p_hi p - p_lo p) /\
    Rabs (unit_value_for RA RS p v - u) <= 5 / 10 ^ 15 / (p_hi p - p_lo p).
  Proof.
    intros Hf Hlh Hu H Hv. rewrite (uniform_unit_value p v Hf Hv). split; [reflexivity|].
    unfold prior_value_for, post in H. rewrite (quantile_uniform p u Hf Hu) in H.
    set (x := p_lo p + u * (p_hi p - p_lo p)) in *.
    destruct (checked RA p ig x) as [x'|] eqn:C; [|discriminate].
    assert (E : x' = x).
    { unfold checked in C. destruct ig; [injection C as <-; reflexivity|].
      destruct (within RA p x); [injection C as <-; reflexivity | discriminate]. }
    subst x'. rewrite Hf in H. injection H as <-.
    pose proof (uniform_round_close var p ig x) as D.
    set (w := p_hi p - p_lo p) in *. assert (Hw : 0 < w) by (unfold w; lra).
    replace ((uniform_round RA var p ig x - p_lo p) / w - u) with ((uniform_round RA var p ig x - x) / w)
      by (unfold x; fold w; field; lra).
    unfold Rdiv at 1. rewrite Rabs_mult, (Rabs_right (/ w)) by (left; apply Rinv_0_lt_compat; exact Hw).
    unfold Rdiv. apply Rmult_le_compat_r; [left; apply Rinv_0_lt_compat; exact Hw | exact D].
  Qed.

  (* ---------- the closed unit interval for the two bounded families: end points ---------- *)

  Lemma uniform_tail (p : prior R) : p_family p = Uniform ->
    m_transforms (message_of RA RS p) = TPhi :: [TLinear (p_lo p) (p_hi p - p_lo p)].
  Proof. intro Hf. unfold message_of. rewrite Hf. reflexivity. Qed.

  Lemma uniform_onto (lo hi q : R) : lo < hi -> 0 <= q <= 1 ->
    lo <= msg_inverse_transform RA RS [TLinear lo (hi - lo)] q <= hi /\
    msg_inverse_transform RA RS [TLinear lo (hi - lo)] 0 = lo /\
    msg_inverse_transform RA RS [TLinear lo (hi - lo)] 1 = hi.
  Proof. intros Hlh Hq. simpl. repeat split; try nra; ring. Qed.

  Lemma loguniform_tail (p : prior R) : p_family p = LogUniform ->
    m_transforms (message_of RA RS p) =
    TPhi :: [TLinear (log10R (p_lo p)) (log10R (p_hi p / p_lo p)); TLog10].
  Proof. intro Hf. unfold message_of. rewrite Hf. reflexivity. Qed.

  Lemma log10R_div (a b : R) : 0 < a -> 0 < b -> log10R (b / a) = log10R b - log10R a.
  Proof.
    intros Ha Hb. unfold log10R.
    assert (E : ln (b / a) = ln b - ln a).
    { unfold Rdiv. rewrite ln_mult by (try apply Rinv_0_lt_compat; lra). rewrite ln_Rinv by exact Ha. ring. }
    rewrite E. field. pose proof ln10_pos; lra.
  Qed.

  Lemma loguniform_onto (lo hi q : R) : 0 < lo -> lo < hi -> 0 <= q <= 1 ->
    let ts := [TLinear (log10R lo) (log10R (hi / lo)); TLog10] in
    lo <= msg_inverse_transform RA RS ts q <= hi /\
    msg_inverse_transform RA RS ts 0 = lo /\ msg_inverse_transform RA RS ts 1 = hi.
  Proof.
    intros Hl Hlh Hq ts. unfold ts. simpl.
    rewrite log10R_div by lra.
    assert (D : log10R lo < log10R hi).
    { unfold log10R. apply Rmult_lt_compat_r; [apply Rinv_0_lt_compat, ln10_pos | apply ln_increasing; lra]. }
    assert (E0 : pow10R (0 * (log10R hi - log10R lo) + log10R lo) = lo).
    { replace (0 * (log10R hi - log10R lo) + log10R lo) with (log10R lo) by ring. apply pow10R_log10R; lra. }
    assert (E1 : pow10R (1 * (log10R hi - log10R lo) + log10R lo) = hi).
    { replace (1 * (log10R hi - log10R lo) + log10R lo) with (log10R hi) by ring. apply pow10R_log10R; lra. }
    repeat split; try assumption.
    - rewrite <- E0 at 1. apply pow10R_mono. nra.
    - rewrite <- E1 at 2. apply pow10R_mono. nra.
  Qed.

  (* unit limits of a uniform prior: the clamp of transform.ndtri makes them eps and 1 - eps *)
  Lemma uniform_unit_limits (p : prior R) : p_family p = Uniform -> p_lo p < p_hi p ->
    lower_unit_limit RA RS p = Reps /\ upper_unit_limit RA RS p = 1 - Reps.
  Proof.
    intros Hf Hlh. pose proof Reps_pos as P. pose proof Reps_small as Q.
    unfold lower_unit_limit, upper_unit_limit, unit_value_for, msg_cdf, message_of. rewrite Hf. simpl.
    unfold msg_transform, normal_cdf. simpl.
    replace ((p_lo p - p_lo p) / (p_hi p - p_lo p)) with 0 by (field; lra).
    replace ((p_hi p - p_lo p) / (p_hi p - p_lo p)) with 1 by (field; lra).
    rewrite clamp_unit_zero, clamp_unit_one.
    split.
    - replace ((PhiInv Reps - 0) / 1) with (PhiInv Reps) by field. apply Phi_PhiInv. lra.
    - replace ((PhiInv (1 - Reps) - 0) / 1) with (PhiInv (1 - Reps)) by field. apply Phi_PhiInv. lra.
  Qed.

  (* ---------- random draws ---------- *)

  Lemma pymax_spec (a b : R) : pymax RA a b = Rmax a b.
  Proof.
    unfold pymax; simpl. unfold Rmax. destruct (Rle_dec a b) as [L|L].
    - destruct (Rltb a b) eqn:E; [reflexivity|]. apply Rltb_false in E. lra.
    - destruct (Rltb a b) eqn:E; [|reflexivity]. apply Rltb_true in E. lra.
  Qed.

  Lemma pymin_spec (a b : R) : pymin RA a b = Rmin a b.
  Proof.
    unfold pymin; simpl. unfold Rmin. destruct (Rle_dec a b) as [L|L].
    - destruct (Rltb b a) eqn:E; [|reflexivity]. apply Rltb_true in E. lra.
    - destruct (Rltb b a) eqn:E; [reflexivity|]. apply Rltb_false in E. lra.
  Qed.

  (* the unit value drawn lies between the unit limits (and the caller's bounds) *)
  Lemma random_unit_between (p : prior R) (l u r : R) :
    Rmax l (lower_unit_limit RA RS p) <= Rmin u (upper_unit_limit RA RS p) -> 0 <= r <= 1 ->
    Rmax l (lower_unit_limit RA RS p) <= random_unit RA RS p l u r <= Rmin u (upper_unit_limit RA RS p).
  Proof.
    intros Hab Hr. unfold random_unit. rewrite pymax_spec, pymin_spec. simpl.
    set (a := Rmax l _) in *. set (b := Rmin u _) in *. split; nra.
  Qed.

  (* whatever a draw returns lies within the limits (same guard as the gate) *)
  Lemma random_within (var : variant) (p : prior R) (l u r v : R) :
    (p_family p <> Uniform \/ var = Repaired \/ (round14 (p_lo p) = p_lo p /\ round14 (p_hi p) = p_hi p)) ->
    prior_random RA RS var p l u r = Ok v -> p_lo p <= v <= p_hi p.
  Proof.
    unfold prior_random. intros [Hf|[Hv|[H1 H2]]] H.
    - eapply gate_unrounded; eassumption.
    - subst var. eapply gate_repaired; eassumption.
    - destruct var; [eapply gate_uniform_current_partial | eapply gate_repaired]; eassumption.
  Qed.

  (* Gaussian prior with limits lo < hi: a draw never raises and lies within the limits *)
  Lemma random_gaussian_ok (var : variant) (p : prior R) (l u r : R) :
    p_family p = Gaussian -> 0 < p_sigma p -> p_lo p < p_hi p ->
    Rmax l (lower_unit_limit RA RS p) <= Rmin u (upper_unit_limit RA RS p) -> 0 <= r <= 1 ->
    exists v, prior_random RA RS var p l u r = Ok v /\ p_lo p <= v <= p_hi p.
  Proof.
    intros Hf Hs Hlh Hab Hr.
    pose proof (random_unit_between p l u r Hab Hr) as [B1 B2].
    set (U := random_unit RA RS p l u r) in *.
    assert (LL : lower_unit_limit RA RS p = Phi ((p_lo p - p_mean p) / p_sigma p)).
    { unfold lower_unit_limit, unit_value_for, msg_cdf, message_of. rewrite Hf. reflexivity. }
    assert (UL : upper_unit_limit RA RS p = Phi ((p_hi p - p_mean p) / p_sigma p)).
    { unfold upper_unit_limit, unit_value_for, msg_cdf, message_of. rewrite Hf. reflexivity. }
    assert (G1 : Phi ((p_lo p - p_mean p) / p_sigma p) <= U) by (rewrite <- LL; pose proof (Rmax_r l (lower_unit_limit RA RS p)); lra).
    assert (G2 : U <= Phi ((p_hi p - p_mean p) / p_sigma p)) by (rewrite <- UL; pose proof (Rmin_r u (upper_unit_limit RA RS p)); lra).
    pose proof (Phi_range ((p_lo p - p_mean p) / p_sigma p)) as R1.
    pose proof (Phi_range ((p_hi p - p_mean p) / p_sigma p)) as R2.
    assert (HU : 0 < U < 1) by lra.
    assert (V : p_lo p <= p_mean p + p_sigma p * PhiInv U <= p_hi p).
    { split.
      - assert (Z : (p_lo p - p_mean p) / p_sigma p <= PhiInv U).
        { rewrite <- (PhiInv_Phi ((p_lo p - p_mean p) / p_sigma p)). apply PhiInv_mono; lra. }
        apply (Rmult_le_compat_l (p_sigma p)) in Z; [|lra].
        replace (p_sigma p * ((p_lo p - p_mean p) / p_sigma p)) with (p_lo p - p_mean p) in Z by (field; lra). lra.
      - assert (Z : PhiInv U <= (p_hi p - p_mean p) / p_sigma p).
        { rewrite <- (PhiInv_Phi ((p_hi p - p_mean p) / p_sigma p)). apply PhiInv_mono; lra. }
        apply (Rmult_le_compat_l (p_sigma p)) in Z; [|lra].
        replace (p_sigma p * ((p_hi p - p_mean p) / p_sigma p)) with (p_hi p - p_mean p) in Z by (field; lra). lra. }
    exists (p_mean p + p_sigma p * PhiInv U). split; [|exact V].
    unfold prior_random, prior_value_for, post. fold U. rewrite (quantile_gaussian p U Hf HU).
    unfold checked. apply within_true in V. rewrite V, Hf. reflexivity.
  Qed.

  (* ---------- returning through the gate (repaired UniformPrior), and never-raising draws ---------- *)

  Lemma value_ok_repaired (p : prior R) (u : R) :
    p_lo p <= msg_value_for RA RS (message_of RA RS p) u <= p_hi p ->
    exists v, prior_value_for RA RS Repaired p false u = Ok v /\ p_lo p <= v <= p_hi p /\
              Rabs (v - msg_value_for RA RS (message_of RA RS p) u) <= 5 / 10 ^ 15 /\
              (p_family p <> Uniform -> v = msg_value_for RA RS (message_of RA RS p) u).
  Proof.
    intro W. set (x := msg_value_for RA RS (message_of RA RS p) u) in *.
    assert (E : prior_value_for RA RS Repaired p false u =
                Ok (match p_family p with Uniform => uniform_round RA Repaired p false x | _ => x end)).
    { unfold prior_value_for, post, checked. fold x. apply within_true in W. rewrite W. reflexivity. }
    eexists. split; [exact E|]. split; [eapply gate_repaired; exact E|]. split.
    - destruct (p_family p); try (replace (x - x) with 0 by ring; rewrite Rabs_R0; apply five_e15_nonneg).
      apply uniform_round_close.
    - intro Hf. destruct (p_family p); congruence.
  Qed.

  Lemma PhiInv_between (a b U : R) : Phi a <= U <= Phi b -> a <= PhiInv U <= b.
  Proof.
    intros [H1 H2]. pose proof (Phi_range a) as Ra. pose proof (Phi_range b) as Rb.
    split.
    - rewrite <- (PhiInv_Phi a). apply PhiInv_mono; lra.
    - rewrite <- (PhiInv_Phi b). apply PhiInv_mono; lra.
  Qed.

  Lemma loguniform_unit_limits (p : prior R) : p_family p = LogUniform -> 0 < p_lo p -> p_lo p < p_hi p ->
    lower_unit_limit RA RS p = Reps /\ upper_unit_limit RA RS p = 1 - Reps.
  Proof.
    intros Hf Hl Hlh. pose proof Reps_pos as P. pose proof Reps_small as Q.
    assert (D : log10R (p_hi p / p_lo p) = log10R (p_hi p) - log10R (p_lo p)) by (apply log10R_div; lra).
    assert (Dp : 0 < log10R (p_hi p / p_lo p)).
    { apply log10R_pos. apply (Rmult_lt_reg_r (p_lo p)); [exact Hl|]. unfold Rdiv. rewrite Rmult_assoc, Rinv_l by lra. lra. }
    unfold lower_unit_limit, upper_unit_limit, unit_value_for, msg_cdf, message_of. rewrite Hf. simpl.
    unfold msg_transform, normal_cdf. simpl.
    replace ((log10R (p_lo p) - log10R (p_lo p)) / log10R (p_hi p / p_lo p)) with 0 by (field; lra).
    replace ((log10R (p_hi p) - log10R (p_lo p)) / log10R (p_hi p / p_lo p)) with 1 by (rewrite <- D; field; lra).
    rewrite clamp_unit_zero, clamp_unit_one.
    split.
    - replace ((PhiInv Reps - 0) / 1) with (PhiInv Reps) by field. apply Phi_PhiInv. lra.
    - replace ((PhiInv (1 - Reps) - 0) / 1) with (PhiInv (1 - Reps)) by field. apply Phi_PhiInv. lra.
  Qed.

  Lemma raw_loguniform_bounds (p : prior R) (U : R) : p_family p = LogUniform -> 0 < p_lo p -> p_lo p < p_hi p ->
    0 < U < 1 -> p_lo p <= msg_value_for RA RS (message_of RA RS p) U <= p_hi p.
  Proof.
    intros Hf Hl Hlh HU. unfold msg_value_for, message_of. rewrite Hf. cbn [m_mean m_sigma m_transforms].
    rewrite normal_value_eq by exact HU.
    destruct (loguniform_onto (p_lo p) (p_hi p) U Hl Hlh) as [B _]; [lra|].
    simpl in B. simpl. replace (0 + 1 * PhiInv U) with (PhiInv U) by ring. rewrite Phi_PhiInv by exact HU. exact B.
  Qed.

  (* Uniform and LogUniform priors: the unit window of a draw is [eps, 1 - eps] cut by the caller's bounds; a draw
     never raises and lies within the limits *)
  Lemma random_bounded_ok (p : prior R) (l u r : R) :
    (p_family p = Uniform \/ (p_family p = LogUniform /\ 0 < p_lo p)) -> p_lo p < p_hi p ->
    Rmax l (lower_unit_limit RA RS p) <= Rmin u (upper_unit_limit RA RS p) -> 0 <= r <= 1 ->
    exists v, prior_random RA RS Repaired p l u r = Ok v /\ p_lo p <= v <= p_hi p.
  Proof.
    intros Hf Hlh Hab Hr. pose proof Reps_pos as P. pose proof Reps_small as Q.
    pose proof (random_unit_between p l u r Hab Hr) as [B1 B2].
    set (U := random_unit RA RS p l u r) in *.
    assert (L : lower_unit_limit RA RS p = Reps /\ upper_unit_limit RA RS p = 1 - Reps).
    { destruct Hf as [Hf|[Hf Hl]]; [apply uniform_unit_limits | apply loguniform_unit_limits]; assumption. }
    destruct L as [L1 L2].
    assert (HU : 0 < U < 1).
    { pose proof (Rmax_r l (lower_unit_limit RA RS p)). pose proof (Rmin_r u (upper_unit_limit RA RS p)). lra. }
    assert (W : p_lo p <= msg_value_for RA RS (message_of RA RS p) U <= p_hi p).
    { destruct Hf as [Hf|[Hf Hl]].
      - rewrite (quantile_uniform p U Hf HU). nra.
      - apply raw_loguniform_bounds; assumption. }
    destruct (value_ok_repaired p U W) as [v [E [B _]]]. exists v. split; [exact E | exact B].
  Qed.

  (* LogGaussian prior with 0 < lower < upper (for the default lower limit 0 the code evaluates np.log(0) = -inf,
     which the real-number model cannot express) *)
  Lemma random_loggaussian_ok (var : variant) (p : prior R) (l u r : R) :
    p_family p = LogGaussian -> 0 < p_sigma p -> 0 < p_lo p -> p_lo p < p_hi p ->
    Rmax l (lower_unit_limit RA RS p) <= Rmin u (upper_unit_limit RA RS p) -> 0 <= r <= 1 ->
    exists v, prior_random RA RS var p l u r = Ok v /\ p_lo p <= v <= p_hi p.
  Proof.
    intros Hf Hs Hl Hlh Hab Hr.
    pose proof (random_unit_between p l u r Hab Hr) as [B1 B2].
    set (U := random_unit RA RS p l u r) in *.
    assert (LL : lower_unit_limit RA RS p = Phi ((ln (p_lo p) - p_mean p) / p_sigma p)).
    { unfold lower_unit_limit, unit_value_for, msg_cdf, message_of. rewrite Hf. reflexivity. }
    assert (UL : upper_unit_limit RA RS p = Phi ((ln (p_hi p) - p_mean p) / p_sigma p)).
    { unfold upper_unit_limit, unit_value_for, msg_cdf, message_of. rewrite Hf. reflexivity. }
    assert (G : Phi ((ln (p_lo p) - p_mean p) / p_sigma p) <= U <= Phi ((ln (p_hi p) - p_mean p) / p_sigma p)).
    { rewrite <- LL, <- UL. pose proof (Rmax_r l (lower_unit_limit RA RS p)). pose proof (Rmin_r u (upper_unit_limit RA RS p)). lra. }
    pose proof (Phi_range ((ln (p_lo p) - p_mean p) / p_sigma p)) as R1.
    pose proof (Phi_range ((ln (p_hi p) - p_mean p) / p_sigma p)) as R2.
    assert (HU : 0 < U < 1) by lra.
    destruct (PhiInv_between _ _ _ G) as [Z1 Z2].
    assert (Y : ln (p_lo p) <= p_mean p + p_sigma p * PhiInv U <= ln (p_hi p)).
    { split.
      - apply (Rmult_le_compat_l (p_sigma p)) in Z1; [|lra].
        replace (p_sigma p * ((ln (p_lo p) - p_mean p) / p_sigma p)) with (ln (p_lo p) - p_mean p) in Z1 by (field; lra). lra.
      - apply (Rmult_le_compat_l (p_sigma p)) in Z2; [|lra].
        replace (p_sigma p * ((ln (p_hi p) - p_mean p) / p_sigma p)) with (ln (p_hi p) - p_mean p) in Z2 by (field; lra). lra. }
    assert (V : p_lo p <= exp (p_mean p + p_sigma p * PhiInv U) <= p_hi p).
    { destruct Y as [Y1 Y2]. apply exp_mono in Y1. apply exp_mono in Y2. rewrite exp_ln in Y1, Y2 by lra. lra. }
    exists (exp (p_mean p + p_sigma p * PhiInv U)). split; [|exact V].
    unfold prior_random, prior_value_for, post. fold U. rewrite (quantile_loggaussian p U Hf HU).
    unfold checked. apply within_true in V. rewrite V, Hf. reflexivity.
  Qed.
End Analytic.

(* ---------- the closed ends of the unit interval: no assumption on the special functions except the value of
   ndtr(sqrt2 * erfinv(-1 / +1)) (in binary64: ndtr(-inf) = 0, ndtr(+inf) = 1) ---------- *)
Section Ends.
  Variables (Phi PhiInv erfinv round14 : R -> R).
  Hypothesis round14_err : forall x, Rabs (round14 x - x) <= 5 / 10 ^ 15.
  Let A := RA round14.
  Let S := RS Phi PhiInv erfinv.

  Lemma ends_checked (p : prior R) (u : R) :
    p_lo p <= msg_value_for A S (message_of A S p) u <= p_hi p ->
    exists v, prior_value_for A S Repaired p false u = Ok v /\ p_lo p <= v <= p_hi p /\
              Rabs (v - msg_value_for A S (message_of A S p) u) <= 5 / 10 ^ 15 /\
              (p_family p <> Uniform -> v = msg_value_for A S (message_of A S p) u).
  Proof. apply (value_ok_repaired Phi PhiInv erfinv round14 round14_err). Qed.

  Lemma raw_at_end_uniform (p : prior R) (u q : R) : p_family p = Uniform ->
    Phi (normal_value_for A S 0 1 u) = q ->
    msg_value_for A S (message_of A S p) u = msg_inverse_transform A S [TLinear (p_lo p) (p_hi p - p_lo p)] q.
  Proof. intros Hf Hq. unfold msg_value_for, message_of. rewrite Hf. simpl. simpl in Hq. rewrite Hq. reflexivity. Qed.

  Lemma raw_at_end_loguniform (p : prior R) (u q : R) : p_family p = LogUniform ->
    Phi (normal_value_for A S 0 1 u) = q ->
    msg_value_for A S (message_of A S p) u =
    msg_inverse_transform A S [TLinear (log10R (p_lo p)) (log10R (p_hi p / p_lo p)); TLog10] q.
  Proof. intros Hf Hq. unfold msg_value_for, message_of. rewrite Hf. simpl. simpl in Hq. rewrite Hq. reflexivity. Qed.

  Lemma value_at_zero_uniform (p : prior R) : p_family p = Uniform -> p_lo p < p_hi p ->
    Phi (normal_value_for A S 0 1 0) = 0 ->
    exists v, prior_value_for A S Repaired p false 0 = Ok v /\ p_lo p <= v <= p_hi p /\ Rabs (v - p_lo p) <= 5 / 10 ^ 15.
  Proof.
    intros Hf Hlh H0.
    destruct (uniform_onto Phi PhiInv erfinv round14 (p_lo p) (p_hi p) 0 Hlh) as [_ [E0 _]]; [lra|].
    assert (X : msg_value_for A S (message_of A S p) 0 = p_lo p) by (rewrite (raw_at_end_uniform p 0 0 Hf H0); exact E0).
    destruct (ends_checked p 0) as [v [E [B [C _]]]]; [rewrite X; lra|].
    exists v. rewrite X in C. auto.
  Qed.

  Lemma value_at_one_uniform (p : prior R) : p_family p = Uniform -> p_lo p < p_hi p ->
    Phi (normal_value_for A S 0 1 1) = 1 ->
    exists v, prior_value_for A S Repaired p false 1 = Ok v /\ p_lo p <= v <= p_hi p /\ Rabs (v - p_hi p) <= 5 / 10 ^ 15.
  Proof.
    intros Hf Hlh H1.
    destruct (uniform_onto Phi PhiInv erfinv round14 (p_lo p) (p_hi p) 1 Hlh) as [_ [_ E1]]; [lra|].
    assert (X : msg_value_for A S (message_of A S p) 1 = p_hi p) by (rewrite (raw_at_end_uniform p 1 1 Hf H1); exact E1).
    destruct (ends_checked p 1) as [v [E [B [C _]]]]; [rewrite X; lra|].
    exists v. rewrite X in C. auto.
  Qed.

  Lemma value_at_ends_loguniform (p : prior R) : p_family p = LogUniform -> 0 < p_lo p -> p_lo p < p_hi p ->
    (Phi (normal_value_for A S 0 1 0) = 0 -> prior_value_for A S Repaired p false 0 = Ok (p_lo p)) /\
    (Phi (normal_value_for A S 0 1 1) = 1 -> prior_value_for A S Repaired p false 1 = Ok (p_hi p)).
  Proof.
    intros Hf Hl Hlh.
    destruct (loguniform_onto Phi PhiInv erfinv round14 (p_lo p) (p_hi p) 0 Hl Hlh) as [_ [E0 E1]]; [lra|].
    assert (NU : p_family p <> Uniform) by congruence.
    split; intro H.
    - assert (X : msg_value_for A S (message_of A S p) 0 = p_lo p) by (rewrite (raw_at_end_loguniform p 0 0 Hf H); exact E0).
      destruct (ends_checked p 0) as [v [E [_ [_ V]]]]; [rewrite X; lra|]. rewrite (V NU), X in E. exact E.
    - assert (X : msg_value_for A S (message_of A S p) 1 = p_hi p) by (rewrite (raw_at_end_loguniform p 1 1 Hf H); exact E1).
      destruct (ends_checked p 1) as [v [E [_ [_ V]]]]; [rewrite X; lra|]. rewrite (V NU), X in E. exact E.
  Qed.
End Ends.

(* the repaired scale of LogUniformPrior is log10 upper - log10 lower whichever branch is taken, for any finiteness test *)
Lemma loguniform_scale_guarded (fin : R -> bool) (Phi PhiInv erfinv round14 : R -> R) (lo hi : R) : 0 < lo -> 0 < hi ->
  loguniform_scale (mkArith R Rplus Rminus Rmult Rdiv Rleb Rltb 0 1 2 (sqrt 2) Reps round14 fin) (RS Phi PhiInv erfinv)
                   LURatioGuard lo hi = log10R hi - log10R lo.
Proof.
  intros Hl Hh. unfold loguniform_scale. simpl. destruct (fin (hi / lo)); [apply log10R_ratio; assumption | reflexivity].
Qed.
