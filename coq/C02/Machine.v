(* C02, one prior OBJECT used several times (SWEEP class 1: state carried between two uses of one object).

   A prior object is built once (its message is fixed by the constructor: [pm]) and then used any number of
   times -- value_for, message.value_for, unit_value_for, random -- possibly with its public limit attributes
   re-assigned in between ([SetLimits]; Prior.assert_within_limits, the rounding guard of UniformPrior.value_for and
   the unit limits of Prior.random read self.lower_limit / self.upper_limit at the time of the call).

   The object may memoise.  A memo is an arbitrary [policy] (any cache type, any key); it is SOUND when everything
   it hands back for the current limits is what a fresh computation with the current limits gives.  For every sound
   policy the answers of every history are the answers of the memo-less object, i.e. each answer is a function of
   (message, current limits, query) only.  The code of the pinned tree keeps no memo ([no_cache]).  A memo keyed by
   the query alone (limits left out of the key, never invalidated) is not sound and changes an answer as soon as two
   limit settings answer one query differently ([by_query] below, refuted in Proofs/Witness). *)
From Coq Require Import List Bool.
From PAFC02 Require Import Model.
Import ListNotations.

Section Machine.
  Context {N : Type} (A : Arith N) (S : Special N) (var : variant).

  Inductive query :=
  | QValue (ignore : bool) (u : N)          (* prior.value_for(u, ignore_prior_limits=ignore) *)
  | QRaw (u : N)                            (* prior.message.value_for(u) *)
  | QUnit (x : N)                           (* prior.unit_value_for(x) *)
  | QLimits                                 (* (lower_unit_limit, upper_unit_limit) *)
  | QRandom (l u r : N).                    (* prior.random(l, u) with r = random.random() *)

  Inductive answer :=
  | AResult (r : result N)
  | ANum (x : N)
  | APair (x y : N).

  Inductive op :=
  | Use (q : query)
  | SetLimits (lo hi : N).                  (* prior.lower_limit = lo; prior.upper_limit = hi *)

  Definition set_limits (pg : prior N) (lo hi : N) : prior N :=
    mkPrior (p_family pg) (p_mean pg) (p_sigma pg) lo hi.

  (* what a fresh computation answers: message of pm, class and current limits of pg -- the dprior functions of Model.v *)
  Definition fresh (pm pg : prior N) (q : query) : answer :=
    match q with
    | QValue ig u => AResult (dprior_value_for A S var pm pg ig u)
    | QRaw u => ANum (msg_value_for A S (message_of A S pm) u)
    | QUnit x => ANum (unit_value_for A S pm x)
    | QLimits => APair (unit_value_for A S pm (p_lo pg)) (unit_value_for A S pm (p_hi pg))
    | QRandom l u r => AResult (dprior_random A S var pm pg l u r)
    end.

  Record policy := mkPolicy {
    cache : Type;
    c_empty : cache;
    c_lookup : cache -> prior N -> query -> option answer;      (* current limits are available to the key *)
    c_store : cache -> prior N -> query -> answer -> cache;
    c_on_set : cache -> cache                                   (* what the memo does when the limits are re-assigned *)
  }.

  Definition coherent (P : policy) (pm : prior N) (c : cache P) : Prop :=
    forall pg q a, c_lookup P c pg q = Some a -> a = fresh pm pg q.

  Record sound (P : policy) (pm : prior N) : Prop := mkSound {
    snd_empty : coherent P pm (c_empty P);
    snd_store : forall c pg q, coherent P pm c -> coherent P pm (c_store P c pg q (fresh pm pg q));
    snd_set : forall c, coherent P pm c -> coherent P pm (c_on_set P c)
  }.

  Definition step (P : policy) (pm : prior N) (pg : prior N) (c : cache P) (o : op)
    : prior N * cache P * option answer :=
    match o with
    | SetLimits lo hi => (set_limits pg lo hi, c_on_set P c, None)
    | Use q =>
        match c_lookup P c pg q with
        | Some a => (pg, c, Some a)
        | None => let a := fresh pm pg q in (pg, c_store P c pg q a, Some a)
        end
    end.

  Fixpoint run (P : policy) (pm pg : prior N) (c : cache P) (ops : list op) : list (option answer) :=
    match ops with
    | [] => []
    | o :: ops' =>
        match step P pm pg c o with
        | (pg', c', a) => a :: run P pm pg' c' ops'
        end
    end.

  (* the object of the pinned tree: no memo at all *)
  Definition no_cache : policy :=
    mkPolicy unit tt (fun _ _ _ => None) (fun _ _ _ _ => tt) (fun _ => tt).

  (* the specification: every use answers what a fresh computation with the limits of that moment answers *)
  Fixpoint spec (pm pg : prior N) (ops : list op) : list (option answer) :=
    match ops with
    | [] => []
    | Use q :: ops' => Some (fresh pm pg q) :: spec pm pg ops'
    | SetLimits lo hi :: ops' => None :: spec pm (set_limits pg lo hi) ops'
    end.

  (* limits in force after a history *)
  Fixpoint gate_after (pg : prior N) (ops : list op) : prior N :=
    match ops with
    | [] => pg
    | Use _ :: ops' => gate_after pg ops'
    | SetLimits lo hi :: ops' => gate_after (set_limits pg lo hi) ops'
    end.

  (* a memo keyed by the query alone: limits are not part of the key and re-assigning them does not clear it
     (the seeded kind of change: functools.lru_cache / a dict on the instance keyed by the unit value) *)
  Variable qeqb : query -> query -> bool.
  Fixpoint assoc (c : list (query * answer)) (q : query) : option answer :=
    match c with
    | [] => None
    | (q', a) :: c' => if qeqb q' q then Some a else assoc c' q
    end.
  Definition by_query : policy :=
    mkPolicy (list (query * answer)) [] (fun c _ q => assoc c q) (fun c _ q a => (q, a) :: c) (fun c => c).
End Machine.
