(* C02 witnesses: the hypotheses about the special functions are consistent (a concrete
   instance over R), the hypotheses of the theorems are jointly satisfiable, and the
   recorded findings replayed in the bit-exact binary64 model with the oracle values scipy
   returns: the rounding defect repaired in 9c8aefe (variant Current = the code before it),
   the ratio overflow repaired in e638353 and with_limits keeping the old message repaired in
   d755794 (both replayed in examples named ...legacy...), and the two open ones (lower-tail cancellation, last-bit
   non-monotonicity). *)
From Coq Require Import Reals Lra List Bool.
From Coq Require Import Floats.PrimFloat.
From PAFCommon Require Import PyFloat.
From PAFC02 Require Import Model Proofs ProofsQ ProofsB.
Import ListNotations.

(* ---------- 1. binary64: the rounding finding (code before 9c8aefe = Current; code as it is = Repaired) ---------- *)

(* UniformPrior(-4.0, 1.5999999999999996).value_for(1 - 2**-53): erfinv(0x1.ffffffffffffep-1) and
   ndtr(0x1.06b48528cea52p+3) as returned by scipy 1.14; the code returns 1.6 > upper limit *)
Definition tbl_a : table :=
  [(1%positive, 0x1.ffffffffffffep-1%float, 0x1.73856d153f081p+2%float);
   (2%positive, 0x1.06b48528cea52p+3%float, 0x1.fffffffffffffp-1%float)].
Definition prior_a : prior float := mkPrior Uniform 0%float 1%float (-0x1p+2)%float 0x1.9999999999998p+0%float.

Example float_current_out_of_limit :
  exists v, prior_value_for FArith (FSpecial tbl_a) Current prior_a false 0x1.fffffffffffffp-1%float = Ok v
            /\ PrimFloat.ltb (p_hi prior_a) v = true /\ fbits_eqb v 0x1.999999999999ap+0%float = true.
Proof. eexists. split; [vm_compute; reflexivity | split; vm_compute; reflexivity]. Qed.

Example float_repaired_within_limit :
  exists v, prior_value_for FArith (FSpecial tbl_a) Repaired prior_a false 0x1.fffffffffffffp-1%float = Ok v
            /\ within FArith prior_a v = true.
Proof. eexists. split; [vm_compute; reflexivity | vm_compute; reflexivity]. Qed.

(* UniformPrior(0, 8e-15).value_for(0.75) = 1e-14 > 8e-15 *)
Definition tbl_b : table :=
  [(1%positive, 0x1p-1%float, 0x1.e861fbb24c00ap-2%float);
   (2%positive, 0x1.5956b87528a4ap-1%float, 0x1.8p-1%float)].
Definition prior_b : prior float := mkPrior Uniform 0%float 1%float 0%float 0x1.203af9ee75616p-47%float.

Example float_current_tiny_width :
  exists v, prior_value_for FArith (FSpecial tbl_b) Current prior_b false 0x1.8p-1%float = Ok v
            /\ PrimFloat.ltb (p_hi prior_b) v = true.
Proof. eexists. split; vm_compute; reflexivity. Qed.

(* ---------- 1b. binary64: the open findings, and the legacy of the two repaired after the review ---------- *)

(* last-bit non-monotonicity: UniformPrior(0, 1e6), neighbouring unit values, scipy's ndtr(sqrt2*erfinv(.)) decreases *)
Definition tbl_m : table :=
  [(1%positive, (-0x1.67e0e3d79c382p-1)%float, (-0x1.797a65c252fd6p-1)%float);
   (2%positive, (-0x1.0aead677ce203p+0)%float, 0x1.303e3850c78fep-3%float);
   (1%positive, (-0x1.67e0e3d79c380p-1)%float, (-0x1.797a65c252fd5p-1)%float);
   (2%positive, (-0x1.0aead677ce202p+0)%float, 0x1.303e3850c78fcp-3%float)].
Definition prior_m : prior float := mkPrior Uniform 0%float 1%float 0%float 0x1.e848p+19%float.

Example float_monotone_refuted :
  exists v1 v2,
    PrimFloat.ltb 0x1.303e3850c78fcp-3%float 0x1.303e3850c78fep-3%float = true /\
    prior_value_for FArith (FSpecial tbl_m) Repaired prior_m false 0x1.303e3850c78fcp-3%float = Ok v1 /\
    prior_value_for FArith (FSpecial tbl_m) Repaired prior_m false 0x1.303e3850c78fep-3%float = Ok v2 /\
    PrimFloat.ltb v2 v1 = true.
Proof. eexists. eexists. repeat split; vm_compute; reflexivity. Qed.

(* ratio overflow: LogUniformPrior(1e-200, 1e200): log10(hi / lo) = log10(inf) = inf, the stack maps u = 0.5 to inf;
   with the guarded scale (log10 hi - log10 lo = 400) it maps to 1.0.  Stated on the explicit stack so that it does
   not depend on [loguniform_variant]. *)
Definition tbl_r : table :=
  [(4%positive, 0x1.87e92154ef7acp-665%float, (-0x1.9p+7)%float); (4%positive, infinity, infinity);
   (4%positive, 0x1.4e718d7d7625ap+664%float, 0x1.9p+7%float); (1%positive, 0%float, 0%float);
   (2%positive, 0%float, 0x1p-1%float); (5%positive, infinity, infinity); (5%positive, 0%float, 1%float)].
Definition lo_r : float := 0x1.87e92154ef7acp-665%float.
Definition hi_r : float := 0x1.4e718d7d7625ap+664%float.
Definition stack_r (lv : lu_variant) : list (transform float) :=
  [TPhi; TLinear (tlookup tbl_r 4%positive lo_r) (loguniform_scale FArith (FSpecial tbl_r) lv lo_r hi_r); TLog10].

Example float_ratio_overflow_legacy_refuted :
  fbits_eqb (loguniform_scale FArith (FSpecial tbl_r) LUCurrent lo_r hi_r) infinity = true /\
  fbits_eqb (msg_inverse_transform FArith (FSpecial tbl_r) (stack_r LUCurrent)
               (normal_value_for FArith (FSpecial tbl_r) 0%float 1%float 0x1p-1%float)) infinity = true /\
  post FArith Repaired (mkPrior LogUniform 0%float 1%float lo_r hi_r) false infinity = LimitExc.
Proof. repeat split; vm_compute; reflexivity. Qed.

Example float_ratio_guard_repairs :
  fbits_eqb (loguniform_scale FArith (FSpecial tbl_r) LURatioGuard lo_r hi_r) 0x1.9p+8%float = true /\
  post FArith Repaired (mkPrior LogUniform 0%float 1%float lo_r hi_r) false
       (msg_inverse_transform FArith (FSpecial tbl_r) (stack_r LURatioGuard)
          (normal_value_for FArith (FSpecial tbl_r) 0%float 1%float 0x1p-1%float)) = Ok 1%float.
Proof. split; vm_compute; reflexivity. Qed.

(* the code as it is: LogUniformPrior(1e-200, 1e200).value_for(0.5) = 1.0, through message_of *)
Example float_ratio_overflow_now_returns :
  prior_value_for FArith (FSpecial tbl_r) Repaired (mkPrior LogUniform 0%float 1%float lo_r hi_r) false 0x1p-1%float = Ok 1%float.
Proof. vm_compute. reflexivity. Qed.

(* lower-tail cancellation: GaussianPrior(0, 1).value_for(1e-17): 1 - 2*(1 - u) = -1, erfinv(-1) = -inf *)
Example float_lower_tail_refuted :
  prior_value_for FArith (FSpecial [(1%positive, (-1)%float, neg_infinity)]) Repaired
                  (mkPrior Gaussian 0%float 1%float neg_infinity infinity) false 0x1.70ef54646d497p-57%float
  = Ok neg_infinity.
Proof. vm_compute. reflexivity. Qed.

(* with_limits keeps the old message: UniformPrior(0,1).with_limits(0.2, 0.4) raises at u = 0.5 (declared quantile 0.3)
   and returns 0.3 at u = 0.3 (declared quantile 0.26) *)
Definition tbl_w : table :=
  [(1%positive, 0%float, 0%float); (2%positive, 0%float, 0x1p-1%float);
   (1%positive, (-0x1.9999999999998p-2)%float, (-0x1.7bb4df2d20c8ep-2)%float);
   (2%positive, (-0x1.0c7e39582c5fap-1)%float, 0x1.3333333333334p-2%float)].
Definition pm_w : prior float := mkPrior Uniform 0%float 1%float 0%float 1%float.
Definition pg_w : prior float := mkPrior Uniform 0%float 1%float 0x1.999999999999ap-3%float 0x1.999999999999ap-2%float.

Example float_with_limits_keeps_message_legacy :
  dprior_value_for FArith (FSpecial tbl_w) Repaired pm_w pg_w false 0x1p-1%float = LimitExc /\
  dprior_value_for FArith (FSpecial tbl_w) Repaired pm_w pg_w false 0x1.3333333333333p-2%float = Ok 0x1.3333333333333p-2%float.
Proof. split; vm_compute; reflexivity. Qed.

(* a prior derived from itself is the prior *)
Example derived_from_itself : forall (var : variant) (p : prior float) (t : table) (ig : bool) (u : float),
  dprior_value_for FArith (FSpecial t) var p p ig u = prior_value_for FArith (FSpecial t) var p ig u.
Proof. reflexivity. Qed.

(* a pinned pair of the repository's own tests: UniformPrior(0, 1).value_for(0.25) = 0.25 *)
Definition tbl_c : table :=
  [(1%positive, (-0x1p-1)%float, (-0x1.e861fbb24c00ap-2)%float);
   (2%positive, (-0x1.5956b87528a4ap-1)%float, 0x1p-2%float)].
Example float_unit_uniform_quarter :
  prior_value_for FArith (FSpecial tbl_c) Current (mkPrior Uniform 0%float 1%float 0%float 1%float) false 0x1p-2%float
  = Ok 0x1p-2%float.
Proof. vm_compute. reflexivity. Qed.

(* a missing oracle entry fails closed: the model yields nan, which never equals an implementation value *)
Example missing_oracle_entry_is_nan :
  check_case (CPrior (mkPrior Gaussian 0%float 1%float neg_infinity infinity) [] [ORaw 0x1p-1%float 0%float]) = false.
Proof. vm_compute. reflexivity. Qed.

(* ---------- 2. the hypotheses about Phi / PhiInv / erfinv / round14 are consistent ---------- *)
Open Scope R_scope.

Definition Phi0 (x : R) : R := (1 + x / (1 + Rabs x)) / 2.
Definition PhiInv0 (u : R) : R := (2 * u - 1) / (1 - Rabs (2 * u - 1)).
Definition erfinv0 (t : R) : R := PhiInv0 ((1 + t) / 2) / R_sqrt.sqrt 2.
Definition F0 : funs := mkFuns Phi0 PhiInv0 erfinv0 (fun x => x).

Lemma squash_nonneg (x : R) : 0 <= x -> x / (1 + Rabs x) = 1 - / (1 + x).
Proof. intro H. rewrite Rabs_right by lra. field. lra. Qed.

Lemma squash_neg (x : R) : x < 0 -> x / (1 + Rabs x) = / (1 - x) - 1.
Proof. intro H. rewrite Rabs_left by lra. field. lra. Qed.

Lemma squash_incr (x y : R) : x < y -> x / (1 + Rabs x) < y / (1 + Rabs y).
Proof.
  intro H. destruct (Rle_lt_dec 0 x) as [Hx|Hx]; destruct (Rle_lt_dec 0 y) as [Hy|Hy]; try lra.
  - rewrite !squash_nonneg by lra.
    assert (I : / (1 + y) < / (1 + x)) by (apply Rinv_lt_contravar; nra). lra.
  - rewrite squash_neg, squash_nonneg by lra.
    assert (A : / (1 - x) < 1) by (rewrite <- Rinv_1 at 2; apply Rinv_lt_contravar; lra).
    assert (B : 0 < / (1 + y)) by (apply Rinv_0_lt_compat; lra).
    assert (C : / (1 + y) <= 1) by (rewrite <- Rinv_1 at 2; apply Rinv_le_contravar; lra). lra.
  - rewrite !squash_neg by lra.
    assert (I : / (1 - x) < / (1 - y)) by (apply Rinv_lt_contravar; nra). lra.
Qed.

Lemma squash_range (x : R) : -1 < x / (1 + Rabs x) < 1.
Proof.
  destruct (Rle_lt_dec 0 x) as [Hx|Hx].
  - rewrite squash_nonneg by lra. assert (B : 0 < / (1 + x)) by (apply Rinv_0_lt_compat; lra).
    assert (C : / (1 + x) <= 1) by (rewrite <- Rinv_1 at 2; apply Rinv_le_contravar; lra). lra.
  - rewrite squash_neg by lra. assert (B : 0 < / (1 - x)) by (apply Rinv_0_lt_compat; lra).
    assert (C : / (1 - x) < 1) by (rewrite <- Rinv_1 at 2; apply Rinv_lt_contravar; lra). lra.
Qed.

Lemma unsquash_squash (x : R) : let t := x / (1 + Rabs x) in t / (1 - Rabs t) = x.
Proof.
  intro t. unfold t. destruct (Rle_lt_dec 0 x) as [Hx|Hx].
  - rewrite (Rabs_right x) by lra. rewrite Rabs_right; [field; lra|].
    apply Rle_ge. apply Rmult_le_pos; [lra | left; apply Rinv_0_lt_compat; lra].
  - rewrite (Rabs_left x) by lra. rewrite Rabs_left; [field; lra|].
    assert (B : 0 < / (1 + - x)) by (apply Rinv_0_lt_compat; lra). unfold Rdiv. nra.
Qed.

Lemma squash_unsquash (t : R) : -1 < t < 1 -> let y := t / (1 - Rabs t) in y / (1 + Rabs y) = t.
Proof.
  intros Ht y. unfold y. destruct (Rle_lt_dec 0 t) as [H|H].
  - rewrite (Rabs_right t) by lra. rewrite Rabs_right; [field; lra|].
    apply Rle_ge. apply Rmult_le_pos; [lra | left; apply Rinv_0_lt_compat; lra].
  - rewrite (Rabs_left t) by lra. rewrite Rabs_left; [field; lra|].
    assert (B : 0 < / (1 - - t)) by (apply Rinv_0_lt_compat; lra). unfold Rdiv. nra.
Qed.

Lemma sqrt2_neq_0 : R_sqrt.sqrt 2 <> 0.
Proof. intro H. apply sqrt_eq_0 in H; lra. Qed.

Example special_functions_satisfiable : special_ok F0.
Proof.
  unfold special_ok, F0; simpl. repeat split.
  - intros x y H. unfold Phi0. pose proof (squash_incr x y H). lra.
  - unfold Phi0. pose proof (squash_range x). lra.
  - unfold Phi0. pose proof (squash_range x). lra.
  - intro x. unfold PhiInv0, Phi0.
    assert (P : 1 + Rabs x <> 0) by (pose proof (Rabs_pos x); lra).
    replace (2 * ((1 + x / (1 + Rabs x)) / 2) - 1) with (x / (1 + Rabs x)) by (field; exact P).
    apply unsquash_squash.
  - intros u Hu. unfold PhiInv0, Phi0. rewrite (squash_unsquash (2 * u - 1)) by lra. field.
  - intros t Ht. unfold erfinv0. field. apply sqrt2_neq_0.
Qed.

Example rounding_satisfiable : round_ok F0.
Proof.
  unfold round_ok, F0; simpl. repeat split; intros; try lra.
  replace (x - x) with 0 by ring. rewrite Rabs_R0. apply five_e15_nonneg.
Qed.

(* ---------- 3. the hypotheses of the theorems are jointly satisfiable ---------- *)

Definition gaussian_01 : prior R := mkPrior Gaussian 0 1 (-1) 1.
Definition loguniform_ex : prior R := mkPrior LogUniform 0 1 (1 / 1000) 1000.
Definition uniform_ex : prior R := mkPrior Uniform 0 1 0 2.

Example priors_valid : valid gaussian_01 /\ valid loguniform_ex /\ valid uniform_ex.
Proof. unfold valid; simpl. repeat split; lra. Qed.

(* C02_monotone / C02_inverse are not vacuous: value_for does return values for unit values in (0,1) *)
Example monotone_not_vacuous :
  exists v v', value_for_R F0 Current uniform_ex true (1 / 4) = Ok v /\ value_for_R F0 Current uniform_ex true (3 / 4) = Ok v' /\ v <= v'.
Proof.
  destruct (gate_ignored_b F0 Current uniform_ex (1 / 4)) as [v Hv].
  destruct (gate_ignored_b F0 Current uniform_ex (3 / 4)) as [v' Hv'].
  exists v, v'. repeat split; try assumption.
  apply (monotone_b F0 special_functions_satisfiable rounding_satisfiable Current uniform_ex true (1 / 4) (3 / 4));
    try assumption; try lra. apply priors_valid.
Qed.

(* the uniform quantile really is the midpoint at 1/2, through the whole stack *)
Example uniform_midpoint : raw_value_R F0 uniform_ex (1 / 2) = 1.
Proof.
  rewrite (quantile_uniform_b F0 special_functions_satisfiable uniform_ex (1 / 2) eq_refl) by lra. simpl. lra.
Qed.

(* a transform stack meeting the hypothesis of the stack theorems: the one LogUniformPrior builds *)
Example stack_hypothesis_holds : Forall pos_scale (m_transforms (message_of (RAf F0) (RSf F0) loguniform_ex)).
Proof. apply (message_valid Phi0 PhiInv0 erfinv0 (fun x => x)). apply priors_valid. Qed.

(* the guard of the partial theorem is satisfiable and the refutation witness violates it *)
From Coq Require Import QArith.
Open Scope Q_scope.
Example guard_holds_for_two_decimals :
  round14_Q (25 # 100) == 25 # 100 /\ round14_Q (175 # 100) == 175 # 100.
Proof. split; vm_compute; reflexivity. Qed.

Example witness_violates_guard : ~ round14_Q (8 # 1000000000000000) == 8 # 1000000000000000.
Proof. vm_compute. discriminate. Qed.

(* ---------- one prior object used several times (Machine.v / ProofsM.v) ---------- *)
From PAFC02 Require Import Machine ProofsM.
Close Scope Q_scope.

(* the hypothesis "sound policy" of C02_history_independent is satisfiable: the memo-less object of the pinned tree *)
Example machine_sound_not_vacuous : sound FArith (FSpecial []) Repaired no_cache prior_a.
Proof. apply no_cache_sound. Qed.

(* GaussianPrior(0, 1, -1, 1): value_for(0.5) = 0.0; after prior.lower_limit, prior.upper_limit = 1, 2 the same call
   raises (erfinv(0) = 0 from scipy) -- the hypothesis of C02_memo_by_query_refuted holds for this pair of limits *)
Definition tbl_mach : table := [(1%positive, 0%float, 0%float)].
Definition prior_mach : prior float := mkPrior Gaussian 0%float 1%float (-1)%float 1%float.
Definition q_mach : query (N := float) := QValue false 0x1p-1%float.

Example machine_history_example :
  run FArith (FSpecial tbl_mach) Repaired no_cache prior_mach prior_mach tt [Use q_mach; SetLimits 1%float 2%float; Use q_mach]
  = [Some (AResult (Ok 0%float)); None; Some (AResult LimitExc)].
Proof. vm_compute. reflexivity. Qed.

Example memo_by_query_hypothesis_satisfiable :
  fresh FArith (FSpecial tbl_mach) Repaired prior_mach prior_mach q_mach <>
  fresh FArith (FSpecial tbl_mach) Repaired prior_mach (set_limits prior_mach 1%float 2%float) q_mach.
Proof. vm_compute. discriminate. Qed.

(* and the stale memo then hands out a value outside the limits in force: 0.0 although the limits are [1, 2] *)
Example memo_by_query_returns_out_of_limit :
  forall qeqb : query -> query -> bool, qeqb q_mach q_mach = true ->
  last (run FArith (FSpecial tbl_mach) Repaired (by_query qeqb) prior_mach prior_mach [] [Use q_mach; SetLimits 1%float 2%float; Use q_mach]) None
  = Some (AResult (Ok 0%float)).
Proof. intros qeqb H. simpl. rewrite H. vm_compute. reflexivity. Qed.
