(* C01: the unary node (ModifiedPrior: NegativePrior -p, AbsolutePrior abs(p)).
   A unary node contributes exactly its operand's parameters, in the same order, each path prefixed with the
   operand's attribute name; its value is the operator applied to the operand's value under the same
   assignment; subtraction as the API builds it (a - b = SumPrior(a, NegativePrior(b))). *)
From Coq Require Import List String Bool Arith PeanoNat Lia Permutation Sorted.
From PAFC01 Require Import ModelTree Sorting Proofs Proofs2 Proofs3 Proofs4.
Import ListNotations.
Local Open Scope string_scope.
Local Open Scope list_scope.

(* ---------- sorting / dictionaries commute with maps that keep the key ---------- *)
Lemma insert_by_map {A B} (ka : A -> nat) (kb : B -> nat) (f : A -> B) :
  (forall x, kb (f x) = ka x) -> forall x l, insert_by kb (f x) (map f l) = map f (insert_by ka x l).
Proof.
  intros K x l. induction l as [|y l IH]; simpl; [reflexivity|].
  rewrite !K. destruct (Nat.leb (ka x) (ka y)); simpl; [reflexivity|]. rewrite IH. reflexivity.
Qed.

Lemma sort_by_map {A B} (ka : A -> nat) (kb : B -> nat) (f : A -> B) :
  (forall x, kb (f x) = ka x) -> forall l, sort_by kb (map f l) = map f (sort_by ka l).
Proof.
  intros K l. unfold sort_by. induction l as [|y l IH]; simpl; [reflexivity|].
  rewrite IH. apply insert_by_map. exact K.
Qed.

Definition on_val {B C} (g : B -> C) (kv : nat * B) : nat * C := (fst kv, g (snd kv)).

Lemma dict_set_map {B C} (g : B -> C) (k : nat) (v : B) (d : list (nat * B)) :
  dict_set k (g v) (map (on_val g) d) = map (on_val g) (dict_set k v d).
Proof.
  induction d as [|[k' v'] d IH]; simpl; [reflexivity|].
  destruct (Nat.eqb k k'); simpl; [reflexivity|]. rewrite IH. reflexivity.
Qed.

Lemma dict_of_map {B C} (g : B -> C) (l : list (nat * B)) :
  dict_of (map (on_val g) l) = map (on_val g) (dict_of l).
Proof.
  unfold dict_of.
  assert (G : forall d, fold_left (fun d kv => dict_set (fst kv) (snd kv) d) (map (on_val g) l) (map (on_val g) d)
                        = map (on_val g) (fold_left (fun d kv => dict_set (fst kv) (snd kv) d) l d)).
  { induction l as [|[k v] l IH]; intro d; simpl; [reflexivity|].
    rewrite (dict_set_map g k v d). apply IH. }
  exact (G []).
Qed.

Section P6.
  Variable V : Type.
  Variable bin : binop -> V -> V -> V.
  Variable un : unop -> V -> V.
  Notation node := (node V).
  Notation ival := (ival V).

  Definition swap_pp (pp : path * nat) : nat * path := (snd pp, fst pp).

  Lemma swap_prefix (nm : string) (l : list (path * nat)) :
    map (fun pp => (snd pp, fst pp)) (prefix_paths nm l) = map (on_val (cons nm)) (map (fun pp => (snd pp, fst pp)) l).
  Proof. unfold prefix_paths. rewrite !map_map. reflexivity. Qed.

  Lemma walk_un (o : unop) (nm : string) (c : node) : walk V (NUn o nm c) = prefix_paths nm (walk V c).
  Proof. reflexivity. Qed.

  Lemma prior_ids_un (o : unop) (nm : string) (c : node) : prior_ids V (NUn o nm c) = prior_ids V c.
  Proof. unfold prior_ids. cbn [walk]. unfold prefix_paths. rewrite map_map. reflexivity. Qed.

  Lemma path_priors_un (o : unop) (nm : string) (c : node) :
    path_priors V (NUn o nm c) = prefix_paths nm (path_priors V c).
  Proof.
    unfold path_priors. cbn [walk]. unfold prefix_paths.
    apply (sort_by_map snd snd (fun pp : path * nat => (nm :: fst pp, snd pp))). reflexivity.
  Qed.

  Lemma paths_un (o : unop) (nm : string) (c : node) : paths V (NUn o nm c) = map (cons nm) (paths V c).
  Proof. unfold paths. rewrite path_priors_un. unfold prefix_paths. rewrite !map_map. reflexivity. Qed.

  Lemma unique_priors_un (o : unop) (nm : string) (c : node) :
    unique_priors V (NUn o nm c) = map (on_val (cons nm)) (unique_priors V c).
  Proof. unfold unique_priors. cbn [walk]. rewrite swap_prefix. apply dict_of_map. Qed.

  Lemma ordered_ids_un (o : unop) (nm : string) (c : node) : ordered_ids V (NUn o nm c) = ordered_ids V c.
  Proof.
    unfold ordered_ids. rewrite unique_priors_un.
    rewrite (sort_by_map fst fst (on_val (cons nm))) by reflexivity.
    rewrite map_map. reflexivity.
  Qed.

  Lemma prior_count_un (o : unop) (nm : string) (c : node) : prior_count V (NUn o nm c) = prior_count V c.
  Proof. unfold prior_count. rewrite unique_priors_un. apply map_length. Qed.

  Lemma unique_prior_paths_un (o : unop) (nm : string) (c : node) :
    unique_prior_paths V (NUn o nm c) = map (cons nm) (unique_prior_paths V c).
  Proof.
    unfold unique_prior_paths, unique_path_priors. rewrite path_priors_un, swap_prefix, dict_of_map.
    rewrite (sort_by_map fst fst (on_val (cons nm))) by reflexivity.
    rewrite !map_map. reflexivity.
  Qed.

  (* the parameter order of a unary node is its operand's *)
  Theorem unary_order (o : unop) (nm : string) (c : node) :
    walk V (NUn o nm c) = prefix_paths nm (walk V c) /\
    prior_ids V (NUn o nm c) = prior_ids V c /\
    ordered_ids V (NUn o nm c) = ordered_ids V c /\
    prior_count V (NUn o nm c) = prior_count V c /\
    paths V (NUn o nm c) = map (cons nm) (paths V c) /\
    unique_prior_paths V (NUn o nm c) = map (cons nm) (unique_prior_paths V c).
  Proof.
    repeat split; [apply prior_ids_un|apply ordered_ids_un|apply prior_count_un|apply paths_un|apply unique_prior_paths_un].
  Qed.

  (* object_for_path: below a unary node only the operand's attribute name leads anywhere *)
  Theorem unary_prior_at (o : unop) (nm k : string) (c : node) (p : path) :
    prior_at V (k :: p) (NUn o nm c) = if String.eqb k nm then prior_at V p c else None.
  Proof. reflexivity. Qed.

  Definition is_const (c : node) : bool := match c with NConst _ => true | _ => false end.

  (* value: the operator applied to the operand's value under the SAME assignment; no value when the operand has none *)
  Lemma inst_un (args : nat -> option V) (o : unop) (nm : string) (c : node) :
    is_const c = false ->
    inst V bin un args (NUn o nm c) =
    match inst V bin un args c with IV a => IV (un o a) | _ => IMissing end.
  Proof. intro H. destruct c; try discriminate; reflexivity. Qed.

  Theorem unary_value (args : nat -> option V) (n : node) (p : path) (o : unop) (nm : string) (c : node) :
    node_at V p n = Some (NUn o nm c) -> is_const c = false ->
    (forall a, inst V bin un args c = IV a -> lookup V p (inst V bin un args n) = Some (IV (un o a))) /\
    ((forall a, inst V bin un args c <> IV a) -> lookup V p (inst V bin un args n) = Some IMissing).
  Proof.
    intros H Hc. rewrite (lookup_inst V bin un args p n _ H). rewrite (inst_un args o nm c Hc). split.
    - intros a E. rewrite E. reflexivity.
    - intro N. destruct (inst V bin un args c) as [a| | | |]; try reflexivity. exfalso. exact (N a eq_refl).
  Qed.

  (* a float operand (not constructible through -x / abs(x), which stay floats) has no instance_for_arguments *)
  Theorem unary_of_constant_raises (args : nat -> option V) (o : unop) (nm : string) (v : V) :
    inst V bin un args (NUn o nm (NConst v)) = IMissing.
  Proof. reflexivity. Qed.

  (* subtraction as the API builds it: a - b = SumPrior(a, NegativePrior(b)); the value is a + (-b) from one
     assignment, the parameters are those of a followed by those of b (b's under the operand attribute) *)
  Theorem subtraction_as_built (args : nat -> option V) (ln rn nm : string) (l r : node) (a b : V) :
    eval V bin un args l = Some a -> eval V bin un args r = Some b -> is_const r = false ->
    inst V bin un args (NBin OAdd ln rn l (NUn UNeg nm r)) = IV (bin OAdd a (un UNeg b)) /\
    (ln <> rn -> walk V (NBin OAdd ln rn l (NUn UNeg nm r))
                 = prefix_paths ln (walk V l) ++ prefix_paths rn (prefix_paths nm (walk V r))).
  Proof.
    intros El Er Hc. split.
    - apply inst_eval. cbn [eval]. rewrite El.
      destruct r; try discriminate; rewrite Er; reflexivity.
    - intro Hne. cbn [walk]. destruct (String.eqb_spec ln rn) as [E|_]; [contradiction|]. reflexivity.
  Qed.

  (* the i-th value reaches the operand of a unary node at a structural place: if the i-th parameter IS the
     operand, the instance holds op(v_i) there *)
  Theorem unary_of_ith_value (n : node) (vec : list V) (i : nat) (p : path) (o : unop) (nm : string) (dv : V) :
    List.length vec = prior_count V n -> i < prior_count V n ->
    node_at V p n = Some (NUn o nm (NPrior (nth i (ordered_ids V n) 0))) ->
    lookup V p (inst_from_vector V bin un n vec) = Some (IV (un o (nth i vec dv))).
  Proof.
    intros L Hi H. unfold inst_from_vector. rewrite (lookup_inst V bin un _ p n _ H). cbn [inst].
    rewrite (zip_args_nth V _ vec i 0 dv); [reflexivity|apply ordered_ids_nodup| |];
      rewrite ordered_ids_length; assumption.
  Qed.
End P6.
