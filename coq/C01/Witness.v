(* Non-vacuity for C01: a concrete composed model meeting the theorems' hypotheses. *)
From Coq Require Import List String Permutation ZArith.
From PAFC01 Require Import ModelTree Sorting Proofs Proofs2 Proofs3.
Import ListNotations.
Local Open Scope string_scope.
Local Open Scope list_scope.

Definition zbin (o : binop) (a b : Z) : Z :=
  match o with OAdd => (a + b)%Z | OSub => (a - b)%Z | OMul => (a * b)%Z | ODiv => (a / b)%Z end.

(* Collection(g = Model(T2, c = p1, pos = (p0, 7)), h = Model(G2, a = p1 (shared), b = p0 * 2)) *)
Definition ex : node Z :=
  NColl [("g", NModel "T2" ["c"; "pos"]
                 [("c", NPrior 1); ("pos", NTuple [("pos_1", (1, NConst 7%Z)); ("pos_0", (0, NPrior 0))])]);
         ("h", NModel "G2" ["a"; "b"]
                 [("a", NPrior 1); ("b", NBin OMul "x" "y" (NPrior 0) (NConst 2%Z))])].

Example ex_count : prior_count Z ex = 2 /\ ordered_ids Z ex = [0; 1].
Proof. vm_compute. split; reflexivity. Qed.

Example ex_paths : unique_prior_paths Z ex = [["h"; "b"; "x"]; ["h"; "a"]].
Proof. vm_compute. reflexivity. Qed.

Example ex_placement_hyp : node_at Z ["g"; "c"] ex = Some (NPrior (nth 1 (ordered_ids Z ex) 0))
                           /\ node_at Z ["h"; "a"] ex = Some (NPrior (nth 1 (ordered_ids Z ex) 0)).
Proof. vm_compute. split; reflexivity. Qed.

Example ex_instance :
  inst_from_vector Z zbin ex [10%Z; 20%Z] =
  IColl [("g", IObj "T2" [("c", IV 20%Z); ("pos", ITup [IV 10%Z; IV 7%Z])]);
         ("h", IObj "G2" [("a", IV 20%Z); ("b", IV 20%Z)])].
Proof. vm_compute. reflexivity. Qed.

Example ex_tuple_hyp :
  Permutation (map (fun m : string * (nat * node Z) => fst (snd m)) [("pos_1", (1, NConst 7%Z)); ("pos_0", (0, NPrior 0))])
              (seq 0 2).
Proof. simpl. apply perm_swap. Qed.

Example ex_wf : wf Z ex.
Proof.
  simpl. repeat split; try discriminate;
    repeat (constructor; [simpl; intuition discriminate|]); constructor.
Qed.
