(* Non-vacuity for C01: a concrete composed model meeting the theorems' hypotheses. *)
From Coq Require Import List String Permutation ZArith.
From Coq Require Import Floats.PrimFloat Lia.
From PAFC01 Require Import ModelTree Sorting Proofs Proofs2 Proofs3 Proofs4 Model Proofs5 Proofs6 Proofs7 Proofs8.
Import ListNotations.
Local Open Scope string_scope.
Local Open Scope list_scope.

Definition zbin (o : binop) (a b : Z) : Z :=
  match o with OAdd => (a + b)%Z | OSub => (a - b)%Z | OMul => (a * b)%Z | ODiv => (a / b)%Z
  | OFloorDiv => (a / b)%Z | OMod => (a mod b)%Z end.   (* Z.div / Z.modulo: floor division, remainder with the sign of the divisor *)

Definition zun (o : unop) (a : Z) : Z := match o with UNeg => (- a)%Z | UAbs => Z.abs a end.

(* Collection(g = Model(T2, c = p1, pos = (p0, 7)), h = Model(G2, a = p1 (shared), b = p0 * 2)) *)
Definition ex : node Z :=
  NColl [("g", NModel "T2" ["c"; "pos"]
                 [("c", NPrior 1); ("pos", NTuple [("pos_1", (1, NConst 7%Z)); ("pos_0", (0, NPrior 0))])]);
         ("h", NModel "G2" ["a"; "b"]
                 [("a", NPrior 1); ("b", NBin OMul "x" "y" (NPrior 0) (NConst 2%Z))])].

Example ex_count : prior_count Z ex = 2 /\ ordered_ids Z ex = [0; 1].
Proof. vm_compute. split; reflexivity. Qed.

Example ex_paths : unique_prior_paths Z ex = [["h"; "b"; "x"]; ["h"; "a"]].
Proof. vm_compute. reflexivity. Qed.

Example ex_placement_hyp : node_at Z ["g"; "c"] ex = Some (NPrior (nth 1 (ordered_ids Z ex) 0))
                           /\ node_at Z ["h"; "a"] ex = Some (NPrior (nth 1 (ordered_ids Z ex) 0)).
Proof. vm_compute. split; reflexivity. Qed.

Example ex_instance :
  inst_from_vector Z zbin zun ex [10%Z; 20%Z] =
  IColl [("g", IObj "T2" [("c", IV 20%Z); ("pos", ITup [IV 10%Z; IV 7%Z])]);
         ("h", IObj "G2" [("a", IV 20%Z); ("b", IV 20%Z)])].
Proof. vm_compute. reflexivity. Qed.

Example ex_tuple_hyp :
  Permutation (map (fun m : string * (nat * node Z) => fst (snd m)) [("pos_1", (1, NConst 7%Z)); ("pos_0", (0, NPrior 0))])
              (seq 0 2).
Proof. simpl. apply perm_swap. Qed.

Example ex_wf : wf Z ex.
Proof.
  simpl. repeat split; try discriminate;
    repeat (constructor; [simpl; intuition discriminate|]); constructor.
Qed.

(* ---------- second round: headline theorem, weaker wf, any-path route, frame, unit route ---------- *)
Example ex_wf2 : wf2 Z ex.
Proof. apply wf_wf2. exact ex_wf. Qed.

(* C01_ith_value: the 1-st advertised path ["h";"a"] is structural, and the theorem's conclusion holds there *)
Example ex_ith_value_hyp : node_at Z (nth 1 (unique_prior_paths Z ex) []) ex <> None.
Proof. vm_compute. discriminate. Qed.

Example ex_ith_value :
  lookup Z (nth 1 (unique_prior_paths Z ex) []) (inst_from_vector Z zbin zun ex [10%Z; 20%Z]) = Some (IV (nth 1 [10%Z; 20%Z] 0%Z)).
Proof. exact (ith_value Z zbin zun ex [10%Z; 20%Z] 1 [] 0%Z ex_wf2 eq_refl (le_n 2) ex_ith_value_hyp). Qed.

(* the 0-th advertised path of ex lies inside an arithmetic node: not structural (C01_paths_classified, right branch) *)
Example ex_path0_not_structural : node_at Z (nth 0 (unique_prior_paths Z ex) []) ex = None.
Proof. vm_compute. reflexivity. Qed.

(* C01_ith_value_tuple: a model whose 0-th advertised path ends in a tuple member *)
Definition ext : node Z :=
  NColl [("g", NModel "T2" ["c"; "pos"]
                 [("c", NPrior 1); ("pos", NTuple [("pos_1", (1, NConst 7%Z)); ("pos_0", (0, NPrior 0))])])].

Example ext_tuple_hyp :
  wf2 Z ext /\ nth 0 (unique_prior_paths Z ext) [] = ["g"; "pos"] ++ ["pos_0"] /\
  node_at Z ["g"; "pos"] ext = Some (NTuple [("pos_1", (1, NConst 7%Z)); ("pos_0", (0, NPrior 0))]).
Proof.
  split; [|vm_compute; split; reflexivity].
  apply (wfb2_sound Z Z.eqb (fun a b H => proj1 (Z.eqb_eq a b) H)). vm_compute. reflexivity.
Qed.

Example ext_ith_value_tuple :
  exists vs, lookup Z ["g"; "pos"] (inst_from_vector Z zbin zun ext [10%Z; 20%Z]) = Some (ITup vs) /\
             List.length vs = 2 /\ nth 0 vs IMissing = IV (nth 0 [10%Z; 20%Z] 0%Z).
Proof.
  destruct ext_tuple_hyp as [W [Ep Hn]].
  apply (ith_value_tuple Z zbin zun ext [10%Z; 20%Z] 0 [] 0%Z ["g"; "pos"] "pos_0" _ 0 (NPrior 0) W eq_refl (le_S _ _ (le_n 1)) Ep Hn).
  - simpl. apply perm_swap.
  - right. left. reflexivity.
Qed.

(* weaker hypothesis: p * p (both operands one object, one attribute name) satisfies wfb2 but not wfb *)
Definition exsq : node Z :=
  NColl [("g", NModel "G2" ["a"; "b"] [("a", NBin OMul "p" "p" (NPrior 0) (NPrior 0)); ("b", NPrior 1)])].

Example exsq_wf : wfb Z exsq = false /\ wfb2 Z Z.eqb exsq = true.
Proof. vm_compute. split; reflexivity. Qed.

Example exsq_routes :
  inst_from_paths Z zbin zun exsq (combine (unique_prior_paths Z exsq) [3%Z; 5%Z]) = inst_from_vector Z zbin zun exsq [3%Z; 5%Z]
  /\ inst_from_vector Z zbin zun exsq [3%Z; 5%Z] = IColl [("g", IObj "G2" [("a", IV 9%Z); ("b", IV 5%Z)])].
Proof. vm_compute. split; reflexivity. Qed.

(* any-path route: parameter 1 addressed through its OTHER path g.c, parameter 0 given twice (last wins) *)
Example ex_any_paths_hyp :
  forall i, i < prior_count Z ex ->
    path_args Z ex [(["h"; "b"; "x"], 99%Z); (["g"; "c"], 20%Z); (["g"; "pos"; "pos_0"], 10%Z)] (nth i (ordered_ids Z ex) 0)
    = nth_error [10%Z; 20%Z] i.
Proof. intros [|[|i]] H; [reflexivity|reflexivity|vm_compute in H; lia]. Qed.

(* frame: the sub-model h.a does not contain parameter 0 *)
Example ex_frame_hyp :
  node_at Z ["h"; "a"] ex = Some (NPrior 1) /\ ~ In (nth 0 (ordered_ids Z ex) 0) (prior_ids Z (NPrior 1)).
Proof. split; [reflexivity|]. vm_compute. intros [H|[]]. discriminate H. Qed.

(* unit route: value_for q u = 100 * q + u *)
Example ex_unit :
  inst_from_unit Z zbin zun (fun q u => (100 * Z.of_nat q + u)%Z) ex [1%Z; 2%Z] =
  IColl [("g", IObj "T2" [("c", IV 102%Z); ("pos", ITup [IV 1%Z; IV 7%Z])]);
         ("h", IObj "G2" [("a", IV 102%Z); ("b", IV 2%Z)])].
Proof. vm_compute. reflexivity. Qed.

(* ---------- former finding arith-member-in-tuple (repaired by /repo 7acf0fe).  HISTORY: the code used to build
   a tuple from its Prior | float members only; legacy_prune is that view.  Today every member is evaluated:
   m = Model(T2, c=p2); m.pos_0 = p0 + p1; m.pos_1 = p1 builds pos = (0.75, 0.5) (legacy: (0.5,)). ---------- *)
Fixpoint legacy_prune (n : fnode) : fnode :=
  match n with
  | NTuple ms =>
      NTuple ((fix go (ms : list (string * (nat * fnode))) : list (string * (nat * fnode)) :=
                 match ms with
                 | [] => []
                 | (k, (i, c)) :: ms' =>
                     match c with
                     | NPrior _ | NConst _ => (k, (i, c)) :: go ms'
                     | _ => go ms'
                     end
                 end) ms)
  | NModel cls ctor attrs =>
      NModel cls ctor ((fix go (a : list (string * fnode)) : list (string * fnode) :=
                          match a with [] => [] | (k, c) :: a' => (k, legacy_prune c) :: go a' end) attrs)
  | NColl attrs =>
      NColl ((fix go (a : list (string * fnode)) : list (string * fnode) :=
                match a with [] => [] | (k, c) :: a' => (k, legacy_prune c) :: go a' end) attrs)
  | _ => n
  end.

Definition ex_arith_member : fnode :=
  NModel "T2" ["c"; "pos"]
    [("c", NPrior 2);
     ("pos", NTuple [("pos_0", (0, NBin OAdd "p0" "p1" (NPrior 0) (NPrior 1))); ("pos_1", (1, NPrior 1))])].

(* the model = the code as it now is *)
Example tuple_arith_member_now :
  lookup float ["pos"] (inst_from_vector float fbin funop ex_arith_member [0.25%float; 0.5%float; 0.75%float])
  = Some (ITup [IV 0.75%float; IV 0.5%float]).
Proof. vm_compute. reflexivity. Qed.

(* C01_tuple_member_derived: its hypotheses are met by the arithmetic member of ex_arith_member *)
Example tuple_member_derived_hyp :
  eval float fbin funop (zip_args float [0; 1; 2] [0.25%float; 0.5%float; 0.75%float]) (NBin OAdd "p0" "p1" (NPrior 0) (NPrior 1))
  = Some 0.75%float.
Proof. vm_compute. reflexivity. Qed.

Example tuple_arith_member_legacy_refuted :
  exists (n : fnode) (vec : list float),
    ival_eqb (inst float fbin funop (zip_args float (ordered_ids float n) vec) (legacy_prune n)) (inst_from_vector float fbin funop n vec) = false.
Proof. exists ex_arith_member, [0.25%float; 0.5%float; 0.75%float]. vm_compute. reflexivity. Qed.

Example tuple_arith_member_legacy :
  lookup float ["pos"] (inst float fbin funop (zip_args float (ordered_ids float ex_arith_member) [0.25%float; 0.5%float; 0.75%float]) (legacy_prune ex_arith_member))
  = Some (ITup [IV 0.5%float]).
Proof. vm_compute. reflexivity. Qed.

(* ---------- the unary node: Collection(g = Model(G2, a = abs(p0 - p1), b = -p1)); p0 - p1 is built by the
   API as SumPrior(p0, NegativePrior(p1)) ---------- *)
Definition exun : node Z :=
  NColl [("g", NModel "G2" ["a"; "b"]
                 [("a", NUn UAbs "self" (NBin OAdd "p0" "other" (NPrior 0) (NUn UNeg "p1" (NPrior 1))));
                  ("b", NUn UNeg "p1" (NPrior 1))])].

Example exun_order :
  ordered_ids Z exun = [0; 1] /\ prior_count Z exun = 2 /\
  unique_prior_paths Z exun = [["g"; "a"; "self"; "p0"]; ["g"; "b"; "p1"]] /\
  paths Z exun = [["g"; "a"; "self"; "p0"]; ["g"; "a"; "self"; "other"; "p1"]; ["g"; "b"; "p1"]].
Proof. vm_compute. repeat split; reflexivity. Qed.

Example exun_wf2 : wfb Z exun = true /\ wfb2 Z Z.eqb exun = true.
Proof. vm_compute. split; reflexivity. Qed.

Example exun_instance :
  inst_from_vector Z zbin zun exun [3%Z; 10%Z] = IColl [("g", IObj "G2" [("a", IV 7%Z); ("b", IV (-10)%Z)])].
Proof. vm_compute. reflexivity. Qed.

(* C01_unary_value / C01_unary_of_ith_value: hypotheses met at g.b *)
Example exun_value_hyp :
  node_at Z ["g"; "b"] exun = Some (NUn UNeg "p1" (NPrior (nth 1 (ordered_ids Z exun) 0))) /\
  is_const Z (NPrior 1) = false.
Proof. vm_compute. split; reflexivity. Qed.

Example exun_ith_value :
  lookup Z ["g"; "b"] (inst_from_vector Z zbin zun exun [3%Z; 10%Z]) = Some (IV (zun UNeg (nth 1 [3%Z; 10%Z] 0%Z))).
Proof. exact (unary_of_ith_value Z zbin zun exun [3%Z; 10%Z] 1 ["g"; "b"] UNeg "p1" 0%Z eq_refl (le_n 2) (proj1 exun_value_hyp)). Qed.

(* second half of C01_unary_value: no argument for the operand -> no value *)
Example exun_missing :
  lookup Z ["g"; "b"] (inst Z zbin zun (fun _ => None) exun) = Some IMissing.
Proof. vm_compute. reflexivity. Qed.

(* C01_subtraction: hypotheses met by p0 - p1 *)
Example exun_sub_hyp :
  eval Z zbin zun (zip_args Z [0; 1] [3%Z; 10%Z]) (NPrior 0) = Some 3%Z /\
  eval Z zbin zun (zip_args Z [0; 1] [3%Z; 10%Z]) (NPrior 1) = Some 10%Z /\ "p0" <> "other".
Proof. repeat split; try reflexivity. discriminate. Qed.

(* the float instance used by the correspondence: -x and abs(x) act on the sign bit only (also of zeros) *)
Example funop_signs :
  map (funop UNeg) [0.5%float; (-0.25)%float] = [(-0.5)%float; 0.25%float] /\
  map (funop UAbs) [0.5%float; (-0.25)%float] = [0.5%float; 0.25%float] /\
  PyFloat.fbits_eqb (funop UNeg 0%float) (-0)%float = true /\ PyFloat.fbits_eqb (funop UAbs (-0)%float) 0%float = true.
Proof. vm_compute. repeat split; reflexivity. Qed.

(* ---------- // and %: the sign of the divisor (C01_mod_floordiv_Q is not vacuous: b <> 0), over Q, Z and binary64 ---------- *)
Example mod_sign_of_divisor_Q :
  QArith_base.Qeq (Proofs7.qbin OMod (QArith_base.Qmake (-30) 1) (QArith_base.Qmake 360 1)) (QArith_base.Qmake 330 1) /\
  QArith_base.Qeq (Proofs7.qbin OFloorDiv (QArith_base.Qmake (-30) 1) (QArith_base.Qmake 360 1)) (QArith_base.Qmake (-1) 1) /\
  QArith_base.Qeq (Proofs7.qbin OMod (QArith_base.Qmake 7 2) (QArith_base.Qmake (-2) 1)) (QArith_base.Qmake (-1) 2) /\
  QArith_base.Qeq (Proofs7.qbin OFloorDiv (QArith_base.Qmake 7 2) (QArith_base.Qmake (-2) 1)) (QArith_base.Qmake (-2) 1).
Proof. vm_compute. repeat split; reflexivity. Qed.
Example mod_sign_of_divisor_Z : zbin OMod (-30) 360 = 330%Z /\ zbin OFloorDiv (-30) 360 = (-1)%Z /\ zbin OMod 7 (-2) = (-1)%Z.
Proof. vm_compute. repeat split; reflexivity. Qed.
Example mod_sign_of_divisor_float :
  fbin OMod (-30)%float 360%float = 330%float /\ fbin OFloorDiv (-30)%float 360%float = (-1)%float /\
  fbin OMod 3.5%float (-2)%float = (-0.5)%float /\ fbin OFloorDiv 3.5%float (-2)%float = (-2)%float /\
  PyFloat.fbits_eqb (fbin OMod (-4)%float 2%float) 0%float = true /\ PyFloat.fbits_eqb (fbin OMod 4%float (-2)%float) (-0)%float = true.
Proof. vm_compute. repeat split; reflexivity. Qed.
(* a model using them: Collection(g = Model(G2, a = p0 % 360, b = 7 // p1)) *)
Example exmod_instance :
  inst_from_vector Z zbin zun
    (NColl [("g", NModel "G2" ["a"; "b"] [("a", NBin OMod "p0" "other" (NPrior 0) (NConst 360%Z));
                                            ("b", NBin OFloorDiv "other" "self" (NConst 7%Z) (NPrior 1))])]) [(-30)%Z; (-2)%Z]
  = IColl [("g", IObj "G2" [("a", IV 330%Z); ("b", IV (-4)%Z)])].
Proof. vm_compute. reflexivity. Qed.
(* ---- items addressed by name, not by position (C01_item_by_name / C01_item_order_irrelevant) ----
   c = Collection(main = Model(G2, a = p0, b = p1)); c.append(Model(G2, a = p2, b = p3)):
   the item named "0" is the SECOND item *)
Definition exnum_items : list (string * node Z) :=
  [("main", NModel "G2" ["a"; "b"] [("a", NPrior 0); ("b", NPrior 1)]);
   ("0", NModel "G2" ["a"; "b"] [("a", NPrior 2); ("b", NPrior 3)])].
Definition exnum : node Z := NColl exnum_items.

Example exnum_hyp : NoDup (map fst exnum_items) /\
                    In ("0", NModel "G2" ["a"; "b"] [("a", NPrior 2); ("b", NPrior 3)]) exnum_items /\ wf2 Z exnum.
Proof.
  split; [|split].
  - repeat constructor; simpl; intuition discriminate.
  - right. left. reflexivity.
  - simpl. repeat split; repeat constructor; simpl; intuition discriminate.
Qed.

Example exnum_paths : unique_prior_paths Z exnum = [["main"; "a"]; ["main"; "b"]; ["0"; "a"]; ["0"; "b"]].
Proof. vm_compute. reflexivity. Qed.

Example exnum_by_name :
  prior_at Z ["0"; "a"] exnum = Some 2 /\
  lookup Z ["0"; "a"] (inst_from_vector Z zbin zun exnum [10; 20; 30; 40]%Z) = Some (IV 30%Z).
Proof. vm_compute. split; reflexivity. Qed.

Example exnum_order_hyp : Permutation exnum_items (rev exnum_items).
Proof. apply Permutation_rev. Qed.

(* the positional reading of a numeric path component (the item at position k instead of the item named k) is a
   different function: it sends the value supplied at the advertised path ("0", "a") to the first item's parameter *)
Definition digit_pos (k : string) : option nat :=
  if String.eqb k "0" then Some 0 else if String.eqb k "1" then Some 1 else if String.eqb k "2" then Some 2 else None.

Fixpoint prior_at_positional (p : path) (n : node Z) : option nat :=
  match p with
  | [] => match n with NPrior q => Some q | _ => None end
  | k :: p' =>
      match n with
      | NModel _ _ attrs | NColl attrs =>
          match (match digit_pos k with Some i => nth_error (map snd attrs) i | None => assoc k attrs end) with
          | Some c => prior_at_positional p' c
          | None => None
          end
      | _ => None
      end
  end.

Example positional_reading_refuted :
  exists n p q, wf2 Z n /\ In (p, q) (walk Z n) /\ prior_at_positional p n <> Some q.
Proof.
  exists exnum, ["0"; "a"], 2. split; [exact (proj2 (proj2 exnum_hyp))|]. split.
  - vm_compute. right. right. left. reflexivity.
  - vm_compute. discriminate.
Qed.
