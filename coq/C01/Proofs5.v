(* C01: the current-code view of tuples (Model.prune, known finding arith-member-in-tuple) is the identity
   on models whose tuple members are all parameters or constants. *)
From Coq Require Import List String Bool Arith.
From Coq Require Import Floats.PrimFloat.
From PAFC01 Require Import ModelTree Proofs Model.
Import ListNotations.
Local Open Scope string_scope.
Local Open Scope list_scope.

Fixpoint simple_members (n : fnode) : bool :=
  match n with
  | NTuple ms =>
      (fix go (ms : list (string * (nat * fnode))) : bool :=
         match ms with
         | [] => true
         | (_, (_, c)) :: ms' => match c with NPrior _ | NConst _ => go ms' | _ => false end
         end) ms
  | NModel _ _ attrs | NColl attrs =>
      (fix go (a : list (string * fnode)) : bool :=
         match a with [] => true | (_, c) :: a' => simple_members c && go a' end) attrs
  | _ => true
  end.

Lemma prune_id (n : fnode) : simple_members n = true -> prune n = n.
Proof.
  induction n as [q|c|ms IH|o ln rn l r IHl IHr|cls ctor attrs IH|attrs IH] using (node_ind' float); intro H;
    try reflexivity.
  - cbn [prune]. f_equal. cbn [simple_members] in H. clear IH.
    induction ms as [|[k [i c]] ms IHms]; [reflexivity|].
    destruct c; try discriminate; rewrite (IHms H); reflexivity.
  - cbn [prune]. f_equal. cbn [simple_members] in H.
    induction attrs as [|[k c] attrs IHa]; [reflexivity|].
    apply andb_true_iff in H. destruct H as [Hc Hr]. inversion IH as [|? ? IHc IHrest]; subst. simpl in IHc.
    rewrite (IHc Hc), (IHa IHrest Hr). reflexivity.
  - cbn [prune]. f_equal. cbn [simple_members] in H.
    induction attrs as [|[k c] attrs IHa]; [reflexivity|].
    apply andb_true_iff in H. destruct H as [Hc Hr]. inversion IH as [|? ? IHc IHrest]; subst. simpl in IHc.
    rewrite (IHc Hc), (IHa IHrest Hr). reflexivity.
Qed.
