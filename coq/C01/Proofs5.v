(* C01: tuple members of EVERY kind are evaluated (repaired by /repo 7acf0fe: TuplePrior.value_for_arguments
   used to keep only Prior | float members; the legacy view is kept as history in Witness.legacy_prune). *)
From Coq Require Import List String Bool Arith Permutation.
From PAFC01 Require Import ModelTree Proofs Proofs2.
Import ListNotations.
Local Open Scope string_scope.
Local Open Scope list_scope.

Section P5.
  Variable V : Type.
  Variable bin : binop -> V -> V -> V.
  Variable un : unop -> V -> V.

  (* a member defined by arithmetic on parameters / constants: the built tuple holds, at the member's
     position, the value of the expression under the same assignment; the arity is the number of members *)
  Lemma tuple_member_derived (args : nat -> option V) (ms : list (string * (nat * node V))) (nm : string)
      (i : nat) (c : node V) (v : V) :
    Permutation (map (fun m => fst (snd m)) ms) (seq 0 (List.length ms)) ->
    In (nm, (i, c)) ms -> eval V bin un args c = Some v ->
    exists vs, inst V bin un args (NTuple ms) = ITup vs /\ List.length vs = List.length ms /\
               nth i vs IMissing = IV v.
  Proof.
    intros P Hin E.
    destruct (tuple_in_position_order V bin un args ms nm i c P Hin) as [vs [E1 [E2 E3]]].
    exists vs. split; [exact E1|]. split; [exact E2|]. rewrite E3. apply inst_eval. exact E.
  Qed.
End P5.
