(* C01: exact (rational) meaning of the arithmetic forms //  and  %  (FloorDivPrior, ModPrior):
   Python's floor division and the remainder that takes the sign of the divisor.  The binary64 instance
   (PyArith.py_floordiv / py_mod, CPython's algorithm) is tied to the code by the correspondence. *)
From Coq Require Import QArith Qabs Qround Lqa Lia.
From PAFC01 Require Import ModelTree.

Definition qbin (o : binop) (a b : Q) : Q :=
  match o with
  | OAdd => a + b | OSub => a - b | OMul => a * b | ODiv => a / b
  | OFloorDiv => inject_Z (Qfloor (a / b))
  | OMod => a - b * inject_Z (Qfloor (a / b))
  end.

Definition qun (o : unop) (a : Q) : Q := match o with UNeg => - a | UAbs => Qabs a end.

Theorem mod_floordiv_Q (a b : Q) :
  ~ b == 0 ->
  a == b * qbin OFloorDiv a b + qbin OMod a b /\
  (0 < b -> 0 <= qbin OMod a b /\ qbin OMod a b < b) /\
  (b < 0 -> b < qbin OMod a b /\ qbin OMod a b <= 0).
Proof.
  intro Hb. unfold qbin.
  set (x := a / b). set (f := inject_Z (Qfloor x)).
  assert (Hx : b * x == a) by (unfold x; apply Qmult_div_r; exact Hb).
  assert (H1 : f <= x) by apply Qfloor_le.
  assert (H2 : x < f + 1).
  { unfold f. setoid_replace (inject_Z (Qfloor x) + 1) with (inject_Z (Qfloor x + 1)).
    - apply Qlt_floor.
    - rewrite inject_Z_plus. reflexivity. }
  split; [ring|]. split; intro Hs.
  - split.
    + setoid_replace (a - b * f) with (b * (x - f)) by (rewrite <- Hx; ring). nra.
    + setoid_replace (a - b * f) with (b * (x - f)) by (rewrite <- Hx; ring). nra.
  - split.
    + setoid_replace (a - b * f) with (b * (x - f)) by (rewrite <- Hx; ring). nra.
    + setoid_replace (a - b * f) with (b * (x - f)) by (rewrite <- Hx; ring). nra.
Qed.

(* subtraction as the API builds it is subtraction: a + (-b) = a - b over Q *)
Lemma sub_as_built_Q (a b : Q) : qbin OAdd a (qun UNeg b) == qbin OSub a b.
Proof. simpl. ring. Qed.
