(* C01 lemmas about the shared ModelTree model, parametric in the value type. *)
From Coq Require Import List String Bool Arith PeanoNat Lia Permutation Sorted.
From PAFC01 Require Import ModelTree.
Import ListNotations.
Local Open Scope string_scope.
Local Open Scope list_scope.

Section P.
  Variable V : Type.
  Variable bin : binop -> V -> V -> V.
  Variable un : unop -> V -> V.
  Notation node := (node V).
  Notation ival := (ival V).

  (* ---------- induction principle for the nested tree ---------- *)
  Section Ind.
    Variable P : node -> Prop.
    Hypothesis Hprior : forall p, P (NPrior p).
    Hypothesis Hconst : forall v, P (NConst v).
    Hypothesis Htuple : forall ms, Forall (fun m => P (snd (snd m))) ms -> P (NTuple ms).
    Hypothesis Hbin : forall o ln rn l r, P l -> P r -> P (NBin o ln rn l r).
    Hypothesis Hun : forall o nm c, P c -> P (NUn o nm c).
    Hypothesis Hmodel : forall cls ctor attrs, Forall (fun a => P (snd a)) attrs -> P (NModel cls ctor attrs).
    Hypothesis Hcoll : forall attrs, Forall (fun a => P (snd a)) attrs -> P (NColl attrs).

    Fixpoint node_ind' (n : node) : P n :=
      match n with
      | NPrior p => Hprior p
      | NConst v => Hconst v
      | NTuple ms =>
          Htuple ms ((fix go (ms : list (string * (nat * node))) : Forall (fun m => P (snd (snd m))) ms :=
                        match ms with
                        | [] => Forall_nil _
                        | m :: ms' => Forall_cons m (node_ind' (snd (snd m))) (go ms')
                        end) ms)
      | NBin o ln rn l r => Hbin o ln rn l r (node_ind' l) (node_ind' r)
      | NUn o nm c => Hun o nm c (node_ind' c)
      | NModel cls ctor attrs =>
          Hmodel cls ctor attrs ((fix go (a : list (string * node)) : Forall (fun a => P (snd a)) a :=
                                    match a with
                                    | [] => Forall_nil _
                                    | x :: a' => Forall_cons x (node_ind' (snd x)) (go a')
                                    end) attrs)
      | NColl attrs =>
          Hcoll attrs ((fix go (a : list (string * node)) : Forall (fun a => P (snd a)) a :=
                          match a with
                          | [] => Forall_nil _
                          | x :: a' => Forall_cons x (node_ind' (snd x)) (go a')
                          end) attrs)
      end.
  End Ind.

  (* ---------- association lists ---------- *)
  Lemma assoc_in {B} (k : string) (l : list (string * B)) (v : B) :
    assoc k l = Some v -> In (k, v) l.
  Proof.
    induction l as [|[k' v'] l IH]; simpl; [discriminate|].
    destruct (String.eqb_spec k k') as [->|_]; intro H.
    - inversion H; subst. left; reflexivity.
    - right. apply IH. exact H.
  Qed.

  Lemma assoc_map_snd {B C} (f : B -> C) (k : string) (l : list (string * B)) :
    assoc k (map (fun kv => (fst kv, f (snd kv))) l) = option_map f (assoc k l).
  Proof.
    induction l as [|[k' v'] l IH]; simpl; [reflexivity|].
    destruct (String.eqb k k'); [reflexivity|exact IH].
  Qed.

  Lemma assoc_app_some {B} (k : string) (l1 l2 : list (string * B)) (v : B) :
    assoc k l1 = Some v -> assoc k (l1 ++ l2) = Some v.
  Proof.
    induction l1 as [|[k' v'] l1 IH]; simpl; [discriminate|].
    destruct (String.eqb k k'); auto.
  Qed.

  Lemma assoc_app_none {B} (k : string) (l1 l2 : list (string * B)) :
    assoc k l1 = None -> assoc k (l1 ++ l2) = assoc k l2.
  Proof.
    induction l1 as [|[k' v'] l1 IH]; simpl; [reflexivity|].
    destruct (String.eqb k k'); [discriminate|auto].
  Qed.

  (* the per-attribute maps used inside inst are ordinary maps *)
  Lemma inst_attrs_map (args : nat -> option V) (attrs : list (string * node)) :
    (fix go (a : list (string * node)) : list (string * ival) :=
       match a with
       | [] => []
       | (k, c) :: a' => (k, inst V bin un args c) :: go a'
       end) attrs = map (fun kv => (fst kv, inst V bin un args (snd kv))) attrs.
  Proof. induction attrs as [|[k c] a IH]; simpl; [reflexivity|]. rewrite IH. reflexivity. Qed.

  (* ---------- structural paths: through Model / Collection attributes only ---------- *)
  Fixpoint node_at (p : path) (n : node) : option node :=
    match p with
    | [] => Some n
    | k :: p' =>
        match n with
        | NModel _ _ attrs | NColl attrs =>
            match assoc k attrs with Some c => node_at p' c | None => None end
        | _ => None
        end
    end.

  (* constructor fields followed by extras still associate every attribute name with its value *)
  Lemma assoc_ctor_extras (ctor : list string) (vals : list (string * ival)) (k : string) (v : ival) :
    assoc k vals = Some v ->
    assoc k (flat_map (fun c => match assoc c vals with Some x => [(c, x)] | None => [] end) ctor
             ++ filter (fun kv => negb (existsb (String.eqb (fst kv)) ctor)) vals) = Some v.
  Proof.
    intro H.
    destruct (existsb (String.eqb k) ctor) eqn:E.
    - apply assoc_app_some.
      induction ctor as [|c ctor IH]; simpl in *; [discriminate|].
      destruct (String.eqb_spec k c) as [->|Hne].
      + rewrite H. simpl. rewrite String.eqb_refl. reflexivity.
      + simpl in E. destruct (assoc c vals) eqn:Ec; simpl.
        * destruct (String.eqb_spec k c); [contradiction|]. apply IH. exact E.
        * apply IH. exact E.
    - rewrite assoc_app_none.
      + induction vals as [|[k' v'] vals IH]; simpl in *; [discriminate|].
        destruct (String.eqb_spec k k') as [->|Hne].
        * inversion H; subst. rewrite E. simpl. rewrite String.eqb_refl. reflexivity.
        * destruct (negb (existsb (String.eqb k') ctor)); simpl.
          -- destruct (String.eqb_spec k k'); [contradiction|]. apply IH. exact H.
          -- apply IH. exact H.
      + clear H. induction ctor as [|c ctor IH]; simpl in *; [reflexivity|].
        apply orb_false_iff in E. destruct E as [E1 E2].
        destruct (assoc c vals); simpl.
        * rewrite E1. apply IH. exact E2.
        * apply IH. exact E2.
  Qed.

  (* placement: whatever sits at a structural path of the model is what the instance holds there *)
  Lemma lookup_inst (args : nat -> option V) (p : path) : forall (n c : node),
    node_at p n = Some c -> lookup V p (inst V bin un args n) = Some (inst V bin un args c).
  Proof.
    induction p as [|k p IH]; intros n c H.
    - simpl in H. inversion H; subst. reflexivity.
    - destruct n as [q|v|ms|o ln rn l r|uo unm uc|cls ctor attrs|attrs]; simpl in H; try discriminate.
      + destruct (assoc k attrs) as [c'|] eqn:A; [|discriminate].
        cbn [inst lookup]. rewrite inst_attrs_map.
        rewrite (assoc_ctor_extras ctor _ k (inst V bin un args c')).
        * apply IH. exact H.
        * rewrite (assoc_map_snd (inst V bin un args)). rewrite A. reflexivity.
      + destruct (assoc k attrs) as [c'|] eqn:A; [|discriminate].
        cbn [inst lookup]. rewrite inst_attrs_map.
        rewrite (assoc_map_snd (inst V bin un args)). rewrite A. simpl. apply IH. exact H.
  Qed.
End P.
