(* Python float  %  and  //  over binary64 (CPython floatobject.c: float_rem, _float_div_mod), bit-exact.
   C fmod is exact (its result is representable); it is computed on the integer significands. *)
From Coq Require Import ZArith Bool.
From Coq Require Import Floats.PrimFloat Floats.FloatOps Floats.SpecFloat.
From PAFCommon Require Import PyFloat.

Definition fsign_zero (neg : bool) : float := if neg then PrimFloat.neg_zero else PrimFloat.zero.
Definition fis_neg (x : float) : bool :=       (* sign bit, as copysign reads it *)
  match Prim2SF x with
  | S754_zero s | S754_infinity s | S754_finite s _ _ => s
  | S754_nan => false
  end.

(* C fmod(a, b): the remainder of truncated division, with the sign of a *)
Definition c_fmod (a b : float) : float :=
  match Prim2SF a, Prim2SF b with
  | S754_nan, _ | _, S754_nan => PrimFloat.nan
  | S754_infinity _, _ => PrimFloat.nan
  | _, S754_zero _ => PrimFloat.nan
  | _, S754_infinity _ => a
  | S754_zero _, _ => a
  | S754_finite sa ma ea, S754_finite _ mb eb =>
      let e := Z.min ea eb in
      let A := Z.shiftl (Zpos ma) (ea - e) in
      let B := Z.shiftl (Zpos mb) (eb - e) in
      let R := Z.modulo A B in
      if (R =? 0)%Z then fsign_zero sa
      else let r := ldexp (Z2F R) e in if sa then PrimFloat.opp r else r
  end.

(* a % b for b <> 0 (Python raises ZeroDivisionError for b == 0): the sign of the divisor *)
Definition py_mod (a b : float) : float :=
  let m := c_fmod a b in
  if PrimFloat.eqb m PrimFloat.zero then fsign_zero (fis_neg b)
  else if xorb (PrimFloat.ltb b PrimFloat.zero) (PrimFloat.ltb m PrimFloat.zero) then PrimFloat.add m b
  else m.

(* C floor *)
Definition c_floor (x : float) : float :=
  if negb (ffinite x) then x
  else if PrimFloat.leb 0x1p52%float (PrimFloat.abs x) then x
  else if PrimFloat.eqb x PrimFloat.zero then x
  else let t := ftruncZ x in
       let ft := Z2F t in
       if PrimFloat.ltb x ft then Z2F (t - 1)
       else if (t =? 0)%Z then fsign_zero (fis_neg x) else ft.

(* a // b for b <> 0 *)
Definition py_floordiv (a b : float) : float :=
  let m := c_fmod a b in
  let d0 := PrimFloat.div (PrimFloat.sub a m) b in
  let d := if PrimFloat.eqb m PrimFloat.zero then d0
           else if xorb (PrimFloat.ltb b PrimFloat.zero) (PrimFloat.ltb m PrimFloat.zero)
                then PrimFloat.sub d0 PrimFloat.one else d0 in
  if PrimFloat.eqb d PrimFloat.zero then fsign_zero (fis_neg (PrimFloat.div a b))
  else let fl := c_floor d in
       if PrimFloat.ltb 0x1p-1%float (PrimFloat.sub d fl) then PrimFloat.add fl PrimFloat.one else fl.
