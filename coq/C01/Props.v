(* C01 property theorems: statements only. *)
From Coq Require Import List String Permutation Sorted.
From PAFC01 Require Import ModelTree Sorting Proofs Proofs2 Proofs3.
Import ListNotations.

(* the advertised parameter order is strictly increasing in parameter id, has no repeats, lists
   exactly the parameters that occur anywhere in the model, and its length is the parameter count:
   the count is the number of DISTINCT free parameters however many places share them *)
Theorem C01_order : forall (V : Type) (n : node V),
  StronglySorted lt (ordered_ids V n) /\ NoDup (ordered_ids V n) /\
  (forall q, In q (ordered_ids V n) <-> In q (prior_ids V n)) /\
  List.length (ordered_ids V n) = prior_count V n.
Proof.
  exact (fun V n => conj (ordered_ids_strict V n) (conj (ordered_ids_nodup V n)
                    (conj (ordered_ids_in V n) (ordered_ids_length V n)))).
Qed.

(* the i-th advertised unique path is one of the paths of the i-th parameter *)
Theorem C01_ith_path : forall (V : Type) (n : node V) (i : nat) (dq : nat) (dp : path),
  i < prior_count V n ->
  In (nth i (unique_prior_paths V n) dp, nth i (ordered_ids V n) dq) (walk V n).
Proof. exact ith_path. Qed.

(* building an instance from a vector puts the i-th value at EVERY structural place of the i-th parameter *)
Theorem C01_placement : forall (V : Type) (bin : binop -> V -> V -> V) (n : node V) (vec : list V)
    (i : nat) (p : path) (dq : nat) (dv : V),
  List.length vec = prior_count V n -> i < prior_count V n ->
  node_at V p n = Some (NPrior (nth i (ordered_ids V n) dq)) ->
  lookup V p (inst_from_vector V bin n vec) = Some (IV (nth i vec dv)).
Proof. exact vector_placement. Qed.

(* whatever sits at a structural path of the model is what the instance holds at that path *)
Theorem C01_structure : forall (V : Type) (bin : binop -> V -> V -> V) (args : nat -> option V)
    (p : path) (n c : node V),
  node_at V p n = Some c -> lookup V p (inst V bin args n) = Some (inst V bin args c).
Proof. exact lookup_inst. Qed.

(* fixed values are untouched *)
Theorem C01_fixed : forall (V : Type) (bin : binop -> V -> V -> V) (args : nat -> option V)
    (n : node V) (p : path) (v : V),
  node_at V p n = Some (NConst v) -> lookup V p (inst V bin args n) = Some (IV v).
Proof. exact fixed_untouched. Qed.

(* derived (arithmetic) parameters are computed from the same assignment of values *)
Theorem C01_derived : forall (V : Type) (bin : binop -> V -> V -> V) (args : nat -> option V)
    (n : node V) (p : path) (c : node V) (v : V),
  node_at V p n = Some c -> eval V bin args c = Some v -> lookup V p (inst V bin args n) = Some (IV v).
Proof. exact derived_value. Qed.

(* tuple parameters: a tuple whose members hold positions 0..k-1 (in any attribute order) is built
   with the member of position i at index i *)
Theorem C01_tuple : forall (V : Type) (bin : binop -> V -> V -> V) (args : nat -> option V)
    (ms : list (string * (nat * node V))) (nm : string) (i : nat) (c : node V),
  Permutation (map (fun m => fst (snd m)) ms) (seq 0 (List.length ms)) ->
  In (nm, (i, c)) ms ->
  exists vs, inst V bin args (NTuple ms) = ITup vs /\ List.length vs = List.length ms /\
             nth i vs IMissing = inst V bin args c.
Proof. exact tuple_in_position_order. Qed.

(* supplying the values by path (one path per parameter, as advertised) gives the same instance as
   supplying them as a physical vector; the unit-vector route is the vector route applied to the
   values the priors return (instance_from_unit_vector builds the same {prior: value} dictionary) *)
Theorem C01_routes : forall (V : Type) (bin : binop -> V -> V -> V) (n : node V) (vec : list V),
  wf V n -> List.length vec = prior_count V n ->
  inst_from_paths V bin n (combine (unique_prior_paths V n) vec) = inst_from_vector V bin n vec.
Proof. exact path_route. Qed.

(* the same with the boolean, machine-checkable form of the hypothesis (the harness evaluates wfb on
   every generated model and reports how many satisfy it) *)
Theorem C01_routes_checkable : forall (V : Type) (bin : binop -> V -> V -> V) (n : node V) (vec : list V),
  wfb V n = true -> List.length vec = prior_count V n ->
  inst_from_paths V bin n (combine (unique_prior_paths V n) vec) = inst_from_vector V bin n vec.
Proof. exact (fun V bin n vec H => path_route V bin n vec (wfb_sound V n H)). Qed.

(* every advertised path resolves to the parameter it is advertised for *)
Theorem C01_paths_resolve : forall (V : Type) (n : node V), wf V n ->
  forall p q, In (p, q) (walk V n) -> prior_at V p n = Some q.
Proof. exact walk_prior_at. Qed.

Print Assumptions C01_order.
Print Assumptions C01_routes.
Print Assumptions C01_ith_path.
Print Assumptions C01_placement.
Print Assumptions C01_tuple.
