(* C01 property theorems: statements only. *)
From Coq Require Import List String Permutation Sorted.
From PAFC01 Require Import ModelTree Sorting Proofs Proofs2 Proofs3 Proofs4 Proofs5 Proofs6 Proofs8.
Import ListNotations.

(* the advertised parameter order is strictly increasing in parameter id, has no repeats, lists
   exactly the parameters that occur anywhere in the model, and its length is the parameter count:
   the count is the number of DISTINCT free parameters however many places share them *)
Theorem C01_order : forall (V : Type) (n : node V),
  StronglySorted lt (ordered_ids V n) /\ NoDup (ordered_ids V n) /\
  (forall q, In q (ordered_ids V n) <-> In q (prior_ids V n)) /\
  List.length (ordered_ids V n) = prior_count V n.
Proof.
  exact (fun V n => conj (ordered_ids_strict V n) (conj (ordered_ids_nodup V n)
                    (conj (ordered_ids_in V n) (ordered_ids_length V n)))).
Qed.

(* the i-th advertised unique path is one of the paths of the i-th parameter *)
Theorem C01_ith_path : forall (V : Type) (n : node V) (i : nat) (dq : nat) (dp : path),
  i < prior_count V n ->
  In (nth i (unique_prior_paths V n) dp, nth i (ordered_ids V n) dq) (walk V n).
Proof. exact ith_path. Qed.

(* building an instance from a vector puts the i-th value at EVERY structural place of the i-th parameter *)
Theorem C01_placement : forall (V : Type) (bin : binop -> V -> V -> V) (un : unop -> V -> V) (n : node V) (vec : list V)
    (i : nat) (p : path) (dq : nat) (dv : V),
  List.length vec = prior_count V n -> i < prior_count V n ->
  node_at V p n = Some (NPrior (nth i (ordered_ids V n) dq)) ->
  lookup V p (inst_from_vector V bin un n vec) = Some (IV (nth i vec dv)).
Proof. exact vector_placement. Qed.

(* whatever sits at a structural path of the model is what the instance holds at that path *)
Theorem C01_structure : forall (V : Type) (bin : binop -> V -> V -> V) (un : unop -> V -> V) (args : nat -> option V)
    (p : path) (n c : node V),
  node_at V p n = Some c -> lookup V p (inst V bin un args n) = Some (inst V bin un args c).
Proof. exact lookup_inst. Qed.

(* fixed values are untouched *)
Theorem C01_fixed : forall (V : Type) (bin : binop -> V -> V -> V) (un : unop -> V -> V) (args : nat -> option V)
    (n : node V) (p : path) (v : V),
  node_at V p n = Some (NConst v) -> lookup V p (inst V bin un args n) = Some (IV v).
Proof. exact fixed_untouched. Qed.

(* derived (arithmetic) parameters are computed from the same assignment of values *)
Theorem C01_derived : forall (V : Type) (bin : binop -> V -> V -> V) (un : unop -> V -> V) (args : nat -> option V)
    (n : node V) (p : path) (c : node V) (v : V),
  node_at V p n = Some c -> eval V bin un args c = Some v -> lookup V p (inst V bin un args n) = Some (IV v).
Proof. exact derived_value. Qed.

(* tuple parameters: a tuple whose members hold positions 0..k-1 (in any attribute order) is built
   with the member of position i at index i *)
Theorem C01_tuple : forall (V : Type) (bin : binop -> V -> V -> V) (un : unop -> V -> V) (args : nat -> option V)
    (ms : list (string * (nat * node V))) (nm : string) (i : nat) (c : node V),
  Permutation (map (fun m => fst (snd m)) ms) (seq 0 (List.length ms)) ->
  In (nm, (i, c)) ms ->
  exists vs, inst V bin un args (NTuple ms) = ITup vs /\ List.length vs = List.length ms /\
             nth i vs IMissing = inst V bin un args c.
Proof. exact tuple_in_position_order. Qed.

(* supplying the values by path (one path per parameter, as advertised) gives the same instance as
   supplying them as a physical vector; the unit-vector route is the vector route applied to the
   values the priors return (instance_from_unit_vector builds the same {prior: value} dictionary) *)
Theorem C01_routes : forall (V : Type) (bin : binop -> V -> V -> V) (un : unop -> V -> V) (n : node V) (vec : list V),
  wf V n -> List.length vec = prior_count V n ->
  inst_from_paths V bin un n (combine (unique_prior_paths V n) vec) = inst_from_vector V bin un n vec.
Proof. exact path_route. Qed.

(* the same with the boolean, machine-checkable form of the hypothesis (the harness evaluates wfb on
   every generated model and reports how many satisfy it) *)
Theorem C01_routes_checkable : forall (V : Type) (bin : binop -> V -> V -> V) (un : unop -> V -> V) (n : node V) (vec : list V),
  wfb V n = true -> List.length vec = prior_count V n ->
  inst_from_paths V bin un n (combine (unique_prior_paths V n) vec) = inst_from_vector V bin un n vec.
Proof. exact (fun V bin un n vec H => path_route V bin un n vec (wfb_sound V n H)). Qed.

(* every advertised path resolves to the parameter it is advertised for *)
Theorem C01_paths_resolve : forall (V : Type) (n : node V), wf V n ->
  forall p q, In (p, q) (walk V n) -> prior_at V p n = Some q.
Proof. exact walk_prior_at. Qed.

(* ---- HEADLINE: "building an instance from a vector puts the i-th value at the i-th advertised path".
   wf2 = dictionary keys distinct at every level, and the two operand attributes of an arithmetic prior
   have different names unless they are the same object (p * p).  When the i-th advertised path goes
   through Model / Collection attributes only, looking it up in the built instance gives the i-th value *)
Theorem C01_ith_value : forall (V : Type) (bin : binop -> V -> V -> V) (un : unop -> V -> V) (n : node V) (vec : list V)
    (i : nat) (dp : path) (dv : V),
  wf2 V n -> List.length vec = prior_count V n -> i < prior_count V n ->
  node_at V (nth i (unique_prior_paths V n) dp) n <> None ->
  lookup V (nth i (unique_prior_paths V n) dp) (inst_from_vector V bin un n vec) = Some (IV (nth i vec dv)).
Proof. exact ith_value. Qed.

(* ... when it ends in the member k (position j) of a tuple parameter, the tuple built at the parent path
   has the i-th value at index j *)
Theorem C01_ith_value_tuple : forall (V : Type) (bin : binop -> V -> V -> V) (un : unop -> V -> V) (n : node V) (vec : list V)
    (i : nat) (dp : path) (dv : V) (p1 : path) (k : string) (ms : list (string * (nat * node V))) (j : nat) (c : node V),
  wf2 V n -> List.length vec = prior_count V n -> i < prior_count V n ->
  nth i (unique_prior_paths V n) dp = p1 ++ [k] ->
  node_at V p1 n = Some (NTuple ms) ->
  Permutation (map (fun m => fst (snd m)) ms) (seq 0 (List.length ms)) ->
  In (k, (j, c)) ms ->
  exists vs, lookup V p1 (inst_from_vector V bin un n vec) = Some (ITup vs) /\
  List.length vs = List.length ms /\ nth j vs IMissing = IV (nth i vec dv).
Proof. exact ith_value_tuple. Qed.

(* ... and these are the only possibilities: every advertised path reaches, through Model / Collection
   attributes only, either the parameter itself or a tuple / arithmetic node containing the rest of the path *)
Theorem C01_paths_classified : forall (V : Type) (n : node V), wf2 V n ->
  forall p q, In (p, q) (walk V n) ->
  exists p1 p2 c, p = p1 ++ p2 /\ node_at V p1 n = Some c /\
  ((c = NPrior q /\ p2 = []) \/ (opaque V c = true /\ In (p2, q) (walk V c))).
Proof. exact walk_classify. Qed.

(* `paths` lists every (path, parameter) pair of the model exactly once, stably ordered by parameter id, and
   contains the unique paths; each entry resolves to the parameter it is listed for *)
Theorem C01_paths : forall (V : Type) (n : node V),
  Permutation (path_priors V n) (walk V n) /\
  StronglySorted le (map snd (path_priors V n)) /\
  paths V n = map fst (path_priors V n) /\
  (forall p, In p (unique_prior_paths V n) -> In p (paths V n)).
Proof. exact paths_facts. Qed.

Theorem C01_paths_resolve2 : forall (V : Type) (n : node V), wf2 V n ->
  forall p q, In (p, q) (path_priors V n) -> prior_at V p n = Some q.
Proof. exact paths_resolve. Qed.

(* routes under the weaker hypothesis (models containing p * p are covered) *)
Theorem C01_routes2 : forall (V : Type) (bin : binop -> V -> V -> V) (un : unop -> V -> V) (n : node V) (vec : list V),
  wf2 V n -> List.length vec = prior_count V n ->
  inst_from_paths V bin un n (combine (unique_prior_paths V n) vec) = inst_from_vector V bin un n vec.
Proof. exact path_route2. Qed.

Theorem C01_routes2_checkable : forall (V : Type) (veqb : V -> V -> bool),
  (forall a b, veqb a b = true -> a = b) ->
  forall (bin : binop -> V -> V -> V) (un : unop -> V -> V) (n : node V) (vec : list V),
  wfb2 V veqb n = true -> List.length vec = prior_count V n ->
  inst_from_paths V bin un n (combine (unique_prior_paths V n) vec) = inst_from_vector V bin un n vec.
Proof. exact (fun V veqb S bin un n vec H => path_route2 V bin un n vec (wfb2_sound V veqb S n H)). Qed.

(* values supplied by ANY paths (any of the paths of a shared parameter, in any order, several paths per
   parameter): the instance is the vector instance as soon as the path dictionary assigns the i-th value to
   the i-th parameter; and the LAST entry resolving to a parameter is the one that counts *)
Theorem C01_routes_any_paths : forall (V : Type) (bin : binop -> V -> V -> V) (un : unop -> V -> V) (n : node V)
    (pv : list (path * V)) (vec : list V),
  wf2 V n -> List.length vec = prior_count V n ->
  (forall i, i < prior_count V n -> path_args V n pv (nth i (ordered_ids V n) 0) = nth_error vec i) ->
  inst_from_paths V bin un n pv = inst_from_vector V bin un n vec.
Proof. exact path_route_gen. Qed.

Theorem C01_path_last_wins : forall (V : Type) (n : node V) (pv1 pv2 : list (path * V)) (p : path) (v : V) (q : nat),
  prior_at V p n = Some q ->
  (forall p' v', In (p', v') pv2 -> prior_at V p' n <> Some q) ->
  path_args V n (pv1 ++ (p, v) :: pv2) q = Some v.
Proof. exact path_args_last. Qed.

Theorem C01_routes_chosen_paths : forall (V : Type) (bin : binop -> V -> V -> V) (un : unop -> V -> V) (n : node V)
    (ps : list path) (vec : list V),
  wf2 V n -> List.length vec = prior_count V n -> List.length ps = prior_count V n ->
  (forall j dp, j < prior_count V n -> prior_at V (nth j ps dp) n = Some (nth j (ordered_ids V n) 0)) ->
  inst_from_paths V bin un n (combine ps vec) = inst_from_vector V bin un n vec.
Proof. exact path_route_chosen. Qed.

(* frame: two vectors that differ only in entry i build instances that agree at every structural place
   whose sub-model does not contain parameter i ("leaves everything else untouched") *)
Theorem C01_frame : forall (V : Type) (bin : binop -> V -> V -> V) (un : unop -> V -> V) (n c : node V) (p : path)
    (vec vec' : list V) (i : nat),
  wf2 V n -> List.length vec = prior_count V n -> List.length vec' = prior_count V n ->
  (forall j, j <> i -> nth_error vec j = nth_error vec' j) ->
  node_at V p n = Some c -> ~ In (nth i (ordered_ids V n) 0) (prior_ids V c) ->
  lookup V p (inst_from_vector V bin un n vec) = lookup V p (inst_from_vector V bin un n vec').
Proof. exact frame. Qed.

(* an instance depends only on the values given to the model's own parameters *)
Theorem C01_inst_ext : forall (V : Type) (bin : binop -> V -> V -> V) (un : unop -> V -> V) (a1 a2 : nat -> option V) (n : node V),
  wf2 V n -> (forall q, In q (prior_ids V n) -> a1 q = a2 q) -> inst V bin un a1 n = inst V bin un a2 n.
Proof. exact inst_ext2. Qed.

(* unit-vector route (value_for q u = what prior q returns for unit value u): it is the vector route applied
   to vector_from_unit_vector, and the i-th unit value pushed through the i-th prior is found at every
   structural place of parameter i *)
Theorem C01_unit_route : forall (V : Type) (bin : binop -> V -> V -> V) (un : unop -> V -> V) (value_for : nat -> V -> V)
    (n : node V) (u : list V),
  inst_from_unit V bin un value_for n u = inst_from_vector V bin un n (vec_from_unit V value_for n u) /\
  (List.length u = prior_count V n -> List.length (vec_from_unit V value_for n u) = prior_count V n).
Proof.
  exact (fun V bin un vf n u => conj (unit_route V bin un vf n u)
           (fun L => eq_trans (vmap2_length V vf (ordered_ids V n) u (eq_trans L (eq_sym (ordered_ids_length V n))))
                              (ordered_ids_length V n))).
Qed.

Theorem C01_unit_placement : forall (V : Type) (bin : binop -> V -> V -> V) (un : unop -> V -> V) (value_for : nat -> V -> V)
    (n : node V) (u : list V) (i : nat) (p : path) (dv : V),
  List.length u = prior_count V n -> i < prior_count V n ->
  node_at V p n = Some (NPrior (nth i (ordered_ids V n) 0)) ->
  lookup V p (inst_from_unit V bin un value_for n u) = Some (IV (value_for (nth i (ordered_ids V n) 0) (nth i u dv))).
Proof. exact unit_placement. Qed.

(* tuple members of every kind (parameter, float or int constant, arithmetic on parameters) are kept and
   evaluated: the tuple has one component per member and the component at a member's position is the value of
   its expression (former finding arith-member-in-tuple / int-const-in-tuple, repaired by /repo 7acf0fe; the
   legacy behaviour is refuted in Witness.tuple_arith_member_legacy_refuted) *)
Theorem C01_tuple_member_derived : forall (V : Type) (bin : binop -> V -> V -> V) (un : unop -> V -> V) (args : nat -> option V)
    (ms : list (string * (nat * node V))) (nm : string) (i : nat) (c : node V) (v : V),
  Permutation (map (fun m => fst (snd m)) ms) (seq 0 (List.length ms)) ->
  In (nm, (i, c)) ms -> eval V bin un args c = Some v ->
  exists vs, inst V bin un args (NTuple ms) = ITup vs /\ List.length vs = List.length ms /\
             nth i vs IMissing = IV v.
Proof. exact tuple_member_derived. Qed.

(* components of a collection are addressed by NAME, at whatever position they sit: a path that starts with the
   name k of an item continues inside that item -- for the parameter a supplied value goes to (object_for_path),
   for the sub-model found there and for the value found in every built instance.  An item named "0" is not "the
   first item" (Collection(main=..).append(..); c[1] = ..; c[0] = ..; a list after remove()) *)
Theorem C01_item_by_name : forall (V : Type) (bin : binop -> V -> V -> V) (un : unop -> V -> V) (attrs : list (string * node V))
    (k : string) (c : node V) (p' : path),
  NoDup (map fst attrs) -> In (k, c) attrs ->
  prior_at V (k :: p') (NColl attrs) = prior_at V p' c /\
  node_at V (k :: p') (NColl attrs) = node_at V p' c /\
  forall args, lookup V (k :: p') (inst V bin un args (NColl attrs)) = lookup V p' (inst V bin un args c).
Proof. exact item_by_name. Qed.

(* ... hence the ORDER of the items of a collection is irrelevant for everything that is addressed by a path *)
Theorem C01_item_order_irrelevant : forall (V : Type) (bin : binop -> V -> V -> V) (un : unop -> V -> V)
    (attrs attrs' : list (string * node V)) (k : string) (p' : path),
  NoDup (map fst attrs) -> Permutation attrs attrs' ->
  prior_at V (k :: p') (NColl attrs) = prior_at V (k :: p') (NColl attrs') /\
  node_at V (k :: p') (NColl attrs) = node_at V (k :: p') (NColl attrs') /\
  forall args, lookup V (k :: p') (inst V bin un args (NColl attrs)) = lookup V (k :: p') (inst V bin un args (NColl attrs')).
Proof. exact item_order_irrelevant. Qed.
(* ---------- the unary node: ModifiedPrior (-p, abs(p)) ---------- *)
(* a unary node contributes exactly its operand's parameters: same identities, same advertised order, same
   count; every path is the operand's path behind the operand's attribute name *)
Theorem C01_unary_order : forall (V : Type) (o : unop) (nm : string) (c : node V),
  walk V (NUn o nm c) = prefix_paths nm (walk V c) /\
  prior_ids V (NUn o nm c) = prior_ids V c /\
  ordered_ids V (NUn o nm c) = ordered_ids V c /\
  prior_count V (NUn o nm c) = prior_count V c /\
  paths V (NUn o nm c) = map (cons nm) (paths V c) /\
  unique_prior_paths V (NUn o nm c) = map (cons nm) (unique_prior_paths V c).
Proof. exact unary_order. Qed.

(* its value, wherever it sits structurally in a model, is the operator applied to the operand's value under
   the SAME assignment; when the operand has no value the unary node has none *)
Theorem C01_unary_value : forall (V : Type) (bin : binop -> V -> V -> V) (un : unop -> V -> V)
    (args : nat -> option V) (n : node V) (p : path) (o : unop) (nm : string) (c : node V),
  node_at V p n = Some (NUn o nm c) -> is_const V c = false ->
  (forall a, inst V bin un args c = IV a -> lookup V p (inst V bin un args n) = Some (IV (un o a))) /\
  ((forall a, inst V bin un args c <> IV a) -> lookup V p (inst V bin un args n) = Some IMissing).
Proof. exact unary_value. Qed.

(* the i-th vector entry reaches a unary node whose operand is the i-th parameter as op(v_i) *)
Theorem C01_unary_of_ith_value : forall (V : Type) (bin : binop -> V -> V -> V) (un : unop -> V -> V)
    (n : node V) (vec : list V) (i : nat) (p : path) (o : unop) (nm : string) (dv : V),
  List.length vec = prior_count V n -> i < prior_count V n ->
  node_at V p n = Some (NUn o nm (NPrior (nth i (ordered_ids V n) 0))) ->
  lookup V p (inst_from_vector V bin un n vec) = Some (IV (un o (nth i vec dv))).
Proof. exact unary_of_ith_value. Qed.

(* subtraction as the API builds it (ArithmeticMixin.__sub__: a - b = SumPrior(a, NegativePrior(b))) *)
Theorem C01_subtraction : forall (V : Type) (bin : binop -> V -> V -> V) (un : unop -> V -> V)
    (args : nat -> option V) (ln rn nm : string) (l r : node V) (a b : V),
  eval V bin un args l = Some a -> eval V bin un args r = Some b -> is_const V r = false ->
  inst V bin un args (NBin OAdd ln rn l (NUn UNeg nm r)) = IV (bin OAdd a (un UNeg b)) /\
  (ln <> rn -> walk V (NBin OAdd ln rn l (NUn UNeg nm r))
               = prefix_paths ln (walk V l) ++ prefix_paths rn (prefix_paths nm (walk V r))).
Proof. exact subtraction_as_built. Qed.

(* object_for_path below a unary node; a unary form of a float has no value (the code raises) *)
Theorem C01_unary_prior_at : forall (V : Type) (o : unop) (nm k : string) (c : node V) (p : path),
  prior_at V (k :: p) (NUn o nm c) = if String.eqb k nm then prior_at V p c else None.
Proof. exact unary_prior_at. Qed.

Theorem C01_unary_of_constant_raises : forall (V : Type) (bin : binop -> V -> V -> V) (un : unop -> V -> V)
    (args : nat -> option V) (o : unop) (nm : string) (v : V),
  inst V bin un args (NUn o nm (NConst v)) = IMissing.
Proof. exact unary_of_constant_raises. Qed.

(* ---------- the arithmetic forms // and % (FloorDivPrior, ModPrior): exact meaning over the rationals ----------
   floor division and the remainder with the sign of the DIVISOR (Python), not of the dividend (C fmod);
   a - b as built by the API (a + (-b)) is a - b *)
From Coq Require Import QArith.
From PAFC01 Require Import Proofs7.
Theorem C01_mod_floordiv_Q : forall a b : Q,
  ~ b == 0 ->
  a == b * qbin OFloorDiv a b + qbin OMod a b /\
  (0 < b -> 0 <= qbin OMod a b /\ qbin OMod a b < b) /\
  (b < 0 -> b < qbin OMod a b /\ qbin OMod a b <= 0).
Proof. exact mod_floordiv_Q. Qed.

Theorem C01_sub_as_built_Q : forall a b : Q, qbin OAdd a (qun UNeg b) == qbin OSub a b.
Proof. exact sub_as_built_Q. Qed.

Print Assumptions C01_order.
Print Assumptions C01_routes.
Print Assumptions C01_ith_path.
Print Assumptions C01_placement.
Print Assumptions C01_tuple.
Print Assumptions C01_ith_value.
Print Assumptions C01_ith_value_tuple.
Print Assumptions C01_routes_any_paths.
Print Assumptions C01_frame.
Print Assumptions C01_unit_placement.
Print Assumptions C01_tuple_member_derived.
Print Assumptions C01_unary_order.
Print Assumptions C01_unary_value.
Print Assumptions C01_unary_of_ith_value.
Print Assumptions C01_subtraction.
Print Assumptions C01_unary_prior_at.
Print Assumptions C01_unary_of_constant_raises.
Print Assumptions C01_mod_floordiv_Q.
Print Assumptions C01_sub_as_built_Q.
Print Assumptions C01_item_by_name.
Print Assumptions C01_item_order_irrelevant.
