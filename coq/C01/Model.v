(* C01 executable instance of the shared ModelTree over binary64 floats, and the
   correspondence cases. *)
From Coq Require Import List String Bool Arith.
From Coq Require Import Floats.PrimFloat.
From PAFCommon Require Import PyFloat.
From PAFC01 Require Import ModelTree.
Import ListNotations.
Local Open Scope string_scope.
Local Open Scope list_scope.

Definition fbin (o : binop) (a b : float) : float :=
  match o with
  | OAdd => PrimFloat.add a b
  | OSub => PrimFloat.sub a b
  | OMul => PrimFloat.mul a b
  | ODiv => PrimFloat.div a b
  end.

Definition fnode := node float.
Definition fival := ival float.

Fixpoint list_eqb {A} (eqb : A -> A -> bool) (a b : list A) : bool :=
  match a, b with
  | [], [] => true
  | x :: a', y :: b' => eqb x y && list_eqb eqb a' b'
  | _, _ => false
  end.

Definition path_eqb (a b : path) : bool := list_eqb String.eqb a b.

Fixpoint ival_eqb (a b : fival) : bool :=
  match a, b with
  | IV x, IV y => fbits_eqb x y
  | ITup xs, ITup ys =>
      (fix go (xs ys : list fival) : bool :=
         match xs, ys with
         | [], [] => true
         | x :: xs', y :: ys' => ival_eqb x y && go xs' ys'
         | _, _ => false
         end) xs ys
  | IObj c xs, IObj d ys =>
      String.eqb c d &&
      (fix go (xs ys : list (string * fival)) : bool :=
         match xs, ys with
         | [], [] => true
         | (k, x) :: xs', (l, y) :: ys' => String.eqb k l && ival_eqb x y && go xs' ys'
         | _, _ => false
         end) xs ys
  | IColl xs, IColl ys =>
      (fix go (xs ys : list (string * fival)) : bool :=
         match xs, ys with
         | [], [] => true
         | (k, x) :: xs', (l, y) :: ys' => String.eqb k l && ival_eqb x y && go xs' ys'
         | _, _ => false
         end) xs ys
  | IMissing, IMissing => true
  | _, _ => false
  end.

Record case := {
  c_tree : fnode;
  c_vec : list float;
  c_paths : list path;          (* model.paths *)
  c_upaths : list path;         (* model.unique_prior_paths *)
  c_count : nat;                (* model.prior_count *)
  c_ids : list nat;             (* priors_ordered_by_id, as creation indices *)
  c_inst : fival;               (* instance_from_vector(vec) *)
  c_inst_paths : fival          (* instance_from_path_arguments({unique path i: vec[i]}) *)
}.

Definition check_case (c : case) : bool :=
  let n := c_tree c in
  list_eqb path_eqb (paths float n) (c_paths c)
  && list_eqb path_eqb (unique_prior_paths float n) (c_upaths c)
  && Nat.eqb (prior_count float n) (c_count c)
  && list_eqb Nat.eqb (ordered_ids float n) (c_ids c)
  && ival_eqb (inst_from_vector float fbin n (c_vec c)) (c_inst c)
  && ival_eqb (inst_from_paths float fbin n (combine (c_upaths c) (c_vec c))) (c_inst_paths c).
