(* C01 executable instance of the shared ModelTree over binary64 floats, and the
   correspondence cases. *)
From Coq Require Import List String Bool Arith.
From Coq Require Import Floats.PrimFloat.
From PAFCommon Require Import PyFloat.
From PAFC01 Require Import ModelTree PyArith.
Import ListNotations.
Local Open Scope string_scope.
Local Open Scope list_scope.

Definition fbin (o : binop) (a b : float) : float :=
  match o with
  | OAdd => PrimFloat.add a b
  | OSub => PrimFloat.sub a b
  | OMul => PrimFloat.mul a b
  | ODiv => PrimFloat.div a b
  | OFloorDiv => py_floordiv a b       (* defined for b <> 0; Python raises ZeroDivisionError otherwise *)
  | OMod => py_mod a b
  end.

(* Python float __neg__ / __abs__: sign bit flipped / cleared (exact) *)
Definition funop (o : unop) (a : float) : float :=
  match o with
  | UNeg => PrimFloat.opp a
  | UAbs => PrimFloat.abs a
  end.

Definition fnode := node float.
Definition fival := ival float.

Fixpoint list_eqb {A} (eqb : A -> A -> bool) (a b : list A) : bool :=
  match a, b with
  | [], [] => true
  | x :: a', y :: b' => eqb x y && list_eqb eqb a' b'
  | _, _ => false
  end.

Definition path_eqb (a b : path) : bool := list_eqb String.eqb a b.

Fixpoint ival_eqb (a b : fival) : bool :=
  match a, b with
  | IV x, IV y => fbits_eqb x y
  | ITup xs, ITup ys =>
      (fix go (xs ys : list fival) : bool :=
         match xs, ys with
         | [], [] => true
         | x :: xs', y :: ys' => ival_eqb x y && go xs' ys'
         | _, _ => false
         end) xs ys
  | IObj c xs, IObj d ys =>
      String.eqb c d &&
      (fix go (xs ys : list (string * fival)) : bool :=
         match xs, ys with
         | [], [] => true
         | (k, x) :: xs', (l, y) :: ys' => String.eqb k l && ival_eqb x y && go xs' ys'
         | _, _ => false
         end) xs ys
  | IColl xs, IColl ys =>
      (fix go (xs ys : list (string * fival)) : bool :=
         match xs, ys with
         | [], [] => true
         | (k, x) :: xs', (l, y) :: ys' => String.eqb k l && ival_eqb x y && go xs' ys'
         | _, _ => false
         end) xs ys
  | IMissing, IMissing => true
  | _, _ => false
  end.

(* unit-vector route with the priors' value_for given as a finite table (the implementation's
   vector_from_unit_vector output, in advertised order) *)
Definition table_value_for (ids : list nat) (tab : list float) (q : nat) (_ : float) : float :=
  match zip_args float ids tab q with Some v => v | None => PrimFloat.zero end.

Definition opt_ival_eqb (a : fival) (b : option fival) : bool :=
  match b with Some y => ival_eqb a y | None => true end.

Record case := {
  c_tree : fnode;
  c_vec : list float;
  c_paths : list path;          (* model.paths *)
  c_upaths : list path;         (* model.unique_prior_paths *)
  c_count : nat;                (* model.prior_count *)
  c_ids : list nat;             (* priors_ordered_by_id, as creation indices *)
  c_inst : fival;               (* instance_from_vector(vec) *)
  c_pv : list (path * float);   (* the path arguments supplied, in dict order (any paths, several per prior) *)
  c_inst_paths : fival;         (* instance_from_path_arguments(dict c_pv) *)
  c_unit_vec : list float;      (* vector_from_unit_vector(u): table of value_for *)
  c_inst_unit : option fival;   (* instance_from_unit_vector(u); None when it (and the vector) raised *)
  c_cmp_inst : bool             (* false: instances not compared (division by zero: the code raises) *)
}.

Definition check_case (c : case) : bool :=
  let n := c_tree c in
  let m := n in
  let ids := ordered_ids float n in
  list_eqb path_eqb (paths float n) (c_paths c)
  && list_eqb path_eqb (unique_prior_paths float n) (c_upaths c)
  && Nat.eqb (prior_count float n) (c_count c)
  && list_eqb Nat.eqb ids (c_ids c)
  && (negb (c_cmp_inst c) ||
      ival_eqb (inst float fbin funop (zip_args float ids (c_vec c)) m) (c_inst c)
      && ival_eqb (inst float fbin funop (path_args float n (c_pv c)) m) (c_inst_paths c)
      && opt_ival_eqb (inst float fbin funop (zip_args float ids (c_unit_vec c)) m) (c_inst_unit c)).
