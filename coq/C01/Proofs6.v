(* C01 (continued): components of a collection are addressed by NAME.  The item named k is found under k by
   object_for_path / in the built instance at whatever position it sits, and re-ordering the items of a
   collection changes nothing that is addressed by a path -- in particular an item whose name is a number
   ("0", "1", ...) is NOT the item at that position (Collection(main=..).append(..), c[1] = ..; c[0] = ..,
   a list after remove()). *)
From Coq Require Import List String Bool Arith Permutation.
From PAFC01 Require Import ModelTree Proofs Proofs2 Proofs3 Proofs4.
Import ListNotations.
Local Open Scope string_scope.
Local Open Scope list_scope.

Section P6.
  Variable V : Type.
  Variable bin : binop -> V -> V -> V.
  Variable un : unop -> V -> V.

  Lemma assoc_nodup_in {B} (l : list (string * B)) (k : string) (v : B) :
    NoDup (map fst l) -> In (k, v) l -> assoc k l = Some v.
  Proof.
    induction l as [|[k' v'] l IH]; intros ND Hin; [contradiction|].
    simpl in ND. inversion ND as [|? ? Hnot ND']; subst. simpl.
    destruct Hin as [E|Hin].
    - inversion E; subst. rewrite String.eqb_refl. reflexivity.
    - destruct (String.eqb_spec k k') as [->|_].
      + exfalso. apply Hnot. apply (in_map fst) in Hin. exact Hin.
      + apply IH; assumption.
  Qed.

  Lemma assoc_perm {B} (l l' : list (string * B)) (k : string) :
    NoDup (map fst l) -> Permutation l l' -> assoc k l = assoc k l'.
  Proof.
    intros ND P.
    assert (ND' : NoDup (map fst l')) by (eapply Permutation_NoDup; [apply Permutation_map; exact P|exact ND]).
    destruct (assoc k l) as [v|] eqn:A.
    - symmetry. apply assoc_nodup_in; [exact ND'|]. eapply Permutation_in; [exact P|]. apply assoc_in. exact A.
    - destruct (assoc k l') as [v'|] eqn:A'; [|reflexivity].
      apply assoc_in in A'. apply (Permutation_in _ (Permutation_sym P)) in A'.
      rewrite (assoc_nodup_in l k v' ND A') in A. discriminate.
  Qed.

  Lemma lookup_coll_assoc (args : nat -> option V) (attrs : list (string * node V)) (k : string) (p' : path) :
    lookup V (k :: p') (inst V bin un args (NColl attrs)) =
    match assoc k attrs with Some c => lookup V p' (inst V bin un args c) | None => None end.
  Proof.
    cbn [inst lookup]. rewrite (inst_attrs_map V bin un args attrs), assoc_map_snd.
    destruct (assoc k attrs); reflexivity.
  Qed.

  (* the item named k of a collection, at whatever position: a path starting with k continues inside that item *)
  Lemma item_by_name (attrs : list (string * node V)) (k : string) (c : node V) (p' : path) :
    NoDup (map fst attrs) -> In (k, c) attrs ->
    prior_at V (k :: p') (NColl attrs) = prior_at V p' c /\
    node_at V (k :: p') (NColl attrs) = node_at V p' c /\
    forall args, lookup V (k :: p') (inst V bin un args (NColl attrs)) = lookup V p' (inst V bin un args c).
  Proof.
    intros ND Hin. assert (A := assoc_nodup_in attrs k c ND Hin).
    split; [|split].
    - cbn [prior_at]. rewrite attrs_go_assoc, A. reflexivity.
    - cbn [node_at]. rewrite A. reflexivity.
    - intro args. rewrite lookup_coll_assoc, A. reflexivity.
  Qed.

  (* the order of the items is irrelevant for everything addressed by a (non-empty) path *)
  Lemma item_order_irrelevant (attrs attrs' : list (string * node V)) (k : string) (p' : path) :
    NoDup (map fst attrs) -> Permutation attrs attrs' ->
    prior_at V (k :: p') (NColl attrs) = prior_at V (k :: p') (NColl attrs') /\
    node_at V (k :: p') (NColl attrs) = node_at V (k :: p') (NColl attrs') /\
    forall args, lookup V (k :: p') (inst V bin un args (NColl attrs)) = lookup V (k :: p') (inst V bin un args (NColl attrs')).
  Proof.
    intros ND P. assert (A := assoc_perm attrs attrs' k ND P).
    split; [|split].
    - cbn [prior_at]. rewrite !attrs_go_assoc, A. reflexivity.
    - cbn [node_at]. rewrite A. reflexivity.
    - intro args. rewrite !lookup_coll_assoc, A. reflexivity.
  Qed.
End P6.
