(* C01: the path route equals the vector route. *)
From Coq Require Import List String Bool Arith PeanoNat Lia Permutation Sorted.
From PAFC01 Require Import ModelTree Sorting Proofs Proofs2.
Import ListNotations.
Local Open Scope string_scope.
Local Open Scope list_scope.

Section P3.
  Variable V : Type.
  Variable bin : binop -> V -> V -> V.
  Variable un : unop -> V -> V.
  Notation node := (node V).
  Notation ival := (ival V).

  (* well-formedness of an abstracted model: dictionary keys are unique at every level and the two
     operand attributes of an arithmetic prior have different names *)
  Fixpoint wf (n : node) : Prop :=
    match n with
    | NPrior _ | NConst _ => True
    | NTuple ms =>
        NoDup (map fst ms) /\
        (fix go (ms : list (string * (nat * node))) : Prop :=
           match ms with [] => True | (_, (_, c)) :: ms' => wf c /\ go ms' end) ms
    | NBin _ ln rn l r => ln <> rn /\ wf l /\ wf r
    | NUn _ _ c => wf c
    | NModel _ _ attrs | NColl attrs =>
        NoDup (map fst attrs) /\
        (fix go (a : list (string * node)) : Prop :=
           match a with [] => True | (_, c) :: a' => wf c /\ go a' end) attrs
    end.

  Lemma wf_attrs_in (attrs : list (string * node)) (k : string) (c : node) :
    (fix go (a : list (string * node)) : Prop :=
       match a with [] => True | (_, c) :: a' => wf c /\ go a' end) attrs ->
    In (k, c) attrs -> wf c.
  Proof.
    induction attrs as [|[k' c'] a IH]; intros H Hin; [contradiction|].
    destruct H as [H1 H2]. destruct Hin as [E|Hin]; [inversion E; subst; exact H1|apply IH; assumption].
  Qed.

  Lemma wf_members_in (ms : list (string * (nat * node))) (k : string) (i : nat) (c : node) :
    (fix go (ms : list (string * (nat * node))) : Prop :=
       match ms with [] => True | (_, (_, c)) :: ms' => wf c /\ go ms' end) ms ->
    In (k, (i, c)) ms -> wf c.
  Proof.
    induction ms as [|[k' [i' c']] a IH]; intros H Hin; [contradiction|].
    destruct H as [H1 H2]. destruct Hin as [E|Hin]; [inversion E; subst; exact H1|apply IH; assumption].
  Qed.

  (* ---------- inst depends only on the values of the model's own parameters ---------- *)
  Lemma inst_ext (a1 a2 : nat -> option V) (n : node) :
    wf n -> (forall q, In q (prior_ids V n) -> a1 q = a2 q) -> inst V bin un a1 n = inst V bin un a2 n.
  Proof.
    induction n as [q|c|ms IH|o ln rn l r IHl IHr|uo unm uc IHc|cls ctor attrs IH|attrs IH] using (node_ind' V); intros W E.
    - cbn [inst]. rewrite (E q); [reflexivity|]. left; reflexivity.
    - reflexivity.
    - rewrite !inst_tuple. f_equal. f_equal. unfold member_vals. f_equal.
      destruct W as [_ W]. apply map_ext_in. intros [k [i c]] Hin. simpl. f_equal.
      rewrite Forall_forall in IH. apply (IH _ Hin).
      + exact (wf_members_in ms k i c W Hin).
      + intros q Hq. apply E. exact (walk_members_in V ms k i c q Hin Hq).
    - destruct W as [Hne [Wl Wr]]. cbn [inst].
      assert (Sub : forall q, In q (prior_ids V l) \/ In q (prior_ids V r) -> In q (prior_ids V (NBin o ln rn l r))).
      { intros q Hq. unfold prior_ids. cbn [walk]. destruct (String.eqb_spec ln rn) as [Eq|_]; [contradiction|].
        rewrite map_app. apply in_or_app. unfold prefix_paths. rewrite !map_map. simpl. exact Hq. }
      rewrite (IHl Wl), (IHr Wr); [reflexivity| |]; intros q Hq; apply E; apply Sub; auto.
    - assert (Ei : inst V bin un a1 uc = inst V bin un a2 uc).
      { apply IHc; [exact W|]. intros q Hq. apply E. unfold prior_ids in *. cbn [walk].
        unfold prefix_paths. rewrite map_map. simpl. exact Hq. }
      cbn [inst]. rewrite Ei. reflexivity.
    - destruct W as [_ W]. cbn [inst]. rewrite !inst_attrs_map.
      assert (M : map (fun kv => (fst kv, inst V bin un a1 (snd kv))) attrs = map (fun kv => (fst kv, inst V bin un a2 (snd kv))) attrs).
      { apply map_ext_in. intros [k c] Hin. simpl. f_equal. rewrite Forall_forall in IH. apply (IH _ Hin).
        - exact (wf_attrs_in attrs k c W Hin).
        - intros q Hq. apply E. unfold prior_ids. cbn [walk]. exact (walk_attrs_in V attrs k c q Hin Hq). }
      rewrite M. reflexivity.
    - destruct W as [_ W]. cbn [inst]. rewrite !inst_attrs_map. f_equal.
      apply map_ext_in. intros [k c] Hin. simpl. f_equal. rewrite Forall_forall in IH. apply (IH _ Hin).
      + exact (wf_attrs_in attrs k c W Hin).
      + intros q Hq. apply E. unfold prior_ids. cbn [walk]. exact (walk_attrs_in V attrs k c q Hin Hq).
  Qed.

  (* ---------- every advertised path resolves to its prior ---------- *)
  Lemma in_prefix (k : string) (l : list (path * nat)) (p : path) (q : nat) :
    In (p, q) (prefix_paths k l) -> exists p', p = k :: p' /\ In (p', q) l.
  Proof.
    unfold prefix_paths. intro H. apply in_map_iff in H. destruct H as [[p' q'] [E Hin]].
    simpl in E. inversion E; subst. exists p'. split; [reflexivity|exact Hin].
  Qed.

  Lemma attrs_walk_in (attrs : list (string * node)) (p : path) (q : nat) :
    In (p, q) ((fix go (a : list (string * node)) : list (path * nat) :=
                  match a with [] => [] | (k, c) :: a' => prefix_paths k (walk V c) ++ go a' end) attrs) ->
    exists k c p', p = k :: p' /\ In (k, c) attrs /\ In (p', q) (walk V c).
  Proof.
    induction attrs as [|[k c] a IH]; intro H; [contradiction|].
    apply in_app_or in H. destruct H as [H|H].
    - apply in_prefix in H. destruct H as [p' [-> Hin]]. exists k, c, p'. repeat split; auto. left; reflexivity.
    - destruct (IH H) as [k' [c' [p' [-> [Hin Hw]]]]]. exists k', c', p'. repeat split; auto. right; exact Hin.
  Qed.

  Lemma members_walk_in (ms : list (string * (nat * node))) (p : path) (q : nat) :
    In (p, q) ((fix go (ms : list (string * (nat * node))) : list (path * nat) :=
                  match ms with [] => [] | (k, (_, c)) :: ms' => prefix_paths k (walk V c) ++ go ms' end) ms) ->
    exists k i c p', p = k :: p' /\ In (k, (i, c)) ms /\ In (p', q) (walk V c).
  Proof.
    induction ms as [|[k [i c]] a IH]; intro H; [contradiction|].
    apply in_app_or in H. destruct H as [H|H].
    - apply in_prefix in H. destruct H as [p' [-> Hin]]. exists k, i, c, p'. repeat split; auto. left; reflexivity.
    - destruct (IH H) as [k' [i' [c' [p' [-> [Hin Hw]]]]]]. exists k', i', c', p'. repeat split; auto. right; exact Hin.
  Qed.

  Lemma attrs_find (attrs : list (string * node)) (k : string) (c : node) (p' : path) :
    NoDup (map fst attrs) -> In (k, c) attrs ->
    (fix go (a : list (string * node)) : option nat :=
       match a with [] => None | (k', c) :: a' => if String.eqb k k' then prior_at V p' c else go a' end) attrs
    = prior_at V p' c.
  Proof.
    induction attrs as [|[k' c'] a IH]; intros ND Hin; [contradiction|].
    simpl in ND. inversion ND as [|? ? Hnot ND']; subst.
    destruct Hin as [E|Hin].
    - inversion E; subst. rewrite String.eqb_refl. reflexivity.
    - destruct (String.eqb_spec k k') as [->|_].
      + exfalso. apply Hnot. apply in_map_iff. exists (k', c). split; [reflexivity|exact Hin].
      + apply IH; assumption.
  Qed.

  Lemma members_find (ms : list (string * (nat * node))) (k : string) (i : nat) (c : node) (p' : path) :
    NoDup (map fst ms) -> In (k, (i, c)) ms ->
    (fix go (ms : list (string * (nat * node))) : option nat :=
       match ms with [] => None | (k', (_, c)) :: ms' => if String.eqb k k' then prior_at V p' c else go ms' end) ms
    = prior_at V p' c.
  Proof.
    induction ms as [|[k' [i' c']] a IH]; intros ND Hin; [contradiction|].
    simpl in ND. inversion ND as [|? ? Hnot ND']; subst.
    destruct Hin as [E|Hin].
    - inversion E; subst. rewrite String.eqb_refl. reflexivity.
    - destruct (String.eqb_spec k k') as [->|_].
      + exfalso. apply Hnot. apply in_map_iff. exists (k', (i, c)). split; [reflexivity|exact Hin].
      + apply IH; assumption.
  Qed.

  Lemma walk_prior_at (n : node) : wf n -> forall p q, In (p, q) (walk V n) -> prior_at V p n = Some q.
  Proof.
    induction n as [q0|c|ms IH|o ln rn l r IHl IHr|uo unm uc IHc|cls ctor attrs IH|attrs IH] using (node_ind' V); intros W p q Hin.
    - simpl in Hin. destruct Hin as [E|[]]. inversion E; subst. reflexivity.
    - contradiction.
    - destruct W as [ND W]. cbn [walk] in Hin.
      destruct (members_walk_in ms p q Hin) as [k [i [c [p' [-> [Hm Hw]]]]]].
      cbn [prior_at]. rewrite (members_find ms k i c p' ND Hm).
      rewrite Forall_forall in IH. apply (IH _ Hm); [exact (wf_members_in ms k i c W Hm)|exact Hw].
    - destruct W as [Hne [Wl Wr]]. cbn [walk] in Hin.
      destruct (String.eqb_spec ln rn) as [E|_]; [contradiction|].
      apply in_app_or in Hin. destruct Hin as [H|H]; apply in_prefix in H; destruct H as [p' [-> Hw]]; cbn [prior_at].
      + destruct (String.eqb_spec ln rn) as [E|_]; [contradiction|]. rewrite String.eqb_refl. apply IHl; assumption.
      + rewrite String.eqb_refl. apply IHr; assumption.
    - cbn [walk] in Hin. apply in_prefix in Hin. destruct Hin as [p' [-> Hw]].
      cbn [prior_at]. rewrite String.eqb_refl. apply IHc; assumption.
    - destruct W as [ND W]. cbn [walk] in Hin.
      destruct (attrs_walk_in attrs p q Hin) as [k [c [p' [-> [Ha Hw]]]]].
      cbn [prior_at]. rewrite (attrs_find attrs k c p' ND Ha).
      rewrite Forall_forall in IH. apply (IH _ Ha); [exact (wf_attrs_in attrs k c W Ha)|exact Hw].
    - destruct W as [ND W]. cbn [walk] in Hin.
      destruct (attrs_walk_in attrs p q Hin) as [k [c [p' [-> [Ha Hw]]]]].
      cbn [prior_at]. rewrite (attrs_find attrs k c p' ND Ha).
      rewrite Forall_forall in IH. apply (IH _ Ha); [exact (wf_attrs_in attrs k c W Ha)|exact Hw].
  Qed.

  (* ---------- path arguments pick, for the i-th parameter, the i-th value ---------- *)
  Lemma path_args_nth (n : node) (ps : list path) (ids : list nat) (vec : list V) :
    NoDup ids -> List.length ps = List.length ids -> List.length vec = List.length ids ->
    (forall j dp dq, j < List.length ids -> prior_at V (nth j ps dp) n = Some (nth j ids dq)) ->
    forall i dq dv, i < List.length ids ->
      path_args V n (combine ps vec) (nth i ids dq) = Some (nth i vec dv).
  Proof.
    revert ids vec. induction ps as [|p ps IH]; intros ids vec ND Lp Lv R i dq dv Hi.
    - destruct ids; simpl in *; lia.
    - destruct ids as [|a ids]; simpl in Lp; [lia|]. destruct vec as [|v vec]; simpl in Lv; [lia|].
      inversion ND as [|? ? Hnot ND']; subst. cbn [combine path_args].
      assert (R' : forall j dp dq, j < List.length ids -> prior_at V (nth j ps dp) n = Some (nth j ids dq)).
      { intros j dp dq' Hj. apply (R (S j) dp dq'). simpl. lia. }
      destruct i as [|i]; simpl nth.
      + (* the head: no later path resolves to a *)
        assert (None' : forall (ps0 : list path) (ids0 : list nat) (vec0 : list V),
                   List.length ps0 = List.length ids0 -> List.length vec0 = List.length ids0 ->
                   (forall j dp dq, j < List.length ids0 -> prior_at V (nth j ps0 dp) n = Some (nth j ids0 dq)) ->
                   ~ In a ids0 -> path_args V n (combine ps0 vec0) a = None).
        { clear. induction ps0 as [|p0 ps0 IH0]; intros ids0 vec0 L1 L2 R0 Hn; [reflexivity|].
          destruct ids0 as [|b ids0]; simpl in L1; [lia|]. destruct vec0 as [|w vec0]; simpl in L2; [lia|].
          cbn [combine path_args].
          rewrite (IH0 ids0 vec0); try lia.
          - specialize (R0 0 p0 b). simpl in R0. rewrite R0 by lia.
            destruct (Nat.eqb_spec a b) as [->|_]; [exfalso; apply Hn; left; reflexivity|reflexivity].
          - intros j dp dq Hj. apply (R0 (S j) dp dq). simpl. lia.
          - intro H. apply Hn. right. exact H. }
        rewrite (None' ps ids vec); try lia; auto.
        specialize (R 0 p a). simpl in R. rewrite R by lia. rewrite Nat.eqb_refl. reflexivity.
      + rewrite (IH ids vec ND' ltac:(lia) ltac:(lia) R' i dq dv ltac:(simpl in Hi; lia)). reflexivity.
  Qed.

  Theorem path_route (n : node) (vec : list V) :
    wf n -> List.length vec = prior_count V n ->
    inst_from_paths V bin un n (combine (unique_prior_paths V n) vec) = inst_from_vector V bin un n vec.
  Proof.
    intros W L. unfold inst_from_paths, inst_from_vector. apply inst_ext; [exact W|].
    intros q Hq. apply ordered_ids_in in Hq.
    destruct (In_nth _ _ 0 Hq) as [i [Hi Hnth]]. rewrite <- Hnth.
    assert (Lids : List.length (ordered_ids V n) = prior_count V n) by apply ordered_ids_length.
    destruct vec as [|v0 vec'] eqn:Ev.
    - simpl in L. rewrite <- L in Lids. rewrite Lids in Hi. lia.
    - rewrite <- Ev in *.
      rewrite (path_args_nth n (unique_prior_paths V n) (ordered_ids V n) vec (ordered_ids_nodup V n)) with (dv := v0); try lia.
      + rewrite (zip_args_nth V (ordered_ids V n) vec i 0 v0); auto; [apply ordered_ids_nodup|lia].
      + unfold unique_prior_paths. rewrite map_length. rewrite <- (unique_path_priors_ids V n). rewrite map_length. reflexivity.
      + intros j dp dq Hj. apply walk_prior_at; [exact W|]. apply ith_path. lia.
  Qed.
End P3.

(* ---------- a checkable version of wf, used by the harness to measure how many generated
   models satisfy the hypothesis of the route theorem ---------- *)
Section WfBool.
  Variable V : Type.

  Fixpoint nodup_strings (l : list string) : bool :=
    match l with
    | [] => true
    | x :: l' => negb (existsb (String.eqb x) l') && nodup_strings l'
    end.

  Lemma nodup_strings_sound (l : list string) : nodup_strings l = true -> NoDup l.
  Proof.
    induction l as [|x l IH]; simpl; intro H; [constructor|].
    apply andb_true_iff in H. destruct H as [H1 H2]. constructor; [|apply IH; exact H2].
    intro Hin. apply negb_true_iff in H1.
    assert (E : existsb (String.eqb x) l = true).
    { apply existsb_exists. exists x. split; [exact Hin|apply String.eqb_refl]. }
    congruence.
  Qed.

  Fixpoint wfb (n : node V) : bool :=
    match n with
    | NPrior _ | NConst _ => true
    | NTuple ms =>
        nodup_strings (map fst ms) &&
        (fix go (ms : list (string * (nat * node V))) : bool :=
           match ms with [] => true | (_, (_, c)) :: ms' => wfb c && go ms' end) ms
    | NBin _ ln rn l r => negb (String.eqb ln rn) && wfb l && wfb r
    | NUn _ _ c => wfb c
    | NModel _ _ attrs | NColl attrs =>
        nodup_strings (map fst attrs) &&
        (fix go (a : list (string * node V)) : bool :=
           match a with [] => true | (_, c) :: a' => wfb c && go a' end) attrs
    end.

  Lemma wfb_sound (n : node V) : wfb n = true -> wf V n.
  Proof.
    induction n as [q|c|ms IH|o ln rn l r IHl IHr|uo unm uc IHc|cls ctor attrs IH|attrs IH] using (node_ind' V); intro H.
    - exact I.
    - exact I.
    - cbn [wfb] in H. apply andb_true_iff in H. destruct H as [H1 H2]. cbn [wf]. split; [apply nodup_strings_sound; exact H1|].
      induction ms as [|[k [i c]] ms IHms]; [exact I|].
      apply andb_true_iff in H2. destruct H2 as [Hc Hr]. inversion IH as [|? ? IHc IHrest]; subst. simpl in IHc.
      split; [apply IHc; exact Hc|].
      apply IHms; [exact IHrest| |exact Hr].
      simpl in H1. apply andb_true_iff in H1. exact (proj2 H1).
    - cbn [wfb] in H. apply andb_true_iff in H. destruct H as [H12 H3]. apply andb_true_iff in H12. destruct H12 as [H1 H2].
      cbn [wf]. repeat split; [|apply IHl; exact H2|apply IHr; exact H3].
      intro E. subst. rewrite String.eqb_refl in H1. discriminate H1.
    - apply IHc. exact H.
    - cbn [wfb] in H. apply andb_true_iff in H. destruct H as [H1 H2]. cbn [wf]. split; [apply nodup_strings_sound; exact H1|].
      induction attrs as [|[k c] attrs IHa]; [exact I|].
      apply andb_true_iff in H2. destruct H2 as [Hc Hr]. inversion IH as [|? ? IHc IHrest]; subst. simpl in IHc.
      split; [apply IHc; exact Hc|].
      apply IHa; [exact IHrest| |exact Hr].
      simpl in H1. apply andb_true_iff in H1. exact (proj2 H1).
    - cbn [wfb] in H. apply andb_true_iff in H. destruct H as [H1 H2]. cbn [wf]. split; [apply nodup_strings_sound; exact H1|].
      induction attrs as [|[k c] attrs IHa]; [exact I|].
      apply andb_true_iff in H2. destruct H2 as [Hc Hr]. inversion IH as [|? ? IHc IHrest]; subst. simpl in IHc.
      split; [apply IHc; exact Hc|].
      apply IHa; [exact IHrest| |exact Hr].
      simpl in H1. apply andb_true_iff in H1. exact (proj2 H1).
  Qed.
End WfBool.
