(* Stable insertion sort by a nat key, dictionaries keyed by nat: generic lemmas. *)
From Coq Require Import List Bool Arith PeanoNat Lia Permutation Sorted.
From PAFC01 Require Import ModelTree.
Import ListNotations.

Section S.
  Context {A : Type} (key : A -> nat).

  Lemma insert_by_perm (x : A) (l : list A) : Permutation (insert_by key x l) (x :: l).
  Proof.
    induction l as [|y l IH]; simpl; [reflexivity|].
    destruct (Nat.leb (key x) (key y)); [reflexivity|].
    eapply Permutation_trans; [apply perm_skip; exact IH|apply perm_swap].
  Qed.

  Lemma sort_by_perm (l : list A) : Permutation (sort_by key l) l.
  Proof.
    induction l as [|x l IH]; simpl; [reflexivity|].
    eapply Permutation_trans; [apply insert_by_perm|]. apply perm_skip. exact IH.
  Qed.

  Definition le_key (a b : A) : Prop := key a <= key b.
  Definition lt_key (a b : A) : Prop := key a < key b.

  Lemma insert_by_sorted (x : A) (l : list A) :
    StronglySorted le_key l -> StronglySorted le_key (insert_by key x l).
  Proof.
    induction 1 as [|y l Hs IH Hall]; simpl.
    - constructor; constructor.
    - destruct (Nat.leb_spec (key x) (key y)) as [L|L].
      + constructor; [constructor; assumption|].
        constructor; [exact L|]. rewrite Forall_forall in *. intros z Hz. unfold le_key in *.
        specialize (Hall z Hz). lia.
      + constructor; [exact IH|].
        rewrite Forall_forall in *. intros z Hz.
        apply (Permutation_in _ (insert_by_perm x l)) in Hz. destruct Hz as [<-|Hz].
        * unfold le_key. lia.
        * apply Hall. exact Hz.
  Qed.

  Lemma sort_by_sorted (l : list A) : StronglySorted le_key (sort_by key l).
  Proof. induction l as [|x l IH]; simpl; [constructor|]. apply insert_by_sorted. exact IH. Qed.

  Lemma sorted_nodup_strict (l : list A) :
    StronglySorted le_key l -> NoDup (map key l) -> StronglySorted lt_key l.
  Proof.
    induction 1 as [|y l Hs IH Hall]; intro ND; [constructor|].
    simpl in ND. inversion ND as [|? ? Hnot ND']; subst.
    constructor; [apply IH; exact ND'|].
    rewrite Forall_forall in *. intros z Hz. specialize (Hall z Hz). unfold le_key, lt_key in *.
    assert (key z <> key y). { intro E. apply Hnot. rewrite <- E. apply in_map. exact Hz. }
    lia.
  Qed.

  Lemma sort_by_strict (l : list A) : NoDup (map key l) -> StronglySorted lt_key (sort_by key l).
  Proof.
    intro ND. apply sorted_nodup_strict; [apply sort_by_sorted|].
    apply (Permutation_NoDup (l := map key l)); [|exact ND].
    apply Permutation_map. apply Permutation_sym. apply sort_by_perm.
  Qed.
End S.

(* two strictly increasing lists with the same elements are equal *)
Lemma strict_sorted_unique (l1 l2 : list nat) :
  StronglySorted lt l1 -> StronglySorted lt l2 -> (forall x, In x l1 <-> In x l2) -> l1 = l2.
Proof.
  revert l2. induction l1 as [|a l1 IH]; intros l2 S1 S2 E.
  - destruct l2 as [|b l2]; [reflexivity|]. exfalso. apply (proj2 (E b)). left; reflexivity.
  - destruct l2 as [|b l2]; [exfalso; apply (proj1 (E a)); left; reflexivity|].
    inversion S1 as [|? ? S1' H1]; subst. inversion S2 as [|? ? S2' H2]; subst.
    rewrite Forall_forall in H1, H2.
    assert (a = b).
    { destruct (proj1 (E a) (or_introl eq_refl)) as [->|Ha]; [reflexivity|].
      destruct (proj2 (E b) (or_introl eq_refl)) as [->|Hb]; [reflexivity|].
      specialize (H1 b Hb). specialize (H2 a Ha). lia. }
    subst b. f_equal. apply IH; auto.
    intro x. split; intro Hx.
    + destruct (proj1 (E x) (or_intror Hx)) as [<-|?]; [|assumption].
      specialize (H1 a Hx). lia.
    + destruct (proj2 (E x) (or_intror Hx)) as [<-|?]; [|assumption].
      specialize (H2 a Hx). lia.
Qed.

Lemma strict_map_key {A} (key : A -> nat) (l : list A) :
  StronglySorted (lt_key key) l -> StronglySorted lt (map key l).
Proof.
  induction 1 as [|y l Hs IH Hall]; simpl; constructor; [exact IH|].
  rewrite Forall_forall in *. intros z Hz. apply in_map_iff in Hz. destruct Hz as [w [<- Hw]]. apply Hall. exact Hw.
Qed.

Lemma strict_sorted_nodup (l : list nat) : StronglySorted lt l -> NoDup l.
Proof.
  induction 1 as [|y l Hs IH Hall]; constructor; [|exact IH].
  intro Hin. rewrite Forall_forall in Hall. specialize (Hall y Hin). lia.
Qed.

(* ---------- dictionaries ---------- *)
Section D.
  Context {B : Type}.

  Lemma dict_set_keys (k : nat) (v : B) (d : list (nat * B)) :
    forall x, In x (map fst (dict_set k v d)) <-> x = k \/ In x (map fst d).
  Proof.
    induction d as [|[k' v'] d IH]; simpl; intro x; [intuition congruence|].
    destruct (Nat.eqb_spec k k') as [->|Hne]; simpl.
    - intuition congruence.
    - rewrite IH. intuition congruence.
  Qed.

  Lemma dict_set_nodup (k : nat) (v : B) (d : list (nat * B)) :
    NoDup (map fst d) -> NoDup (map fst (dict_set k v d)).
  Proof.
    induction d as [|[k' v'] d IH]; simpl; intro ND.
    - constructor; [intros []|constructor].
    - inversion ND as [|? ? Hnot ND']; subst.
      destruct (Nat.eqb_spec k k') as [->|Hne]; simpl.
      + constructor; assumption.
      + constructor; [|apply IH; exact ND'].
        intro Hin. apply dict_set_keys in Hin. destruct Hin as [->|Hin]; [apply Hne; reflexivity|contradiction].
  Qed.

  Lemma dict_set_in (k : nat) (v : B) (d : list (nat * B)) (kv : nat * B) :
    In kv (dict_set k v d) -> kv = (k, v) \/ In kv d.
  Proof.
    induction d as [|[k' v'] d IH]; simpl; intro H.
    - destruct H as [<-|[]]. left; reflexivity.
    - destruct (Nat.eqb_spec k k') as [->|Hne]; simpl in H.
      + destruct H as [<-|H]; [left; reflexivity|right; right; exact H].
      + destruct H as [<-|H]; [right; left; reflexivity|].
        destruct (IH H) as [->|H']; [left; reflexivity|right; right; exact H'].
  Qed.

  Lemma dict_of_gen (l : list (nat * B)) : forall d,
    NoDup (map fst d) ->
    let r := fold_left (fun d kv => dict_set (fst kv) (snd kv) d) l d in
    NoDup (map fst r) /\
    (forall x, In x (map fst r) <-> In x (map fst l) \/ In x (map fst d)) /\
    (forall kv, In kv r -> In kv l \/ In kv d).
  Proof.
    induction l as [|[k v] l IH]; intros d ND; simpl.
    - split; [exact ND|]. split; [intro x; tauto|intros kv H; right; exact H].
    - destruct (IH (dict_set k v d) (dict_set_nodup k v d ND)) as [N [K I]].
      split; [exact N|]. split.
      + intro x. rewrite K. rewrite dict_set_keys. intuition congruence.
      + intros kv H. destruct (I kv H) as [H'|H']; [left; right; exact H'|].
        destruct (dict_set_in k v d kv H') as [->|H'']; [left; left; reflexivity|right; exact H''].
  Qed.

  Lemma dict_of_nodup (l : list (nat * B)) : NoDup (map fst (dict_of l)).
  Proof. apply (dict_of_gen l []). constructor. Qed.

  Lemma dict_of_keys (l : list (nat * B)) : forall x, In x (map fst (dict_of l)) <-> In x (map fst l).
  Proof. intro x. destruct (dict_of_gen l [] (NoDup_nil _)) as [_ [K _]]. rewrite (K x). simpl. tauto. Qed.

  Lemma dict_of_in (l : list (nat * B)) (kv : nat * B) : In kv (dict_of l) -> In kv l.
  Proof. intro H. destruct (dict_of_gen l [] (NoDup_nil _)) as [_ [_ I]]. destruct (I kv H) as [?|[]]. assumption. Qed.
End D.
