(* Shared model of PyAutoFit model composition (DESIGN.md section 5, "Shared model").
   Mirrors, one for one:
     path_instances_of_class(obj, Prior)          -> walk
     AbstractPriorModel.path_priors_tuples         -> path_priors   (stable sort by prior id)
     .paths / .unique_prior_paths / .prior_count   -> paths / unique_prior_paths / prior_count
     .prior_tuples_ordered_by_id                   -> ordered_ids
     Model/Collection._instance_for_arguments,
     TuplePrior.value_for_arguments,
     CompoundPrior._instance_for_arguments,
     ModifiedPrior (NegativePrior / AbsolutePrior)._instance_for_arguments -> inst
   Parametric in the value type V and the arithmetic on it. Executable definitions only. *)
From Coq Require Import List String Bool Arith PeanoNat.
Import ListNotations.
Local Open Scope string_scope.
Local Open Scope list_scope.

Inductive binop := OAdd | OSub | OMul | ODiv | OFloorDiv | OMod.   (* Sum, -, Multiple, Division, FloorDiv (//), Mod (%) Prior *)
(* ModifiedPrior forms with an exact value semantics: NegativePrior (-p), AbsolutePrior (abs(p)).
   (OSub is kept for clients that want it; the composition API never builds it: a - b is
   SumPrior(a, NegativePrior(b)), i.e. NBin OAdd _ _ a (NUn UNeg _ b), see ArithmeticMixin.__sub__.) *)
Inductive unop := UNeg | UAbs.

Section Tree.
  Variable V : Type.
  Variable bin : binop -> V -> V -> V.
  Variable un : unop -> V -> V.

  (* prior identity = its id; tuple members carry their name and the index parsed from it *)
  Inductive node :=
  | NPrior (pid : nat)
  | NConst (v : V)
  | NTuple (members : list (string * (nat * node)))
  | NBin (o : binop) (ln rn : string) (l r : node)
  | NUn (o : unop) (nm : string) (c : node)      (* ModifiedPrior: operand kept under attribute nm (_prior_name) *)
  | NModel (cls : string) (ctor : list string) (attrs : list (string * node))
  | NColl (attrs : list (string * node)).

  Definition path := list string.

  (* ---- the walk: every (path, prior) in __dict__ order ---- *)
  Definition prefix_paths (k : string) (l : list (path * nat)) : list (path * nat) :=
    map (fun pp => (k :: fst pp, snd pp)) l.

  Fixpoint walk (n : node) : list (path * nat) :=
    match n with
    | NPrior p => [([], p)]
    | NConst _ => []
    | NTuple ms =>
        (fix go (ms : list (string * (nat * node))) : list (path * nat) :=
           match ms with
           | [] => []
           | (k, (_, c)) :: ms' => prefix_paths k (walk c) ++ go ms'
           end) ms
    | NBin _ ln rn l r =>
        if String.eqb ln rn then prefix_paths rn (walk r)
        else prefix_paths ln (walk l) ++ prefix_paths rn (walk r)
    | NUn _ nm c => prefix_paths nm (walk c)
    | NModel _ _ attrs | NColl attrs =>
        (fix go (a : list (string * node)) : list (path * nat) :=
           match a with
           | [] => []
           | (k, c) :: a' => prefix_paths k (walk c) ++ go a'
           end) attrs
    end.

  (* ---- Python sorted(key=id): stable insertion sort (fold_right inserts earlier elements
     in front of equal keys) ---- *)
  Fixpoint insert_by {A} (key : A -> nat) (x : A) (l : list A) : list A :=
    match l with
    | [] => [x]
    | y :: l' => if Nat.leb (key x) (key y) then x :: l else y :: insert_by key x l'
    end.
  Definition sort_by {A} (key : A -> nat) (l : list A) : list A :=
    fold_right (insert_by key) [] l.

  Definition path_priors (n : node) : list (path * nat) := sort_by snd (walk n).
  Definition paths (n : node) : list path := map fst (path_priors n).

  (* {prior: item for item in l}.values(): one entry per prior, position of the first
     occurrence, value of the last *)
  Fixpoint dict_set {B} (k : nat) (v : B) (d : list (nat * B)) : list (nat * B) :=
    match d with
    | [] => [(k, v)]
    | (k', v') :: d' => if Nat.eqb k k' then (k', v) :: d' else (k', v') :: dict_set k v d'
    end.
  Definition dict_of {B} (l : list (nat * B)) : list (nat * B) :=
    fold_left (fun d kv => dict_set (fst kv) (snd kv) d) l [].

  Definition unique_path_priors (n : node) : list (nat * path) :=
    sort_by fst (dict_of (map (fun pp => (snd pp, fst pp)) (path_priors n))).
  Definition unique_prior_paths (n : node) : list path := map snd (unique_path_priors n).

  (* unique_prior_tuples over attribute_tuples_with_type(Prior), then sorted by id *)
  Definition unique_priors (n : node) : list (nat * path) :=
    dict_of (map (fun pp => (snd pp, fst pp)) (walk n)).
  Definition ordered_ids (n : node) : list nat := map fst (sort_by fst (unique_priors n)).
  Definition prior_count (n : node) : nat := List.length (unique_priors n).

  (* ---- instances ---- *)
  Inductive ival :=
  | IV (v : V)
  | ITup (vs : list ival)
  | IObj (cls : string) (fields : list (string * ival))
  | IColl (fields : list (string * ival))
  | IMissing.     (* the call raises (KeyError: no argument for a prior; AttributeError / TypeError: unary form of a non-scalar) *)

  Fixpoint assoc {B} (k : string) (l : list (string * B)) : option B :=
    match l with
    | [] => None
    | (k', v) :: l' => if String.eqb k k' then Some v else assoc k l'
    end.

  Definition is_prior (n : node) : bool := match n with NPrior _ => true | _ => false end.
  Definition is_model (n : node) : bool := match n with NModel _ _ _ => true | _ => false end.

  Definition value_of (i : ival) : option V := match i with IV v => Some v | _ => None end.

  Section Inst.
    Variable args : nat -> option V.

    Fixpoint inst (n : node) : ival :=
      match n with
      | NPrior p => match args p with Some v => IV v | None => IMissing end
      | NConst v => IV v
      | NTuple ms =>
          (* members sorted by the numeric index of their name, then converted *)
          ITup (map snd
                  ((fix go (ms : list (string * (nat * node))) : list (nat * ival) :=
                      match ms with
                      | [] => []
                      | (_, (i, c)) :: ms' => insert_by fst (i, inst c) (go ms')
                      end) ms))
      | NBin o _ _ l r =>
          match inst l, inst r with
          | IV a, IV b => IV (bin o a b)
          | _, _ => IMissing
          end
      | NUn o _ c =>
          (* op(self.prior.instance_for_arguments(arguments)): no try/except here, an operand that is
             not a model object (a float) raises AttributeError; a non-scalar operand raises TypeError *)
          match c with
          | NConst _ => IMissing
          | _ => match inst c with IV a => IV (un o a) | _ => IMissing end
          end
      | NModel cls ctor attrs =>
          let vals := (fix go (a : list (string * node)) : list (string * ival) :=
                         match a with
                         | [] => []
                         | (k, c) :: a' => (k, inst c) :: go a'
                         end) attrs in
          (* cls called with the constructor arguments: fields in constructor order; afterwards every
             attribute the result lacks (never a direct prior) is set *)
          let ctor_fields :=
            flat_map (fun c => match assoc c vals with Some v => [(c, v)] | None => [] end) ctor in
          let extras :=
            filter (fun kv => negb (existsb (String.eqb (fst kv)) ctor)) vals in
          IObj cls (ctor_fields ++ extras)
      | NColl attrs =>
          IColl ((fix go (a : list (string * node)) : list (string * ival) :=
                    match a with
                    | [] => []
                    | (k, c) :: a' => (k, inst c) :: go a'
                    end) attrs)
      end.
  End Inst.

  (* attribute access along a path of an instance *)
  Fixpoint lookup (p : path) (i : ival) : option ival :=
    match p with
    | [] => Some i
    | k :: p' =>
        match i with
        | IObj _ fs | IColl fs => match assoc k fs with Some c => lookup p' c | None => None end
        | _ => None
        end
    end.

  (* ---- the three routes ---- *)
  Fixpoint zip_args (ids : list nat) (vec : list V) (p : nat) : option V :=
    match ids, vec with
    | i :: ids', v :: vec' => if Nat.eqb p i then Some v else zip_args ids' vec' p
    | _, _ => None
    end.

  Definition inst_from_vector (n : node) (vec : list V) : ival :=
    inst (zip_args (ordered_ids n) vec) n.

  (* instance_from_path_arguments: {object_for_path(path): value}; later entries win *)
  Fixpoint prior_at (p : path) (n : node) : option nat :=
    match p with
    | [] => match n with NPrior q => Some q | _ => None end
    | k :: p' =>
        match n with
        | NTuple ms =>
            (fix go (ms : list (string * (nat * node))) : option nat :=
               match ms with
               | [] => None
               | (k', (_, c)) :: ms' => if String.eqb k k' then prior_at p' c else go ms'
               end) ms
        | NBin _ ln rn l r =>
            if String.eqb k rn then prior_at p' r
            else if String.eqb k ln then prior_at p' l else None
        | NUn _ nm c => if String.eqb k nm then prior_at p' c else None
        | NModel _ _ attrs | NColl attrs =>
            (fix go (a : list (string * node)) : option nat :=
               match a with
               | [] => None
               | (k', c) :: a' => if String.eqb k k' then prior_at p' c else go a'
               end) attrs
        | _ => None
        end
    end.

  Fixpoint path_args (n : node) (pv : list (path * V)) (p : nat) : option V :=
    match pv with
    | [] => None
    | (pa, v) :: pv' =>
        match path_args n pv' p with
        | Some w => Some w
        | None => match prior_at pa n with
                  | Some q => if Nat.eqb p q then Some v else None
                  | None => None
                  end
        end
    end.

  Definition inst_from_paths (n : node) (pv : list (path * V)) : ival := inst (path_args n pv) n.
End Tree.

Arguments NPrior {V}. Arguments NConst {V}. Arguments NTuple {V}. Arguments NBin {V}. Arguments NUn {V}.
Arguments NModel {V}. Arguments NColl {V}.
Arguments IV {V}. Arguments ITup {V}. Arguments IObj {V}. Arguments IColl {V}. Arguments IMissing {V}.
