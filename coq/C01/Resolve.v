(* C01 correspondence, second part: what the implementation RESOLVES at every advertised path
   (AbstractModel.object_for_path, the function instance_from_path_arguments hands each path to) and what the
   public accessors of a built instance (instance[name] / getattr) return at the advertised unique paths,
   against prior_at / lookup of the tree model.  Kept in a file of its own: Model.case is unchanged. *)
From Coq Require Import List String Bool Arith.
From Coq Require Import Floats.PrimFloat.
From PAFCommon Require Import PyFloat.
From PAFC01 Require Import ModelTree Model.
Import ListNotations.
Local Open Scope string_scope.
Local Open Scope list_scope.

Record rcase := {
  r_tree : fnode;
  r_vec : list float;
  r_resolve : list (path * option nat);   (* (advertised path, creation index of the prior object_for_path returns;
                                             None: not a prior / raised) for every entry of model.paths, given as the
                                             advertised tuple and once more as a tuple of strings *)
  r_access : list (path * float)          (* (structural or tuple-parent unique path, float found there through the accessors) *)
}.

Definition onat_eqb (a b : option nat) : bool :=
  match a, b with
  | Some x, Some y => Nat.eqb x y
  | None, None => true
  | _, _ => false
  end.

Definition check_rcase (c : rcase) : bool :=
  let n := r_tree c in
  forallb (fun pr => onat_eqb (prior_at float (fst pr) n) (snd pr)) (r_resolve c)
  && forallb (fun pv => match lookup float (fst pv) (inst_from_vector float fbin funop n (r_vec c)) with
                        | Some (IV x) => fbits_eqb x (snd pv)
                        | _ => false
                        end) (r_access c).
